(* C12 — topic deletion is detected exactly.
   `l` is any list of (metadata ticker fired?, environment) pairs: all sequences of metadata snapshots interleaved
   with failures of the topic-list and partition-list calls; `en`, `a`, `b`, `c` are cycles of the run of a fresh
   module; en_ghost = the last completely refreshed environment before the cycle. *)
From Coq Require Import ZArith List Bool.
From Burrow Require Import ClusterMod ClusterModProofs.
Import ListNotations.
Open Scope Z_scope.

Theorem C12_delete_exactly_once : forall l en t,
  In en (trace init_state None l) ->
  (In t (co_deletes (en_out en)) <->
     exists ts, refreshed (en_pre en) (en_env en) = Some ts /\ ~ In t ts /\ In t (ghost_topics (en_ghost en)))
  /\ NoDup (co_deletes (en_out en)).
Proof. exact delete_exactly_once. Qed.

Theorem C12_one_deletion_per_disappearance : forall l l1 a l2 b l3 t,
  trace init_state None l = l1 ++ a :: l2 ++ b :: l3 ->
  In t (co_deletes (en_out a)) -> In t (co_deletes (en_out b)) ->
  exists c ts, In c l2 /\ refreshed (en_pre c) (en_env c) = Some ts /\ In t ts.
Proof. exact one_deletion_per_disappearance. Qed.

Theorem C12_failed_refresh_keeps_snapshot : forall st e o,
  cycle st e = Done o -> refreshed st e = None ->
  snap (co_state o) = snap st /\ co_deletes o = [].
Proof. exact failed_refresh_keeps_snapshot. Qed.

Theorem C12_refreshed_iff : forall st e ts,
  refreshed st e = Some ts <->
  fetchMetadata st = true /\ e_topics e = Good ts /\ exists new, build_snapshot e ts = Some new.
Proof. exact refreshed_some. Qed.

Theorem C12_refresh_fails_iff : forall e ts,
  build_snapshot e ts = None <-> exists t, In t ts /\ topic_info e t = None.
Proof. exact build_none. Qed.

Theorem C12_leaderless_not_deleted : forall st e o ts t,
  wf st -> cycle st e = Done o -> refreshed st e = Some ts -> In t ts ->
  (forall p, e_leader e t p = Fail) ->
  ~ In t (co_deletes o)
  /\ (exists i, smap_find t (snap (co_state o)) = Some i /\ ti_ids i = [])
  /\ (forall b p, ~ In (b, t, p) (co_asks o)).
Proof. exact leaderless_not_deleted. Qed.

Theorem C12_present_not_deleted : forall st e o ts t,
  wf st -> cycle st e = Done o -> e_topics e = Good ts -> In t ts -> ~ In t (co_deletes o).
Proof. exact present_not_deleted. Qed.

Theorem C12_run_entries : forall l en,
  In en (trace init_state None l) ->
  wf (en_pre en) /\ cycle (en_pre en) (en_env en) = Done (en_out en).
Proof. exact run_entries. Qed.

Theorem C12_run_is_trace : forall l st g,
  exists tail,
    run st l = map (fun en => (fetchMetadata (en_pre en), Done (en_out en))) (trace st g l) ++ tail
    /\ (tail = [] \/ exists f, tail = [(f, Crash)]).
Proof. exact run_is_trace. Qed.

(* ---- the storage side (2026-10-02).  SetDeleteTopic is a plain (blocking) channel send: however long the storage
   module is busy, the cycle waits and the request arrives.  For EVERY storage behaviour `sv` (which only decides the
   fate of broker-offset updates, sent with a 1 s timeout) the storage module receives the deletion of t exactly when
   delete_exactly_once says it is due, and exactly once (`received sv o` = what storage gets from the cycle). *)
Theorem C12_deletion_reaches_storage_once : forall l en sv t,
  In en (trace init_state None l) ->
  (In (SDeleteTopic t) (received sv (en_out en)) <->
     exists ts, refreshed (en_pre en) (en_env en) = Some ts /\ ~ In t ts /\ In t (ghost_topics (en_ghost en)))
  /\ (In (SDeleteTopic t) (received sv (en_out en)) ->
      count_occ sreq_eq_dec (received sv (en_out en)) (SDeleteTopic t) = 1%nat).
Proof. exact deletion_reaches_storage_once. Qed.

Theorem C12_received_deletes_all : forall sv o, received_deletes sv o = co_deletes o.
Proof. exact received_deletes_all. Qed.

Theorem C12_run_s_forget : forall l st, map forget_storage (run_s st l) = run st (map fst l).
Proof. exact run_s_forget. Qed.

(* ---- non-vacuity: the example run (ClusterModProofs.ex_run: 7 cycles; topic 2 vanishes in cycle 3, stays away,
   returns in cycle 5, vanishes again in cycle 6; the refresh of cycle 2 fails part-way; topic 3 never has a leader) *)
Example C12_delete_exactly_once_ex :
  map (fun en => co_deletes (en_out en)) ex_trace = [ []; []; []; [2]; []; []; [2] ].
Proof. exact delete_exactly_once_ex. Qed.

Example C12_refreshed_ex :
  map (fun en => refreshed (en_pre en) (en_env en)) ex_trace
  = [ Some [1; 2; 3]; None; None; Some [1; 3]; Some [3; 1]; Some [1; 2; 3]; Some [1; 3] ].
Proof. exact refreshed_ex. Qed.

Example C12_ghost_topics_ex :
  map (fun en => ghost_topics (en_ghost en)) ex_trace
  = [ []; [1; 2; 3]; [1; 2; 3]; [1; 2; 3]; [1; 3]; [3; 1]; [1; 2; 3] ].
Proof. exact ghost_topics_ex. Qed.

Example C12_failed_refresh_keeps_snapshot_ex :
  match nth_error ex_trace 2 with
  | Some en => fetchMetadata (en_pre en) = true /\ refreshed (en_pre en) (en_env en) = None
               /\ keys (snap (co_state (en_out en))) = keys (snap (en_pre en))
               /\ keys (snap (en_pre en)) = [3; 2; 1]
  | None => False
  end.
Proof. exact failed_refresh_keeps_snapshot_ex. Qed.

Example C12_leaderless_not_deleted_ex :
  match nth_error ex_trace 0 with
  | Some en => refreshed (en_pre en) (en_env en) = Some [1; 2; 3]
               /\ map (fun p => has_leader (en_env en) 3 p) [0; 1] = [false; false]
               /\ option_map (fun i => (ti_ids i, ti_count i)) (smap_find 3 (snap (co_state (en_out en)))) = Some ([], 2)
  | None => False
  end.
Proof. exact leaderless_not_deleted_ex. Qed.

(* storage busy in cycles 0 and 3 (takes no broker-offset update in time): the deletion of cycle 3 arrives *)
Example C12_received_ex :
  map (fun x => match snd x with Done (_, rs) => rs | Crash => [] end) (run_s init_state ex_run_s)
  = [ [];
      [];
      [SBrokerOffset (2, 0, 20, 1); SBrokerOffset (1, 0, 100, 3); SBrokerOffset (1, 2, 300, 3)];
      [SDeleteTopic 2];
      [SBrokerOffset (1, 0, 100, 3); SBrokerOffset (1, 2, 300, 3)];
      [SBrokerOffset (2, 0, 20, 1); SBrokerOffset (1, 0, 100, 3); SBrokerOffset (1, 2, 300, 3)];
      [SDeleteTopic 2; SBrokerOffset (1, 0, 100, 3); SBrokerOffset (1, 2, 300, 3)] ].
Proof. exact received_ex. Qed.

Print Assumptions C12_delete_exactly_once.
Print Assumptions C12_one_deletion_per_disappearance.
Print Assumptions C12_failed_refresh_keeps_snapshot.
Print Assumptions C12_refreshed_iff.
Print Assumptions C12_refresh_fails_iff.
Print Assumptions C12_leaderless_not_deleted.
Print Assumptions C12_present_not_deleted.
Print Assumptions C12_run_entries.
Print Assumptions C12_run_is_trace.
Print Assumptions C12_deletion_reaches_storage_once.
Print Assumptions C12_received_deletes_all.
Print Assumptions C12_run_s_forget.
