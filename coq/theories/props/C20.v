(* C20 — Notification templates render for every status.
   Statements only; proofs are in TmplProofs.v and JsonProofs.v.  Models: Tmpl.v (text/template subset, schema typing),
   Json.v (encoding/json's scanner as a pushdown recogniser, pieces with holes, abstract run of a template), tied to
   core/internal/notifier/helpers.go and config/*.tmpl by (a) the tables BurrowGen.TmplSchema / BurrowGen.Templates,
   regenerated from /repo by translator/tmpl on every run, on which the obligations C20_table_* below are re-checked,
   and (b) the probe of checks/c20.py (real template.ParseFiles + executeTemplate + json.Valid against Tmpl.exec /
   Json.pieces_valid on generated statuses). *)
From Coq Require Import ZArith List String.
From Burrow Require Import Tmpl TmplProofs Json JsonProofs.
From Burrow Require F32 Eval.
From BurrowGen Require Import TmplSchema Templates.
Import ListNotations.
Open Scope string_scope.

(* ------------------------------------------------------------------------------------------------------------ *)
(* Once and for all                                                                                              *)
(* ------------------------------------------------------------------------------------------------------------ *)

(* A template accepted by the static checker renders without error on every value of the schema that satisfies the
   non-nil facts: any status value, any number of partitions, Maxlag nil or not, commit lags nil or not.  The checker
   is flow-sensitive for nil guards: inside {{if .P}} (before its else) and inside {{with .P}} (where dot is .P) the
   path .P is known not to be "empty" in the sense of text/template's isTrue, in particular not nil. *)
Theorem C20_typecheck_sound : forall sch t facts,
  typecheck sch t facts = true ->
  forall d, has_schema sch d -> satisfies facts d = true -> exists out, exec sch t d = Ok out.
Proof. exact typecheck_sound. Qed.
Print Assumptions C20_typecheck_sound.

(* What the evaluator hands to a notifier (the problems-only view of evaluateConsumerStatus' result): every listed
   partition carries its first and last commit (Start / End non-nil).  Maxlag is unconstrained (nil, or an unlisted
   OK partition without commits). *)
Theorem C20_listed_partitions_have_ends : forall ts minimum allowed now g,
  Eval.eval_group ts minimum allowed now = Eval.Ok g ->
  Forall (fun s => Eval.ps_start s <> None /\ Eval.ps_end s <> None) (Eval.gs_partitions (Eval.filter_view g)).
Proof. exact listed_partitions_have_ends. Qed.
Print Assumptions C20_listed_partitions_have_ends.

(* facts_hold: the non-nil facts used by the checker hold of the data executeTemplate builds from any such reply
   (for any cluster / group / event id / extras and any naming of topics, owners, clients) *)
Theorem C20_facts_hold : forall ts minimum allowed now g,
  Eval.eval_group ts minimum allowed now = Eval.Ok g ->
  forall sch nm cl gr id ex,
    satisfies burrow_facts (data_of sch nm cl gr id ex (Eval.filter_view g)) = true.
Proof. exact facts_hold. Qed.
Print Assumptions C20_facts_hold.

(* ... and that data is a value of the schema, whenever the Go structs can hold what the evaluator produces *)
Theorem C20_data_has_schema : forall sch nm, embed_ok sch = true ->
  forall cl gr id ex g, has_schema sch (data_of sch nm cl gr id ex g).
Proof. exact data_has_schema. Qed.
Print Assumptions C20_data_has_schema.

(* data_offers: the six documented fields can be read off every data value with the documented types, and the nine
   documented helpers are in the FuncMap under their names with the documented signatures *)
Theorem C20_data_offers : forall sch, offers sch = true ->
  (forall f t, In (f, t) documented_fields ->
     forall d, has_schema sch d -> exists x, eval_chain0 sch d [f] = Ok x /\ type_of x = t /\ wt sch x = true) /\
  (forall h, In h documented_helpers ->
     exists fn sg, assoc h (sch_funcs sch) = Some sg /\ helper_of h = Some fn /\
                   fsig_eqb sg (helper_sig fn) = true /\ resolve_fn sch h = Some fn).
Proof. exact data_offers. Qed.
Print Assumptions C20_data_offers.

(* If the recogniser accepts a list of pieces it accepts every text they stand for: string holes filled with
   JSON-string-safe text, number holes with JSON number literals, value holes with texts json.Valid accepts. *)
Theorem C20_pieces_wellformed : forall ps s, pieces_valid ps = true -> inst ps s -> json_valid s = true.
Proof. exact pieces_wellformed. Qed.
Print Assumptions C20_pieces_wellformed.

(* what Go prints for integers and finite floats is such a number literal *)
Theorem C20_go_number_is_number : forall t, go_number t -> is_number t = true.
Proof. exact go_number_is_number. Qed.
Print Assumptions C20_go_number_is_number.

(* json_wellformed: if the abstract run of a template over the recogniser is accepted, every rendering for JSON-safe
   data is well-formed JSON: all statuses, any number of partitions (range bodies return to the state they started
   in), both branches of every if *)
Theorem C20_json_wellformed : forall sch facts t,
  json_skeleton_ok sch facts t = true ->
  forall d, has_schema sch d -> satisfies facts d = true -> safe_val d = true ->
  forall out s, exec sch t d = Ok out -> inst out s -> json_valid s = true.
Proof. exact json_wellformed. Qed.
Print Assumptions C20_json_wellformed.

(* ------------------------------------------------------------------------------------------------------------ *)
(* Per run, on the tables regenerated from /repo                                                                *)
(* ------------------------------------------------------------------------------------------------------------ *)

Theorem C20_table_offers : offers burrow_schema = true.
Proof. vm_compute. reflexivity. Qed.

Theorem C20_table_embed : embed_ok burrow_schema = true.
Proof. vm_compute. reflexivity. Qed.

Theorem C20_table_email_renders : typecheck burrow_schema (lookup_tmpl all_templates "default-email.tmpl") burrow_facts = true.
Proof. vm_compute. reflexivity. Qed.
Theorem C20_table_http_post_renders : typecheck burrow_schema (lookup_tmpl all_templates "default-http-post.tmpl") burrow_facts = true.
Proof. vm_compute. reflexivity. Qed.
Theorem C20_table_http_delete_renders : typecheck burrow_schema (lookup_tmpl all_templates "default-http-delete.tmpl") burrow_facts = true.
Proof. vm_compute. reflexivity. Qed.
Theorem C20_table_slack_post_renders : typecheck burrow_schema (lookup_tmpl all_templates "default-slack-post.tmpl") burrow_facts = true.
Proof. vm_compute. reflexivity. Qed.
Theorem C20_table_slack_delete_renders : typecheck burrow_schema (lookup_tmpl all_templates "default-slack-delete.tmpl") burrow_facts = true.
Proof. vm_compute. reflexivity. Qed.
(* every template file found in config/, whatever its name *)
Theorem C20_table_all_render : forallb (fun p => typecheck burrow_schema (snd p) burrow_facts) all_templates = true.
Proof. vm_compute. reflexivity. Qed.

Theorem C20_table_http_post_json : json_skeleton_ok burrow_schema burrow_facts (lookup_tmpl all_templates "default-http-post.tmpl") = true.
Proof. vm_compute. reflexivity. Qed.
Theorem C20_table_http_delete_json : json_skeleton_ok burrow_schema burrow_facts (lookup_tmpl all_templates "default-http-delete.tmpl") = true.
Proof. vm_compute. reflexivity. Qed.
Theorem C20_table_slack_post_json : json_skeleton_ok burrow_schema burrow_facts (lookup_tmpl all_templates "default-slack-post.tmpl") = true.
Proof. vm_compute. reflexivity. Qed.
Theorem C20_table_slack_delete_json : json_skeleton_ok burrow_schema burrow_facts (lookup_tmpl all_templates "default-slack-delete.tmpl") = true.
Proof. vm_compute. reflexivity. Qed.
Theorem C20_table_json : forallb (fun n => json_skeleton_ok burrow_schema burrow_facts (lookup_tmpl all_templates n))
    ["default-http-post.tmpl"; "default-http-delete.tmpl"; "default-slack-post.tmpl"; "default-slack-delete.tmpl"] = true.
Proof. vm_compute. reflexivity. Qed.

(* ------------------------------------------------------------------------------------------------------------ *)
(* The property, for the templates shipped in this tree                                                          *)
(* ------------------------------------------------------------------------------------------------------------ *)

(* every shipped template renders without error for every status the evaluator can hand to a notifier, open or close *)
Theorem C20_shipped_templates_render : forall name t, In (name, t) all_templates ->
  forall ts minimum allowed now g, Eval.eval_group ts minimum allowed now = Eval.Ok g ->
  forall nm cl gr id ex, exists out, exec burrow_schema t (data_of burrow_schema nm cl gr id ex (Eval.filter_view g)) = Ok out.
Proof. exact (shipped_render burrow_schema all_templates C20_table_embed C20_table_all_render). Qed.
Print Assumptions C20_shipped_templates_render.

(* the shipped HTTP and Slack templates render to well-formed JSON for JSON-safe names, for every reply of the
   evaluator about a group of at most 2^24 partitions whose windows have at most 2^24 slots (float32 represents
   integers exactly up to 2^24: the completeness ratios are then finite, F32Proofs.f32_div_correct_frac) *)
Theorem C20_shipped_json : forall name,
  In name ["default-http-post.tmpl"; "default-http-delete.tmpl"; "default-slack-post.tmpl"; "default-slack-delete.tmpl"] ->
  forall ts minimum allowed now g, bounded ts -> Eval.eval_group ts minimum allowed now = Eval.Ok g ->
  forall nm cl gr id ex,
    safe_string cl = true -> safe_string gr = true -> safe_string id = true ->
    forallb (fun kv => safe_string (snd kv)) ex = true -> group_names_safe nm (Eval.filter_view g) = true ->
    forall out s,
      exec burrow_schema (lookup_tmpl all_templates name) (data_of burrow_schema nm cl gr id ex (Eval.filter_view g)) = Ok out ->
      inst out s -> json_valid s = true.
Proof. exact (shipped_json burrow_schema all_templates _ C20_table_embed C20_table_json). Qed.
Print Assumptions C20_shipped_json.

(* The documented meaning of the summarising helpers (the model's apply_fn runs exactly these folds over the Status / Topic
   fields; the "hcall" cases of the probe compare the real helpers, called through the coordinator's FuncMap, with them and
   with an oracle written from the documentation).
   topicsbystatus: a topic is listed under a status exactly when some listed partition of that topic is in that status -
   whatever other states partitions of the same topic are in - and it is listed there once. *)
Theorem C20_topicsbystatus_spec : forall name (l : list (Z * string)) s t,
  In t (topics_in (topics_by_status name l) s) <-> exists p, In p l /\ name (fst p) = s /\ snd p = t.
Proof. exact topics_by_status_spec. Qed.
Print Assumptions C20_topicsbystatus_spec.

Theorem C20_topicsbystatus_nodup : forall name (l : list (Z * string)) s, NoDup (topics_in (topics_by_status name l) s).
Proof. exact topics_by_status_nodup. Qed.
Print Assumptions C20_topicsbystatus_nodup.

(* partitioncounts: every listed partition adds one to exactly the counter of its state; OK partitions to none *)
Theorem C20_partitioncounts_step : forall z l key,
  partition_count (z :: l) key =
  (partition_count l key + match count_key z with Some k => if String.eqb k key then 1 else 0 | None => 0 end)%Z.
Proof. exact partition_count_step. Qed.
Print Assumptions C20_partitioncounts_step.

(* a topic with partitions in two states is listed under both (the single shared seen-set of seed C20-r4-2 lists it once) *)
Example C20_ex_topic_in_two_states :
  let name := status_name burrow_schema in
  let m := topics_by_status name [(4%Z, "orders"); (5%Z, "orders"); (5%Z, "payments"); (5%Z, "orders")] in
  topics_in m "STOP" = ["orders"] /\ topics_in m "STALL" = ["orders"; "payments"] /\ topics_in m "WARN" = [] /\
  partition_count [4; 5; 5; 1; 3; 100]%Z "stall" = 2%Z /\ partition_count [4; 5; 5; 1; 3; 100]%Z "unknown" = 2%Z.
Proof. vm_compute. repeat split. Qed.

(* jsonencoder never fails on what the evaluator produces.  templateJSONEncoder discards json.Marshal's error and
   returns "" (helpers.go:64-67) - in a value position that is malformed JSON with no render error, and the model does
   the same (apply_fn FJson on a value containing a non-finite float).  For the Go types of the template data Marshal can
   fail only on a NaN / infinite float; no value a template can reach in the data built from an evaluator reply within
   the 2^24 bounds contains one, so the helper returns the marshalled text. *)
Theorem C20_jsonencoder_total : forall ts minimum allowed now g,
  bounded ts -> Eval.eval_group ts minimum allowed now = Eval.Ok g ->
  forall sch nm cl gr id ex chain v,
    eval_chain0 sch (data_of sch nm cl gr id ex (Eval.filter_view g)) chain = Ok v ->
    contains_nonfinite v = false /\ apply_fn sch FJson [v] = Ok (VAbsStr true).
Proof. exact jsonencoder_total. Qed.
Print Assumptions C20_jsonencoder_total.

(* MODEL-LEVEL DEFINITION MADE EXPLICIT (true by construction: it unfolds Tmpl.module_renders; its content comes from the
   "conf" tie, which runs the real Coordinator.Configure - it is not counted as coverage of the property).
   Which template a module executes.  Coordinator.Configure parses the file named by template-open (and, with
   send-close, template-close) and hands the template objects to the module; Notify executes the close one for
   stateGood and the open one otherwise.  Modelled: that association (Tmpl.load_templates / module_renders; tied to
   the real Configure with its default parser by the "conf" cases of the probe).  Trusted: text/template's ParseFiles
   on a fresh root yields a set whose only member is the named file's template. *)
Theorem C20_module_renders_configured_template : forall sch tbl cfg m d,
  NoDup (map mc_name cfg) -> In m cfg ->
  module_renders sch tbl cfg (mc_name m) false d = exec sch (lookup_tmpl tbl (mc_open m)) d /\
  (mc_send_close m = true ->
   module_renders sch tbl cfg (mc_name m) true d = exec sch (lookup_tmpl tbl (mc_close m)) d).
Proof. exact module_renders_configured_template. Qed.
Print Assumptions C20_module_renders_configured_template.

(* ... composed with the theorems above: every module configured with shipped template files renders, open and close,
   for every status the evaluator can hand to a notifier; with HTTP / Slack template files, to well-formed JSON *)
Theorem C20_configured_modules_render : forall cfg, NoDup (map mc_name cfg) ->
  forall m good, In m cfg -> (good = true -> mc_send_close m = true) -> assoc (mc_file m good) all_templates <> None ->
  forall ts minimum allowed now g, Eval.eval_group ts minimum allowed now = Eval.Ok g ->
  forall nm cl gr id ex,
    exists out, module_renders burrow_schema all_templates cfg (mc_name m) good
                  (data_of burrow_schema nm cl gr id ex (Eval.filter_view g)) = Ok out.
Proof. exact (fun cfg => configured_modules_render burrow_schema all_templates cfg C20_table_embed C20_table_all_render). Qed.
Print Assumptions C20_configured_modules_render.

Theorem C20_configured_modules_json : forall cfg, NoDup (map mc_name cfg) ->
  forall m good, In m cfg -> (good = true -> mc_send_close m = true) ->
  In (mc_file m good) ["default-http-post.tmpl"; "default-http-delete.tmpl"; "default-slack-post.tmpl"; "default-slack-delete.tmpl"] ->
  forall ts minimum allowed now g, bounded ts -> Eval.eval_group ts minimum allowed now = Eval.Ok g ->
  forall nm cl gr id ex,
    safe_string cl = true -> safe_string gr = true -> safe_string id = true ->
    forallb (fun kv => safe_string (snd kv)) ex = true -> group_names_safe nm (Eval.filter_view g) = true ->
    forall out s,
      module_renders burrow_schema all_templates cfg (mc_name m) good
        (data_of burrow_schema nm cl gr id ex (Eval.filter_view g)) = Ok out ->
      inst out s -> json_valid s = true.
Proof. exact (fun cfg => configured_modules_json burrow_schema all_templates _ cfg C20_table_embed C20_table_json). Qed.
Print Assumptions C20_configured_modules_json.

(* MODEL-LEVEL DEFINITIONS MADE EXPLICIT (C20_module_data_offers_configured and C20_module_data_fields unfold
   Tmpl.notify_step / run_notifications and are true by construction; their content comes from the "seq" tie, which runs the
   real checkAndSendResponseToModules / notifyModule / Notify - they are not counted as coverage of the property).
   The data a module hands to its templates.  Modelled: the module as a state machine over the notifications it is
   handed (Tmpl.notify_step: Notify reads its extras map and leaves it alone; cluster and group come from the reply, id and
   start from the group's incident).  Whatever was notified before, the record carries exactly the configured extras and
   that notification's values.  Tied to the real HTTPNotifier.Notify / EmailNotifier.Notify behind the real
   checkAndSendResponseToModules by the "seq" cases of the probe. *)
Theorem C20_module_data_offers_configured : forall (R : Type) extras sent (l : list (notification R)),
  run_notifications (mkMstate extras sent) l = map (notify_data extras) l.
Proof. exact (@module_data_offers_configured). Qed.
Print Assumptions C20_module_data_offers_configured.

Theorem C20_module_data_fields : forall (R : Type) extras sent (l : list (notification R)) k n d,
  nth_error l k = Some n -> nth_error (run_notifications (mkMstate extras sent) l) k = Some d ->
  td_cluster d = nt_cluster n /\ td_group d = nt_group n /\ td_id d = inc_id (nt_incident n) /\
  td_start d = inc_start (nt_incident n) /\ td_extras d = extras /\ td_result d = nt_status n.
Proof. exact (@module_data_fields). Qed.
Print Assumptions C20_module_data_fields.

(* ... and every notification of a sequence renders through the configured module on that record.  evaluator_reply is
   the problems-only view of an evaluation or the NOTFOUND reply (caching.go:137-147); the notifier drops NOTFOUND before
   any template runs (coordinator.go:400-404; Notifier.v live_resp / on_response), it is included so that nothing hangs
   on that. *)
Theorem C20_notified_module_renders : forall cfg, NoDup (map mc_name cfg) ->
  forall m good, In m cfg -> (good = true -> mc_send_close m = true) -> assoc (mc_file m good) all_templates <> None ->
  forall extras sent (l : list (notification Eval.gstatus)) nm k n d,
    Forall (fun n => evaluator_reply (nt_status n)) l ->
    nth_error l k = Some n -> nth_error (run_notifications (mkMstate extras sent) l) k = Some d ->
    d = notify_data extras n /\
    exists out, module_renders burrow_schema all_templates cfg (mc_name m) good (tdata_value burrow_schema nm d) = Ok out.
Proof. exact (fun cfg => notified_module_renders burrow_schema all_templates cfg C20_table_embed C20_table_all_render). Qed.
Print Assumptions C20_notified_module_renders.

(* ------------------------------------------------------------------------------------------------------------ *)
(* Non-vacuity                                                                                                   *)
(* ------------------------------------------------------------------------------------------------------------ *)

(* a group with two stalled partitions and one healthy one: the evaluator's reply lists two problem partitions;
   every shipped template renders for it and the HTTP/Slack ones give pieces the recogniser accepts *)
Open Scope Z_scope.
Definition ex_stalled : Eval.cpart :=
  (Eval.mkCpart [Some (Eval.mkCoff 10 1 1000 (Some 5)); Some (Eval.mkCoff 10 2 2000 (Some 5))] [30%Z] 1 1 20).
Definition ex_ok : Eval.cpart :=
  (Eval.mkCpart [None; Some (Eval.mkCoff 10 1 1000 (Some 0))] [10%Z] 0 0 0).
Definition ex_nm (z : Z) : string := if (z =? 1)%Z then "orders" else "".

Example C20_ex_two_problem_partitions_render :
  match Eval.eval_group [(1%Z, [ex_stalled; ex_ok; ex_stalled])] F32.f32_zero 0 3 with
  | Eval.Ok g =>
      let d := data_of burrow_schema ex_nm "kafka-1" "billing" "3a8c9f6e" [("api_key", "k"); ("app", "burrow")] (Eval.filter_view g) in
      List.length (Eval.gs_partitions (Eval.filter_view g)) = 2%nat /\
      has_schema burrow_schema d /\ satisfies burrow_facts d = true /\ safe_val d = true /\
      forallb (fun p => match exec burrow_schema (snd p) d with Ok _ => true | Err _ => false end) all_templates = true /\
      forallb (fun n => match exec burrow_schema (lookup_tmpl all_templates n) d with Ok out => pieces_valid out | Err _ => false end)
        ["default-http-post.tmpl"; "default-http-delete.tmpl"; "default-slack-post.tmpl"; "default-slack-delete.tmpl"] = true
  | Eval.Crash => False
  end.
Proof. vm_compute. repeat split. Qed.

(* a template with a misspelt field (the defect F11, repaired in /repo by 3f5942d) is rejected by the checker and
   really fails in exec, on every data value of the schema *)
Example C20_ex_misspelt_field_rejected :
  let bad := [NText "{""ids"":["""; NAction [CArgs (AField ["Id"]) []]; NText """]}"] in
  typecheck burrow_schema bad burrow_facts = false /\
  json_skeleton_ok burrow_schema burrow_facts bad = false /\
  match Eval.eval_group [(1%Z, [ex_stalled])] F32.f32_zero 0 3 with
  | Eval.Ok g => exec burrow_schema bad (data_of burrow_schema ex_nm "c" "g" "i" [] (Eval.filter_view g)) = Err "can't evaluate field"
  | Eval.Crash => False
  end.
Proof. vm_compute. repeat split. Qed.

(* a field of a pointer that may be nil, without a guard, is rejected; Maxlag is nil for a group without partitions *)
Example C20_ex_unguarded_maxlag_rejected :
  let bad := [NAction [CArgs (AField ["Result"; "Maxlag"; "Topic"]) []]] in
  typecheck burrow_schema bad burrow_facts = false /\
  match Eval.eval_group [] F32.f32_zero 0 3 with
  | Eval.Ok g => exec burrow_schema bad (data_of burrow_schema ex_nm "c" "g" "i" [] (Eval.filter_view g)) = Err "nil pointer evaluating field"
  | Eval.Crash => False
  end.
Proof. vm_compute. repeat split. Qed.

(* a nil guard makes the access fine, with if and with with; a guard on the wrong path does not: the max-lag
   partition may be an OK partition without any commit (Start nil) *)
Definition ex_nocommit : Eval.cpart := (Eval.mkCpart [None; None] [10%Z] 0 0 7).

Example C20_ex_guards :
  let guarded_if := [NIf [CArgs (AField ["Result"; "Maxlag"]) []]
                         [NAction [CArgs (AField ["Result"; "Maxlag"; "Topic"]) []]] [NText "none"]] in
  let guarded_with := [NWith [CArgs (AField ["Result"; "Maxlag"]) []]
                         [NAction [CArgs (AField ["Topic"]) []]; NText ":"; NAction [CArgs (AField ["Partition"]) []]] [NText "none"]] in
  let wrong_guard := [NIf [CArgs (AField ["Result"; "Maxlag"]) []]
                         [NAction [CArgs (AField ["Result"; "Maxlag"; "Start"; "Offset"]) []]] []] in
  typecheck burrow_schema guarded_if burrow_facts = true /\
  typecheck burrow_schema guarded_with burrow_facts = true /\
  json_skeleton_ok burrow_schema burrow_facts ([NText "{""t"":"""] ++ guarded_with ++ [NText """}"])%list = true /\
  typecheck burrow_schema wrong_guard burrow_facts = false /\
  match Eval.eval_group [] F32.f32_zero 0 3, Eval.eval_group [(1%Z, [ex_nocommit])] F32.f32_zero 0 3 with
  | Eval.Ok g0, Eval.Ok g1 =>
      let d0 := data_of burrow_schema ex_nm "c" "g" "i" [] (Eval.filter_view g0) in
      let d1 := data_of burrow_schema ex_nm "c" "g" "i" [] (Eval.filter_view g1) in
      exec burrow_schema guarded_if d0 = Ok [Lit "none"] /\ exec burrow_schema guarded_if d1 = Ok [Lit "orders"] /\
      exec burrow_schema guarded_with d0 = Ok [Lit "none"] /\ exec burrow_schema guarded_with d1 = Ok [Lit "orders"; Lit ":"; NumHole] /\
      exec burrow_schema wrong_guard d0 = Ok [] /\ exec burrow_schema wrong_guard d1 = Err "nil pointer evaluating field"
  | _, _ => False
  end.
Proof. vm_compute. repeat split. Qed.

(* the bound of C20_shipped_json is met by ordinary groups *)
Example C20_ex_bounded : bounded [(1%Z, [ex_stalled; ex_ok; ex_stalled; ex_nocommit])].
Proof. split; [vm_compute; discriminate|]. repeat constructor; vm_compute; discriminate. Qed.

(* the documented helpers as string / number holes: maxlag (nil-safe), integer maths, formattimestamp; a division by
   anything but a non-zero literal is rejected (it can fail) *)
Example C20_ex_helpers :
  let t := [NText "{""max_lag"":"; NAction [CCall "maxlag" [AField ["Result"; "Maxlag"]]];
            NText ",""piped"":"; NAction [CArgs (AField ["Result"; "Maxlag"]) []; CCall "maxlag" []];
            NText ",""ok"":"; NAction [CCall "minus" [AField ["Result"; "TotalPartitions"]; AInt 1]];
            NText ",""half"":"; NAction [CCall "divide" [AField ["Result"; "TotalPartitions"]; AInt 2]];
            NText ",""when"":"""; NAction [CCall "formattimestamp" [AInt 1500000000000; AStr "2006-01-02"]]; NText """}"] in
  let bad_div := [NAction [CCall "divide" [AInt 1; AField ["Result"; "TotalPartitions"]]]] in
  typecheck burrow_schema t burrow_facts = true /\ json_skeleton_ok burrow_schema burrow_facts t = true /\
  typecheck burrow_schema bad_div burrow_facts = false /\
  typecheck burrow_schema [NAction [CCall "add" [AField ["Result"; "TotalLag"]; AInt 1]]] burrow_facts = false /\
  match Eval.eval_group [] F32.f32_zero 0 3, Eval.eval_group [(1%Z, [ex_stalled])] F32.f32_zero 0 3 with
  | Eval.Ok g0, Eval.Ok g1 =>
      match exec burrow_schema t (data_of burrow_schema ex_nm "c" "g" "i" [] (Eval.filter_view g0)) with
      | Ok out => pieces_valid out | Err _ => false end = true /\
      match exec burrow_schema t (data_of burrow_schema ex_nm "c" "g" "i" [] (Eval.filter_view g1)) with
      | Ok out => pieces_valid out | Err _ => false end = true /\
      exec burrow_schema bad_div (data_of burrow_schema ex_nm "c" "g" "i" [] (Eval.filter_view g0)) = Err "integer divide by zero"
  | _, _ => False
  end.
Proof. vm_compute. repeat split. Qed.

(* two modules sharing files: each renders its own open and close template *)
Example C20_ex_configured_modules :
  let cfg := [mkModcfg "pager" "default-http-post.tmpl" "default-http-delete.tmpl" true;
              mkModcfg "chat" "default-slack-post.tmpl" "default-http-post.tmpl" false;
              mkModcfg "mail" "default-email.tmpl" "default-email.tmpl" true] in
  NoDup (map mc_name cfg) /\
  match Eval.eval_group [(1%Z, [ex_stalled; ex_ok])] F32.f32_zero 0 3 with
  | Eval.Ok g =>
      let d := data_of burrow_schema ex_nm "c" "g" "i" [("api_key", "k")] (Eval.filter_view g) in
      module_renders burrow_schema all_templates cfg "pager" true d = exec burrow_schema t_default_http_delete d /\
      module_renders burrow_schema all_templates cfg "pager" false d = exec burrow_schema t_default_http_post d /\
      module_renders burrow_schema all_templates cfg "chat" false d = exec burrow_schema t_default_slack_post d /\
      module_renders burrow_schema all_templates cfg "chat" true d = Err "no close template (send-close is off)" /\
      (exists out, module_renders burrow_schema all_templates cfg "mail" true d = Ok out)
  | Eval.Crash => False
  end.
Proof.
  split; [repeat constructor; simpl; intuition discriminate|].
  vm_compute. repeat split. eexists; reflexivity.
Qed.

(* outside the evaluator's range: a NaN completeness (0/0, which the evaluator never computes) makes jsonencoder return
   the empty string and {{.Result.Complete}} print NaN - the http-post template still renders, to malformed JSON *)
Example C20_ex_nan_outside_evaluator :
  let nan := F32.f32_div F32.f32_zero F32.f32_zero in
  let g := (Eval.mkGstatus Eval.StErr nan [] 0 None 0) in
  let d := data_of burrow_schema ex_nm "c" "g" "i" [] g in
  f32_finite nan = false /\ contains_nonfinite d = true /\
  (exists r, eval_chain0 burrow_schema d ["Result"] = Ok r /\ apply_fn burrow_schema FJson [r] = Ok (VStr "")) /\
  match exec burrow_schema t_default_http_post d with Ok out => pieces_valid out | Err _ => true end = false /\
  match exec burrow_schema t_default_slack_post d with Ok out => pieces_valid out | Err _ => false end = true.
Proof. vm_compute. repeat split. eexists; split; reflexivity. Qed.

(* holes filled the way Go fills them: a concrete rendering of the close template is accepted by json_valid, and an
   unsafe name is exactly what breaks it (outside the property's promise) *)
Example C20_ex_instance :
  inst [Lit "{""id"":"""; Lit "3a8c"; Lit """,""lag"":"; NumHole; Lit ",""t"":"""; StrHole; Lit """,""p"":"; ValHole; Lit "}"]
       ("{""id"":""" ++ "3a8c" ++ """,""lag"":" ++ "-12.5e+07" ++ ",""t"":""" ++ "Jan 02, 2006" ++ """,""p"":" ++ "[{""a"":null}]" ++ "}" ++ "") /\
  go_number "-12.5e+07" /\
  json_valid "{""id"":""3a8c"",""lag"":-12.5e+07,""t"":""Jan 02, 2006"",""p"":[{""a"":null}]}" = true /\
  json_valid "{""id"":""3a""8c""}" = false /\ safe_string "3a""8c" = false.
Proof.
  split; [|split; [|vm_compute; repeat split]].
  - repeat (first [apply inst_lit | apply inst_num; [reflexivity|] | apply inst_str; [reflexivity|]
                  | apply inst_val; [reflexivity|] | apply inst_nil]).
  - exact (gn_make true "12" (Some "5") (Some (true, "07")) eq_refl eq_refl eq_refl).
Qed.
