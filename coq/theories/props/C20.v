From Burrow Require Import Tmpl Json.
From BurrowGen Require Import TmplSchema Templates.
Example placeholder_C20 : offers burrow_schema = true. Proof. vm_compute. reflexivity. Qed.
