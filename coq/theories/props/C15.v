(* C15 -- only the Zookeeper lock holder evaluates (and therefore notifies); pacing.  Statements only; proofs in
   EvalLoopProofs.v.

   READ THIS FIRST.  There are two machines over one state type.
     step_i  the REAL granularity: lock.Lock() returning and the loop registering in ZookeeperExpired.Wait() are two
             steps, the condition variable has Go sync.Cond semantics.  On this machine the first sentence of C15 is
             FALSE (C15_lost_wakeup_refuted, known finding C15:expiry-before-wait) and holds only under the guard
             window_free = "no expiry is delivered between the lock grant and the Wait" (the _partial / _interleaved
             theorems of section A).
     step_s  an IDEALISATION in which grant -> Wait is atomic.  The unguarded theorems of section B
             (C15_eval_only_with_lock ...) are about this idealised machine, not about the code as it runs.
   Further limits stated where they apply: the pacing theorems hold exactly for shortest interval * 10^9 < 2^63, which
   is what Configure accepts since /repo 38fa1ff (C15_configure_accepted_range; C15_pacing_wrap_refuted documents the
   behaviour beyond, no longer reachable); "(and therefore notifications)" holds in the form "every notification answers a
   request ISSUED under the lock", not in the form "notifies only while holding the lock"
   (C15_notifications_only_while_locked_refuted); one Tick / one Response is one atomic step (overlapping request
   goroutines after a lost wake-up, and senders blocked on a busy evaluator delivering after the expiry, are below the
   model's granularity: design_notes/C15.md). *)
From Coq Require Import ZArith List Bool FMapPositive Permutation.
From Burrow Require Import Int64 EvalLoop EvalLoopProofs.
Import ListNotations.
Open Scope Z_scope.

(* ===== A. The real machine: step_i ================================================================== *)

(* the real machine (sync.Cond semantics): the first sentence of the property is FALSE -- DESIGN.md section 5, F8 *)
Theorem C15_lost_wakeup_refuted :
  exists tr, spec_ok (mon0 true) (snd (run (step_i 0) (init_state true one_group) tr)) = false
             /\ window_free 0 (init_state true one_group) tr = false
             /\ exists pre g now post, tr = [Wake; LockOk] ++ pre ++ [Expired] ++ post
                                       /\ In (Tick now) post
                                       /\ In (Tick now, [Eval g now]) (snd (run (step_i 0) (init_state true one_group) tr)).
Proof. exact lost_wakeup_refuted. Qed.
Print Assumptions C15_lost_wakeup_refuted.

(* ... and holds under the guard "no expiry is delivered between the lock grant and the wait" *)
Theorem C15_eval_only_with_lock_partial : forall mi c0 gs tr,
  window_free mi (init_state c0 gs) tr = true ->
  spec_ok (mon0 c0) (snd (run (step_i mi) (init_state c0 gs) tr)) = true.
Proof. exact eval_only_with_lock_partial. Qed.
Print Assumptions C15_eval_only_with_lock_partial.

(* the resume clause on the real machine, under the same guard *)
Theorem C15_resume_needs_unlock_and_lock_interleaved : forall mi c0 gs tr l1 a0 l2 e acts l3 g t,
  window_free mi (init_state c0 gs) tr = true ->
  snd (run (step_i mi) (init_state c0 gs) tr) = l1 ++ (Expired, a0) :: l2 ++ (e, acts) :: l3 ->
  m_lock (mon_run (mon0 c0) l1) = LHeld ->
  In (Eval g t) acts ->
  exists la lb lc, map fst l2 ++ [e] = la ++ UnlockOk :: lb ++ LockOk :: lc.
Proof. exact resume_needs_unlock_and_lock_interleaved. Qed.
Print Assumptions C15_resume_needs_unlock_and_lock_interleaved.

Theorem C15_pacing_interleaved : forall mi c0 gs tr l1 e1 a1 l2 e2 a2 l3 g t1 t2,
  0 <= mi <= max_pace_interval ->
  snd (run (step_i mi) (init_state c0 gs) tr) = l1 ++ (e1, a1) :: l2 ++ (e2, a2) :: l3 ->
  In (Eval g t1) a1 -> In (Eval g t2) a2 ->
  forallb (keeps g) (map fst l2) = true ->
  t2 - t1 > mi * ns_per_s.
Proof. exact pacing_interleaved. Qed.
Print Assumptions C15_pacing_interleaved.

(* every configuration Configure ACCEPTS (configure mods = Some mi: since /repo 38fa1ff every module's interval is in
   1 .. 9223372036), no further hypothesis on the intervals *)
Theorem C15_pacing_configured_interleaved : forall mods mi i c0 gs tr l1 e1 a1 l2 e2 a2 l3 g t1 t2,
  configure mods = Some mi ->
  shortest mods i ->
  snd (run (step_i mi) (init_state c0 gs) tr) = l1 ++ (e1, a1) :: l2 ++ (e2, a2) :: l3 ->
  In (Eval g t1) a1 -> In (Eval g t2) a2 ->
  forallb (keeps g) (map fst l2) = true ->
  t2 - t1 > i * ns_per_s.
Proof. exact pacing_accepted_interleaved. Qed.
Print Assumptions C15_pacing_configured_interleaved.

(* ===== B. The idealised sequential machine: step_s =================================================== *)

(* IDEALISED sequential machine (grant -> Wait atomic), every trace: the monitor (lock object + session) accepts every action -- evaluations only
   while the lock is held and no expiry was reported since it was granted; the old lock is released only after an
   expiry and with the connection back; a new lock is requested only after the release. *)
Theorem C15_eval_only_with_lock : forall mi c0 gs tr,
  spec_ok (mon0 c0) (snd (run (step_s mi) (init_state c0 gs) tr)) = true.
Proof. exact eval_only_with_lock. Qed.
Print Assumptions C15_eval_only_with_lock.

(* ... in the words of the property: an evaluation is emitted only between a LockOk and the next Expired *)
Theorem C15_eval_between_lockok_and_expired : forall mi c0 gs tr l1 e acts l2 g t,
  snd (run (step_s mi) (init_state c0 gs) tr) = l1 ++ (e, acts) :: l2 -> In (Eval g t) acts ->
  exists la lb, map fst l1 ++ [e] = la ++ LockOk :: lb /\ ~ In Expired lb.
Proof. exact eval_between_lockok_and_expired. Qed.
Print Assumptions C15_eval_between_lockok_and_expired.

(* "it resumes only after the connection is back, the old lock has been released and the lock acquired again": in every
   trace of the loop, if the expiry is reported while the lock is held (monitor state after the prefix l1), an evaluation
   after it is preceded -- after that expiry -- by a SUCCESSFUL Unlock and, after that, a successful Lock.  (That the
   Unlock is only attempted with the connection back is part of C15_eval_only_with_lock: the monitor accepts CallUnlock
   only when expired and connected.) *)
Theorem C15_resume_needs_unlock_and_lock : forall mi c0 gs tr l1 a0 l2 e acts l3 g t,
  snd (run (step_s mi) (init_state c0 gs) tr) = l1 ++ (Expired, a0) :: l2 ++ (e, acts) :: l3 ->
  m_lock (mon_run (mon0 c0) l1) = LHeld ->
  In (Eval g t) acts ->
  exists la lb lc, map fst l2 ++ [e] = la ++ UnlockOk :: lb ++ LockOk :: lc.
Proof. exact resume_needs_unlock_and_lock. Qed.
Print Assumptions C15_resume_needs_unlock_and_lock.

(* a FAILING Unlock (the ephemeral node went with the expired session): the loop panics and nothing is ever issued again *)
Theorem C15_unlock_error_stops_everything : forall mi s tr it,
  ph s = Unlocking ->
  In it (snd (run (step_s mi) s (UnlockErr :: tr))) -> it = (UnlockErr, [Panic]) \/ snd it = [].
Proof. exact unlock_error_stops_everything. Qed.
Print Assumptions C15_unlock_error_stops_everything.

(* the session publisher (zookeeper coordinator): a StateExpired event closes the gate of an evaluating loop, which
   then waits for the reconnect without touching the lock *)
Theorem C15_zk_expiry_stops_evaluation : forall mi s c,
  ph s = Evaluating ->
  let r := feed (step_s mi) s (zk_session true ZkExpired c) in
  ph (fst r) = WaitReconnect /\ doEval (fst r) = false /\ conn (fst r) = false /\ snd r = []
  /\ snd (step_s mi (fst r) Wake) = [].
Proof. exact zk_expiry_stops_evaluation. Qed.
Print Assumptions C15_zk_expiry_stops_evaluation.

(* pacing: two evaluations of one group entry are strictly more than minInterval apart, for every clock sequence --
   for 0 <= minInterval <= max_pace_interval = 9223372036, i.e. exactly while minInterval * 10^9 < 2^63 (the Go code
   forms  -time.Duration(minInterval) * time.Second  in int64; the model wraps as Go does, see C15_pacing_wrap_refuted) *)
Theorem C15_pacing : forall mi c0 gs tr l1 e1 a1 l2 e2 a2 l3 g t1 t2,
  0 <= mi <= max_pace_interval ->
  snd (run (step_s mi) (init_state c0 gs) tr) = l1 ++ (e1, a1) :: l2 ++ (e2, a2) :: l3 ->
  In (Eval g t1) a1 -> In (Eval g t2) a2 ->
  forallb (keeps g) (map fst l2) = true ->
  t2 - t1 > mi * ns_per_s.
Proof. exact pacing. Qed.
Print Assumptions C15_pacing.

(* the second sentence of C15 end to end: EVERY configuration Configure accepts (configure mods = Some mi; since /repo
   38fa1ff Configure panics unless 1 <= interval <= 9223372036 = math.MaxInt64/int64(time.Second) for every module), every
   trace of the loop it set up: two evaluations of one group entry are more than the shortest configured interval apart.
   No hypothesis on the intervals: acceptance puts minInterval inside the range where the arithmetic is exact
   (C15_configure_accepted_range). *)
Theorem C15_pacing_configured : forall mods mi i c0 gs tr l1 e1 a1 l2 e2 a2 l3 g t1 t2,
  configure mods = Some mi ->
  shortest mods i ->
  snd (run (step_s mi) (init_state c0 gs) tr) = l1 ++ (e1, a1) :: l2 ++ (e2, a2) :: l3 ->
  In (Eval g t1) a1 -> In (Eval g t2) a2 ->
  forallb (keeps g) (map fst l2) = true ->
  t2 - t1 > i * ns_per_s.
Proof. exact pacing_accepted. Qed.
Print Assumptions C15_pacing_configured.

(* the pace is the shortest configured interval and not a longer one: with the gate open, an iteration of the request
   loop evaluates every group whose last evaluation is more than that interval old *)
Theorem C15_evaluated_when_due : forall mods mi i s now g le,
  configure mods = Some mi ->
  shortest mods i ->
  doEval s = true -> ph s <> Crashed ->
  PositiveMap.find g (groups s) = Some le -> now - le > i * ns_per_s ->
  In (Eval g now) (snd (step_s mi s (Tick now))).
Proof. exact evaluated_when_due_accepted. Qed.
Print Assumptions C15_evaluated_when_due.

(* ===== C. The configuration step and the limits of the pacing theorems ================================ *)

(* ---- "the shortest CONFIGURED notifier interval": minInterval is derived, by Coordinator.Configure, from the module
   configurations (mc_interval / mc_send / mc_threshold = the explicitly set interval / send-interval / threshold keys,
   None = absent; effective interval = the key, or the default 60).  shortest mods i: some module has interval i and no
   module has a smaller one. *)
Theorem C15_min_interval_none : configure_min [] = no_module_interval.
Proof. exact min_interval_none. Qed.
Print Assumptions C15_min_interval_none.

Theorem C15_min_interval_is_min : forall mods,
  mods <> [] -> (forall m, In m mods -> eff_interval m < max_int64) ->
  shortest mods (configure_min mods).
Proof. exact min_interval_is_min. Qed.
Print Assumptions C15_min_interval_is_min.

(* Go iterates the module map in any order *)
Theorem C15_min_interval_order : forall mods mods', Permutation mods mods' -> configure_min mods = configure_min mods'.
Proof. exact min_interval_order. Qed.
Print Assumptions C15_min_interval_order.

(* no key but `interval` matters (send-interval, threshold: any values, present or absent) *)
Theorem C15_min_interval_only_interval : forall mods mods',
  map mc_interval mods = map mc_interval mods' -> configure_min mods = configure_min mods'.
Proof. exact min_interval_only_interval. Qed.
Print Assumptions C15_min_interval_only_interval.

(* the bound of the pacing theorems is exact *)
Theorem C15_max_pace_interval_exact :
  max_pace_interval * ns_per_s < two63 /\ two63 <= (max_pace_interval + 1) * ns_per_s.
Proof. exact max_pace_interval_exact. Qed.
Print Assumptions C15_max_pace_interval_exact.

(* what Configure accepts (since /repo 38fa1ff), and what it yields: minInterval in 1 .. 9223372036, the shortest
   configured interval (310536000 without any module) *)
Theorem C15_configure_accepted_range : forall mods mi, configure mods = Some mi ->
  1 <= mi <= max_pace_interval /\ (mods <> [] -> shortest mods mi) /\ (mods = [] -> mi = no_module_interval).
Proof. exact configure_accepted_range. Qed.
Print Assumptions C15_configure_accepted_range.

(* ... and an accepted configuration never reaches the rand.Int63n panic of a group-list refresh *)
Theorem C15_refresh_never_panics_accepted : forall mods mi s now present,
  configure mods = Some mi -> ph s <> Crashed -> snd (step_s mi s (Refresh now present)) = [].
Proof. exact refresh_never_panics_accepted. Qed.
Print Assumptions C15_refresh_never_panics_accepted.

Example C15_configure_examples :
  configure wrap_module = None /\ configure [mkMod (Some 0) None None] = None
  /\ configure [mkMod (Some 9223372036854776) None None] = None /\ configure [mkMod (Some 30) None None; mkMod (Some (-5)) None None] = None
  /\ configure [mkMod (Some 9223372037) None None] = None /\ configure [mkMod (Some 9223372036) None None] = Some 9223372036
  /\ configure two_modules = Some 30 /\ configure [] = Some 310536000 /\ configure [mkMod None (Some 0) None] = Some 60.
Proof. exact configure_examples. Qed.

(* BEFORE-FIX DOCUMENTATION (the three statements below are about minInterval values that Configure no longer produces:
   configure wrap_module = None, C15_configure_examples; they were reachable, and were replayed on the real code, until
   /repo 38fa1ff -- findings/C15.json "fixed").
   Beyond the bound the second sentence of C15 was FALSE for the code: one module with interval 9223372037 s (a
   non-negative int64 below MaxInt64 -- all that the earlier statement of C15_pacing_configured required): the Duration
   wraps, sendBefore lies in the year 2316, every entry is due at every iteration; two evaluations 1 ms apart. *)
Theorem C15_pacing_wrap_refuted :
  (forall m, In m wrap_module -> 0 <= eff_interval m < max_int64) /\ shortest wrap_module 9223372037 /\
  exists tr l1 e1 a1 l2 e2 a2 l3 g t1 t2,
    snd (run (step_s (configure_min wrap_module)) (init_state true one_group) tr) = l1 ++ (e1, a1) :: l2 ++ (e2, a2) :: l3
    /\ In (Eval g t1) a1 /\ In (Eval g t2) a2 /\ forallb (keeps g) (map fst l2) = true
    /\ t2 - t1 = 1000000 /\ ~ (t2 - t1 > 9223372037 * ns_per_s).
Proof. exact pacing_wrap_refuted. Qed.
Print Assumptions C15_pacing_wrap_refuted.

Example C15_wrap_twice_example : send_before 18446744074 1700000000000000000 = 1700000000000000000 - 290448384.
Proof. exact wrap_twice_example. Qed.

(* BEFORE-FIX DOCUMENTATION: rand.Int63n(minInterval*1000) in processConsumerList -- with minInterval 0, and from
   9223372036854776 on (the int64 product wraps negative), the first group-list refresh with a new group killed the
   process, for a configuration that was accepted.  Refused by Configure since /repo 38fa1ff. *)
Example C15_refresh_panics_zero_interval :
  step_s (configure_min [mkMod (Some 0) None None]) (init_state true (PositiveMap.empty Z)) (Refresh 1700000000000000000 [(1%positive, 0)])
  = (mkState Crashed false true (PositiveMap.empty Z), [Panic]).
Proof. exact refresh_panics_zero_interval. Qed.

Example C15_refresh_panics_product_wraps :
  configure_min [mkMod (Some 9223372036854776) None None] = 9223372036854776 /\
  snd (step_s 9223372036854776 (init_state true (PositiveMap.empty Z)) (Refresh 1700000000000000000 [(1%positive, 0)])) = [Panic] /\
  snd (step_s 9223372036854775 (init_state true (PositiveMap.empty Z)) (Refresh 1700000000000000000 [(1%positive, 0)])) = [].
Proof. exact refresh_panics_product_wraps. Qed.

(* ===== D. Replies, re-locks, notifications ============================================================ *)

(* LastEval is part of the shared group record.  An evaluator reply (responseLoop -> checkAndSendResponseToModules:
   incident opened / closed, notifications) is a no-op on everything the gate and the pacing depend on ... *)
Theorem C15_response_keeps_pacing : forall mi s g st,
  step_i mi s (Response g st) = (s, []) /\ step_s mi s (Response g st) = (enter_wait s, []).
Proof. exact response_keeps_pacing. Qed.
Print Assumptions C15_response_keeps_pacing.

(* ... and so is everything that is not an iteration of the request loop or a group-list refresh: expiry, reconnect,
   unlock, lock errors, re-lock, wake-ups.  A request goroutine started by a later lock acquisition paces against the
   same LastEval values (C15_pacing quantifies over all such traces: its bound holds ACROSS lock-holding periods). *)
Theorem C15_relock_keeps_pacing : forall mi s e, touches_records e = false ->
  groups (fst (step_i mi s e)) = groups s /\ groups (fst (step_s mi s e)) = groups s.
Proof. exact relock_keeps_pacing. Qed.
Print Assumptions C15_relock_keeps_pacing.

Theorem C15_relock_keeps_pacing_run : forall mi tr s,
  (forall e, In e tr -> touches_records e = false) -> groups (fst (run (step_s mi) s tr)) = groups s.
Proof. exact relock_keeps_pacing_run. Qed.
Print Assumptions C15_relock_keeps_pacing_run.

(* "(and therefore notifications)".  causal lt: the evaluator replies to requests only -- every Response for a group is
   preceded by an Eval action for that group (a property of the ENVIRONMENT, the evaluator subsystem).
   WHAT HOLDS: every reply that reaches responseLoop, hence every notification, answers an evaluation request that was
   ISSUED while this instance held the lock and no expiry had been reported since the grant. *)
Theorem C15_notifications_only_from_locked_evaluations : forall mi c0 gs tr l1 g st acts l2,
  causal (snd (run (step_s mi) (init_state c0 gs) tr)) ->
  snd (run (step_s mi) (init_state c0 gs) tr) = l1 ++ (Response g st, acts) :: l2 ->
  exists la e a lb t, l1 = la ++ (e, a) :: lb /\ In (Eval g t) a /\ fresh (mon_event (mon_run (mon0 c0) la) e).
Proof. exact notifications_only_from_locked_evaluations. Qed.
Print Assumptions C15_notifications_only_from_locked_evaluations.

(* WHAT DOES NOT HOLD (the stronger reading "notifies only while it holds the lock"): responseLoop is not gated by the
   lock; the reply to a request issued just before the expiry is processed, and notified, after it.
   Witness  Wake; LockOk; Tick 5 (Eval 1 5); Expired; Response 1 3  -- replayed on the real code by the cfg probe
   (events  a hold ... x  af err). *)
Theorem C15_notifications_only_while_locked_refuted :
  exists tr l1 g st acts l2,
    causal (snd (run (step_s 0) (init_state true one_group) tr)) /\
    snd (run (step_s 0) (init_state true one_group) tr) = l1 ++ (Response g st, acts) :: l2 /\
    ~ fresh (mon_run (mon0 true) l1).
Proof. exact notifications_only_while_locked_refuted. Qed.
Print Assumptions C15_notifications_only_while_locked_refuted.

(* ===== E. Non-vacuity ================================================================================= *)

(* non-vacuity: intervals 30 / 60 with send-intervals 300 / 5 *)
Example C15_min_interval_example :
  configure_min two_modules = 30 /\ configure_min (rev two_modules) = 30 /\ shortest two_modules 30
  /\ configure_min [mkMod None (Some 5) None; mkMod (Some 61) None None] = 60
  /\ configure_min [mkMod (Some 0) None None; mkMod None None None] = 0.
Proof. exact min_interval_example. Qed.

Example C15_pacing_configured_example :
  configure two_modules = Some 30 /\ (forall m, In m two_modules -> 0 <= eff_interval m < max_int64) /\
  snd (run (step_s (configure_min two_modules)) (init_state true one_group)
         [Wake; LockOk; Tick 31000000000; Tick 36000000000; Tick 61000000000; Tick 61000000001])
  = [(Wake, [CallLock]); (LockOk, []); (Tick 31000000000, [Eval 1 31000000000]); (Tick 36000000000, []);
     (Tick 61000000000, []); (Tick 61000000001, [Eval 1 61000000001])].
Proof. exact pacing_accepted_example. Qed.

Example C15_resume_example :
  snd (run (step_s 0) (init_state true one_group) [Wake; LockOk; Tick 5; Expired; Wake; UnlockErr; Wake; LockOk; Tick 9])
  = [(Wake, [CallLock]); (LockOk, []); (Tick 5, [Eval 1 5]); (Expired, []); (Wake, [CallUnlock]); (UnlockErr, [Panic]);
     (Wake, []); (LockOk, []); (Tick 9, [])]
  /\ m_lock (mon_run (mon0 true) [(Wake, [CallLock]); (LockOk, []); (Tick 5, [Eval 1 5])]) = LHeld.
Proof. exact resume_example. Qed.

Example C15_response_relock_example :
  snd (run (step_s 30) (init_state true one_group)
         [Wake; LockOk; Tick 100000000000; Response 1 3; Response 1 1; Tick 100001000000; Expired; Wake; UnlockOk; Wake; LockOk;
          Tick 100002000000; Tick 129999999999; Tick 130000000001])
  = [(Wake, [CallLock]); (LockOk, []); (Tick 100000000000, [Eval 1 100000000000]); (Response 1 3, []); (Response 1 1, []);
     (Tick 100001000000, []); (Expired, []); (Wake, [CallUnlock]); (UnlockOk, []); (Wake, [CallLock]); (LockOk, []);
     (Tick 100002000000, []); (Tick 129999999999, []); (Tick 130000000001, [Eval 1 130000000001])].
Proof. exact response_relock_example. Qed.

