(* C15 -- only the Zookeeper lock holder evaluates; pacing.  Statements only; proofs in EvalLoopProofs.v. *)
From Coq Require Import ZArith List Bool FMapPositive.
From Burrow Require Import EvalLoop EvalLoopProofs.
Import ListNotations.
Open Scope Z_scope.

(* (i) sequential machine, every trace: the monitor (lock object + session) accepts every action -- evaluations only
   while the lock is held and no expiry was reported since it was granted; the old lock is released only after an
   expiry and with the connection back; a new lock is requested only after the release. *)
Theorem C15_eval_only_with_lock : forall mi c0 gs tr,
  spec_ok (mon0 c0) (snd (run (step_s mi) (init_state c0 gs) tr)) = true.
Proof. exact eval_only_with_lock. Qed.
Print Assumptions C15_eval_only_with_lock.

(* ... in the words of the property: an evaluation is emitted only between a LockOk and the next Expired *)
Theorem C15_eval_between_lockok_and_expired : forall mi c0 gs tr l1 e acts l2 g t,
  snd (run (step_s mi) (init_state c0 gs) tr) = l1 ++ (e, acts) :: l2 -> In (Eval g t) acts ->
  exists la lb, map fst l1 ++ [e] = la ++ LockOk :: lb /\ ~ In Expired lb.
Proof. exact eval_between_lockok_and_expired. Qed.
Print Assumptions C15_eval_between_lockok_and_expired.

(* pacing: two evaluations of one group entry are strictly more than minInterval apart, for every clock sequence *)
Theorem C15_pacing : forall mi c0 gs tr l1 e1 a1 l2 e2 a2 l3 g t1 t2,
  0 <= mi ->
  snd (run (step_s mi) (init_state c0 gs) tr) = l1 ++ (e1, a1) :: l2 ++ (e2, a2) :: l3 ->
  In (Eval g t1) a1 -> In (Eval g t2) a2 ->
  forallb (keeps g) (map fst l2) = true ->
  t2 - t1 > mi * ns_per_s.
Proof. exact pacing. Qed.
Print Assumptions C15_pacing.

(* (ii) interleaved machine (sync.Cond semantics): the property is FALSE -- DESIGN.md section 5, F8 *)
Theorem C15_lost_wakeup_refuted :
  exists tr, spec_ok (mon0 true) (snd (run (step_i 0) (init_state true one_group) tr)) = false
             /\ window_free 0 (init_state true one_group) tr = false
             /\ exists pre g now post, tr = [Wake; LockOk] ++ pre ++ [Expired] ++ post
                                       /\ In (Tick now) post
                                       /\ In (Tick now, [Eval g now]) (snd (run (step_i 0) (init_state true one_group) tr)).
Proof. exact lost_wakeup_refuted. Qed.
Print Assumptions C15_lost_wakeup_refuted.

(* ... and holds under the guard "no expiry is delivered between the lock grant and the wait" *)
Theorem C15_eval_only_with_lock_partial : forall mi c0 gs tr,
  window_free mi (init_state c0 gs) tr = true ->
  spec_ok (mon0 c0) (snd (run (step_i mi) (init_state c0 gs) tr)) = true.
Proof. exact eval_only_with_lock_partial. Qed.
Print Assumptions C15_eval_only_with_lock_partial.

Theorem C15_pacing_interleaved : forall mi c0 gs tr l1 e1 a1 l2 e2 a2 l3 g t1 t2,
  0 <= mi ->
  snd (run (step_i mi) (init_state c0 gs) tr) = l1 ++ (e1, a1) :: l2 ++ (e2, a2) :: l3 ->
  In (Eval g t1) a1 -> In (Eval g t2) a2 ->
  forallb (keeps g) (map fst l2) = true ->
  t2 - t1 > mi * ns_per_s.
Proof. exact pacing_interleaved. Qed.
Print Assumptions C15_pacing_interleaved.
