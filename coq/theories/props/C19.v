(* C19 — invalid configuration is refused cleanly; valid configuration is accepted.
   Statements only; proofs are in ConfigValidProofs.v.  `start o c a` is the model of core.Start (recover handler as it
   is in /repo after `fix:` 343ebf8; reference checks as after the dotted-reference `fix:`) on configuration `c`, with
   the Go maps iterated in order `o`, entered with the caller's ApplicationContext in state `a` (fresh, constructed with
   ConfigurationValid already true, or re-used after earlier Start calls).  `start_old` carries the handler of the
   unchanged tree.
   How to read these theorems (audit D, C19): `requirements` lists, site by site, the checks that the Configure functions of
   /repo make (file:line at each `site`), quirks included — a client certificate is only loaded when a CA file is named, a
   client-profile may name a tls/sasl profile that does not exist.  `refuse_iff_invalid` / `configure_iff_valid` therefore say
   that the first-failure scans, under every map order, together with the recover handler, the start loop and the socket
   accounting, implement exactly that flat list — they are consistency + control-flow theorems and cannot reveal a check
   the code forgot.  The independent judgement "this edit violates a DOCUMENTED requirement" is the `inv` flag of each edit
   of the catalogue in checks/configgen.py, cross-checked against `requirements` on every run (design_notes/C19.md).
   "Every configuration" means every value of the record `config` (the keys the catalogue knows, incl. the integer options
   that size something: workers, intervals, queue-depth, the cluster refresh periods, the notifier interval). *)
From Coq Require Import List ZArith Permutation.
From Burrow Require Import ConfigValid ConfigValidProofs.
Import ListNotations.
Open Scope Z_scope.

(* Refusal, both directions, for every configuration, every iteration order of the module maps and every initial state
   of the application context:
   some documented requirement is violated  <->  Start returns 1, having started nothing (and so: no panic). *)
Theorem C19_refuse_iff_invalid : forall (o : order) (c : config) (a : app_state),
  order_ok o c ->
  (requirements c <> [] <-> start o c a = Returned 1 nothing_started no_listener).
Proof. exact refuse_iff_invalid. Qed.
Print Assumptions C19_refuse_iff_invalid.

(* No value of the configuration record makes a panic leave Start (not even with an inconsistent order argument): the
   panics of every Configure are recovered, and — next theorem — a configuration that every Configure accepted does not
   make any coordinator's Start panic (storage: make([]chan, workers); cluster: time.NewTicker(refresh) — both refused in
   Configure since 746d605 / 4350030; before, these panics left Start: examples C19_old_workers / C19_old_refresh below).
   Not covered: options outside the record.  The two crashes AFTER start-up that were known (storage intervals < 1, notifier
   interval < 1 or beyond a time.Duration) are refusals in Configure as well since c110ef6 / 38fa1ff (C19_example_sizes). *)
Theorem C19_start_never_panics : forall (o : order) (c : config) (a : app_state) (p : panic), start o c a <> Panicked p.
Proof. exact start_never_panics. Qed.
Print Assumptions C19_start_never_panics.

Theorem C19_start_accepted_no_panic : forall (o : order) (c : config),
  configure_all o c = None ->
  forall (k : coord) (p : panic), In k (coordinators c) -> start_coord o c k <> StartPanic p.
Proof. exact start_accepted_no_panic. Qed.
Print Assumptions C19_start_accepted_no_panic.

(* Acceptance: every requirement holds <-> ConfigurationValid is set afterwards ... *)
Theorem C19_accept_iff_valid : forall (o : order) (c : config) (a : app_state),
  order_ok o c ->
  (requirements c = [] <-> config_valid o c a = true).
Proof. exact accept_iff_valid. Qed.
Print Assumptions C19_accept_iff_valid.

(* ... and then Start goes on to start subsystems: at least one Start is entered, only configured coordinators are, the
   result is 0 or 1 (1 = a subsystem failed at start time, e.g. unreachable brokers), and 0 means everything was started. *)
Theorem C19_valid_is_started : forall (o : order) (c : config) (a : app_state),
  order_ok o c -> requirements c = [] ->
  exists rc started, start o c a = Returned rc started no_listener /\ (rc = 0 \/ rc = 1) /\ started <> [] /\
                     (forall k, In k started -> In k (coordinators c)) /\ (rc = 0 -> started = coordinators c).
Proof. exact valid_is_started. Qed.
Print Assumptions C19_valid_is_started.

(* Listeners ("listeners opened" is what the property observes): a refused configuration leaves no listening socket behind
   — none is bound by any Configure — and indeed no Start that returns leaves one (what was started has been stopped). *)
Theorem C19_refused_opens_no_listener : forall (o : order) (c : config) (a : app_state) (rc : Z) (started : list coord) (ls : list str),
  order_ok o c -> requirements c <> [] ->
  start o c a = Returned rc started ls -> ls = no_listener /\ started = nothing_started /\ rc = 1.
Proof. exact refused_opens_no_listener. Qed.
Print Assumptions C19_refused_opens_no_listener.

Theorem C19_no_listener_left_open : forall (o : order) (c : config) (a : app_state) (rc : Z) (started : list coord) (ls : list str),
  start o c a = Returned rc started ls -> ls = no_listener.
Proof. exact no_listener_left_open. Qed.
Print Assumptions C19_no_listener_left_open.

(* The caller's context is irrelevant: the outcome of Start and the flag it leaves behind are the same from every
   initial state — in particular from the state any history of earlier Start calls on the same context left behind. *)
Theorem C19_context_independent : forall (o : order) (c : config) (a1 a2 : app_state),
  start o c a1 = start o c a2 /\ config_valid o c a1 = config_valid o c a2.
Proof. exact context_independent. Qed.
Print Assumptions C19_context_independent.

Theorem C19_reuse_independent : forall (hist : list (order * config)) (o : order) (c : config) (a : app_state),
  start o c (app_after_history hist a) = start o c fresh_app /\
  config_valid o c (app_after_history hist a) = config_valid o c fresh_app.
Proof. exact reuse_independent. Qed.
Print Assumptions C19_reuse_independent.

(* A refused configuration never leaves ConfigurationValid set behind. *)
Theorem C19_refused_flag_cleared : forall (o : order) (c : config) (a : app_state),
  order_ok o c -> requirements c <> [] -> config_valid o c a = false.
Proof. exact refused_flag_cleared. Qed.
Print Assumptions C19_refused_flag_cleared.

(* The verdict (indeed the whole outcome) does not depend on the order in which Go iterates over the module maps. *)
Theorem C19_order_independent : forall (o1 o2 : order) (c : config) (a : app_state),
  order_ok o1 c -> order_ok o2 c ->
  start o1 c a = start o2 c a /\ config_valid o1 c a = config_valid o2 c a.
Proof. exact order_independent. Qed.
Print Assumptions C19_order_independent.

(* Configure as a whole succeeds exactly on the configurations without violation, and when it fails the panic names a
   requirement that is really violated (site and module). *)
Theorem C19_configure_iff_valid : forall (o : order) (c : config),
  order_ok o c -> (configure_all o c = None <-> requirements c = []).
Proof. exact configure_iff_valid. Qed.
Print Assumptions C19_configure_iff_valid.

Theorem C19_first_failure_is_violation : forall (o : order) (c : config) (p : panic),
  order_ok o c -> configure_all o c = Some p -> In (panic_violation p) (requirements c).
Proof. exact first_failure_is_violation. Qed.
Print Assumptions C19_first_failure_is_violation.

(* The iteration orders used by the correspondence driver are legitimate instances. *)
Theorem C19_driver_orders_ok : forall c : config, order_ok (canonical_order c) c /\ order_ok (reverse_order c) c.
Proof. intro c. split; [apply canonical_order_ok | apply reverse_order_ok]. Qed.
Print Assumptions C19_driver_orders_ok.

(* F10, the unchanged tree: with the old recover handler the refusal direction is false — for EVERY invalid
   configuration Start is left by a panic instead of returning 1 (witnesses replayed on the unfixed code). *)
Theorem C19_old_handler_never_refuses : forall (o : order) (c : config) (a : app_state),
  order_ok o c -> requirements c <> [] -> exists p, start_old o c a = Panicked p.
Proof. exact old_handler_never_refuses. Qed.
Print Assumptions C19_old_handler_never_refuses.

Theorem C19_old_handler_refuse_refuted :
  exists o c, order_ok o c /\ requirements c <> [] /\
              forall a, start_old o c a <> Returned 1 nothing_started no_listener /\ exists p, start_old o c a = Panicked p.
Proof. exact refuse_refuted. Qed.
Print Assumptions C19_old_handler_refuse_refuted.

(* Why the initial context is quantified over (documentation; `handler_noreset` is NOT the code): a recover handler that
   logs and returns but forgets `app.ConfigurationValid = false` is indistinguishable from the real one on a fresh
   context, and refuses nothing at all on a context whose flag is set. *)
Theorem C19_noreset_handler_same_on_fresh : forall (o : order) (c : config),
  start_with handler_noreset o c fresh_app = start o c fresh_app /\
  config_valid_with handler_noreset o c fresh_app = config_valid o c fresh_app.
Proof. exact noreset_handler_same_on_fresh. Qed.
Print Assumptions C19_noreset_handler_same_on_fresh.

Theorem C19_noreset_handler_never_refuses_used : forall (o : order) (c : config),
  start_with handler_noreset o c used_app <> Returned 1 nothing_started no_listener /\
  config_valid_with handler_noreset o c used_app = true.
Proof. exact noreset_handler_never_refuses_used. Qed.
Print Assumptions C19_noreset_handler_never_refuses_used.

(* Satisfiability of the hypotheses: a concrete valid configuration (with notifier and zookeeper) is accepted and fully
   started and leaves the flag set; a concrete invalid one is refused — from a fresh context and from the context the
   valid one left behind — after zookeeper and storage were configured, and clears the flag. *)
Example C19_example_valid :
  requirements ex_valid = [] /\
  start (canonical_order ex_valid) ex_valid fresh_app
    = Returned 0 [CZookeeper; CStorage; CEvaluator; CHttpserver; CNotifier; CCluster; CConsumer] no_listener /\
  config_valid (canonical_order ex_valid) ex_valid fresh_app = true /\
  app_after_history [(canonical_order ex_valid, ex_valid)] fresh_app = used_app.
Proof. exact ex_valid_accepted. Qed.

(* valid, accepted, but the first subsystem (zookeeper: default root path on an unreachable ensemble) fails at start time *)
Example C19_example_start_failure :
  requirements ex_default_root = [] /\
  start (canonical_order ex_default_root) ex_default_root fresh_app = Returned 1 [CZookeeper] no_listener /\
  config_valid (canonical_order ex_default_root) ex_default_root fresh_app = true.
Proof. exact ex_default_root_start_failure. Qed.

Example C19_example_invalid :
  requirements ex_bad_regex = [(StorageAllow, 1)] /\
  start (canonical_order ex_bad_regex) ex_bad_regex fresh_app = Returned 1 nothing_started no_listener /\
  start (canonical_order ex_bad_regex) ex_bad_regex
        (app_after_history [(canonical_order ex_valid, ex_valid)] fresh_app) = Returned 1 nothing_started no_listener /\
  config_valid (canonical_order ex_bad_regex) ex_bad_regex used_app = false /\
  configured (canonical_order ex_bad_regex) ex_bad_regex = [CZookeeper; CStorage].
Proof. exact ex_bad_regex_refused. Qed.

Example C19_example_noreset :
  requirements ex_bad_regex <> [] /\
  start_with handler_noreset (canonical_order ex_bad_regex) ex_bad_regex used_app
    = Returned 0 [CZookeeper; CStorage; CEvaluator; CHttpserver; CNotifier; CCluster; CConsumer] no_listener.
Proof. exact noreset_handler_accepts_invalid. Qed.

Example C19_example_listening :
  still_listening ex_valid (coordinators ex_valid) [CZookeeper; CStorage; CEvaluator; CHttpserver] [CZookeeper; CStorage; CEvaluator]
    = [3] /\
  still_listening ex_valid (coordinators ex_valid) [CZookeeper; CStorage; CEvaluator; CHttpserver] [CZookeeper; CStorage; CEvaluator; CHttpserver]
    = no_listener /\
  listener_names ex_bad_depth = [3].
Proof. exact listening_while_running. Qed.

(* The two start-up crashes found by audit D on tree a3b3ae1, now refusals; the last conjunct is the start loop run on
   the configuration although a requirement is violated = what happened while Configure did not check the value. *)
Example C19_old_workers :
  requirements ex_bad_workers = [(StorageWorkers, 1)] /\
  start (canonical_order ex_bad_workers) ex_bad_workers fresh_app = Returned 1 nothing_started no_listener /\
  start_list (canonical_order ex_bad_workers) ex_bad_workers (coordinators ex_bad_workers) []
    = Panicked (PanicError StorageWorkers 1).
Proof. exact ex_bad_workers_refused. Qed.

Example C19_old_refresh :
  requirements ex_bad_refresh = [(ClusterRefresh, 5)] /\
  start (canonical_order ex_bad_refresh) ex_bad_refresh fresh_app = Returned 1 nothing_started no_listener /\
  start_list (canonical_order ex_bad_refresh) ex_bad_refresh (coordinators ex_bad_refresh) []
    = Panicked (PanicString ClusterRefresh 5).
Proof. exact ex_bad_refresh_refused. Qed.

Example C19_example_sizes :
  requirements ex_bad_sizes = [(StorageIntervals, 1); (NotifierInterval, 4)] /\
  start (canonical_order ex_bad_sizes) ex_bad_sizes used_app = Returned 1 nothing_started no_listener /\
  configured (canonical_order ex_bad_sizes) ex_bad_sizes = [CZookeeper; CStorage].
Proof. exact ex_bad_sizes_refused. Qed.
