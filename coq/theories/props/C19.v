(* C19 — invalid configuration is refused cleanly; valid configuration is accepted.
   Statements only; proofs are in ConfigValidProofs.v.  `start` is the model of core.Start with the recover handler as
   it is in /repo now (after `fix:` commit 343ebf8); `start_old` carries the handler of the unchanged tree. *)
From Coq Require Import List ZArith Permutation.
From Burrow Require Import ConfigValid ConfigValidProofs.
Import ListNotations.
Open Scope Z_scope.

(* Refusal, both directions, for every configuration and every iteration order of the module maps:
   some documented requirement is violated  <->  Start returns 1, having started nothing (and so: no panic). *)
Theorem C19_refuse_iff_invalid : forall (o : order) (c : config),
  order_ok o c ->
  (requirements c <> [] <-> start o c = Returned 1 nothing_started).
Proof. exact refuse_iff_invalid. Qed.
Print Assumptions C19_refuse_iff_invalid.

(* No configuration at all makes a panic leave Start (not even with an inconsistent order argument). *)
Theorem C19_start_never_panics : forall (o : order) (c : config) (p : panic), start o c <> Panicked p.
Proof. exact start_never_panics. Qed.
Print Assumptions C19_start_never_panics.

(* Acceptance: every requirement holds <-> ConfigurationValid is set ... *)
Theorem C19_accept_iff_valid : forall (o : order) (c : config),
  order_ok o c ->
  (requirements c = [] <-> config_valid o c = true).
Proof. exact accept_iff_valid. Qed.
Print Assumptions C19_accept_iff_valid.

(* ... and then Start goes on to start subsystems: at least one Start is entered, only configured coordinators are, the
   result is 0 or 1 (1 = a subsystem failed at start time, e.g. unreachable brokers), and 0 means everything was started. *)
Theorem C19_valid_is_started : forall (o : order) (c : config),
  order_ok o c -> requirements c = [] ->
  exists rc started, start o c = Returned rc started /\ (rc = 0 \/ rc = 1) /\ started <> [] /\
                     (forall k, In k started -> In k (coordinators c)) /\ (rc = 0 -> started = coordinators c).
Proof. exact valid_is_started. Qed.
Print Assumptions C19_valid_is_started.

(* The verdict (indeed the whole outcome) does not depend on the order in which Go iterates over the module maps. *)
Theorem C19_order_independent : forall (o1 o2 : order) (c : config),
  order_ok o1 c -> order_ok o2 c ->
  start o1 c = start o2 c /\ config_valid o1 c = config_valid o2 c.
Proof. exact order_independent. Qed.
Print Assumptions C19_order_independent.

(* Configure as a whole succeeds exactly on the configurations without violation, and when it fails the panic names a
   requirement that is really violated (site and module). *)
Theorem C19_configure_iff_valid : forall (o : order) (c : config),
  order_ok o c -> (configure_all o c = None <-> requirements c = []).
Proof. exact configure_iff_valid. Qed.
Print Assumptions C19_configure_iff_valid.

Theorem C19_first_failure_is_violation : forall (o : order) (c : config) (p : panic),
  order_ok o c -> configure_all o c = Some p -> In (panic_violation p) (requirements c).
Proof. exact first_failure_is_violation. Qed.
Print Assumptions C19_first_failure_is_violation.

(* The iteration orders used by the correspondence driver are legitimate instances. *)
Theorem C19_driver_orders_ok : forall c : config, order_ok (canonical_order c) c /\ order_ok (reverse_order c) c.
Proof. intro c. split; [apply canonical_order_ok | apply reverse_order_ok]. Qed.
Print Assumptions C19_driver_orders_ok.

(* F10, the unchanged tree: with the old recover handler the refusal direction is false — for EVERY invalid
   configuration Start is left by a panic instead of returning 1 (witnesses replayed on the unfixed code). *)
Theorem C19_old_handler_never_refuses : forall (o : order) (c : config),
  order_ok o c -> requirements c <> [] -> exists p, start_old o c = Panicked p.
Proof. exact old_handler_never_refuses. Qed.
Print Assumptions C19_old_handler_never_refuses.

Theorem C19_old_handler_refuse_refuted :
  exists o c, order_ok o c /\ requirements c <> [] /\ start_old o c <> Returned 1 nothing_started /\
              exists p, start_old o c = Panicked p.
Proof. exact refuse_refuted. Qed.
Print Assumptions C19_old_handler_refuse_refuted.

(* Satisfiability of the hypotheses: a concrete valid configuration (with notifier and zookeeper) is accepted and fully
   started; a concrete invalid one is refused after zookeeper and storage were configured. *)
Example C19_example_valid :
  requirements ex_valid = [] /\
  start (canonical_order ex_valid) ex_valid
    = Returned 0 [CZookeeper; CStorage; CEvaluator; CHttpserver; CNotifier; CCluster; CConsumer] /\
  config_valid (canonical_order ex_valid) ex_valid = true.
Proof. exact ex_valid_accepted. Qed.

Example C19_example_invalid :
  requirements ex_bad_regex = [(StorageAllow, 1)] /\
  start (canonical_order ex_bad_regex) ex_bad_regex = Returned 1 nothing_started /\
  configured (canonical_order ex_bad_regex) ex_bad_regex = [CZookeeper; CStorage].
Proof. exact ex_bad_regex_refused. Qed.
