(* C10 — Group allow/deny lists are enforced on every path.
   Statements only; proofs are in StorageDelProofs.v (storage), WireProofs.v (offsets-topic reader), ZkReaderProofs.v
   (Zookeeper reader) and NotifierProofs.v (notifier).  In every component the verdict of the module's compiled regexps on
   a group name enters the model as four booleans (allowlist set / matches, denylist set / matches) or, where only the
   verdict matters, as an arbitrary function `accept` of the group: the theorems hold for EVERY such function, hence for
   all pattern pairs and all group names.  The real regexps are exercised by the probes of checks/c10*.py on every run. *)
From Coq Require Import ZArith List Bool.
From Burrow Require Import Int64 Wire WireProofs WireRoundtripProofs ZkReader ZkReaderProofs Notifier NotifierProofs.
From Burrow Require Import Eval AMap Ring Storage StorageDelProofs.   (* last: unqualified names are the storage model's *)
Import ListNotations.
Open Scope Z_scope.

(* ---- the predicate: "matches the allowlist if one is set and does not match the denylist if one is set" ---- *)
(* the whole domain is the 16 combinations of the four booleans *)
Theorem C10_accept_spec_zk : forall a_set a_match d_set d_match,
  zk_accept a_set a_match d_set d_match = true <->
  (a_set = true -> a_match = true) /\ (d_set = true -> d_match = false).
Proof. exact zk_accept_spec. Qed.
Print Assumptions C10_accept_spec_zk.

Theorem C10_accept_spec_notifier : forall a_set a_match d_set d_match,
  Notifier.lists_accept (Notifier.mkRx a_set a_match d_set d_match) = (negb a_set || a_match) && negb (d_set && d_match).
Proof. exact lists_accept_spec. Qed.
Print Assumptions C10_accept_spec_notifier.

Theorem C10_accept_spec_reader : forall a_set a_m d_set d_m,
  Wire.reader_accept a_set a_m d_set d_m = true <->
  (a_set = true -> a_m = true) /\ ~ (d_set = true /\ d_m = true).
Proof. exact reader_accept_spec. Qed.
Print Assumptions C10_accept_spec_reader.

(* the reader with real lists: for arbitrary match functions of the two patterns, every forwarded request is for a group that
   matches the allowlist if one is set and does not match the denylist if one is set *)
Theorem C10_reader_lists_enforced : forall a_set d_set (am dm : list Z -> bool) key value o rs al,
  Wire.process_message (fun g => Wire.reader_accept a_set (am g) d_set (dm g)) key value o = Wire.Done rs al ->
  Forall (fun r => (a_set = true -> am (Wire.req_group r) = true) /\ ~ (d_set = true /\ dm (Wire.req_group r) = true)) rs.
Proof. exact reader_lists_enforced. Qed.
Print Assumptions C10_reader_lists_enforced.

(* ---- storage: a rejected group never enters storage or its listings, on any of the three ingestion paths ---- *)
Theorem C10_storage_rejected_noop :
  forall cf now s g,
    cf_accept cf g = false ->
    (forall c t p off order ts, step cf now s (SetConsumerOffset c g t p off order ts) = Done s RNone) /\
    (forall c t p owner client, step cf now s (SetConsumerOwner c g t p owner client) = Done s RNone) /\
    (forall c, step cf now s (ClearConsumerOwners c g) = Done s RNone).
Proof. exact storage_rejected_noop. Qed.
Print Assumptions C10_storage_rejected_noop.

Theorem C10_storage_rejected_never_enters :
  forall cf cls g h s reps,
    cf_accept cf g = false -> run cf (init_state cls) h = Some (s, reps) ->
    (forall c cl, get s c = Some cl -> get (cl_consumer cl) g = None) /\
    Forall2 (fun nr rep => forall c, ~ mentions_group c g (snd nr) rep) h reps.
Proof. exact storage_rejected_never_enters. Qed.
Print Assumptions C10_storage_rejected_never_enters.

Theorem C10_storage_rejected_stays_out :
  forall cf g h s s' reps,
    cf_accept cf g = false -> (forall c, absent_group s c g) -> run cf s h = Some (s', reps) ->
    (forall c, absent_group s' c g) /\ Forall2 (fun nr rep => forall c, ~ mentions_group c g (snd nr) rep) h reps.
Proof. exact rejected_group_stays_out. Qed.
Print Assumptions C10_storage_rejected_stays_out.

(* "exactly when": an accepted group is tracked as if no lists were configured *)
Theorem C10_storage_accepted_as_if_no_lists :
  forall cf now s r, rejected cf r = false -> step cf now s r = step (no_lists cf) now s r.
Proof. exact storage_accepted_as_if_no_lists. Qed.
Print Assumptions C10_storage_accepted_as_if_no_lists.

Theorem C10_storage_lists_only_filter :
  forall cf h s,
    option_map view (run cf s h) = option_map view (run (no_lists cf) s (filter (keep cf) h)).
Proof. exact storage_lists_only_filter. Qed.
Print Assumptions C10_storage_lists_only_filter.

Example C10_storage_ex_rejected :
  cf_accept ex_cf 5 = false /\ cf_accept ex_cf 1 = true /\
  In (ex_now, SetConsumerOffset 1 5 1 0 50 1 ex_ts) ex_hist /\ In (ex_now, SetConsumerOwner 1 5 1 0 1 1) ex_hist /\
  In (ex_now, ClearConsumerOwners 1 5) ex_hist /\
  obs ex_cf ex_now ex_state (FetchConsumer 1 5) = Some RNil /\ ~ In 5 (ex_names ex_now ex_state (FetchConsumers 1)) /\
  length (filter (keep ex_cf) ex_hist) = 9%nat /\
  option_map fst (run (no_lists ex_cf) (init_state [1; 2]) (filter (keep ex_cf) ex_hist)) = Some ex_state /\
  In 5 (names (obs (no_lists ex_cf) ex_now
                   (match run (no_lists ex_cf) (init_state [1; 2]) ex_hist with Some (s, _) => s | None => [] end)
                   (FetchConsumers 1))).
Proof. exact ex_rejected. Qed.

(* C10, storage: acceptConsumerGroup as a function of the four booleans — block for props/C10.v.
   Needs `From Burrow Require Import Int64 Eval AMap Ring Storage StorageDelProofs.` (already required by the storage block).
   Compile-checked against StorageDelProofs.v by builder "del". *)

(* inmemory.go acceptConsumerGroup (two guarded returns): all 16 combinations — a group is tracked by storage exactly when it
   matches the allowlist (if one is set) and does not match the denylist (if one is set) *)
Theorem C10_accept_spec_storage : forall a_set a_m d_set d_m,
  storage_accept a_set a_m d_set d_m = true <->
  (a_set = true -> a_m = true) /\ (d_set = true -> d_m = false).
Proof. exact storage_accept_spec. Qed.
Print Assumptions C10_accept_spec_storage.

Theorem C10_accept_formula_storage : forall a_set a_m d_set d_m,
  storage_accept a_set a_m d_set d_m = (negb a_set || a_m) && negb (d_set && d_m).
Proof. exact storage_accept_formula. Qed.
Print Assumptions C10_accept_formula_storage.

(* storage with real lists: for arbitrary match functions of the two patterns, a group that fails the allowlist (when set) or
   matches the denylist (when set) never enters storage and is never shown — every ingestion path, every history *)
Theorem C10_storage_lists_enforced :
  forall cf a_set allow d_set deny cls g h s reps,
    (a_set = true /\ allow g = false) \/ (d_set = true /\ deny g = true) ->
    run (with_lists cf a_set allow d_set deny) (init_state cls) h = Some (s, reps) ->
    (forall c cl, get s c = Some cl -> get (cl_consumer cl) g = None) /\
    Forall2 (fun nr rep => forall c, ~ mentions_group c g (snd nr) rep) h reps.
Proof. exact storage_lists_enforced. Qed.
Print Assumptions C10_storage_lists_enforced.

(* ... and every request of a group the lists accept is processed exactly as by a storage module without lists *)
Theorem C10_storage_lists_accepted_unfiltered :
  forall cf a_set allow d_set deny now s r,
    (forall g, ingest_group r = Some g -> (a_set = true -> allow g = true) /\ (d_set = true -> deny g = false)) ->
    step (with_lists cf a_set allow d_set deny) now s r = step (no_lists cf) now s r.
Proof. exact storage_lists_accepted_unfiltered. Qed.
Print Assumptions C10_storage_lists_accepted_unfiltered.


(* ---- offsets-topic reader: for ALL key/value byte strings, every request it forwards is for an accepted group ---- *)
Theorem C10_reader_rejected_silent : forall (accept : list Z -> bool) key value o rs al,
  Wire.process_message accept key value o = Wire.Done rs al ->
  Forall (fun r => accept (Wire.req_group r) = true) rs.
Proof. exact reader_rejected_silent. Qed.
Print Assumptions C10_reader_rejected_silent.

Theorem C10_reader_rejected_nothing : forall (accept : list Z -> bool) key value o g,
  Wire.msg_group key = Some g -> accept g = false ->
  exists al, Wire.process_message accept key value o = Wire.Done [] al.
Proof. exact reader_rejected_nothing. Qed.
Print Assumptions C10_reader_rejected_nothing.

Theorem C10_reader_accepted_as_unfiltered : forall (accept : list Z -> bool) key value o g,
  Wire.msg_group key = Some g -> accept g = true ->
  Wire.process_message accept key value o = Wire.process_message (fun _ => true) key value o.
Proof. exact reader_accepted_as_unfiltered. Qed.
Print Assumptions C10_reader_accepted_as_unfiltered.

(* documentation of finding F2: before /repo commit 08882db the group-metadata path ignored the lists *)
Theorem C10_reader_rejected_silent_unrepaired_refuted :
  exists (accept : list Z -> bool) key value o rs al,
    Wire.process_message_gen true false accept key value o = Wire.Done rs al /\
    ~ Forall (fun r => accept (Wire.req_group r) = true) rs.
Proof. exact reader_rejected_silent_unrepaired_refuted. Qed.

(* ---- Zookeeper reader: whatever the /consumers tree holds and however it changes (any sequence of reads with arbitrary
   answers, watch firings, session expiries) no offset or owner request is sent for a rejected group ---- *)
Theorem C10_zk_only_accepted : forall acc evs a,
  In a (snd (zk_run acc zk_init evs)) -> action_ok acc a.
Proof. exact zk_only_accepted. Qed.
Print Assumptions C10_zk_only_accepted.

Theorem C10_zk_rejected_silent : forall acc evs g,
  acc g = false ->
  forall t p off ts order owner,
    ~ In (SetOffset g t p off ts order) (snd (zk_run acc zk_init evs)) /\
    ~ In (SetOwner g t p owner) (snd (zk_run acc zk_init evs)).
Proof. exact zk_rejected_silent. Qed.
Print Assumptions C10_zk_rejected_silent.

Example C10_zk_example :
  snd (quiesce 50 ex_acc ex_tree zk_init) = [SetOffset 1 7 0 81234 894859 12; SetOwner 1 7 0 3]
  /\ map fst (known (fst (quiesce 50 ex_acc ex_tree zk_init))) = [1%positive]
  /\ watches (fst (quiesce 50 ex_acc ex_tree zk_init)) = [WGroupList; WTopicList 1; WPartList 1 7; WOffset 1 7 0].
Proof. exact zk_rejected_silent_example. Qed.

(* ---- notifier: in every history (responses, group-list refreshes, cluster-list updates interleaved for any clusters and
   groups) no Notify call - open or close - goes to a module whose lists reject the group ---- *)
Theorem C10_notifier_rejected_silent : forall mods h j now r m c,
  NotifierProofs.names_distinct mods -> nth_error h j = Some (Notifier.HResponse now r) -> In m mods ->
  Notifier.lists_accept (Notifier.nm_lists m (Notifier.nr_group r)) = false ->
  In c (Notifier.calls_at mods h j) -> Notifier.nc_module c <> Notifier.nm_name m.
Proof. exact notifier_rejected_silent. Qed.
Print Assumptions C10_notifier_rejected_silent.

Theorem C10_notified_module_accepts : forall mods h j now r c,
  NotifierProofs.names_distinct mods -> nth_error h j = Some (Notifier.HResponse now r) -> In c (Notifier.calls_at mods h j) ->
  exists m, In m mods /\ Notifier.nm_name m = Notifier.nc_module c /\
            Notifier.lists_accept (Notifier.nm_lists m (Notifier.nr_group r)) = true.
Proof. exact notified_module_accepts. Qed.
Print Assumptions C10_notified_module_accepts.

(* "exactly when": for a group every module's lists accept, the notifier behaves as if no lists were configured *)
Theorem C10_notifier_accepted_as_unlisted : forall mods st now r,
  (forall m, In m mods -> Notifier.lists_accept (Notifier.nm_lists m (Notifier.nr_group r)) = true) ->
  Notifier.on_response (map NotifierProofs.without_lists mods) st now r = Notifier.on_response mods st now r.
Proof. exact notifier_accepted_as_unlisted. Qed.
Print Assumptions C10_notifier_accepted_as_unlisted.
