From Burrow Require Import ClusterMod.
Example placeholder_C11 : True. Proof. exact I. Qed.
