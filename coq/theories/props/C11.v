(* C11 — broker end offsets recorded are exactly what the brokers answered.
   All statements: every list `l` of (metadata ticker fired?, environment) pairs, i.e. all layouts, all fault
   patterns, any number of consecutive cycles of a fresh module; `en` ranges over the cycles of that run. *)
From Coq Require Import ZArith List Bool.
From Burrow Require Import ClusterMod ClusterModProofs.
Import ListNotations.
Open Scope Z_scope.

(* ---- clause 1: "on each refresh cycle every partition that has a leader is asked of exactly its current leader".
   FULL statement (for the partitions the module has seen in its last complete metadata read):
       forall l en b t p ge ts ps, In en (trace init_state None l) ->
         ghost_now en = Some ge -> e_topics ge = Good ts -> In t ts -> e_parts ge t = Good ps -> In p ps ->
         e_leader (en_env en) t p = Good b -> In (b, t, p) (co_asks (en_out en)).
   FALSE for HEAD (C11_current_leader_asked_refuted, known finding C11:leaderless-at-refresh: a partition that had no
   leader when the metadata was last read is not asked after it gained one, and forces no re-read).  Proved instead:
   the `_partial` iff below (asked <=> Leader succeeded in the last complete read, of the broker Leader names NOW; never
   twice, never two brokers) and C11_current_leader_asked_iff_known, which states the exact staleness in terms of the
   current leaders: a partition with a leader now is missing from the requests iff it had none (or did not exist) in
   the last complete read -- which is this cycle's own read whenever this cycle's refresh completed
   (C11_asked_exactly_leaders_refreshed).  What is missing: a bound on the age of that read (HEAD: the metadata
   ticker; with the repair of C11_repaired_unknown_at_refresh_sets_flag: one cycle). *)
Theorem C11_asked_exactly_leaders_partial : forall l en,
  In en (trace init_state None l) ->
  (forall b t p, In (b, t, p) (co_asks (en_out en)) <->
     exists ge ts ps, ghost_now en = Some ge /\ e_topics ge = Good ts /\ In t ts /\ e_parts ge t = Good ps
       /\ In p ps /\ has_leader ge t p = true /\ e_leader (en_env en) t p = Good b)
  /\ NoDup (co_asks (en_out en))
  /\ (forall b b' t p, In (b, t, p) (co_asks (en_out en)) -> In (b', t, p) (co_asks (en_out en)) -> b = b').
Proof. exact asked_exactly_leaders_run. Qed.

Theorem C11_current_leader_asked_refuted :
  exists l en b t p ge ts ps,
    In en (trace init_state None l)
    /\ ghost_now en = Some ge /\ e_topics ge = Good ts /\ In t ts /\ e_parts ge t = Good ps /\ In p ps
    /\ e_topics (en_env en) = Good ts /\ e_parts (en_env en) t = Good ps
    /\ e_leader (en_env en) t p = Good b
    /\ ~ In (b, t, p) (co_asks (en_out en)).
Proof. exact current_leader_asked_refuted. Qed.

Theorem C11_current_leader_asked_iff_known : forall l en b t p,
  In en (trace init_state None l) -> e_leader (en_env en) t p = Good b ->
  (In (b, t, p) (co_asks (en_out en)) <->
   exists ge ts ps, ghost_now en = Some ge /\ e_topics ge = Good ts /\ In t ts /\ e_parts ge t = Good ps
     /\ In p ps /\ has_leader ge t p = true).
Proof. exact current_leader_asked_iff_known. Qed.

Theorem C11_asked_exactly_leaders_refreshed : forall st e o ts,
  wf st -> cycle st e = Done o -> refreshed st e = Some ts ->
  forall b t p, In (b, t, p) (co_asks o) <->
    In t ts /\ exists ps, e_parts e t = Good ps /\ In p ps /\ e_leader e t p = Good b.
Proof. exact asked_exactly_leaders_refreshed. Qed.

Theorem C11_leaderless_not_asked : forall l en b t p,
  In en (trace init_state None l) -> e_leader (en_env en) t p = Fail -> ~ In (b, t, p) (co_asks (en_out en)).
Proof. exact leaderless_not_asked. Qed.

Theorem C11_answer_to_update : forall l en,
  In en (trace init_state None l) ->
  (forall t p off c, In (t, p, off, c) (co_updates (en_out en)) <->
     exists b ans rest ge ps, In (b, t, p) (co_asks (en_out en)) /\ e_answer (en_env en) b = Good ans
       /\ ans t p = (0, off :: rest)
       /\ ghost_now en = Some ge /\ e_parts ge t = Good ps /\ c = Z.of_nat (length ps))
  /\ NoDup (map upd_key (co_updates (en_out en))).
Proof. exact answer_to_update_run. Qed.

Theorem C11_fault_no_update : forall l en b t p,
  In en (trace init_state None l) ->
  (~ (exists b', In (b', t, p) (co_asks (en_out en))))
  \/ (In (b, t, p) (co_asks (en_out en)) /\ e_answer (en_env en) b = Fail)
  \/ (In (b, t, p) (co_asks (en_out en)) /\ exists ans, e_answer (en_env en) b = Good ans /\ fst (ans t p) <> 0) ->
  forall off c, ~ In (t, p, off, c) (co_updates (en_out en)).
Proof. exact fault_no_update_run. Qed.

Theorem C11_error_sets_flag : forall st e o,
  wf st -> cycle st e = Done o ->
  (fetchMetadata (co_state o) = true <-> partition_error e o \/ unknown_leader e o).
Proof. exact error_sets_flag. Qed.

(* ---- clause 4: "a per-partition error or an unknown leader causes cluster metadata to be re-read on the next cycle".
   FULL statement (an unknown leader at EITHER call site of client.Leader: in generateOffsetRequests, :219, and during
   the refresh itself, :179):
       forall l l1 a b l2, trace init_state None l = l1 ++ a :: b :: l2 ->
         partition_error (en_env a) (en_out a) \/ unknown_leader (en_env a) (en_out a)
         \/ unknown_leader_at_refresh (en_pre a) (en_env a) ->
         fetchMetadata (en_pre b) = true.
   FALSE for HEAD in its third disjunct (C11_unknown_leader_at_refresh_forces_refresh_refuted; the branch at :180 only
   logs).  Proved: the first two disjuncts (`_partial`); C11_error_sets_flag is the exact one-cycle characterisation of
   the flag.  The one-line repair would give the third (C11_repaired_unknown_at_refresh_sets_flag); it is not applied
   because the existing unit test ..._PartialUpdate pins the cleared flag (design_notes/C11.md). *)
Theorem C11_error_forces_refresh_partial : forall l l1 a b l2,
  trace init_state None l = l1 ++ a :: b :: l2 ->
  partition_error (en_env a) (en_out a) \/ unknown_leader (en_env a) (en_out a) ->
  fetchMetadata (en_pre b) = true.
Proof. exact error_forces_refresh. Qed.

Theorem C11_unknown_leader_at_refresh_forces_refresh_refuted :
  exists l l1 a b l2,
    trace init_state None l = l1 ++ a :: b :: l2
    /\ unknown_leader_at_refresh (en_pre a) (en_env a)
    /\ fetchMetadata (en_pre b) = false.
Proof. exact unknown_leader_at_refresh_forces_refresh_refuted. Qed.

Theorem C11_repaired_unknown_at_refresh_sets_flag : forall st e o,
  cycle_repaired st e = Done o -> unknown_leader_at_refresh st e -> fetchMetadata (co_state o) = true.
Proof. exact repaired_unknown_at_refresh_sets_flag. Qed.

Theorem C11_count_bounds_partition : forall l en t p off c,
  (forall x, In x l -> env_ids_ok (snd x)) ->
  In en (trace init_state None l) ->
  In (t, p, off, c) (co_updates (en_out en)) -> 0 <= p < c.
Proof. exact count_bounds_partition. Qed.

Theorem C11_no_crash : forall l st g,
  (forall x, In x l -> env_offsets_ok (snd x)) -> length (trace st g l) = length l.
Proof. exact no_crash. Qed.

Theorem C11_run_entries : forall l en,
  In en (trace init_state None l) ->
  wf (en_pre en) /\ cycle (en_pre en) (en_env en) = Done (en_out en).
Proof. exact run_entries. Qed.

Theorem C11_run_is_trace : forall l st g,
  exists tail,
    run st l = map (fun en => (fetchMetadata (en_pre en), Done (en_out en))) (trace st g l) ++ tail
    /\ (tail = [] \/ exists f, tail = [(f, Crash)]).
Proof. exact run_is_trace. Qed.

(* ---- the storage side (2026-10-02).  HEAD sends every broker-offset update through
   helpers.TimeoutSendStorageRequest(ch, request, 1): a request storage does not take within 1 s is DROPPED (documented
   behaviour of that helper; the return value is ignored).  `sv : storage_beh` says per offered update whether storage
   took it in time (`delivered`); `received sv o` is what the storage module gets.  The clause "every successful answer
   produces exactly one broker-offset update" therefore carries the named hypothesis
       storage_in_time sv o  :=  forall u, In u (co_updates o) -> sv u = true
   ("storage took the request within the timeout").  Without it only soundness holds (C11_stalled_storage_sound). *)
Theorem C11_answer_to_update_delivered : forall l en sv,
  In en (trace init_state None l) ->
  forall t p off c, In (SBrokerOffset (t, p, off, c)) (received sv (en_out en)) <->
     (exists b ans rest ge ps, In (b, t, p) (co_asks (en_out en)) /\ e_answer (en_env en) b = Good ans
        /\ ans t p = (0, off :: rest)
        /\ ghost_now en = Some ge /\ e_parts ge t = Good ps /\ c = Z.of_nat (length ps))
     /\ sv (t, p, off, c) = true.
Proof. exact answer_to_update_delivered. Qed.

Theorem C11_answer_to_update_in_time : forall l en sv,
  In en (trace init_state None l) -> storage_in_time sv (en_out en) ->
  (forall t p off c, In (SBrokerOffset (t, p, off, c)) (received sv (en_out en)) <->
     exists b ans rest ge ps, In (b, t, p) (co_asks (en_out en)) /\ e_answer (en_env en) b = Good ans
        /\ ans t p = (0, off :: rest)
        /\ ghost_now en = Some ge /\ e_parts ge t = Good ps /\ c = Z.of_nat (length ps))
  /\ NoDup (map upd_key (received_updates sv (en_out en))).
Proof. exact answer_to_update_in_time. Qed.

Theorem C11_stalled_storage_sound : forall l en sv,
  In en (trace init_state None l) ->
  (forall u, In (SBrokerOffset u) (received sv (en_out en)) -> In u (co_updates (en_out en)))
  /\ (forall u, In u (co_updates (en_out en)) -> ~ In (SBrokerOffset u) (received sv (en_out en)) -> sv u = false)
  /\ NoDup (map upd_key (received_updates sv (en_out en))).
Proof. exact stalled_storage_sound. Qed.

Theorem C11_received_updates_delivered : forall sv o, received_updates sv o = filter sv (co_updates o).
Proof. exact received_updates_delivered. Qed.

(* the module's trajectory (flag, snapshot, requests to the brokers, what it offers to storage) is independent of
   what storage does *)
Theorem C11_run_s_forget : forall l st, map forget_storage (run_s st l) = run st (map fst l).
Proof. exact run_s_forget. Qed.

Theorem C11_run_s_is_trace : forall l st g,
  exists tail,
    run_s st l = map (fun x => (fetchMetadata (en_pre (fst x)), Done (en_out (fst x), received (snd x) (en_out (fst x)))))
                     (combine (trace st g (map fst l)) (map snd l)) ++ tail
    /\ (tail = [] \/ exists f, tail = [(f, Crash)]).
Proof. exact run_s_is_trace. Qed.

(* non-vacuity of the hypothesis: a storage that is always in time satisfies it on every cycle *)
Example C11_storage_in_time_prompt : forall o, storage_in_time prompt o.
Proof. exact storage_in_time_prompt. Qed.

(* ---- the two assumptions baked into the type `env`, by name (audit 2026-10-02).
   leader_stable x      : client.Leader answers the same at :179 and at :219 within one cycle;
   answers_match_asks x : every OffsetResponse holds exactly the blocks that were asked.
   Under both the general cycle `xcycle` (ClusterMod.v) IS `cycle`, so every theorem above is a theorem about such
   worlds.  Without them: whom the module asks (C11_xasked_exactly: Leader at the LAST REFRESH decides membership,
   Leader NOW names the broker), an omitted block is silent, an unasked successful block is recorded with the
   capacity of an unknown slice as count.  The texts presuppose brokers that answer what they were asked. *)
Theorem C11_xcycle_stable : forall st x,
  leader_stable x -> answers_match_asks x -> xcycle st x = cycle st (x_env x).
Proof. exact xcycle_stable. Qed.

Theorem C11_xrun_plain : forall l st, xrun st (map (fun x => (fst x, plain (snd x))) l) = run st l.
Proof. exact xrun_plain. Qed.

Theorem C11_xasked_exactly : forall st x o,
  wf st -> xcycle st x = Done o ->
  (forall b t p, In (b, t, p) (co_asks o) <->
     exists i, smap_find t (snap (co_state o)) = Some i /\ In p (ti_ids i) /\ x_leader_req x t p = Good b)
  /\ NoDup (co_asks o).
Proof. exact xasked_exactly. Qed.

Theorem C11_xomitted_block_silent : forall st x o b t p,
  wf st -> xcycle st x = Done o -> (forall b', x_extra x b' = []) ->
  In (b, t, p) (co_asks o) -> x_omit x b t p = true ->
  forall off c, ~ In (t, p, off, c) (co_updates o).
Proof. exact xomitted_block_silent. Qed.

Theorem C11_xunasked_block_update : forall st x o b t' p' ans t p off rest,
  xcycle st x = Done o ->
  In (b, t', p') (co_asks o) -> e_answer (x_env x) b = Good ans ->
  In (t, p, (0, off :: rest)) (x_extra x b) -> ~ In (b, t, p) (co_asks o) ->
  In (t, p, off, count_of (snap (co_state o)) t) (co_updates o).
Proof. exact xunasked_block_update. Qed.

(* ---- non-vacuity: concrete runs (definitions in ClusterModProofs.v, evaluated by vm_compute there) *)
Example C11_ex_trace_length : length ex_trace = 7%nat.
Proof. exact ex_trace_length. Qed.

Example C11_asked_exactly_leaders_ex :
  map (fun en => co_asks (en_out en)) (firstn 2 ex_trace)
  = [ [(2, 2, 0); (1, 1, 0); (2, 1, 2)]; [(2, 2, 0); (1, 1, 0); (2, 1, 2)] ].
Proof. exact asked_exactly_leaders_ex. Qed.

Example C11_answer_to_update_ex :
  map (fun en => co_updates (en_out en)) (firstn 2 ex_trace)
  = [ [(2, 0, 20, 1); (1, 0, 100, 3); (1, 2, 300, 3)]; [] ].
Proof. exact answer_to_update_ex. Qed.

Example C11_error_forces_refresh_ex :
  map (fun en => (fetchMetadata (en_pre en), fetchMetadata (co_state (en_out en)))) (firstn 3 ex_trace)
  = [ (true, false); (false, true); (true, false) ].
Proof. exact error_forces_refresh_ex. Qed.

Example C11_env_ids_ok_ex : forall x, In x ex_run -> env_ids_ok (snd x).
Proof. exact env_ids_ok_ex. Qed.

(* the finding's run: p1 of topic 1 has no leader at the metadata read of cycle 0 and one from cycle 1 on *)
Example C11_aud_run_ex :
  map (fun en => (fetchMetadata (en_pre en), fetchMetadata (co_state (en_out en)), co_asks (en_out en)))
      (trace init_state None aud_run)
  = [ (true, false, [(1, 1, 0)]); (false, false, [(1, 1, 0)]); (false, false, [(1, 1, 0)]) ].
Proof. exact aud_run_ex. Qed.

Example C11_x_leader_differs_ex :
  map (fun r => match snd r with Done o => (fetchMetadata (co_state o), co_asks o, co_updates o) | Crash => (false, [], []) end)
      (xrun init_state [ (true, xenv_of_tables (Good [1]) (xex_rows Fail false) [] []) ])
  = [ (true, [(1, 1, 0)], [(1, 0, 10, 2)]) ].
Proof. exact x_leader_differs_ex. Qed.

Example C11_x_unasked_block_ex :
  map (fun r => match snd r with Done o => (fetchMetadata (co_state o), co_asks o, co_updates o) | Crash => (false, [], []) end)
      (xrun init_state [ (true, xenv_of_tables (Good [1]) (xex_rows (Good 1) false) [] [(1, 9, 0, 0, [77])]) ])
  = [ (false, [(1, 1, 0); (1, 1, 1)], [(1, 0, 10, 2); (1, 1, 20, 2); (9, 0, 77, 0)]) ].
Proof. exact x_unasked_block_ex. Qed.

Example C11_x_omitted_ex :
  map (fun r => match snd r with Done o => (fetchMetadata (co_state o), co_asks o, co_updates o) | Crash => (false, [], []) end)
      (xrun init_state [ (true, xenv_of_tables (Good [1]) (xex_rows (Good 1) true) [] []) ])
  = [ (false, [(1, 1, 0); (1, 1, 1)], [(1, 1, 20, 2)]) ].
Proof. exact x_omitted_ex. Qed.

Print Assumptions C11_asked_exactly_leaders_partial.
Print Assumptions C11_current_leader_asked_refuted.
Print Assumptions C11_current_leader_asked_iff_known.
Print Assumptions C11_asked_exactly_leaders_refreshed.
Print Assumptions C11_leaderless_not_asked.
Print Assumptions C11_answer_to_update.
Print Assumptions C11_fault_no_update.
Print Assumptions C11_error_sets_flag.
Print Assumptions C11_error_forces_refresh_partial.
Print Assumptions C11_unknown_leader_at_refresh_forces_refresh_refuted.
Print Assumptions C11_repaired_unknown_at_refresh_sets_flag.
Print Assumptions C11_count_bounds_partition.
Print Assumptions C11_no_crash.
Print Assumptions C11_run_entries.
Print Assumptions C11_run_is_trace.
Print Assumptions C11_answer_to_update_delivered.
Print Assumptions C11_answer_to_update_in_time.
Print Assumptions C11_stalled_storage_sound.
Print Assumptions C11_received_updates_delivered.
Print Assumptions C11_run_s_forget.
Print Assumptions C11_run_s_is_trace.
Print Assumptions C11_xcycle_stable.
Print Assumptions C11_xrun_plain.
Print Assumptions C11_xasked_exactly.
Print Assumptions C11_xomitted_block_silent.
Print Assumptions C11_xunasked_block_update.

(* ---- run-level forms for worlds WITHOUT leader_stable / answers_match_asks (2026-10-02, appended; they lift
   C11_xasked_exactly and the update side of xcycle to every cycle of every run of xrun by induction over the cycle
   list).  `l` is any list of (metadata ticker fired?, xenv); `en` any cycle of xtrace init_state None l (xrun, what
   the driver prints for the sc3 cases, is xtrace without the ghosts: C11_xrun_is_xtrace); xghost_now en = the last
   completely refreshed environment (this cycle's own when its refresh completed). *)

(* (ii) every request of every cycle goes to the broker Leader named at the request site of THAT cycle, for a
   partition that had a leader in the last complete metadata read -- and only those are asked; never twice *)
Theorem C11_xasked_run : forall l en,
  In en (xtrace init_state None l) ->
  (forall b t p, In (b, t, p) (co_asks (xn_out en)) <->
     exists ge ts ps, xghost_now en = Some ge /\ e_topics ge = Good ts /\ In t ts /\ e_parts ge t = Good ps
       /\ In p ps /\ has_leader ge t p = true /\ x_leader_req (xn_env en) t p = Good b)
  /\ NoDup (co_asks (xn_out en))
  /\ (forall b b' t p, In (b, t, p) (co_asks (xn_out en)) -> In (b', t, p) (co_asks (xn_out en)) -> b = b').
Proof. exact xasked_run. Qed.

(* (i) every broker-offset update emitted anywhere in the run carries the first offset of a successful block
   ((0, off :: _)) of a response of THAT cycle for that topic/partition -- an asked block the broker did not omit
   (answered_asked) or a block nobody asked for in a response that arrived (answered_unasked) -- and the partition
   count of the last complete metadata read (0 when that read did not list the topic); and every such block yields
   its update.  No update without an answer, none for an error block, none invented or stale. *)
Theorem C11_xupdate_run : forall l en,
  In en (xtrace init_state None l) ->
  forall t p off c, In (t, p, off, c) (co_updates (xn_out en)) <->
    (answered_asked (xn_env en) (xn_out en) t p off \/ answered_unasked (xn_env en) (xn_out en) t p off)
    /\ ((exists ge ts ps, xghost_now en = Some ge /\ e_topics ge = Good ts /\ In t ts /\ e_parts ge t = Good ps
          /\ c = Z.of_nat (length ps))
        \/ (ghost_find (xghost_now en) t = None /\ c = 0)).
Proof. exact xupdate_run. Qed.

Theorem C11_xno_update_without_answer : forall l en t p,
  In en (xtrace init_state None l) ->
  (forall b, In (b, t, p) (co_asks (xn_out en)) ->
     x_omit (xn_env en) b t p = true
     \/ e_answer (x_env (xn_env en)) b = Fail
     \/ exists ans, e_answer (x_env (xn_env en)) b = Good ans /\ fst (ans t p) <> 0) ->
  (forall b, ~ exists err offs, In (t, p, (err, offs)) (x_extra (xn_env en) b)) ->
  forall off c, ~ In (t, p, off, c) (co_updates (xn_out en)).
Proof. exact xno_update_without_answer. Qed.

Theorem C11_xrun_is_xtrace : forall l st g,
  exists tail,
    xrun st l = map (fun en => (fetchMetadata (xn_pre en), Done (xn_out en))) (xtrace st g l) ++ tail
    /\ (tail = [] \/ exists f, tail = [(f, Crash)]).
Proof. exact xrun_is_xtrace. Qed.

Theorem C11_xtrace_plain : forall l st g,
  map (fun en => (xn_pre en, xn_ghost en, xn_out en)) (xtrace st g (map (fun x => (fst x, plain (snd x))) l))
  = map (fun en => (en_pre en, en_ghost en, en_out en)) (trace st g l).
Proof. exact xtrace_plain. Qed.

(* non-vacuity: a two-cycle run every world of which violates BOTH hypotheses (Leader fails / names another broker at
   the request site; a broker adds an unasked block / omits an asked one), does not crash, asks and records *)
Example C11_xr_run_violates_both :
  forall x, In x (map snd xr_run) -> ~ leader_stable x /\ ~ answers_match_asks x.
Proof. exact xr_run_violates_both. Qed.

Example C11_xr_run_ex :
  map (fun en => (fetchMetadata (xn_pre en), fetchMetadata (co_state (xn_out en)), co_asks (xn_out en), co_updates (xn_out en)))
      (xtrace init_state None xr_run)
  = [ (true, true, [(1, 1, 0)], [(1, 0, 10, 2); (9, 0, 77, 0)]);
      (true, false, [(1, 1, 0); (2, 1, 1)], [(1, 1, 20, 2); (1, 50, 88, 2)]) ].
Proof. exact xr_run_ex. Qed.

Example C11_xr_run_is_xrun :
  xrun init_state xr_run
  = map (fun en => (fetchMetadata (xn_pre en), Done (xn_out en))) (xtrace init_state None xr_run).
Proof. exact xr_run_is_xrun. Qed.

Print Assumptions C11_xasked_run.
Print Assumptions C11_xupdate_run.
Print Assumptions C11_xno_update_without_answer.
Print Assumptions C11_xrun_is_xtrace.
Print Assumptions C11_xtrace_plain.
