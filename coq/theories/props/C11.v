(* C11 — broker end offsets recorded are exactly what the brokers answered.
   All statements: every list `l` of (metadata ticker fired?, environment) pairs, i.e. all layouts, all fault
   patterns, any number of consecutive cycles of a fresh module; `en` ranges over the cycles of that run. *)
From Coq Require Import ZArith List Bool.
From Burrow Require Import ClusterMod ClusterModProofs.
Import ListNotations.
Open Scope Z_scope.

Theorem C11_asked_exactly_leaders : forall l en,
  In en (trace init_state None l) ->
  (forall b t p, In (b, t, p) (co_asks (en_out en)) <->
     exists ge ts ps, ghost_now en = Some ge /\ e_topics ge = Good ts /\ In t ts /\ e_parts ge t = Good ps
       /\ In p ps /\ has_leader ge t p = true /\ e_leader (en_env en) t p = Good b)
  /\ NoDup (co_asks (en_out en))
  /\ (forall b b' t p, In (b, t, p) (co_asks (en_out en)) -> In (b', t, p) (co_asks (en_out en)) -> b = b').
Proof. exact asked_exactly_leaders_run. Qed.

Theorem C11_asked_exactly_leaders_refreshed : forall st e o ts,
  wf st -> cycle st e = Done o -> refreshed st e = Some ts ->
  forall b t p, In (b, t, p) (co_asks o) <->
    In t ts /\ exists ps, e_parts e t = Good ps /\ In p ps /\ e_leader e t p = Good b.
Proof. exact asked_exactly_leaders_refreshed. Qed.

Theorem C11_leaderless_not_asked : forall l en b t p,
  In en (trace init_state None l) -> e_leader (en_env en) t p = Fail -> ~ In (b, t, p) (co_asks (en_out en)).
Proof. exact leaderless_not_asked. Qed.

Theorem C11_answer_to_update : forall l en,
  In en (trace init_state None l) ->
  (forall t p off c, In (t, p, off, c) (co_updates (en_out en)) <->
     exists b ans rest ge ps, In (b, t, p) (co_asks (en_out en)) /\ e_answer (en_env en) b = Good ans
       /\ ans t p = (0, off :: rest)
       /\ ghost_now en = Some ge /\ e_parts ge t = Good ps /\ c = Z.of_nat (length ps))
  /\ NoDup (map upd_key (co_updates (en_out en))).
Proof. exact answer_to_update_run. Qed.

Theorem C11_fault_no_update : forall l en b t p,
  In en (trace init_state None l) ->
  (~ (exists b', In (b', t, p) (co_asks (en_out en))))
  \/ (In (b, t, p) (co_asks (en_out en)) /\ e_answer (en_env en) b = Fail)
  \/ (In (b, t, p) (co_asks (en_out en)) /\ exists ans, e_answer (en_env en) b = Good ans /\ fst (ans t p) <> 0) ->
  forall off c, ~ In (t, p, off, c) (co_updates (en_out en)).
Proof. exact fault_no_update_run. Qed.

Theorem C11_error_sets_flag : forall st e o,
  wf st -> cycle st e = Done o ->
  (fetchMetadata (co_state o) = true <-> partition_error e o \/ unknown_leader e o).
Proof. exact error_sets_flag. Qed.

Theorem C11_error_forces_refresh : forall l l1 a b l2,
  trace init_state None l = l1 ++ a :: b :: l2 ->
  partition_error (en_env a) (en_out a) \/ unknown_leader (en_env a) (en_out a) ->
  fetchMetadata (en_pre b) = true.
Proof. exact error_forces_refresh. Qed.

Theorem C11_count_bounds_partition : forall l en t p off c,
  (forall x, In x l -> env_ids_ok (snd x)) ->
  In en (trace init_state None l) ->
  In (t, p, off, c) (co_updates (en_out en)) -> 0 <= p < c.
Proof. exact count_bounds_partition. Qed.

Theorem C11_no_crash : forall l st g,
  (forall x, In x l -> env_offsets_ok (snd x)) -> length (trace st g l) = length l.
Proof. exact no_crash. Qed.

Theorem C11_run_entries : forall l en,
  In en (trace init_state None l) ->
  wf (en_pre en) /\ cycle (en_pre en) (en_env en) = Done (en_out en).
Proof. exact run_entries. Qed.

Theorem C11_run_is_trace : forall l st g,
  exists tail,
    run st l = map (fun en => (fetchMetadata (en_pre en), Done (en_out en))) (trace st g l) ++ tail
    /\ (tail = [] \/ exists f, tail = [(f, Crash)]).
Proof. exact run_is_trace. Qed.

Print Assumptions C11_asked_exactly_leaders.
Print Assumptions C11_asked_exactly_leaders_refreshed.
Print Assumptions C11_leaderless_not_asked.
Print Assumptions C11_answer_to_update.
Print Assumptions C11_fault_no_update.
Print Assumptions C11_error_sets_flag.
Print Assumptions C11_error_forces_refresh.
Print Assumptions C11_count_bounds_partition.
Print Assumptions C11_no_crash.
Print Assumptions C11_run_entries.
Print Assumptions C11_run_is_trace.
