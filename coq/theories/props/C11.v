(* C11 — broker end offsets recorded are exactly what the brokers answered.
   All statements: every list `l` of (metadata ticker fired?, environment) pairs, i.e. all layouts, all fault
   patterns, any number of consecutive cycles of a fresh module; `en` ranges over the cycles of that run. *)
From Coq Require Import ZArith List Bool.
From Burrow Require Import ClusterMod ClusterModProofs.
Import ListNotations.
Open Scope Z_scope.

Theorem C11_asked_exactly_leaders : forall l en,
  In en (trace init_state None l) ->
  (forall b t p, In (b, t, p) (co_asks (en_out en)) <->
     exists ge ts ps, ghost_now en = Some ge /\ e_topics ge = Good ts /\ In t ts /\ e_parts ge t = Good ps
       /\ In p ps /\ has_leader ge t p = true /\ e_leader (en_env en) t p = Good b)
  /\ NoDup (co_asks (en_out en))
  /\ (forall b b' t p, In (b, t, p) (co_asks (en_out en)) -> In (b', t, p) (co_asks (en_out en)) -> b = b').
Proof. exact asked_exactly_leaders_run. Qed.

Theorem C11_asked_exactly_leaders_refreshed : forall st e o ts,
  wf st -> cycle st e = Done o -> refreshed st e = Some ts ->
  forall b t p, In (b, t, p) (co_asks o) <->
    In t ts /\ exists ps, e_parts e t = Good ps /\ In p ps /\ e_leader e t p = Good b.
Proof. exact asked_exactly_leaders_refreshed. Qed.

Theorem C11_leaderless_not_asked : forall l en b t p,
  In en (trace init_state None l) -> e_leader (en_env en) t p = Fail -> ~ In (b, t, p) (co_asks (en_out en)).
Proof. exact leaderless_not_asked. Qed.

Theorem C11_answer_to_update : forall l en,
  In en (trace init_state None l) ->
  (forall t p off c, In (t, p, off, c) (co_updates (en_out en)) <->
     exists b ans rest ge ps, In (b, t, p) (co_asks (en_out en)) /\ e_answer (en_env en) b = Good ans
       /\ ans t p = (0, off :: rest)
       /\ ghost_now en = Some ge /\ e_parts ge t = Good ps /\ c = Z.of_nat (length ps))
  /\ NoDup (map upd_key (co_updates (en_out en))).
Proof. exact answer_to_update_run. Qed.

Theorem C11_fault_no_update : forall l en b t p,
  In en (trace init_state None l) ->
  (~ (exists b', In (b', t, p) (co_asks (en_out en))))
  \/ (In (b, t, p) (co_asks (en_out en)) /\ e_answer (en_env en) b = Fail)
  \/ (In (b, t, p) (co_asks (en_out en)) /\ exists ans, e_answer (en_env en) b = Good ans /\ fst (ans t p) <> 0) ->
  forall off c, ~ In (t, p, off, c) (co_updates (en_out en)).
Proof. exact fault_no_update_run. Qed.

Theorem C11_error_sets_flag : forall st e o,
  wf st -> cycle st e = Done o ->
  (fetchMetadata (co_state o) = true <-> partition_error e o \/ unknown_leader e o).
Proof. exact error_sets_flag. Qed.

Theorem C11_error_forces_refresh : forall l l1 a b l2,
  trace init_state None l = l1 ++ a :: b :: l2 ->
  partition_error (en_env a) (en_out a) \/ unknown_leader (en_env a) (en_out a) ->
  fetchMetadata (en_pre b) = true.
Proof. exact error_forces_refresh. Qed.

Theorem C11_count_bounds_partition : forall l en t p off c,
  (forall x, In x l -> env_ids_ok (snd x)) ->
  In en (trace init_state None l) ->
  In (t, p, off, c) (co_updates (en_out en)) -> 0 <= p < c.
Proof. exact count_bounds_partition. Qed.

Theorem C11_no_crash : forall l st g,
  (forall x, In x l -> env_offsets_ok (snd x)) -> length (trace st g l) = length l.
Proof. exact no_crash. Qed.

Theorem C11_run_entries : forall l en,
  In en (trace init_state None l) ->
  wf (en_pre en) /\ cycle (en_pre en) (en_env en) = Done (en_out en).
Proof. exact run_entries. Qed.

Theorem C11_run_is_trace : forall l st g,
  exists tail,
    run st l = map (fun en => (fetchMetadata (en_pre en), Done (en_out en))) (trace st g l) ++ tail
    /\ (tail = [] \/ exists f, tail = [(f, Crash)]).
Proof. exact run_is_trace. Qed.

(* ---- the storage side (2026-10-02).  HEAD sends every broker-offset update through
   helpers.TimeoutSendStorageRequest(ch, request, 1): a request storage does not take within 1 s is DROPPED (documented
   behaviour of that helper; the return value is ignored).  `sv : storage_beh` says per offered update whether storage
   took it in time (`delivered`); `received sv o` is what the storage module gets.  The clause "every successful answer
   produces exactly one broker-offset update" therefore carries the named hypothesis
       storage_in_time sv o  :=  forall u, In u (co_updates o) -> sv u = true
   ("storage took the request within the timeout").  Without it only soundness holds (C11_stalled_storage_sound). *)
Theorem C11_answer_to_update_delivered : forall l en sv,
  In en (trace init_state None l) ->
  forall t p off c, In (SBrokerOffset (t, p, off, c)) (received sv (en_out en)) <->
     (exists b ans rest ge ps, In (b, t, p) (co_asks (en_out en)) /\ e_answer (en_env en) b = Good ans
        /\ ans t p = (0, off :: rest)
        /\ ghost_now en = Some ge /\ e_parts ge t = Good ps /\ c = Z.of_nat (length ps))
     /\ sv (t, p, off, c) = true.
Proof. exact answer_to_update_delivered. Qed.

Theorem C11_answer_to_update_in_time : forall l en sv,
  In en (trace init_state None l) -> storage_in_time sv (en_out en) ->
  (forall t p off c, In (SBrokerOffset (t, p, off, c)) (received sv (en_out en)) <->
     exists b ans rest ge ps, In (b, t, p) (co_asks (en_out en)) /\ e_answer (en_env en) b = Good ans
        /\ ans t p = (0, off :: rest)
        /\ ghost_now en = Some ge /\ e_parts ge t = Good ps /\ c = Z.of_nat (length ps))
  /\ NoDup (map upd_key (received_updates sv (en_out en))).
Proof. exact answer_to_update_in_time. Qed.

Theorem C11_stalled_storage_sound : forall l en sv,
  In en (trace init_state None l) ->
  (forall u, In (SBrokerOffset u) (received sv (en_out en)) -> In u (co_updates (en_out en)))
  /\ (forall u, In u (co_updates (en_out en)) -> ~ In (SBrokerOffset u) (received sv (en_out en)) -> sv u = false)
  /\ NoDup (map upd_key (received_updates sv (en_out en))).
Proof. exact stalled_storage_sound. Qed.

Theorem C11_received_updates_delivered : forall sv o, received_updates sv o = filter sv (co_updates o).
Proof. exact received_updates_delivered. Qed.

(* the module's trajectory (flag, snapshot, requests to the brokers, what it offers to storage) is independent of
   what storage does *)
Theorem C11_run_s_forget : forall l st, map forget_storage (run_s st l) = run st (map fst l).
Proof. exact run_s_forget. Qed.

Theorem C11_run_s_is_trace : forall l st g,
  exists tail,
    run_s st l = map (fun x => (fetchMetadata (en_pre (fst x)), Done (en_out (fst x), received (snd x) (en_out (fst x)))))
                     (combine (trace st g (map fst l)) (map snd l)) ++ tail
    /\ (tail = [] \/ exists f, tail = [(f, Crash)]).
Proof. exact run_s_is_trace. Qed.

(* non-vacuity of the hypothesis: a storage that is always in time satisfies it on every cycle *)
Example C11_storage_in_time_prompt : forall o, storage_in_time prompt o.
Proof. exact storage_in_time_prompt. Qed.

Print Assumptions C11_asked_exactly_leaders.
Print Assumptions C11_asked_exactly_leaders_refreshed.
Print Assumptions C11_leaderless_not_asked.
Print Assumptions C11_answer_to_update.
Print Assumptions C11_fault_no_update.
Print Assumptions C11_error_sets_flag.
Print Assumptions C11_error_forces_refresh.
Print Assumptions C11_count_bounds_partition.
Print Assumptions C11_no_crash.
Print Assumptions C11_run_entries.
Print Assumptions C11_run_is_trace.
Print Assumptions C11_answer_to_update_delivered.
Print Assumptions C11_answer_to_update_in_time.
Print Assumptions C11_stalled_storage_sound.
Print Assumptions C11_received_updates_delivered.
Print Assumptions C11_run_s_forget.
Print Assumptions C11_run_s_is_trace.
