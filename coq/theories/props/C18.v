From Burrow Require Import Http ConfigRead ConfigReadProofs.
From BurrowGen Require Import RouteTable ReadSets RespFields.
Require Import List ZArith Bool String.
Import ListNotations.

(* C18 -- no HTTP response reveals a configured password, as NON-INTERFERENCE: responses do not depend on the
   values stored at sasl.<n>.password (n possibly dotted: nested profiles) / notifier.<n>.password.

   cfg, cfg'  : any two configuration trees with the same shape, keys and values except at password paths
   route      : any handler name;  ps : any parameter list (any bytes: dots, upper case, empty ...)
   b          : any storage/evaluator backend;  render : ANY function from (handler, parameters, backend,
                observations) to a response of any type R -- the response may use everything the handler's
                reads return, in any way
   to_string, leaf_keys, leaf_kids : any behaviour of spf13/cast on scalars. *)

(* once and for all: a table accepted by the checker gives non-interference *)
Theorem C18_noninterference :
  forall (to_string : value -> bytes) (leaf_keys : value -> list bytes)
         (leaf_kids : value -> list (bytes * option value)) (tbl : list rrow),
  reads_avoid_passwords tbl = true ->
  forall (R : Type) (render : string -> params -> backend -> renv -> R)
         (cfg cfg' : tree) (route : string) (ps : params) (b : backend),
  agree_except_passwords cfg cfg' ->
  respond to_string leaf_keys leaf_kids render tbl cfg route ps b
  = respond to_string leaf_keys leaf_kids render tbl cfg' route ps b.
Proof. exact noninterference. Qed.
Print Assumptions C18_noninterference.

(* per run: the table regenerated from /repo's working tree is accepted *)
Theorem C18_reads_obligation : reads_avoid_passwords ReadSets.table = true.
Proof. vm_compute. reflexivity. Qed.
Print Assumptions C18_reads_obligation.

(* per run: every field of every response literal is fed by something the translator understands *)
Theorem C18_fields_obligation : resp_fields_ok RespFields.structs RespFields.feeds ReadSets.table = true.
Proof. vm_compute. reflexivity. Qed.
Print Assumptions C18_fields_obligation.

(* hence, for the handlers of this tree: *)
Theorem C18_burrow_noninterference :
  forall (to_string : value -> bytes) (leaf_keys : value -> list bytes)
         (leaf_kids : value -> list (bytes * option value))
         (R : Type) (render : string -> params -> backend -> renv -> R)
         (cfg cfg' : tree) (route : string) (ps : params) (b : backend),
  agree_except_passwords cfg cfg' ->
  respond to_string leaf_keys leaf_kids render ReadSets.table cfg route ps b
  = respond to_string leaf_keys leaf_kids render ReadSets.table cfg' route ps b.
Proof. exact (fun ts lk ld => noninterference ts lk ld ReadSets.table C18_reads_obligation). Qed.
Print Assumptions C18_burrow_noninterference.

(* per run: every registration of the regenerated route table is analysed and names a handler the reads pass really
   walked (a handler that reads nothing is in ReadSets.walked; one the pass never entered is not), and the NotFound /
   default handler's ServeHTTP was walked.  Without it the theorem above would hold VACUOUSLY for an unwalked handler
   (its observation would be the package-wide rows only). *)
Theorem C18_all_route_handlers_walked :
  route_handlers_walked RouteTable.table RouteTable.router_opts ReadSets.walked = true.
Proof. vm_compute. reflexivity. Qed.
Print Assumptions C18_all_route_handlers_walked.

(* hence the statement about the handlers that answer requests: every row of the route table names a walked handler, and
   for it the response does not depend on password values; likewise the default (NotFound) handler *)
Theorem C18_registered_routes_noninterference :
  forall (m p : string) (segs : list seg) (h reg : string),
  In (RtRow m p segs h reg) RouteTable.table ->
  In h ReadSets.walked /\
  forall (to_string : value -> bytes) (leaf_keys : value -> list bytes)
         (leaf_kids : value -> list (bytes * option value))
         (R : Type) (render : string -> params -> backend -> renv -> R)
         (cfg cfg' : tree) (ps : params) (b : backend),
  agree_except_passwords cfg cfg' ->
  respond to_string leaf_keys leaf_kids render ReadSets.table cfg h ps b
  = respond to_string leaf_keys leaf_kids render ReadSets.table cfg' h ps b.
Proof.
  exact (fun m p segs h reg I =>
    conj (route_handlers_walked_row _ _ _ m p segs h reg C18_all_route_handlers_walked I)
         (fun ts lk ld R render cfg cfg' ps b =>
            noninterference ts lk ld ReadSets.table C18_reads_obligation R render cfg cfg' h ps b)).
Qed.
Print Assumptions C18_registered_routes_noninterference.

Theorem C18_no_unanalysed_registration :
  forall pos why, ~ In (RtUnknown pos why) RouteTable.table.
Proof. exact (fun pos why => route_handlers_walked_no_unknown _ _ _ pos why C18_all_route_handlers_walked). Qed.
Print Assumptions C18_no_unanalysed_registration.

Theorem C18_default_handler_walked :
  RouteTable.router_opts <> [] -> In "ServeHTTP"%string ReadSets.walked.
Proof. exact (route_handlers_walked_default _ _ _ C18_all_route_handlers_walked). Qed.
Print Assumptions C18_default_handler_walked.

(* the response is the response of the configuration with every password replaced by anything -- in particular
   it is computed from the configuration with all passwords ERASED, so it can contain a password only by
   coincidence with something else it is allowed to show *)
Theorem C18_burrow_ignores_passwords :
  forall (to_string : value -> bytes) (leaf_keys : value -> list bytes)
         (leaf_kids : value -> list (bytes * option value))
         (R : Type) (render : string -> params -> backend -> renv -> R)
         (f : value -> value) (cfg : tree) (route : string) (ps : params) (b : backend),
  respond to_string leaf_keys leaf_kids render ReadSets.table cfg route ps b
  = respond to_string leaf_keys leaf_kids render ReadSets.table (set_passwords f cfg) route ps b.
Proof. exact (fun ts lk ld => respond_ignores_passwords ts lk ld ReadSets.table C18_reads_obligation). Qed.
Print Assumptions C18_burrow_ignores_passwords.

Theorem C18_burrow_response_of_erased :
  forall (to_string : value -> bytes) (leaf_keys : value -> list bytes)
         (leaf_kids : value -> list (bytes * option value))
         (R : Type) (render : string -> params -> backend -> renv -> R)
         (cfg : tree) (route : string) (ps : params) (b : backend),
  respond to_string leaf_keys leaf_kids render ReadSets.table cfg route ps b
  = respond to_string leaf_keys leaf_kids render ReadSets.table (erase_passwords cfg) route ps b.
Proof. exact (fun ts lk ld => respond_of_erased ts lk ld ReadSets.table C18_reads_obligation). Qed.
Print Assumptions C18_burrow_response_of_erased.

(* what an accepted row can touch: whatever fills its holes, no key it reads is a password path (scalar/keys)
   or has a password path at or below it (children/subtree) *)
Theorem C18_row_ok_sound :
  forall (to_string : value -> bytes) (r : rrow) (ps : params) (env : renv) (key : bytes),
  row_ok r = true -> In key (inst to_string ps env (row_pat r)) -> key_safe (row_kind r) key.
Proof. exact row_ok_sound. Qed.
Print Assumptions C18_row_ok_sound.

(* ---- non-vacuity ------------------------------------------------------------------------------------ *)

(* two different configurations that agree except for their two passwords (one key spelt "Password") *)
Example C18_hypothesis_satisfiable : agree_except_passwords ex_a ex_b /\ ex_a <> ex_b.
Proof. exact (conj ex_agree ex_differ). Qed.

(* a table of the real table's shape (parameter holes, client-profile -> sasl indirection, keys-only map read,
   extras three segments deep, a package-wide row) is accepted, and it observes configuration values *)
Example C18_benign_table_accepted :
  reads_avoid_passwords ex_good_table = true /\
  ex_observe ex_good_table ex_a "h"%string [(pb "name", pb "CP")]
  = [(1%nat, [ResKeys [pb "mail"]]);
     (2%nat, [ResVal (Some (VStr (pb "prof")))]);
     (3%nat, [ResBool true]);
     (4%nat, [ResVal (Some (VStr (pb "kafka")))]);
     (5%nat, [ResKids [(pb "k", Some (VStr (pb "v")))]]);
     (6%nat, [ResTree None])].
Proof. exact (conj ex_good_accepted ex_good_observes). Qed.

(* the checker is sharp: each of these tables is rejected AND tells the two configurations apart *)
Example C18_password_read_refuted : ex_leaks ex_bad_direct [(pb "name", pb "prof")].
Proof. exact ex_bad_direct_refuted. Qed.
Example C18_dotted_parameter_refuted : ex_leaks ex_bad_dotted [(pb "name", pb "Mail.PASSWORD")].
Proof. exact ex_bad_dotted_refuted. Qed.
Example C18_profile_subtree_refuted : ex_leaks ex_bad_subtree [(pb "name", pb "prof")].
Proof. exact ex_bad_subtree_refuted. Qed.
Example C18_all_settings_refuted : ex_leaks ex_bad_all [].
Proof. exact ex_bad_all_refuted. Qed.
Example C18_module_children_refuted : ex_leaks ex_bad_children [(pb "name", pb "mail")].
Proof. exact ex_bad_children_refuted. Qed.
Example C18_indirection_refuted : ex_leaks ex_bad_indirect [(pb "field", pb "password")].
Proof. exact ex_bad_indirect_refuted. Qed.
Example C18_package_row_refuted : ex_leaks ex_bad_package [].
Proof. exact ex_bad_package_refuted. Qed.
(* nested profile names (sasl.prod.east inside sasl.prod): the child's password is a password path, two
   configurations that differ only there agree_except_passwords, and a children read of sasl.<p>.east is rejected
   (and leaks) although the same shape below notifier.<n>.extras is accepted *)
Example C18_nested_profile_hypothesis :
  agree_except_passwords (ex_nest "tango") (ex_nest "foxtrot") /\ ex_nest "tango" <> ex_nest "foxtrot".
Proof. exact ex_nest_agree. Qed.
Example C18_nested_profile_refuted :
  reads_avoid_passwords ex_bad_nested = false /\
  ex_observe ex_bad_nested (ex_nest "tango") "h"%string [(pb "name", pb "prod")]
  <> ex_observe ex_bad_nested (ex_nest "foxtrot") "h"%string [(pb "name", pb "prod")].
Proof. exact ex_bad_nested_refuted. Qed.
Example C18_extras_accepted :
  reads_avoid_passwords [RRow 1 "h" KChildren [PFix "notifier."; PParam "name"; PFix ".extras"] "viper.GetStringMapString" "" ""] = true.
Proof. exact ex_extras_accepted. Qed.
Example C18_unknown_rejected :
  reads_avoid_passwords [RRow 1 "h" KScalar [PFix "storage."; PUnknown "call f"; PFix ".x"] "viper.GetString" "" ""] = false
  /\ reads_avoid_passwords [RRow 1 "h" KUnknown [] "viper.Frobnicate" "" ""] = false.
Proof. exact ex_unknown_rejected. Qed.

(* the real table is not empty and does read below the two password sections *)
Example C18_table_nontrivial :
  (100 <=? Z.of_nat (List.length ReadSets.table))%Z = true /\
  existsb (fun r => match row_pat r with PFix s :: _ => String.eqb s "sasl." | _ => false end) ReadSets.table = true /\
  existsb (fun r => match row_pat r with PFix s :: _ => String.eqb s "notifier." | _ => false end) ReadSets.table = true.
Proof. vm_compute. repeat split; reflexivity. Qed.
