(* C08 - storage stays safe, ordered and snapshot-consistent under concurrency.
   Level: proof (partial).  Proved at LOCK granularity (a handler is atomic between two lock operations); what the
   Go runtime owns below that (memory model, word tearing, the concurrent-map fault) is covered only through the
   lockset theorem over the access table regenerated from inmemory.go on every run. *)
From Coq Require Import ZArith List Bool String NArith.
From Burrow Require Import Int64 Eval AMap Ring Storage Lockset LocksetProofs StorageConc StorageConcProofs StorageConcLin.
From BurrowGen Require Import LocksetTable RouterTable.
Import ListNotations.
Open Scope list_scope.

(* ============================================================================================== *)
(* (b) data-race freedom: lockset theorem + per-run table obligation                               *)
(* ============================================================================================== *)

(* generic: a table that passes [race_free] admits, in every schedule of lock acquisitions / releases / accesses
   that respects the table, no two conflicting accesses (same object, same location class, one a write) by two
   different workers *)
Theorem lockset_sound :
  forall (keyed : string -> bool) (tbl : list row) (cluster_of : Z -> Z) (router : Z -> nat),
    race_free keyed tbl = true ->
    forall h, reachable keyed tbl cluster_of router h -> ~ race keyed tbl cluster_of router h.
Proof. exact lockset_sound_proof. Qed.
Print Assumptions lockset_sound.

(* per run: the table regenerated from the working tree passes (keyed-ness of a handler is read off the router table) *)
Theorem lockset_table_race_free : race_free (handler_keyed routes handlers) table = true.
Proof. vm_compute. reflexivity. Qed.
Print Assumptions lockset_table_race_free.

(* the discipline of the tree before the C08 repairs fails the same checker (findings F6(i), F6(ii)) ... *)
Theorem lockset_old_discipline_refuted :
  race_free (fun _ => true) old_rows = false /\ length (bad_pairs (fun _ => true) old_rows) = 4%nat.
Proof. exact old_discipline_refuted_proof. Qed.
Print Assumptions lockset_old_discipline_refuted.

(* ... and is a race of the step semantics (non-vacuity of [race]) *)
Theorem lockset_old_discipline_race_refuted :
  exists h, reachable (fun _ => true) old_rows (fun _ => 1%Z) (fun _ => O) h /\
            race (fun _ => true) old_rows (fun _ => 1%Z) (fun _ => O) h.
Proof. exact old_discipline_race_proof. Qed.
Print Assumptions lockset_old_discipline_race_refuted.

(* what a table that passes says about replies and blocking: (1) the only references into shared storage that ever reach a
   reply / a channel / foreign code are *protocol.Lag pointers; (2) no handler writes a Lag value reachable from storage
   (the synthetic reply-reader row, which holds no lock, would conflict); (3) no channel operation happens under a lock *)
Theorem lockset_reply_alias_free_generic :
  forall keyed tbl,
    race_free keyed tbl = true -> existsb is_reply_reader tbl = true ->
    (forall r ty, In r tbl -> r_class r = CEscape ty -> ty = "*protocol.Lag"%string) /\
    (forall r, In r tbl -> r_class r = CLagValue -> r_rw r = R) /\
    (forall r what, In r tbl -> r_class r <> CBlocking what).
Proof. exact reply_alias_free_proof. Qed.
Print Assumptions lockset_reply_alias_free_generic.

(* per run: the regenerated table contains the reply-reader row, so the three clauses hold of it *)
Theorem lockset_reply_alias_free :
  existsb is_reply_reader table = true /\
  (forall r ty, In r table -> r_class r = CEscape ty -> ty = "*protocol.Lag"%string) /\
  (forall r, In r table -> r_class r = CLagValue -> r_rw r = R) /\
  (forall r what, In r table -> r_class r <> CBlocking what).
Proof.
  assert (H : existsb is_reply_reader table = true) by (vm_compute; reflexivity).
  split; [exact H|]. apply (reply_alias_free_proof (handler_keyed routes handlers) table); [vm_compute; reflexivity | exact H].
Qed.
Print Assumptions lockset_reply_alias_free.

(* ============================================================================================== *)
(* deadlock freedom from the lock order of the table                                               *)
(* ============================================================================================== *)

(* per run: every acquisition of the regenerated table requests a lock of a class ranked above all it holds *)
Theorem lock_order_table_ok : lock_order_ok acquires = true.
Proof. vm_compute. reflexivity. Qed.
Print Assumptions lock_order_table_ok.

Theorem lock_order_ok_rank :
  forall acqs, lock_order_ok acqs = true ->
    exists rk : lockc -> nat, forall a, In a acqs -> forall l m, In (l, m) (a_before a) -> (rk l < rk (a_class a))%nat.
Proof. exact lock_order_ok_rank_proof. Qed.
Print Assumptions lock_order_ok_rank.

(* generic: under a ranked acquisition order, while somebody waits either a waiter can take its lock or a lock is
   held by a worker that is not waiting (no cycle of waiters) *)
Theorem lock_order_progress :
  forall n rk holds waits,
    respects n rk holds waits ->
    (exists w, (w < n)%nat /\ waits w <> None) ->
    exists w, (w < n)%nat /\
      ((exists l m, waits w = Some (l, m) /\ can_acquire n holds w l m) \/ (waits w = None /\ holds w <> [])).
Proof. exact lock_order_progress_proof. Qed.
Print Assumptions lock_order_progress.

(* ============================================================================================== *)
(* (c) router                                                                                      *)
(* ============================================================================================== *)
Theorem router_group_keyed_complete :
  forall constants routes handlers problems tbl,
    router_check constants routes handlers problems tbl = true ->
    (forall c h, In (c, h) handlers -> writes_own_group tbl h = true -> route_of routes c = Some RHashed) /\
    (forall c, In c constants ->
       (route_of routes c = Some RAny \/ route_of routes c = Some RHashed) /\ exists h, In (c, h) handlers) /\
    (forall c h, In (c, h) handlers -> In c constants).
Proof. exact router_group_keyed_complete_proof. Qed.
Print Assumptions router_group_keyed_complete.

Theorem router_table_ok : router_check constants routes handlers problems table = true.
Proof. vm_compute. reflexivity. Qed.
Print Assumptions router_table_ok.

(* the model's notion of a group-keyed request is exactly what mainLoop hashes *)
Theorem router_matches_model :
  forall r : req, (keyed_group r <> None) <-> route_of routes (req_constant r) = Some RHashed.
Proof. intros r. destruct r; vm_compute; split; congruence. Qed.
Print Assumptions router_matches_model.

(* ============================================================================================== *)
(* (a) interleaving safety: all schedules, any number of workers and requests                      *)
(* ============================================================================================== *)

(* no crash: from any storage state, for every assignment of requests to workers the router can produce (same
   (cluster, group) => same queue) with well-formed broker requests (0 <= partition < count), and every schedule.
   The hypothesis 1 <= intervals is discharged by the code itself: InMemoryStorage.Configure refuses a storage module with
   fewer than one interval (/repo c110ef6; C19's configuration model has the site StorageIntervals), so no accepted
   configuration violates it; the schedule probe ties this (corpus/C08 last case: intervals = 0 => CONFIG-REFUSED on both
   sides).  Before c110ef6 Configure accepted 0 and the first broker offset panicked (ring.New(0) is nil): the model still
   shows that crash when run outside the hypothesis (conc_no_crash_needs_intervals below), which is why the hypothesis is
   there.  The sequential theorems of C01/C02 carry the same hypothesis. *)
Theorem conc_no_crash :
  forall cf now st queues prios sched,
    (1 <= cf_intervals cf)%nat ->
    wf_queues queues ->
    g_crashed (fst (sched_run cf now true (init_g st queues prios) sched)) = false.
Proof. intros cf now st queues prios sched HN. exact (conc_no_crash_proof cf now HN st queues prios sched). Qed.
Print Assumptions conc_no_crash.

(* the hypothesis is needed: one well-formed broker request, intervals = 0 => the model crashes (as the real code did
   before c110ef6 made Configure refuse that value) *)
Example conc_no_crash_needs_intervals :
  wf_queues [[SetBrokerOffset 1 1 0 1 50]] /\
  g_crashed (fst (sched_run (mkConfig 0 100000 0 (fun _ => true)) w_now true
                            (init_g (init_state [1%Z]) [[SetBrokerOffset 1 1 0 1 50]] []) [0; 0]%nat)) = true.
Proof. exact crash_at_zero_intervals. Qed.

(* before commit 54faa50 it was false: deleteTopic / commit / re-creation with fewer partitions / fetch (F6(iii));
   the witness is replayed on the real code by corpus/C08/cases.txt *)
Theorem conc_crash_refuted :
  wf_queues w_queues /\
  g_crashed (fst (sched_run w_cf w_now false (init_g (pre_state [1%Z] w_pre) w_queues []) w_sched)) = true /\
  g_crashed (fst (sched_run w_cf w_now true (init_g (pre_state [1%Z] w_pre) w_queues []) w_sched)) = false.
Proof. split; [exact w_queues_wf | exact crash_before_fix]. Qed.
Print Assumptions conc_crash_refuted.

(* deadlock freedom of the MODEL at lock granularity: while work remains some worker is enabled.
   What this proves, honestly: it holds for every gstate, reachable or not, and for a structural reason - in StorageConc a
   parked handler holds at most the consumer-list lock and then waits for a group lock, which no parked handler holds
   (releases happen inside steps; nothing is ever requested while a group or broker lock is held).  It is therefore a
   statement about the SHAPE the model gives the handlers, and it is only as good as that shape is the code's.  What ties
   the shape to the code: (i) lock_order_table_ok + lock_order_progress over the acquisition table regenerated from
   inmemory.go (no lock is requested while holding one of the same or a higher class: no cycle of waiters, also under Go's
   writer preference); (ii) the scheduler probe, which compares every step's acquired lock with [wants], reports a
   request whose lock is held by a parked worker as `blocked` exactly where [others_stop] does, and reports DEADLOCK when
   work remains and nothing is enabled; (iii) the translator's CBlocking rows: a channel send / receive / range while a
   storage lock is held (e.g. a reply sent under a lock to a requester that has gone away) fails race_free - on HEAD all
   six `request.Reply <- x` come after the unlocks (no such row; lockset_reply_alias_free's third clause). *)
Theorem conc_deadlock_free :
  forall gs : gstate, unfinished gs = true -> exists i, enabled gs i = true.
Proof. exact conc_deadlock_free_proof. Qed.
Print Assumptions conc_deadlock_free.

(* ---- group order ----
   FULL statement of DESIGN 4.8 (not provable, see conc_group_linearisable_refuted): the final state of a group equals
   the sequential Storage.step fold over its requests interleaved with SOME linearisation of the broker / deletion
   requests.  What is proved instead (conc_group_order_partial = the next three theorems together):
     (1) all requests of a (cluster, group) are with ONE worker in every reachable state,
     (2) a worker takes its requests in submission order, one at a time (its queue is always a suffix of the queue it
         was given; a request starts only when the worker is idle),
     (3) the state of a group is changed only by steps of requests keyed on that group (hence by (1), (2) in
         submission order, never overlapping) or by deleteTopic's visit of the group, which removes that topic and
         nothing else,
     (4) a request whose steps are not interrupted is exactly Storage.step (run_alone_refines, below). *)
Theorem conc_group_one_worker_partial :
  forall cf now st queues prios sched,
    (1 <= cf_intervals cf)%nat ->
    wf_queues queues ->
    let gs := fst (sched_run cf now true (init_g st queues prios) sched) in
    forall i j wi wj c g, nth_error (g_ws gs) i = Some wi -> nth_error (g_ws gs) j = Some wj ->
      concerns wi c g -> concerns wj c g -> i = j.
Proof. intros cf now st queues prios sched HN. exact (conc_group_one_worker_proof cf now HN st queues prios sched). Qed.
Print Assumptions conc_group_one_worker_partial.

Theorem conc_group_fifo_partial :
  forall cf now guarded sched gs gs' ts,
    sched_run cf now guarded gs sched = (gs', ts) ->
    forall j w', nth_error (g_ws gs') j = Some w' ->
      exists w, nth_error (g_ws gs) j = Some w /\
                (exists pre, w_queue w = pre ++ w_queue w') /\      (* submission order *)
                (exists l, w_out w' = w_out w ++ l).                (* delivered replies are never altered *)
Proof. exact sched_run_fifo. Qed.
Print Assumptions conc_group_fifo_partial.

Theorem conc_group_frame_partial :
  forall cf now guarded gs i gs' t c g,
    sched_step cf now guarded gs i = (gs', t) ->
    group_state (g_st gs') c g = group_state (g_st gs) c g \/
    exists w k, nth_error (g_ws gs) i = Some w /\ w_run w = Some k /\
      (cont_group k = Some (c, g) \/
       exists tp p, k = KDelT2 c tp (g :: p) /\
                    group_state (g_st gs') c g = option_map (drop_topic tp) (group_state (g_st gs) c g)).
Proof. exact sched_step_frame. Qed.
Print Assumptions conc_group_frame_partial.

(* FINAL STATE (the strongest true statement found).  Full linearisability is false only through deleteTopic
   (conc_group_linearisable_refuted below).  When no deleteTopic of cluster c is among the requests, then for every group
   (c, g), after ANY schedule of ANY number of workers: the cluster's broker map and - whenever the group's worker is not
   in the middle of one of its requests, in particular at the end - the group's state are exactly what the SEQUENTIAL model
   produces on one history [lin] that consists of the cluster's broker updates and the group's own requests, with the own
   requests in SUBMISSION ORDER: filter own lin ++ (the request in flight before its linearisation point) ++ (those still
   queued) = the own requests of the queue the group's worker was given.  So at the end (nothing in flight, nothing
   queued) the own requests of lin are exactly the submitted ones, in order.
   Gap to the full statement (hence _partial): deleteTopic of the same cluster must be absent (with it the statement is
   false); lin linearises ONE group against the broker updates, one lin per group (the per-group lins use the same
   execution order of the broker updates; they are not merged into one global history, and fetch replies are not part of
   the claim - those are the conc_reply theorems). *)
Theorem conc_group_final_state_partial :
  forall cf now c g (i0 : nat) st0 q0 queues prios sched cl0,
    (1 <= cf_intervals cf)%nat ->
    wf_queues queues ->
    get st0 c = Some cl0 ->                                  (* the cluster is configured *)
    nth_error queues i0 = Some q0 ->                          (* the queue of the group's worker *)
    (forall i q r, nth_error queues i = Some q -> In r q -> is_own c g r = true -> i = i0) ->
    (forall q r, In q queues -> In r q -> is_dt c r = false) ->   (* no deleteTopic of this cluster *)
    let gs := fst (sched_run cf now true (init_g st0 queues prios) sched) in
    exists lin seq reps,
      Storage.run cf st0 (map (fun r => (now, r)) lin) = Some (seq, reps) /\
      Forall (fun r => is_own c g r = true \/ is_b c r = true) lin /\
      bro c (g_st gs) = bro c seq /\
      (forall w, nth_error (g_ws gs) i0 = Some w ->
         filter (is_own c g) q0 = filter (is_own c g) lin ++ filter (is_own c g) (pend w) ++ filter (is_own c g) (w_queue w)) /\
      ((forall w k, nth_error (g_ws gs) i0 = Some w -> w_run w = Some k -> cont_group k <> Some (c, g)) ->
       grp c g (g_st gs) = grp c g seq).
Proof.
  intros cf now c g i0 st0 q0 queues prios sched cl0 HN. exact (group_final_state cf now c g HN i0 st0 q0 queues prios sched cl0).
Qed.
Print Assumptions conc_group_final_state_partial.

(* the check-then-act gap of addConsumerOffset: it reads the partition count under the broker lock and creates the
   group's topic entry later under the group lock; a whole deleteTopic in between is undone for that group.  The final
   state is reached by no sequential order of the two requests (corpus/C08 case 3 replays it on the real code). *)
Theorem conc_group_linearisable_refuted :
  let fin := g_st (fst (sched_run w_cf w_now true (init_g (pre_state [1%Z] l_pre) l_queues []) l_sched)) in
  unfinished (fst (sched_run w_cf w_now true (init_g (pre_state [1%Z] l_pre) l_queues []) l_sched)) = false /\
  has_topic_in fin 1 1 1 = true /\
  option_map (fun st => has_topic_in st 1 1 1) (seq2 l_commit (DeleteTopic 1 1)) = Some false /\
  option_map (fun st => has_topic_in st 1 1 1) (seq2 (DeleteTopic 1 1) l_commit) = Some false.
Proof. exact not_linearisable. Qed.
Print Assumptions conc_group_linearisable_refuted.

(* (4) refinement of the sequential model (builder lag's Storage.step, the model of C01/C02/C09/C10): a request whose
   steps nobody interrupts does exactly what Storage.step does, for every Go map iteration order [prio]; listings are
   compared as sets.  (wf_state: group maps have no duplicate keys, preserved by every Storage operation.) *)
Theorem run_alone_refines :
  forall cf now prio st r,
    (1 <= cf_intervals cf)%nat ->
    wf_state st ->
    exists fuel0, forall fuel, (fuel0 <= fuel)%nat ->
      match Storage.step cf now st r with
      | Done st' rep => exists rep', run_alone cf now true prio fuel st r = Some (st', rep') /\ reply_equiv rep rep'
      | Crashed => run_alone cf now true prio fuel st r = None
      end.
Proof. exact run_alone_refines_proof. Qed.
Print Assumptions run_alone_refines.

(* ---- replies ---- *)
(* every fetchConsumer reply delivered in any schedule: within a partition with broker data and a last commit,
   CurrentLag = max 0 (last BrokerOffsets - last commit offset) *)
Theorem conc_reply_consistent :
  forall cf now st queues prios sched,
    let gs := fst (sched_run cf now true (init_g st queues prios) sched) in
    forall i w l, nth_error (g_ws gs) i = Some w -> In (RConsumer l) (w_out w) -> lag_ok l.
Proof. exact conc_reply_consistent_proof. Qed.
Print Assumptions conc_reply_consistent.

(* the consumer half of a reply is ONE instant of the group: taken by one atomic step from the group's value then ... *)
Theorem conc_reply_snapshot_instant :
  forall cf now prio st c g st' k',
    exec cf now true prio st (KFetchCons2 c g) = SNext st' k' ->
    st' = st /\ exists grp, group_state st c g = Some grp /\ k' = KFetchCons3 c (snapshot_group grp).
Proof. exact snapshot_instant. Qed.
Print Assumptions conc_reply_snapshot_instant.

(* ... and the broker half only adds broker offsets and the lag: offsets, owner and client id are the snapshot's *)
(* "Later updates never alter a delivered reply" has NO content in this model: replies are immutable Coq values (w_out only
   grows, conc_group_fifo_partial).  On the implementation the clause is carried by (i) the translator: every store of a
   reference reachable from shared storage into an object the handler allocated, into a reply-typed literal, a channel send
   or foreign code is a CEscape row, and the per-run obligation lockset_reply_alias_free below says the table has none
   except copies of *protocol.Lag pointers, whose targets no handler writes once they are reachable from storage; (ii) the
   probe's alias re-read (every ring slot overwritten after the case, delivered reply objects re-formatted), which caught
   both seeded aliasing changes. *)
Theorem conc_reply_keeps_snapshot :
  forall broker snap,
    map (fun tc => (fst tc, map strip (snd tc))) (fetch_topics_lags_g broker snap) =
    map (fun tc => (fst tc, map strip (snd tc))) snap.
Proof. exact fetch_lags_strip. Qed.
Print Assumptions conc_reply_keeps_snapshot.

(* ... and it is complete: for every topic the broker map holds when the reply is made and every partition the brokers
   report, the reply carries exactly that partition's recorded broker offsets - whatever other topics of the group are
   stale (deleted under an in-flight commit).  With conc_reply_consistent: CurrentLag is computed from the newest one. *)
Theorem conc_reply_broker_complete :
  forall cf now prio st c snap st' l,
    exec cf now true prio st (KFetchCons3 c snap) = SDone st' (RConsumer l) ->
    exists cl, get st c = Some cl /\
      forall t cps' tl j cp' r, In (t, cps') l -> get (cl_broker cl) t = Some tl ->
        nth_error cps' j = Some cp' -> nth_error tl j = Some r -> cp_brokers cp' = somes r.
Proof. exact reply_broker_complete. Qed.
Print Assumptions conc_reply_broker_complete.

(* ============================================================================================== *)
(* non-vacuity                                                                                     *)
(* ============================================================================================== *)
Example wf_queues_inhabited : wf_queues w_queues /\ length w_queues = 3%nat.
Proof. split; [exact w_queues_wf | reflexivity]. Qed.

(* a real interleaving: three workers, 14 scheduled steps, everything finishes, worker 1 delivers one reply *)
Example sched_run_nontrivial :
  let r := sched_run w_cf w_now true (init_g (pre_state [1%Z] w_pre) w_queues []) w_sched in
  unfinished (fst r) = false /\ length (snd r) = 14%nat /\
  map (fun w => length (w_out w)) (g_ws (fst r)) = [0; 1; 0]%nat.
Proof. vm_compute. repeat split; reflexivity. Qed.

(* the hypotheses of conc_group_final_state_partial are satisfiable: group (1,1) with a commit, an owner update and a fetch
   on worker 0, broker updates and another group's commit on worker 1, no deleteTopic *)
Example final_state_hyps_inhabited :
  let queues := [[SetConsumerOffset 1 1 1 0 5 1 (w_now * 1000); SetConsumerOwner 1 1 1 0 7 8; FetchConsumer 1 1];
                 [SetBrokerOffset 1 1 0 1 50; SetConsumerOffset 1 2 1 0 6 2 (w_now * 1000); SetBrokerOffset 1 1 0 1 60]] in
  wf_queues queues /\
  (forall i q r, nth_error queues i = Some q -> In r q -> is_own 1 1 r = true -> i = 0%nat) /\
  (forall q r, In q queues -> In r q -> is_dt 1 r = false) /\
  filter (is_own 1 1) (nth 0 queues []) = nth 0 queues [].
Proof.
  cbn zeta. split; [|split; [|split; [|reflexivity]]].
  - split.
    + intros i j qi qj ri rj c g Hi Hj Hri Hrj Gi Gj.
      destruct i as [|[|i]]; cbn in Hi; try (destruct i; discriminate); inversion Hi; subst qi;
        cbn in Hri; repeat (destruct Hri as [<-|Hri]); try destruct Hri; cbn in Gi; try discriminate;
        destruct j as [|[|j]]; cbn in Hj; try (destruct j; discriminate); inversion Hj; subst qj;
        cbn in Hrj; repeat (destruct Hrj as [<-|Hrj]); try destruct Hrj; cbn in Gj; try discriminate; try reflexivity; congruence.
    + intros q r Hq Hr. cbn in Hq. repeat (destruct Hq as [<-|Hq]); try destruct Hq;
        cbn in Hr; repeat (destruct Hr as [<-|Hr]); try destruct Hr; cbn; try exact I; Lia.lia.
  - intros i q r Hi Hr O. destruct i as [|[|i]]; cbn in Hi; try (destruct i; discriminate); inversion Hi; subst q; [reflexivity|].
    cbn in Hr. repeat (destruct Hr as [<-|Hr]); try destruct Hr; cbn in O; discriminate.
  - intros q r Hq Hr. cbn in Hq. repeat (destruct Hq as [<-|Hq]); try destruct Hq;
      cbn in Hr; repeat (destruct Hr as [<-|Hr]); try destruct Hr; reflexivity.
Qed.

Example wf_state_init : forall clusters, wf_state (init_state clusters).
Proof.
  intros clusters c cl H. unfold init_state in H. induction clusters as [|k r IH]; cbn in H; [discriminate|].
  destruct (k =? c)%Z; [inversion H; constructor | exact (IH H)].
Qed.

Example table_nonempty :
  Nat.ltb 150 (length table) = true /\ Nat.ltb 15 (length acquires) = true /\ length routes = 12%nat.
Proof. vm_compute. repeat split; reflexivity. Qed.
