(* C02 — The offset window holds the newest N commits in log order, however they arrive.
   Statements only; proofs are in RingProofs.v.  Model: Ring.v (findConsumerOffsetDestination,
   mergeFrequentCommitIntoPrevious, storeConsumerOffset, read-out of getConsumerTopicList in
   core/internal/storage/inmemory.go; tied to the real handlers by the probe of checks/c02.py on every run).

   Vocabulary.  [ring_run md n l] is the ring of n slots after the commits of l reached the partition one after
   the other (each paired with the lag value the caller would attach if the commit is appended), with minimum
   distance md (seconds).  [readout r] is what getConsumerTopicList returns for the partition: n entries starting at
   the ring pointer.  [window b cs] = b unfilled entries followed by the commits cs; [asc cs] = log positions
   strictly increasing.  Every theorem holds for all n (n = 0 included unless stated), all md, all lists.

   How the three sentences of the property are stated here.
   Sentence 1 ("exactly the most recent commits ... strictly increasing ... newest last, whatever the arrival order") is
   stated for ALL sequences and ALL minimum distances as: shape (C02_window_shape), newest last
   (C02_window_newest_last), every stored entry is made of arrived commits (C02_stored_are_arrived: offset and position
   of one arrived commit, timestamp of an arrived commit not later in the log), and the complete description
   C02_window_is_rule_fold (the window is the fold of the one-arrival rule).  "Exactly the N most recent" in the sense
   of top-N of the set of arrivals is C02_window_topN and needs the conditions of sentence 3, because of sentence 2:
   a merged commit occupies its predecessor's slot, so two arrivals share one slot.
   Sentence 2, INTERPRETATION (recorded deviation, design_notes/C02.md): "closer in time to its predecessor than the
   configured minimum distance" is read the way the code computes it, as the SIGNED difference
   new.timestamp - previous.timestamp < 1000 * min-distance (C02_merge_test_meaning).  A commit later in the log with an
   EARLIER timestamp than its stored predecessor therefore counts as closer than every distance >= 0, the disabled
   distance 0 included, and replaces it (C02_closer_is_signed_difference, witness C02_ex_negative_gap_merges_at_distance_0,
   reproduced on the real code).  Under the reading |difference| < distance the code would deviate on exactly those
   inputs; the property's third sentence carries "timestamps that do not decrease along the log" as a condition, which is
   what excludes them.  The check's Python oracle accepts both outcomes on such inputs.
   Sentence 3 is C02_window_topN / C02_window_arrival_independent. *)
From Coq Require Import ZArith List Sorted Lia.
From Burrow Require Import Int64 Eval Ring RingProofs.
Import ListNotations.
Open Scope Z_scope.

(* ---- shape: unfilled slots only in front, log positions strictly increasing, newest last ---- *)
Theorem C02_window_shape :
  forall md n (l : list (commit * Z)),
    exists b cs, readout (ring_run md n l) = repeat None b ++ map Some cs /\
                 (b + length cs = n)%nat /\
                 StronglySorted Z.lt (map co_order cs).
Proof. exact run_window_shape. Qed.
Print Assumptions C02_window_shape.

(* the same as an invariant of one arrival, for an arbitrary ring of that shape (what the induction uses) *)
Theorem C02_window_shape_step :
  forall md r c lag b cs,
    readout r = repeat None b ++ map Some cs -> StronglySorted Z.lt (map co_order cs) ->
    exists b' cs', readout (fst (ring_step md r c lag)) = repeat None b' ++ map Some cs' /\
                   (b' + length cs' = b + length cs)%nat /\
                   StronglySorted Z.lt (map co_order cs').
Proof. exact step_window_shape. Qed.
Print Assumptions C02_window_shape_step.

Theorem C02_window_no_duplicates :
  forall cs, StronglySorted Z.lt (map co_order cs) -> NoDup (map co_order cs).
Proof. exact asc_NoDup. Qed.
Print Assumptions C02_window_no_duplicates.

(* the last entry is a commit whose log position is the greatest of all that arrived *)
Theorem C02_window_newest_last :
  forall md n (l : list (commit * Z)),
    (1 <= n)%nat -> l <> [] ->
    exists k, last (readout (ring_run md n l)) None = Some k /\
              (exists cl, In cl l /\ cm_order (fst cl) = co_order k) /\
              (forall cl, In cl l -> cm_order (fst cl) <= co_order k).
Proof. exact run_newest_last. Qed.
Print Assumptions C02_window_newest_last.

(* stored ⊆ arrived, for every minimum distance: the offset and log position of every stored entry are those of one
   arrived commit; its timestamp is that of an arrived commit not later in the log (the same commit unless it was
   merged into an older one: C02_merge_spec says the merged slot carries the new commit's offset and position and the
   predecessor's timestamp) *)
Theorem C02_stored_are_arrived :
  forall md n (l : list (commit * Z)) k,
    In (Some k) (readout (ring_run md n l)) ->
    (exists cl, In cl l /\ cm_offset (fst cl) = co_offset k /\ cm_order (fst cl) = co_order k) /\
    (exists cl, In cl l /\ cm_ts (fst cl) = co_ts k /\ cm_order (fst cl) <= co_order k).
Proof. exact run_stored_arrived. Qed.
Print Assumptions C02_stored_are_arrived.

(* sentence 1 as far as it holds for all sequences, in one statement *)
Theorem C02_first_sentence_all_sequences :
  forall md n (l : list (commit * Z)),
    exists b cs, readout (ring_run md n l) = repeat None b ++ map Some cs /\
                 (b + length cs = n)%nat /\
                 StronglySorted Z.lt (map co_order cs) /\
                 forall k, In k cs -> made_of_arrivals l k.
Proof. exact run_window_shape_arrived. Qed.
Print Assumptions C02_first_sentence_all_sequences.

(* complete description for every minimum distance: the window is the fold over the arrivals of [abs_step], the
   one-arrival rule on the sorted list of stored commits (RingProofs.v: split at the commit's log position; position
   already stored => nothing; stored predecessor and [merges] => replace it keeping its timestamp; else a free slot,
   else the oldest leaves, else — older than a full window — nothing).  C02_merge_spec / C02_no_merge_spec /
   C02_duplicate_ignored below are that rule read off the window. *)
Theorem C02_window_is_rule_fold :
  forall md n (l : list (commit * Z)),
    readout (ring_run md n l) = window (snd (abs_run md n l)) (rev (fst (abs_run md n l))).
Proof. exact run_is_rule_fold. Qed.
Print Assumptions C02_window_is_rule_fold.

(* ---- minimum distance ---- *)
(* the test of mergeFrequentCommitIntoPrevious in mathematical terms (timestamps in ms, |t| < 2^62) *)
Theorem C02_merge_test_meaning :
  forall md pv c,
    ts_ok (co_ts pv) -> ts_ok (cm_ts c) -> md_ok md ->
    (merges md pv c = true <-> co_order pv < cm_order c /\ cm_ts c - co_ts pv < 1000 * md).
Proof. exact merges_spec. Qed.
Print Assumptions C02_merge_test_meaning.

(* ... hence SIGNED: a commit later in the log but earlier in time than its predecessor is "closer" than every
   distance >= 0, distance 0 (merging disabled) included.  This is the code's reading of the property's second sentence
   (see the header); it is why sentence 3 needs non-decreasing timestamps. *)
Theorem C02_closer_is_signed_difference :
  forall md pv c,
    co_order pv < cm_order c -> cm_ts c < co_ts pv -> in_i64 (cm_ts c - co_ts pv) -> 0 <= md -> in_i64 (md * 1000) ->
    merges md pv c = true.
Proof. exact merges_negative_gap. Qed.
Print Assumptions C02_closer_is_signed_difference.

(* the witness, as run on the real code (N = 3, min-distance 0): position 10 at 1 950 000 ms, then position 20 at
   1 940 000 ms => one slot holding (offset of the second, position 20, timestamp of the first) *)
Example C02_ex_negative_gap_merges_at_distance_0 :
  readout (ring_run 0 3 [(mkCommit 10 10 1950000, 90); (mkCommit 20 20 1940000, 80)]) =
  [None; None; Some (mkCoff 20 20 1950000 (Some 80))].
Proof. vm_compute. reflexivity. Qed.

(* stored commits lo ++ pv :: hi, pv the one just before c in the log, c closer to pv than the minimum distance:
   pv's entry takes c's offset and log position and keeps pv's timestamp; nothing else changes, no slot is used *)
Theorem C02_merge_spec :
  forall md r c lag b lo pv hi,
    readout r = window b (lo ++ pv :: hi) -> asc (lo ++ pv :: hi) ->
    co_order pv < cm_order c -> Forall (above (cm_order c)) hi ->
    merges md pv c = true ->
    readout (fst (ring_step md r c lag)) =
      window b (lo ++ mkCoff (cm_offset c) (cm_order c) (co_ts pv) (lag_of hi lag) :: hi) /\
    snd (ring_step md r c lag) = is_nil hi.
Proof. exact step_merge. Qed.
Print Assumptions C02_merge_spec.

(* complement: c's log position is not stored and c does not merge into its predecessor (the last of lo), or has
   none: it takes a slot — a free one, else the oldest commit leaves; older than a full window: ignored *)
Theorem C02_no_merge_spec :
  forall md r c lag b lo hi,
    readout r = window b (lo ++ hi) -> asc (lo ++ hi) ->
    Forall (fun x => co_order x < cm_order c) lo -> Forall (above (cm_order c)) hi ->
    (forall lo0 pv, lo = lo0 ++ [pv] -> merges md pv c = false) ->
    readout (fst (ring_step md r c lag)) =
      match b, lo with
      | S b', _ => window b' (lo ++ mkCoff (cm_offset c) (cm_order c) (cm_ts c) (lag_of hi lag) :: hi)
      | O, [] => window O hi
      | O, _ :: lo' => window O (lo' ++ mkCoff (cm_offset c) (cm_order c) (cm_ts c) (lag_of hi lag) :: hi)
      end.
Proof. exact step_no_merge. Qed.
Print Assumptions C02_no_merge_spec.

(* a log position that is already stored is ignored *)
Theorem C02_duplicate_ignored :
  forall md r c lag b cs x,
    readout r = window b cs -> asc cs -> In x cs -> co_order x = cm_order c ->
    ring_step md r c lag = (r, false).
Proof. exact step_duplicate. Qed.
Print Assumptions C02_duplicate_ignored.

(* ---- top N by log position; arrival-order independence ---- *)
(* [sorted_set l]: commits seen as (offset, log position, timestamp), newest first, one per log position.
   It is strictly ordered, and holds for each log position the first commit that arrived with it. *)
Theorem C02_sorted_set_sorted :
  forall l, StronglySorted (fun a b => t_order b < t_order a) (sorted_set l).
Proof. exact sorted_set_sorted. Qed.
Print Assumptions C02_sorted_set_sorted.

Theorem C02_sorted_set_first_arrival :
  forall l x,
    In x (sorted_set l) <->
    exists pre c post, l = pre ++ c :: post /\ (cm_offset c, cm_order c, cm_ts c) = x /\
                       (forall c', In c' pre -> cm_order c' <> cm_order c).
Proof. exact sorted_set_first. Qed.
Print Assumptions C02_sorted_set_first_arrival.

(* minimum distance 0, timestamps that do not decrease along the log (and whose int64 difference does not wrap):
   the stored (offset, log position, timestamp) are exactly the n newest of the sorted set, oldest first *)
Theorem C02_window_topN :
  forall n (l : list (commit * Z)),
    ts_monotone (map fst l) -> ts_span_ok (map fst l) ->
    map (option_map (fun k => (co_offset k, co_order k, co_ts k))) (readout (ring_run 0 n l)) =
    repeat None (n - length (firstn n (sorted_set (map fst l)))) ++
    map Some (rev (firstn n (sorted_set (map fst l)))).
Proof. exact run_topn. Qed.
Print Assumptions C02_window_topN.

(* ts_span_ok holds for everything the storage module accepts with a sane clock (timestamps >= 0) *)
Theorem C02_span_ok_nonneg :
  forall l, Forall (fun c => 0 <= cm_ts c < 9223372036854775808) l -> ts_span_ok l.
Proof. exact ts_span_ok_nonneg. Qed.
Print Assumptions C02_span_ok_nonneg.

(* when moreover a log position determines the commit, the stored offsets and timestamps depend only on the
   SET of commits seen: any permutation, duplication, or overlap of live and backfill streams *)
Theorem C02_window_arrival_independent :
  forall n (l1 l2 : list (commit * Z)),
    ts_monotone (map fst l1) -> ts_span_ok (map fst l1) -> order_functional (map fst l1) ->
    (forall c, In c (map fst l1) <-> In c (map fst l2)) ->
    stored_proj (ring_run 0 n l1) = stored_proj (ring_run 0 n l2).
Proof. exact run_arrival_independent. Qed.
Print Assumptions C02_window_arrival_independent.

(* ---- each side condition of sentence 3 is needed (witnesses by computation).  The second one is the signed-difference
        reading of sentence 2 at work (C02_closer_is_signed_difference). ---- *)
Theorem C02_topN_needs_min_distance_0_refuted :
  exists md n l1 l2,
    0 < md /\ ts_monotone (map fst l1) /\ ts_span_ok (map fst l1) /\ order_functional (map fst l1) /\
    (forall c, In c (map fst l1) <-> In c (map fst l2)) /\
    stored_proj (ring_run md n l1) <> stored_proj (ring_run md n l2).
Proof. exact topn_needs_md0_refuted. Qed.
Print Assumptions C02_topN_needs_min_distance_0_refuted.

Theorem C02_topN_needs_monotone_timestamps_refuted :
  exists n l1 l2,
    ts_span_ok (map fst l1) /\ order_functional (map fst l1) /\
    (forall c, In c (map fst l1) <-> In c (map fst l2)) /\
    stored_proj (ring_run 0 n l1) <> stored_proj (ring_run 0 n l2).
Proof. exact topn_needs_ts_monotone_refuted. Qed.
Print Assumptions C02_topN_needs_monotone_timestamps_refuted.

Theorem C02_topN_needs_no_wrap_refuted :
  exists n l1 l2,
    ts_monotone (map fst l1) /\ order_functional (map fst l1) /\
    (forall c, In c (map fst l1) <-> In c (map fst l2)) /\
    stored_proj (ring_run 0 n l1) <> stored_proj (ring_run 0 n l2).
Proof. exact topn_needs_ts_span_refuted. Qed.
Print Assumptions C02_topN_needs_no_wrap_refuted.

Theorem C02_arrival_needs_one_commit_per_position_refuted :
  exists n l1 l2,
    ts_monotone (map fst l1) /\ ts_span_ok (map fst l1) /\
    (forall c, In c (map fst l1) <-> In c (map fst l2)) /\
    stored_proj (ring_run 0 n l1) <> stored_proj (ring_run 0 n l2).
Proof. exact arrival_needs_order_functional_refuted. Qed.
Print Assumptions C02_arrival_needs_one_commit_per_position_refuted.

(* ---- non-vacuity: concrete non-trivial runs ---- *)
Definition cm (off order ts : Z) : commit * Z := (mkCommit off order ts, 7).
Definition T0 : Z := 1600000000000.

(* ring of 3; arrivals out of order, one replayed, live/backfill overlap; five distinct log positions *)
Definition ex_l : list (commit * Z) :=
  [cm 500 50 (T0 + 5000); cm 100 10 (T0 + 1000); cm 300 30 (T0 + 3000); cm 100 10 (T0 + 1000);
   cm 400 40 (T0 + 4000); cm 200 20 (T0 + 2000); cm 300 30 (T0 + 3000)].

Example C02_ex_topN_hypotheses : ts_monotone (map fst ex_l) /\ ts_span_ok (map fst ex_l) /\ order_functional (map fst ex_l).
Proof.
  split; [|split].
  - intros c1 c2 H1 H2; cbn in H1, H2;
      repeat (destruct H1 as [<-|H1]; [repeat (destruct H2 as [<-|H2]; [cbn; unfold T0; lia|]); destruct H2|]); destruct H1.
  - apply ts_span_ok_nonneg. repeat constructor; cbn; unfold T0; lia.
  - intros c1 c2 H1 H2; cbn in H1, H2;
      repeat (destruct H1 as [<-|H1]; [repeat (destruct H2 as [<-|H2]; [cbn; intros; try reflexivity; try discriminate|]); destruct H2|]); destruct H1.
Qed.

Example C02_ex_topN_result :
  stored_proj (ring_run 0 3 ex_l) =
  [Some (300, 30, T0 + 3000); Some (400, 40, T0 + 4000); Some (500, 50, T0 + 5000)].
Proof. vm_compute. reflexivity. Qed.

Example C02_ex_permuted_same :
  stored_proj (ring_run 0 3 (rev ex_l)) = stored_proj (ring_run 0 3 ex_l).
Proof. vm_compute. reflexivity. Qed.

(* not yet full: two blanks in front (ring of 5, three distinct positions) *)
Example C02_ex_shape_blanks :
  readout (ring_run 0 5 [cm 300 30 (T0 + 3000); cm 100 10 (T0 + 1000); cm 200 20 (T0 + 2000)]) =
  [None; None; Some (mkCoff 100 10 (T0 + 1000) None); Some (mkCoff 200 20 (T0 + 2000) None); Some (mkCoff 300 30 (T0 + 3000) (Some 7))].
Proof. vm_compute. reflexivity. Qed.

(* merge: minimum distance 5 s; a backfilled commit 1 s after its predecessor (which is the OLDEST entry of a full
   ring of 2 — the case repaired by /repo 332e834) replaces that predecessor and keeps its timestamp *)
Example C02_ex_merge_hypotheses :
  let r := ring_run 5 2 [cm 100 10 T0; cm 300 20 (T0 + 10000)] in
  let c := mkCommit 200 15 (T0 + 1000) in
  let pv := mkCoff 100 10 T0 (Some 7) in
  let hi := [mkCoff 300 20 (T0 + 10000) (Some 7)] in
  readout r = window 0 ([] ++ pv :: hi) /\ asc ([] ++ pv :: hi) /\ co_order pv < cm_order c /\
  Forall (above (cm_order c)) hi /\ merges 5 pv c = true /\
  readout (fst (ring_step 5 r c 7)) = [Some (mkCoff 200 15 T0 None); Some (mkCoff 300 20 (T0 + 10000) (Some 7))].
Proof.
  cbn zeta. split; [vm_compute; reflexivity|]. split; [repeat constructor|]. split; [cbn; lia|].
  split; [repeat constructor; cbn; unfold above; cbn; lia|]. split; vm_compute; reflexivity.
Qed.

(* no merge, full ring: the oldest leaves *)
Example C02_ex_no_merge_full :
  readout (ring_run 5 2 [cm 100 10 T0; cm 300 30 (T0 + 20000); cm 200 20 (T0 + 10000)]) =
  [Some (mkCoff 200 20 (T0 + 10000) None); Some (mkCoff 300 30 (T0 + 20000) (Some 7))].
Proof. vm_compute. reflexivity. Qed.
(* ===== to append to coq/theories/props/C02.v (builder "lag", lift of C02 from one ring to storage) =====
   Extra Require line (put it with the other Requires at the top of props/C02.v, or right here — Coq accepts it mid-file): *)
From Coq Require Import Bool.
From Burrow Require Import AMap Storage StorageProofs StorageWindows.

(* Vocabulary.  [run cf (init_state cls) h] folds the storage handlers over a history (list of (clock, request)) from
   the empty storage; [wf_hist h]: offsets are int64, a broker offset names a partition below the count it announces.
   [arrivals cf cls h c g t p] (StorageWindows.v) is the spec side: the sub-sequence of h's SetConsumerOffset requests for
   exactly (c,g,t,p) that storage did not drop on arrival — [reaches_ring]: cluster known, timestamp not older than
   expire-group, group accepted by the allow/deny lists, a broker offset recorded for that partition — since the last
   request that removed the partition ([resets]: DeleteTopic c t, DeleteGroup c g / c g t, the expiry purge of group g
   inside FetchConsumer), each paired with the lag value addConsumerOffset attaches (clamped distance to the newest
   broker offset).  The drop and purge conditions are evaluated on the model state at that point of the history
   (the purge needs the group's lastCommit, which itself depends on earlier placements). *)

(* the ring of (c,g,t,p) after any history is exactly ring_run over those arrivals *)
Theorem C02_storage_ring_provenance :
  forall cf cls h st reps c g t p,
  (1 <= cf_intervals cf)%nat -> wf_hist h -> 0 <= p ->
  run cf (init_state cls) h = Some (st, reps) ->
  ring_of cf st c g t p = ring_run (cf_min_distance cf) (cf_intervals cf) (arrivals cf cls h c g t p).
Proof. exact storage_ring_provenance. Qed.
Print Assumptions C02_storage_ring_provenance.

(* every partition ring of every topic of every group of every cluster of every reachable state has the C02 shape
   (commits newest first with strictly decreasing log position, then blanks; cf_intervals slots) and that provenance *)
Theorem C02_storage_windows_wf :
  forall cf cls h st reps c cl g t i pr w,
  (1 <= cf_intervals cf)%nat -> wf_hist h ->
  run cf (init_state cls) h = Some (st, reps) ->
  get st c = Some cl -> nth_error (cons_topic cl g t) i = Some pr -> pr_ring pr = Some w ->
  wf (cf_intervals cf) w /\
  w = ring_run (cf_min_distance cf) (cf_intervals cf) (arrivals cf cls h c g t (Z.of_nat i)).
Proof. exact storage_windows_wf. Qed.
Print Assumptions C02_storage_windows_wf.

(* what a query sees: every window of every FetchConsumer reply is empty (a partition that never had a ring) or is the
   read-out of ring_run over the arrivals, i.e. b unfilled entries then commits with strictly increasing log position,
   cf_intervals entries in all.  Every C02 theorem about [ring_run] therefore speaks about this window. *)
Theorem C02_storage_reply_windows :
  forall cf cls h st reps now c g st' l t cps i cp,
  (1 <= cf_intervals cf)%nat -> wf_hist h ->
  run cf (init_state cls) h = Some (st, reps) ->
  fetch_consumer cf now st c g = Done st' (RConsumer l) ->
  In (t, cps) l -> nth_error cps i = Some cp ->
  cp_offsets cp = [] \/
  (cp_offsets cp = readout (ring_run (cf_min_distance cf) (cf_intervals cf) (arrivals cf cls h c g t (Z.of_nat i))) /\
   exists b cs, cp_offsets cp = window b cs /\ (b + length cs = cf_intervals cf)%nat /\ asc cs).
Proof. exact storage_reply_windows. Qed.
Print Assumptions C02_storage_reply_windows.

(* non-vacuity of the spec side: both commits of the out-of-order history reach the ring; and a history in which a commit
   before any broker offset, a DeleteGroup and a too-old commit leave exactly one arrival *)
Example C02_ex_arrivals_ooo :
  arrivals ex_cfg [1] ex_ooo 1 1 1 0 = [(mkCommit 50 5 100000, 50); (mkCommit 40 3 99000, 60)].
Proof. exact ex_arrivals_ooo. Qed.
Example C02_ex_arrivals_reset :
  wf_hist ex_reset /\ arrivals ex_cfg [1] ex_reset 1 1 1 0 = [(mkCommit 60 2 100000, 40)].
Proof. exact ex_arrivals_reset. Qed.

(* ---- the same provenance with a spec side that does not replay the model ----
   [arrivals] above evaluates the drop and purge conditions on the model state.  [h_arrivals cf cls h c g t p]
   (StorageWindows.v) is a recursion over the request list alone: configuration, cluster set and history are its only
   inputs ([reach_h]: cluster configured, timestamp not too old for the request's clock, group accepted, a broker offset
   recorded earlier in h for that partition; [resets_h]: DeleteTopic / DeleteGroup / a FetchConsumer at which the
   group's lastCommit — itself computed by the same recursion, [h_ginfo] — is expired).  It computes exactly the model's
   arrival lists, so every stored ring is ring_run over a function of (cf, cls, h). *)
Theorem C02_storage_arrivals_from_history :
  forall cf cls h st reps c g,
  (1 <= cf_intervals cf)%nat -> wf_hist h ->
  run cf (init_state cls) h = Some (st, reps) ->
  ginfo st c g = h_ginfo cf cls h c g /\
  forall t p, 0 <= p -> arrivals cf cls h c g t p = h_arrivals cf cls h c g t p.
Proof. exact hist_sim_correct. Qed.
Print Assumptions C02_storage_arrivals_from_history.

Theorem C02_storage_ring_of_history :
  forall cf cls h st reps c g t p,
  (1 <= cf_intervals cf)%nat -> wf_hist h -> 0 <= p ->
  run cf (init_state cls) h = Some (st, reps) ->
  ring_of cf st c g t p = ring_run (cf_min_distance cf) (cf_intervals cf) (h_arrivals cf cls h c g t p).
Proof. exact ring_of_history. Qed.
Print Assumptions C02_storage_ring_of_history.

Example C02_ex_h_arrivals_reset :
  h_arrivals ex_cfg [1] ex_reset 1 1 1 0 = [(mkCommit 60 2 100000, 40)] /\
  h_ginfo ex_cfg [1] ex_reset 1 1 = Some (100000, [1]).
Proof. exact ex_h_arrivals_reset. Qed.
