(* PIPE - the data path as ONE model (extra coverage; not one of the 20 properties).
   Statements only; proofs are in PipelineProofs.v.  Model: Pipeline.v = Wire (offsets-topic reader) and ClusterMod
   (broker-offset cycle) feeding Storage / Ring, Eval answering status requests from storage's reply.  The composed model
   is tied to the real modules wired to each other by the end-to-end probe of checks/pipe.py on every run.

   [name] is the interning of byte-string names (groups, topics, hosts, client ids) into storage's integers: ANY function
   for the interface theorems.  Events: KafkaMessage cluster key value position | ClusterCycle cluster ticker env |
   StatusRequest cluster group showall | Tick now.  [event_ok]: the message's log position is an int64, the cluster
   environment numbers partitions 0..n-1 (C11 env_ids_ok), puts an offset into every ErrNoError answer (env_offsets_ok)
   and its offsets are int64.  Nothing is assumed of keys, values, names, clock values or the order of events. *)
From Coq Require Import ZArith List Bool.
From Burrow Require Import Int64 F32 Eval EvalCompleteProofs AMap Ring Storage StorageProofs Pipeline PipelineProofs.
From Burrow Require Wire ClusterMod ClusterModProofs.
Import ListNotations.
Open Scope Z_scope.

(* ---- interface theorems: each layer's output meets the next layer's assumptions, for ALL inputs ---- *)

(* reader -> storage.  Whatever the key and value bytes: every request the decoder emits is within Go's field widths
   (partition int32; offset, timestamp, Order int64): C01's wf_req and everything storage's arithmetic assumes. *)
Theorem PIPE_wire_output_wf :
  forall (name : list Z -> Z) accept key value o rs al c,
    in_i64 o ->
    Wire.process_message accept key value o = Wire.Done rs al ->
    Forall (fun r => sreq_in_range (wire_to_storage name c r)) rs.
Proof. exact wire_output_wf. Qed.
Print Assumptions PIPE_wire_output_wf.

Theorem PIPE_in_range_is_wf : forall r, sreq_in_range r -> wf_req r.
Proof. exact sreq_in_range_wf. Qed.
Print Assumptions PIPE_in_range_is_wf.

(* cluster module -> storage.  Every request of every cycle of every run of a fresh cluster module in acceptable
   environments: a SetBrokerOffset names a partition 0 <= p < count (storage's topicList[request.Partition] cannot
   panic) and carries an int64 offset.  From C11_count_bounds_partition and C11_answer_to_update. *)
Theorem PIPE_cluster_output_wf :
  forall l en c,
    (forall x, In x l -> env_ok (snd x)) ->
    In en (ClusterMod.trace ClusterMod.init_state None l) ->
    Forall sreq_in_range (cluster_to_storage c (ClusterMod.en_out en)).
Proof. exact cluster_output_wf. Qed.
Print Assumptions PIPE_cluster_output_wf.

(* Hence: NO sequence of Kafka messages (any bytes), cluster cycles, status requests and clock moves ends the process
   (no panic in the reader, the cluster module, storage or the evaluator), and the storage history it produces is
   well-formed in C01's sense and is what the storage state is the run of: the theorems of C01 / C02 / C09, which assume
   wf_hist, apply to everything the ingest side can produce. *)
Theorem PIPE_pipeline_hist_wf :
  forall (name : list Z -> Z) pc,
    (1 <= cf_intervals (pc_storage pc))%nat -> Z.of_nat (cf_intervals (pc_storage pc)) <= 2 ^ 24 ->
    forall now0 evs,
    Forall event_ok evs ->
    exists ps outs h,
      pipe_run name pc now0 evs = Some (ps, outs, h) /\
      wf_hist h /\ Forall (fun x => sreq_in_range (snd x)) h /\
      exists reps, run (pc_storage pc) (init_state (pc_clusters pc)) h = Some (p_storage ps, reps).
Proof. exact pipeline_hist_wf. Qed.
Print Assumptions PIPE_pipeline_hist_wf.

(* storage -> evaluator.  Every FetchConsumer reply of every reachable storage state has the shape the evaluator
   theorems assume (EvalCompleteProofs.storage_shaped: unfilled slots only in front, at most 2^24 slots) ... *)
Theorem PIPE_storage_reply_shaped :
  forall (name : list Z -> Z) pc,
    (1 <= cf_intervals (pc_storage pc))%nat -> Z.of_nat (cf_intervals (pc_storage pc)) <= 2 ^ 24 ->
    forall now0 evs ps outs h now c g st' l,
    Forall event_ok evs ->
    pipe_run name pc now0 evs = Some (ps, outs, h) ->
    fetch_consumer (pc_storage pc) now (p_storage ps) c g = Done st' (RConsumer l) ->
    Forall storage_shaped (all_parts l).
Proof. exact storage_reply_shaped. Qed.
Print Assumptions PIPE_storage_reply_shaped.

(* ... hence evaluating any reachable storage state never dereferences nil, whatever the evaluator's settings and
   clock, and C03's gate / completeness theorems and C04's aggregate theorems apply to every status the pipeline serves *)
Theorem PIPE_pipeline_eval_total :
  forall (name : list Z -> Z) pc,
    (1 <= cf_intervals (pc_storage pc))%nat -> Z.of_nat (cf_intervals (pc_storage pc)) <= 2 ^ 24 ->
    forall now0 evs ps outs h now c g st' l minimum allowed enow,
    Forall event_ok evs ->
    pipe_run name pc now0 evs = Some (ps, outs, h) ->
    fetch_consumer (pc_storage pc) now (p_storage ps) c g = Done st' (RConsumer l) ->
    exists gs, eval_group (reply_to_eval l) minimum allowed enow = Ok gs.
Proof. exact pipeline_eval_total. Qed.
Print Assumptions PIPE_pipeline_eval_total.

(* ---- end-to-end theorems ---- *)
From Burrow Require Import StorageWindows StorageDelProofs.
From Burrow Require WireProofs WireRoundtripProofs WireEnc.

(* e2e_lag_exact.  For every sequence of events, in the status reply for (cluster, group): CurrentLag of (topic, partition) =
   max 0 (the offset the brokers ANSWERED for it in the last cycle that got an answer - the offset of the newest well-formed
   commit MESSAGE for it, by log position, not dropped by the documented rules), and TotalLag = the sum modulo 2^64.
   After ANY event sequence, in the answer to a status request: every listed partition has 0 <= CurrentLag < 2^64; no
   reported commit => CurrentLag = 0; newest reported commit k =>
     * CurrentLag = max 0 (b - k.offset), b = [last_answer]: by PIPE_last_answer_spec the first offset of the ErrNoError answer
       that the broker asked for (topic, partition) gave in a cycle of this cluster, no later cycle having got an answer for it
       (C11 composed with C01);
     * k is the (offset, log position) of a commit the cluster's reader decoded from a MESSAGE of the sequence, the log
       position being that message's own offset in the offsets log (C07 composed with C01/C02; C06_commit_update_wellformed
       and C07_offset_roundtrip say exactly which byte strings decode to it);
     * k is a LIVE commit and no live commit of this group / topic / partition has a higher log position.  [live_commit_h] is
       a closed condition on the produced request list h: the commit request stands at some position of h, where
         [accepted_on_arrival]: its cluster is configured; its timestamp is not older than expire-group at the clock it
           arrived at; storage's lists accept the group (the reader's lists: otherwise there is no request at all,
           C10_reader_rejected_silent); its partition is >= 0; and before it h holds a SetBrokerOffset for exactly
           (cluster, topic, partition) that no DeleteTopic of that topic follows (StorageProofs.broker_known_spec);
         [not_removed_after_h]: no later request of h deletes the topic, deletes the group (whole or this topic), or is a
           FetchConsumer for the group at a clock at which the group has expired - the timestamp of the last commit of the
           group that was placed as the newest since the group was last created being a recursion over the request list
           (StorageWindows.h_ginfo, group_expired_history).
       h is the concatenation, in event order, of every event's requests stamped with the clock the event met
       (PIPE_hist_split_events): a commit request is a decoded message (second item), a SetBrokerOffset an answered broker
       offset of a cluster cycle and a DeleteTopic a deletion of that cycle (cluster_to_storage; C11_answer_to_update, C12),
       a DeleteGroup a group tombstone (wire_to_storage), a FetchConsumer a status request; the clock is the last Tick.
   TotalLag = sum of the listed CurrentLags modulo 2^64 (C04).
   Built on builder lag's history-level lemmas reaches_ring_history / broker_known_iff_history / group_expired_history. *)
Theorem PIPE_e2e_lag_exact :
  forall (name : list Z -> Z) pc,
    (1 <= cf_intervals (pc_storage pc))%nat -> Z.of_nat (cf_intervals (pc_storage pc)) <= 2 ^ 24 ->
    forall now0 evs ps outs h c g showall ps' cz gz sa gsv,
    Forall event_ok evs ->
    pipe_run name pc now0 evs = Some (ps, outs, h) ->
    pipe_step name pc ps (StatusRequest c g showall) = Some (ps', [OStatus cz gz sa (Some gsv)]) ->
    exists gs,
      gsv = Pipeline.view showall gs /\ cz = c /\ gz = name g /\ sa = showall /\
      (forall pst, In pst (gs_partitions gs) ->
         0 <= ps_lag pst < two64 /\
         match ps_end pst with
         | None => ps_lag pst = 0
         | Some k =>
             (exists b, last_answer name pc (pinit pc now0) evs c (ps_topic pst) (ps_partition pst) = Some b /\
                        ps_lag pst = Z.max 0 (b - co_offset k)) /\
             (exists key value rs al g0 t0 ts,
                 In (KafkaMessage c key value (co_order k)) evs /\
                 Wire.process_message (pc_reader_accept pc c) key value (co_order k) = Wire.Done rs al /\
                 In (Wire.SetConsumerOffset g0 t0 (ps_partition pst) (co_offset k) ts (co_order k)) rs /\
                 name g0 = name g /\ name t0 = ps_topic pst) /\
             (exists ts, live_commit_h (pc_storage pc) (pc_clusters pc) h c (name g) (ps_topic pst) (ps_partition pst)
                                       (mkCommit (co_offset k) (co_order k) ts)) /\
             (forall cm, live_commit_h (pc_storage pc) (pc_clusters pc) h c (name g) (ps_topic pst) (ps_partition pst) cm ->
                         cm_order cm <= co_order k)
         end) /\
      gs_totallag gs = fold_right Z.add 0 (map ps_lag (gs_partitions gs)) mod two64.
Proof. exact lag_exact_closed. Qed.
Print Assumptions PIPE_e2e_lag_exact.

(* the definitions the statement uses, spelled out *)
Theorem PIPE_live_commit_h_unfold :
  forall cf cls h c g t p cm,
    live_commit_h cf cls h c g t p cm <->
    exists h1 now h2,
      h = h1 ++ (now, SetConsumerOffset c g t p (cm_offset cm) (cm_order cm) (cm_ts cm)) :: h2 /\
      (in_cls c cls && negb (too_old cf now (cm_ts cm)) && cf_accept cf g && (0 <=? p) && broker_known h1 c t p) = true /\
      forall h2a now' r h2b, h2 = h2a ++ (now', r) :: h2b ->
        match r with
        | DeleteTopic c' t' => (c' =? c) && (t' =? t)
        | DeleteGroup c' g' t' => (c' =? c) && (g' =? g) && ((t' =? 0) || (t =? t'))
        | _ => false
        end = false /\
        match r with
        | FetchConsumer c' g' =>
            (c' =? c) && (g' =? g) &&
            match h_ginfo cf cls ((h1 ++ [(now, SetConsumerOffset c g t p (cm_offset cm) (cm_order cm) (cm_ts cm))]) ++ h2a) c g with
            | Some (L, _) => expired cf now' L
            | None => false
            end
        | _ => false
        end = false.
Proof. intros. reflexivity. Qed.
Print Assumptions PIPE_live_commit_h_unfold.

(* the window's arrival list of the storage layer (C02's theorems speak about it) holds exactly the live commits *)
Theorem PIPE_window_is_live_commits :
  forall cf cls c g t p h st reps cm,
    (1 <= cf_intervals cf)%nat -> wf_hist h -> run cf (init_state cls) h = Some (st, reps) ->
    ((exists lagv, In (cm, lagv) (arrivals cf cls h c g t p)) <-> live_commit_h cf cls h c g t p cm).
Proof.
  intros cf cls c g t p h st reps cm HN Hwf Hrun.
  rewrite (arrivals_are_live_commits cf cls c g t p h st reps Hrun cm).
  exact (live_commit_h_iff cf cls h st reps c g t p cm HN Hwf Hrun).
Qed.
Print Assumptions PIPE_window_is_live_commits.

(* positions in the produced request list are positions in the event sequence: a request of h belongs to exactly one event,
   carries the clock that event met, everything before it comes from earlier events (or earlier requests of the same
   event), everything after it from later ones *)
Theorem PIPE_hist_split_events :
  forall (name : list Z -> Z) pc evs ps ps' outs h ha now r hb,
    pipe_exec name pc ps evs = Some (ps', outs, h) -> h = ha ++ (now, r) :: hb ->
    exists evs1 ev evs2 ps1 o1 h1 rs ra rb ps2 o2 h2 outs_ev,
      evs = evs1 ++ ev :: evs2 /\
      pipe_exec name pc ps evs1 = Some (ps1, o1, h1) /\
      event_reqs name pc ps1 ev = Some rs /\ rs = ra ++ r :: rb /\ now = p_now ps1 /\
      pipe_step name pc ps1 ev = Some (ps2, outs_ev) /\
      pipe_exec name pc ps2 evs2 = Some (ps', o2, h2) /\
      ha = h1 ++ stamp (p_now ps1) ra /\ hb = stamp (p_now ps1) rb ++ h2.
Proof. intros name pc. exact (hist_split_events name pc). Qed.
Print Assumptions PIPE_hist_split_events.

(* the expiry purge is observable: the request that purges the group is answered "not found" *)
Theorem PIPE_purge_is_404 :
  forall cf now st c g r st' rep,
    purges cf now st c g r = true -> step cf now st r = Done st' rep -> rep = RNil.
Proof. exact purge_is_404. Qed.
Print Assumptions PIPE_purge_is_404.

(* the problems-only view carries the same TotalLag and summary, and exactly the partitions worse than OK (C04) *)
Theorem PIPE_view_filtered :
  forall g, gs_totallag (Pipeline.view false g) = gs_totallag g /\ gs_status (Pipeline.view false g) = gs_status g /\
            gs_partitions (Pipeline.view false g) = filter (fun p => worse (ps_status p) StOK) (gs_partitions g).
Proof. intros g. repeat split. Qed.
Print Assumptions PIPE_view_filtered.

(* [last_answer] in C11's terms: its value is the first offset of the ErrNoError answer which the broker asked for (t, p)
   gave in a cycle of cluster c of the sequence (evs1 ++ that cycle :: evs2), and no later cycle got an answer for (t, p) *)
Theorem PIPE_last_answer_spec :
  forall (name : list Z -> Z) pc,
    (1 <= cf_intervals (pc_storage pc))%nat -> Z.of_nat (cf_intervals (pc_storage pc)) <= 2 ^ 24 ->
    forall now0 c t p evs b,
    Forall event_ok evs ->
    last_answer name pc (pinit pc now0) evs c t p = Some b ->
    exists evs1 tk e evs2 ps1 o1 h1 cs o cnt br ans rest,
      evs = evs1 ++ ClusterCycle c tk e :: evs2 /\
      pipe_exec name pc (pinit pc now0) evs1 = Some (ps1, o1, h1) /\
      get (p_cluster ps1) c = Some cs /\ ClusterMod.cycle (ClusterMod.tick tk cs) e = ClusterMod.Done o /\
      In (t, p, b, cnt) (ClusterMod.co_updates o) /\
      In (br, t, p) (ClusterMod.co_asks o) /\ ClusterMod.e_answer e br = ClusterMod.Good ans /\ ans t p = (0, b :: rest) /\
      (forall ps2 outs2, pipe_step name pc ps1 (ClusterCycle c tk e) = Some (ps2, outs2) ->
                         last_answer name pc ps2 evs2 c t p = None).
Proof. exact last_answer_spec. Qed.
Print Assumptions PIPE_last_answer_spec.

(* the history's last_broker (C01's spec function) is the events' last answer: C01's theorems read in terms of broker answers *)
Theorem PIPE_last_broker_is_last_answer :
  forall (name : list Z -> Z) pc c t p evs ps ps' outs h,
    pipe_exec name pc ps evs = Some (ps', outs, h) -> last_broker h c t p = last_answer name pc ps evs c t p.
Proof. exact last_broker_pipe. Qed.
Print Assumptions PIPE_last_broker_is_last_answer.

(* e2e_rejected_invisible (C10 across reader + storage).  [name] injective.  A group that the reader's lists of its cluster
   OR storage's lists reject gets the 404 answer to every status request, in every event sequence, and is absent from
   storage's consumer map of that cluster (hence from every listing: C10_storage_rejected_stays_out). *)
Theorem PIPE_e2e_rejected_invisible :
  forall (name : list Z -> Z),
    (forall a b, name a = name b -> a = b) ->
    forall pc now0 c g0 evs ps outs h,
    rejected_somewhere name pc c g0 ->
    pipe_run name pc now0 evs = Some (ps, outs, h) ->
    (forall sa r, In (OStatus c (name g0) sa r) outs -> r = None) /\
    absent_group (p_storage ps) c (name g0).
Proof. exact rejected_invisible. Qed.
Print Assumptions PIPE_e2e_rejected_invisible.

(* e2e_malformed_ignored (C06 composed with the frame).  A message from which the decoder forwards nothing leaves the final
   state, EVERY later answer and the storage history exactly as if it had not been in the log ... *)
Theorem PIPE_e2e_silent_message_ignored :
  forall (name : list Z -> Z) pc ps evs1 evs2 c key value o al,
    Wire.process_message (pc_reader_accept pc c) key value o = Wire.Done [] al ->
    pipe_exec name pc ps (evs1 ++ KafkaMessage c key value o :: evs2) = pipe_exec name pc ps (evs1 ++ evs2).
Proof. exact silent_message_ignored. Qed.
Print Assumptions PIPE_e2e_silent_message_ignored.

(* ... an offset commit (key version 0 or 1, any bytes) that is not well-formed in C06's sense - some field Burrow reads cut
   short or carrying an impossible length - is such a message ... *)
Theorem PIPE_e2e_malformed_ignored :
  forall (name : list Z -> Z) pc ps evs1 evs2 c key value o,
    WireRoundtripProofs.bytes key -> WireRoundtripProofs.bytes value -> WireProofs.is_commit_key key ->
    ~ WireRoundtripProofs.commit_wellformed (pc_reader_accept pc c) key value ->
    pipe_exec name pc ps (evs1 ++ KafkaMessage c key value o :: evs2) = pipe_exec name pc ps (evs1 ++ evs2).
Proof. exact malformed_commit_ignored. Qed.
Print Assumptions PIPE_e2e_malformed_ignored.

(* ... and so is a key without a version or with a version other than 0, 1, 2. *)
Theorem PIPE_e2e_unknown_key_ignored :
  forall (name : list Z -> Z) pc ps evs1 evs2 c key value o,
    match Wire.read_i16 key with
    | None => True
    | Some (kv, _) => kv <> 0 /\ kv <> 1 /\ kv <> 2
    end ->
    pipe_exec name pc ps (evs1 ++ KafkaMessage c key value o :: evs2) = pipe_exec name pc ps (evs1 ++ evs2).
Proof. exact unknown_key_ignored. Qed.
Print Assumptions PIPE_e2e_unknown_key_ignored.

(* ---- non-vacuity: a concrete life ---- *)
(* interning for the example: the first byte ("" -> 0) *)
Definition ex_name (b : list Z) : Z := match b with [] => 0 | x :: _ => x end.
(* one topic (id 116 = ex_name "testtopic") with 12 partitions led by broker 1, every partition answered with offset 9000 *)
Definition ex_env : ClusterMod.env :=
  ClusterMod.mkEnv (ClusterMod.Good [116])
    (fun t => if t =? 116 then ClusterMod.Good [0; 1; 2; 3; 4; 5; 6; 7; 8; 9; 10; 11] else ClusterMod.Fail)
    (fun _ _ => ClusterMod.Good 1)
    (fun _ => ClusterMod.Good (fun _ _ => (0, [9000]))).
Definition ex_pc (reader_ok : bool) : pconfig :=
  mkPconfig (mkConfig 3 100 0 (fun _ => true)) [1] (fun _ _ => reader_ok) f32_zero 0.
(* the commit of kafka_client_test.go (group "testgroup", topic "testtopic", partition 11, offset 8372, timestamp 1637) at
   log position 7, after one cluster cycle *)
Definition ex_events : list pevent :=
  [ClusterCycle 1 true ex_env; KafkaMessage 1 WireEnc.lit_okey1 WireEnc.lit_oval0 7].

Example PIPE_ex_events_ok : Forall event_ok ex_events.
Proof.
  apply Forall_cons; [|apply Forall_cons; [|apply Forall_nil]]; cbn [event_ok].
  - split; [|split].
    + intros t0 ps0 p0 Hp Hin. cbn in Hp. destruct (t0 =? 116); [|discriminate]. injection Hp as <-.
      cbn [length Z.of_nat]. cbn in Hin.
      repeat (destruct Hin as [<-|Hin]; [cbn; split; [discriminate|reflexivity]|]). contradiction.
    + intros b0 ans t0 p0 Ha _. cbn in Ha. injection Ha as <-. cbn. discriminate.
    + intros b0 ans t0 p0 Ha. cbn in Ha. injection Ha as <-. cbn. repeat constructor; cbn; discriminate.
  - unfold in_i64, two63. split; [discriminate|reflexivity].
Qed.

(* what the examples look at: addressee, TotalLag, the CurrentLags and the newest reported commit offsets (no float32 field) *)
Definition ex_observe (reader_ok : bool) : option (Z * Z * bool * option (Z * list Z * list (option Z))) :=
  match pipe_run ex_name (ex_pc reader_ok) 2 ex_events with
  | Some (ps, _, _) =>
      match pipe_step ex_name (ex_pc reader_ok) ps (StatusRequest 1 WireRoundtripProofs.b_testgroup true) with
      | Some (_, [OStatus c g sa r]) =>
          Some (c, g, sa, option_map (fun gs => (gs_totallag gs, map ps_lag (gs_partitions gs),
                                                 map (fun p => option_map co_offset (ps_end p)) (gs_partitions gs))) r)
      | _ => None
      end
  | None => None
  end.

(* the status served afterwards: 12 partitions, partition 11 carries the commit and CurrentLag 9000 - 8372 = 628 = TotalLag *)
Example PIPE_ex_lag :
  ex_observe true = Some (1, 116, true, Some (628, [0; 0; 0; 0; 0; 0; 0; 0; 0; 0; 0; 628],
                          [None; None; None; None; None; None; None; None; None; None; None; Some 8372])) /\
  last_answer ex_name (ex_pc true) (pinit (ex_pc true) 2) ex_events 1 116 11 = Some 9000.
Proof. split; vm_compute; reflexivity. Qed.

(* the same life with a reader whose lists reject the group: the 404 answer *)
Example PIPE_ex_rejected : ex_observe false = Some (1, 116, true, None).
Proof. vm_compute. reflexivity. Qed.

(* the commit cut one byte short is ignored: the run is the run without it *)
Example PIPE_ex_truncated :
  pipe_run ex_name (ex_pc true) 2 [ClusterCycle 1 true ex_env; KafkaMessage 1 WireEnc.lit_okey1 (removelast WireEnc.lit_oval0) 7]
  = pipe_run ex_name (ex_pc true) 2 [ClusterCycle 1 true ex_env].
Proof. vm_compute. reflexivity. Qed.

(* the commit of PIPE_ex_lag is a live commit of the produced request list: 12 broker offsets, then the commit *)
Example PIPE_ex_live :
  exists ps outs h,
    pipe_run ex_name (ex_pc true) 2 ex_events = Some (ps, outs, h) /\
    live_commit_h (pc_storage (ex_pc true)) (pc_clusters (ex_pc true)) h 1 116 116 11 (mkCommit 8372 7 1637).
Proof.
  eexists _, _, _. split; [vm_compute; reflexivity|].
  match goal with |- live_commit_h _ _ ?h _ _ _ _ _ => exists (removelast h), 2, [] end.
  split; [vm_compute; reflexivity|]. split; [vm_compute; reflexivity|].
  intros h2a now' r h2b E. destruct h2a; discriminate.
Qed.
