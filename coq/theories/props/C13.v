(* C13 - An incident keeps one identity from open to close.
   Statements only; proofs are in NotifierProofs.v.  Model: Notifier.v (checkAndSendResponseToModules + notifyModule +
   processConsumerList + processClusterList of core/internal/notifier/coordinator.go, tied to the source by the probe of
   checks/c13.py on every run).

   Vocabulary (NotifierProofs.v).  A history h is any list of events: [HResponse now r] - an evaluator response handled
   at clock now; [HRefresh now c gs] - processConsumerList for cluster c receives the group list gs; [HClusters now cs] -
   processClusterList receives the cluster list cs.  It starts in the state Configure leaves (no cluster, no record).
   [recorded h k j] - group k = (cluster, group) is on the notifier's list when event j arrives ([C13_recorded_spec]:
   a function of the lists received before j alone); [status_of h k j] - the status of event j if it is a result for k
   and k is on the list (a result for a group off the list is dropped like NOTFOUND; no evaluation is requested for such
   a group); [opens h k i] - result i of k is worse than OK and every earlier worse-than-OK result of k was followed by
   an OK or by k leaving the list; [member h k i j] - result j is a live (not NOTFOUND) result of k, there is no OK of k in
   [i, j) and [listed_throughout h k i j]: k is on the list at every position from i to j, i.e. every refresh in between
   repeats it - j belongs to the incident opened at i, the closing OK included; [calls_at mods h j] - the Notify calls
   made for event j ([C13_calls_at_is_run]: what [run] computes).

   HYPOTHESIS OF THE TIE - "responses of one group are handled one at a time".  A history is a sequence of whole steps.
   responseLoop starts one goroutine per response; since /repo commit 01bcddb checkAndSendResponseToModules takes a
   lock per group record, so two responses of ONE group are handled one after the other in the code itself (responses of
   different groups touch different records: C13_groups_independent; a refresh excludes the responses of its cluster
   through clusterGroups.Lock).  Before that commit the hypothesis was not enforced and the identity clause failed for
   overlapping responses of one group: C13_overlap_refuted_before_fix, replayed on the real code (findings/C13.json).
   The probe delivers a second response of the same group during the slow first Notify call of the first (step "o") on
   every run and compares with the sequence of the two. *)
From Coq Require Import ZArith List Bool.
From Burrow Require Import Int64 Notifier NotifierProofs.
Import ListNotations.
Open Scope Z_scope.

Theorem C13_calls_at_is_run :
  forall mods h j, nth j (fst (run mods c_init h)) [] = calls_at mods h j.
Proof. exact run_calls_at. Qed.
Print Assumptions C13_calls_at_is_run.

(* ---- the vocabulary ---- *)

Theorem C13_recorded_spec :
  forall h k j,
    recorded h k 0 = false /\
    forall e, nth_error h j = Some e ->
      recorded h k (S j) =
      match e with
      | HResponse _ _ => recorded h k j
      | HRefresh _ c gs => if cluster_known h c j && (fst k =? c) then memz (snd k) gs else recorded h k j
      | HClusters _ cs => memz (fst k) cs && cluster_known h (fst k) j && recorded h k j
      end.
Proof. exact recorded_spec. Qed.
Print Assumptions C13_recorded_spec.

Theorem C13_cluster_known_spec :
  forall h c j,
    cluster_known h c 0 = false /\
    forall e, nth_error h j = Some e ->
      cluster_known h c (S j) = match e with HClusters _ cs => memz c cs | _ => cluster_known h c j end.
Proof. exact cluster_known_spec. Qed.
Print Assumptions C13_cluster_known_spec.

Theorem C13_member_unfold :
  forall h k i j,
    member h k i j <->
    ((i <= j)%nat /\ live_at h k j /\ (forall l, (i <= l < j)%nat -> ~ ok_at h k l) /\ listed_throughout h k i j).
Proof. exact member_unfold. Qed.
Print Assumptions C13_member_unfold.

Theorem C13_listed_throughout_unfold :
  forall h k i j, listed_throughout h k i j <-> (forall l, (i <= l <= j)%nat -> recorded h k l = true).
Proof. exact listed_throughout_unfold. Qed.
Print Assumptions C13_listed_throughout_unfold.

(* the model's set of records is what the lists received so far name *)
Theorem C13_records_are_the_listed_groups :
  forall mods h j,
    (forall k, c_reg (state_at mods h j) k = recorded h k j) /\
    (forall c, c_known (state_at mods h j) c = cluster_known h c j).
Proof. exact reg_recorded. Qed.
Print Assumptions C13_records_are_the_listed_groups.

(* ---- the refresh ---- *)

(* A group-list refresh of cluster c makes no call and draws no id; it leaves every record of every other cluster
   untouched and the record of every LISTED group of c that has one unchanged (id, start, every remembered notify
   time); a listed group without record gets a blank one; an unlisted group of c loses its record; for a cluster
   without entry it does nothing. *)
Theorem C13_refresh_frame :
  forall st c gs k,
    let st' := on_refresh st c gs in
    c_next st' = c_next st /\ (forall c', c_known st' c' = c_known st c') /\
    (c_known st c = false -> st' = st) /\
    (fst k <> c -> c_reg st' k = c_reg st k /\ c_groups st' k = c_groups st k) /\
    (c_known st c = true -> fst k = c ->
       c_reg st' k = memz (snd k) gs /\
       (memz (snd k) gs = true -> c_reg st k = true -> c_groups st' k = c_groups st k) /\
       (memz (snd k) gs = true -> c_reg st k = false -> c_groups st' k = g_init)).
Proof. exact refresh_frame. Qed.
Print Assumptions C13_refresh_frame.

Theorem C13_clusters_frame :
  forall st cs k,
    let st' := on_clusters st cs in
    c_next st' = c_next st /\ (forall c, c_known st' c = memz c cs) /\
    c_reg st' k = memz (fst k) cs && c_known st (fst k) && c_reg st k /\
    (c_reg st' k = true -> c_groups st' k = c_groups st k) /\
    (c_reg st' k = false -> c_groups st' k = g_init).
Proof. exact clusters_frame. Qed.
Print Assumptions C13_clusters_frame.

(* a refresh cycle whose group-list requests time out: only the cluster list arrives; the records of the clusters it
   repeats are untouched (a cycle whose cluster-list request times out is no event at all) *)
Theorem C13_clusters_keeps_record :
  forall st cs k,
    memz (fst k) cs = true -> c_known st (fst k) = true -> c_reg st k = true ->
    c_reg (on_clusters st cs) k = true /\ c_groups (on_clusters st cs) k = c_groups st k.
Proof. exact clusters_keeps_record. Qed.
Print Assumptions C13_clusters_keeps_record.

Theorem C13_refresh_silent :
  forall mods st e, is_resp e = false ->
    snd (on_event mods st e) = [] /\ c_next (fst (on_event mods st e)) = c_next st.
Proof. exact refresh_silent. Qed.
Print Assumptions C13_refresh_silent.

(* in a history: a refresh of either kind leaves the record of a group that is on the list before and after it as it was *)
Theorem C13_refresh_keeps_listed_record :
  forall mods h j e k,
    nth_error h j = Some e -> is_resp e = false -> recorded h k j = true -> recorded h k (S j) = true ->
    c_groups (state_at mods h (S j)) k = c_groups (state_at mods h j) k.
Proof. exact refresh_keeps_listed_record. Qed.
Print Assumptions C13_refresh_keeps_listed_record.

(* a response for a group that is not on the list is dropped; a group that is not on the list has a blank slot *)
Theorem C13_unrecorded_dropped :
  forall mods h j now r,
    nth_error h j = Some (HResponse now r) -> recorded h (resp_key r) j = false ->
    calls_at mods h j = [] /\ state_at mods h (S j) = state_at mods h j.
Proof. exact unrecorded_dropped. Qed.
Print Assumptions C13_unrecorded_dropped.

Theorem C13_unrecorded_blank :
  forall mods h k j, recorded h k j = false -> c_groups (state_at mods h j) k = g_init.
Proof. exact unrecorded_blank. Qed.
Print Assumptions C13_unrecorded_blank.

(* a record exists only under a cluster entry: a response that finds a record never meets a missing cluster entry *)
Theorem C13_recorded_cluster_known :
  forall h k j, recorded h k j = true -> cluster_known h (fst k) j = true.
Proof. exact recorded_cluster_known. Qed.
Print Assumptions C13_recorded_cluster_known.

(* ---- the property ---- *)

(* From the opening result to the closing OK every notification carries the same non-empty id and the start time
   = clock of the opening result - for every incident during which the group stays listed, whatever refreshes (of
   this or any other cluster, listing more or fewer other groups) fall inside it. *)
Theorem C13_incident_identity :
  forall mods h k i j c,
    names_distinct mods -> opens h k i -> member h k i j -> In c (calls_at mods h j) ->
    nc_id c = Some (incident_id mods h i) /\ nc_start c = Some (clock_at h i) /\
    (nc_cluster c, nc_group c) = k.
Proof. exact incident_identity. Qed.
Print Assumptions C13_incident_identity.

(* Different incidents (same group or not) get different ids. *)
Theorem C13_incident_ids_distinct :
  forall mods h k1 i1 j1 c1 k2 i2 j2 c2,
    names_distinct mods ->
    opens h k1 i1 -> member h k1 i1 j1 -> In c1 (calls_at mods h j1) ->
    opens h k2 i2 -> member h k2 i2 j2 -> In c2 (calls_at mods h j2) ->
    i1 <> i2 -> nc_id c1 <> nc_id c2.
Proof. exact incident_ids_distinct. Qed.
Print Assumptions C13_incident_ids_distinct.

(* At the closing OK each accepting module with send-close receives exactly one close notification, with the incident's
   id and start time; every other module receives none. *)
Theorem C13_close_exactly_once :
  forall mods h k i j m,
    names_distinct mods -> opens h k i -> member h k i j -> ok_at h k j -> In m mods ->
    close_calls (nm_name m) (calls_at mods h j) =
    if lists_accept (nm_lists m (snd k)) && nm_accept_group m && nm_close m
    then [mkNcall (nm_name m) (fst k) (snd k) 1 (Some (incident_id mods h i)) (Some (clock_at h i)) true]
    else [].
Proof. exact close_exactly_once. Qed.
Print Assumptions C13_close_exactly_once.

(* No close notification is ever made unless the result is the closing OK of an open incident of that group. *)
Theorem C13_no_close_without_incident :
  forall mods h j c,
    names_distinct mods -> In c (calls_at mods h j) -> nc_good c = true ->
    exists k i m, opens h k i /\ member h k i j /\ ok_at h k j /\ (nc_cluster c, nc_group c) = k /\
                  In m mods /\ nm_name m = nc_module c /\ nm_close m = true /\
                  lists_accept (nm_lists m (snd k)) = true /\ nm_accept_group m = true.
Proof. exact no_close_without_incident. Qed.
Print Assumptions C13_no_close_without_incident.

(* An event id is never used outside its incident: whatever notification carries an id was made by a result that
   belongs to the incident with that id. *)
Theorem C13_call_id_belongs :
  forall mods h j c x,
    names_distinct mods -> In c (calls_at mods h j) -> nc_id c = Some x ->
    exists k i, opens h k i /\ member h k i j /\ x = incident_id mods h i /\ (nc_cluster c, nc_group c) = k.
Proof. exact call_id_belongs. Qed.
Print Assumptions C13_call_id_belongs.

(* ---- otherwise: the group leaves the list while its incident is open ---- *)

(* The record is deleted (C13_unrecorded_blank), the results that still arrive are dropped (C13_unrecorded_dropped), and
   from then on no notification of any kind - in particular no close - carries that incident's id. *)
Theorem C13_dropped_incident_never_notified :
  forall mods h k i l j c,
    names_distinct mods -> opens h k i -> (i <= l <= j)%nat -> recorded h k l = false ->
    In c (calls_at mods h j) -> nc_id c <> Some (incident_id mods h i).
Proof. exact dropped_incident_never_notified. Qed.
Print Assumptions C13_dropped_incident_never_notified.

(* The first worse-than-OK result after the group is listed again opens a NEW incident with a fresh id (and, by
   C13_incident_identity, its own clock as start time).  The property speaks of evaluations of a group: a group that
   is off the list has none (none is requested, a late one is dropped), so the old incident has no "first evaluation
   in which it is OK again" and the property asks for no close. *)
Theorem C13_relisted_opens_new_incident :
  forall mods h k i l i2,
    names_distinct mods -> opens h k i -> (i < l < i2)%nat -> recorded h k l = false ->
    bad_at h k i2 -> (forall i', (l < i' < i2)%nat -> ~ bad_at h k i') ->
    opens h k i2 /\ incident_id mods h i2 <> incident_id mods h i.
Proof. exact relisted_opens_new_incident. Qed.
Print Assumptions C13_relisted_opens_new_incident.

(* ---- two responses of one group in flight: the tree before the per-group lock (documentation) ---- *)

(* [overlap_step]: r2 is handled from start to finish while r1 waits in the Notify call of its first module.  ERR (opening)
   overlapped by OK: the second module is notified of the ERR result with no event id and no start time, after the close;
   handled one after the other (the code since 01bcddb) every call of that result carries the incident's id and start. *)
Theorem C13_overlap_refuted_before_fix :
  exists mods g next now r1 r2 c,
    names_distinct mods /\ g = g_init /\ resp_key r1 = resp_key r2 /\ 1 < nr_status r1 /\
    In c (snd (fst (fst (overlap_step mods g next now r1 r2)))) /\
    nc_good c = false /\ nc_status c = nr_status r1 /\ nc_id c = None /\ nc_start c = None /\
    (forall c', In c' (snd (fst (group_step true mods g next now r1))) -> nc_id c' = Some next /\ nc_start c' = Some now).
Proof. exact overlap_refuted_before_fix. Qed.
Print Assumptions C13_overlap_refuted_before_fix.

(* ---- frame ---- *)

(* Several groups and clusters interleave freely. *)
Theorem C13_groups_independent :
  forall mods st now r k',
    k' <> resp_key r -> c_groups (fst (on_response mods st now r)) k' = c_groups st k'.
Proof. exact groups_independent. Qed.
Print Assumptions C13_groups_independent.

Theorem C13_response_local :
  forall mods st1 st2 now r,
    c_groups st1 (resp_key r) = c_groups st2 (resp_key r) -> c_reg st1 (resp_key r) = c_reg st2 (resp_key r) ->
    c_next st1 = c_next st2 ->
    snd (on_response mods st1 now r) = snd (on_response mods st2 now r) /\
    c_groups (fst (on_response mods st1 now r)) (resp_key r) = c_groups (fst (on_response mods st2 now r)) (resp_key r) /\
    c_next (fst (on_response mods st1 now r)) = c_next (fst (on_response mods st2 now r)).
Proof. exact response_local. Qed.
Print Assumptions C13_response_local.

(* Go's map iteration order over nc.modules only permutes the calls of one response. *)
Theorem C13_module_order_irrelevant :
  forall mods mods' st now r,
    Permutation.Permutation mods mods' -> names_distinct mods ->
    Permutation.Permutation (snd (on_response mods st now r)) (snd (on_response mods' st now r)) /\
    (forall k, geq (c_groups (fst (on_response mods st now r)) k) (c_groups (fst (on_response mods' st now r)) k)) /\
    c_next (fst (on_response mods st now r)) = c_next (fst (on_response mods' st now r)) /\
    c_reg (fst (on_response mods st now r)) = c_reg (fst (on_response mods' st now r)) /\
    c_known (fst (on_response mods st now r)) = c_known (fst (on_response mods' st now r)).
Proof. exact on_response_perm. Qed.
Print Assumptions C13_module_order_irrelevant.

(* ---- non-vacuity: NotifierProofs.ex_hist - two groups; refreshes inside an incident (a superset; a subset just before
   the closing OK); a group dropped in mid-incident and listed again; a group list for a cluster without entry ---- *)

Example C13_ex_identity :
  names_distinct ex_mods /\ opens ex_hist ex_k1 2 /\ member ex_hist ex_k1 2 7 /\ ok_at ex_hist ex_k1 7 /\
  listed_throughout ex_hist ex_k1 2 7 /\
  is_resp (nth 4 ex_hist (HClusters 0 [])) = false /\ is_resp (nth 6 ex_hist (HClusters 0 [])) = false /\
  calls_at ex_mods ex_hist 7 = [mkNcall 1 1 1 1 (Some 1) (Some 1000000000) true] /\
  incident_id ex_mods ex_hist 2 = 1 /\ clock_at ex_hist 2 = 1000000000 /\
  close_calls 1 (calls_at ex_mods ex_hist 7) = [mkNcall 1 1 1 1 (Some 1) (Some 1000000000) true] /\
  close_calls 2 (calls_at ex_mods ex_hist 7) = [].
Proof. exact ex_identity. Qed.

Example C13_ex_refresh :
  let g1 st := c_groups st ex_k1 in let g2 st := c_groups st ex_k2 in
  (g_id (g1 (state_at ex_mods ex_hist 4)), g_start (g1 (state_at ex_mods ex_hist 4)), g_last (g1 (state_at ex_mods ex_hist 4)) 1)
    = (Some 1, Some 1000000000, Some 1000000000) /\
  (g_id (g1 (state_at ex_mods ex_hist 5)), g_start (g1 (state_at ex_mods ex_hist 5)), g_last (g1 (state_at ex_mods ex_hist 5)) 1)
    = (Some 1, Some 1000000000, Some 1000000000) /\
  (g_id (g2 (state_at ex_mods ex_hist 5)), g_start (g2 (state_at ex_mods ex_hist 5))) = (Some 2, Some 2000000000) /\
  recorded ex_hist (1, 3) 4 = false /\ recorded ex_hist (1, 3) 5 = true /\ recorded ex_hist (1, 3) 7 = false /\
  recorded ex_hist ex_k2 6 = true /\ recorded ex_hist ex_k2 7 = false /\
  (g_id (g2 (state_at ex_mods ex_hist 7)), g_start (g2 (state_at ex_mods ex_hist 7))) = (None, None) /\
  cluster_known ex_hist 2 12 = false /\ recorded ex_hist (2, 1) 13 = false /\ recorded ex_hist ex_k2 13 = true.
Proof. exact ex_refresh. Qed.

Example C13_ex_dropped :
  opens ex_hist ex_k2 3 /\ incident_id ex_mods ex_hist 3 = 2 /\ recorded ex_hist ex_k2 7 = false /\
  calls_at ex_mods ex_hist 10 = [] /\ status_of ex_hist ex_k2 10 = None /\
  opens ex_hist ex_k2 13 /\
  calls_at ex_mods ex_hist 13 = [mkNcall 1 1 2 3 (Some 4) (Some 68000000000) false].
Proof. exact ex_dropped. Qed.

Example C13_ex_distinct :
  opens ex_hist ex_k1 2 /\ opens ex_hist ex_k1 8 /\ opens ex_hist ex_k2 3 /\ opens ex_hist ex_k2 13 /\
  map nc_id (calls_at ex_mods ex_hist 2) = [Some 1; Some 1] /\
  map nc_id (calls_at ex_mods ex_hist 8) = [Some 3] /\
  map nc_id (calls_at ex_mods ex_hist 3) = [Some 2] /\
  map nc_id (calls_at ex_mods ex_hist 13) = [Some 4].
Proof. exact ex_distinct. Qed.

Example C13_ex_frame :
  g_start (c_groups (state_at ex_mods ex_hist 4) ex_k2) = Some 2000000000 /\
  g_start (c_groups (state_at ex_mods ex_hist 6) ex_k2) = Some 2000000000 /\
  g_start (c_groups (state_at ex_mods ex_hist 8) ex_k1) = None.
Proof. exact ex_frame. Qed.
