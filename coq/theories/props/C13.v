(* C13 - An incident keeps one identity from open to close.
   Statements only; proofs are in NotifierProofs.v.  Model: Notifier.v (checkAndSendResponseToModules + notifyModule of
   core/internal/notifier/coordinator.go, tied to the source by the probe of checks/c13.py on every run).

   Vocabulary (NotifierProofs.v): a history h is any list of (clock, response); [opens h k i] - result i of group k is
   worse than OK and every earlier worse-than-OK result of k was followed by an OK; [member h k i j] - result j is a
   live (not NOTFOUND) result of k with no OK of k in [i, j), i.e. it belongs to the incident opened at i, the closing
   OK included; [calls_at mods h j] - the Notify calls made for result j ([run_calls_at]: what [run] computes). *)
From Coq Require Import ZArith List Bool.
From Burrow Require Import Int64 Notifier NotifierProofs.
Import ListNotations.
Open Scope Z_scope.

Theorem C13_calls_at_is_run :
  forall mods h j, nth j (fst (run mods c_init h)) [] = calls_at mods h j.
Proof. exact run_calls_at. Qed.
Print Assumptions C13_calls_at_is_run.

(* From the opening result to the closing OK every notification carries the same non-empty id and the start time
   = clock of the opening result. *)
Theorem C13_incident_identity :
  forall mods h k i j c,
    names_distinct mods -> opens h k i -> member h k i j -> In c (calls_at mods h j) ->
    nc_id c = Some (incident_id mods h i) /\ nc_start c = Some (clock_at h i) /\
    (nc_cluster c, nc_group c) = k.
Proof. exact incident_identity. Qed.
Print Assumptions C13_incident_identity.

(* Different incidents (same group or not) get different ids. *)
Theorem C13_incident_ids_distinct :
  forall mods h k1 i1 j1 c1 k2 i2 j2 c2,
    names_distinct mods ->
    opens h k1 i1 -> member h k1 i1 j1 -> In c1 (calls_at mods h j1) ->
    opens h k2 i2 -> member h k2 i2 j2 -> In c2 (calls_at mods h j2) ->
    i1 <> i2 -> nc_id c1 <> nc_id c2.
Proof. exact incident_ids_distinct. Qed.
Print Assumptions C13_incident_ids_distinct.

(* At the closing OK each accepting module with send-close receives exactly one close notification, with the incident's
   id and start time; every other module receives none. *)
Theorem C13_close_exactly_once :
  forall mods h k i j m,
    names_distinct mods -> opens h k i -> member h k i j -> ok_at h k j -> In m mods ->
    close_calls (nm_name m) (calls_at mods h j) =
    if lists_accept (nm_lists m (snd k)) && nm_accept_group m && nm_close m
    then [mkNcall (nm_name m) (fst k) (snd k) 1 (Some (incident_id mods h i)) (Some (clock_at h i)) true]
    else [].
Proof. exact close_exactly_once. Qed.
Print Assumptions C13_close_exactly_once.

(* No close notification is ever made unless the result is the closing OK of an open incident of that group. *)
Theorem C13_no_close_without_incident :
  forall mods h j c,
    names_distinct mods -> In c (calls_at mods h j) -> nc_good c = true ->
    exists k i m, opens h k i /\ member h k i j /\ ok_at h k j /\ (nc_cluster c, nc_group c) = k /\
                  In m mods /\ nm_name m = nc_module c /\ nm_close m = true /\
                  lists_accept (nm_lists m (snd k)) = true /\ nm_accept_group m = true.
Proof. exact no_close_without_incident. Qed.
Print Assumptions C13_no_close_without_incident.

(* Frame: several groups and clusters interleave freely. *)
Theorem C13_groups_independent :
  forall mods st now r k',
    k' <> resp_key r -> c_groups (fst (on_response mods st now r)) k' = c_groups st k'.
Proof. exact groups_independent. Qed.
Print Assumptions C13_groups_independent.

Theorem C13_response_local :
  forall mods st1 st2 now r,
    c_groups st1 (resp_key r) = c_groups st2 (resp_key r) -> c_next st1 = c_next st2 ->
    snd (on_response mods st1 now r) = snd (on_response mods st2 now r) /\
    c_groups (fst (on_response mods st1 now r)) (resp_key r) = c_groups (fst (on_response mods st2 now r)) (resp_key r) /\
    c_next (fst (on_response mods st1 now r)) = c_next (fst (on_response mods st2 now r)).
Proof. exact response_local. Qed.
Print Assumptions C13_response_local.
