From Burrow Require Import Notifier.
Example placeholder_C13 : True. Proof. exact I. Qed.
