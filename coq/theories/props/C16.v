From Burrow Require Import Http ConfigRead.
From BurrowGen Require Import RouteTable ReadSets.
Theorem route_table_obligation : route_table_ok RouteTable.table RouteTable.router_opts = true.
Proof. vm_compute. reflexivity. Qed.
Print Assumptions route_table_obligation.
