(* C16 -- The HTTP API answers every request with the documented envelope.
   Statements only; proofs are in HttpProofs.v.  Model: Http.v (route table semantics, viper lookup, the
   handlers of core/internal/httpserver over an abstract typed backend), tied to /repo on every run by
     - the probe of checks/c16.py (requests through the real coordinator.router, scripted typed backend,
       generated viper configuration; model = extracted Http.handle on the same lines),
     - the route table and the per-handler request-type table regenerated from /repo by
       /verif/translator/http (routes) into BurrowGen.RouteTable and re-checked below,
     - a storage-backed run (real storage + evaluator coordinators) for the read-only half.
   Quantification: all routes, all path-parameter strings (byte lists; at the server level all method and
   path byte strings), any backend that keeps the contract [backend_typed], any configuration tree. *)
Require Import List ZArith Bool String.
Import ListNotations.
From Burrow Require Import Http HttpProofs.
From Burrow Require AMap F32 Eval Storage StorageProofs.
From BurrowGen Require Import RouteTable.
Open Scope Z_scope.

(* ---- per-run table obligations (the tables are regenerated from /repo before this file is compiled) ---- *)

(* every documented /v3 pattern is registered with its method and the handler the model describes, exactly
   once; every registration has a model case; segments agree with patterns; NotFound is set and no router field
   outside allowed_router_opts (the four redirect / 405 / OPTIONS switches) is assigned *)
Theorem C16_route_table_obligation : route_table_ok RouteTable.table RouteTable.router_opts = true.
Proof. vm_compute. reflexivity. Qed.
Print Assumptions C16_route_table_obligation.

(* the Go function the table registers for every modelled route (whatever its name: handlers may be renamed or merged
   into a factory) constructs exactly the storage request types the model issues (and evaluator requests iff the model
   does); functions registered under GET construct only StorageFetch* types *)
Theorem C16_request_types_obligation : request_types_ok RouteTable.table RouteTable.handler_requests = true.
Proof. vm_compute. reflexivity. Qed.
Print Assumptions C16_request_types_obligation.

(* ---- "the server answers without failing" ---- *)

(* no handler's type assertion / nil dereference can fail against a backend that keeps its contract *)
Theorem C16_handle_total :
  forall (b : backend), backend_typed b ->
  forall (r : route) (ps : params) (reqbody : Z) (cfg : tree),
    snd (handle r ps reqbody b cfg) <> Crash.
Proof. exact handle_total. Qed.
Print Assumptions C16_handle_total.

(* ... for every method and path byte string, through the router, on any table that passes the check *)
Theorem C16_serve_total :
  forall tbl opts, route_table_ok tbl opts = true ->
  forall (b : backend), backend_typed b ->
  forall (ra : bytes -> bytes -> option Z) (method path : bytes) (reqbody : Z) (cfg : tree),
    snd (serve ra (compile_table tbl) method path reqbody b cfg) <> Crash.
Proof. exact serve_total. Qed.
Print Assumptions C16_serve_total.

(* the storage half of the contract follows from the reply constructors of the storage model, for every
   storage state in which FetchConsumer does not panic (that is C08/F6(iii)'s subject); the evaluator half
   ([eval_ok]: non-nil status, finite float32) is assumed *)
Theorem C16_storage_backend_typed :
  forall (intern : bytes -> Z) (name_of : Z -> bytes) cf now st ev ready,
    (forall c g, Storage.fetch_consumer cf now st c g <> Storage.Crashed) ->
    (forall c g a, eval_ok (ev c g a) = true) ->
    backend_typed (storage_backend intern name_of cf now st ev ready).
Proof. exact storage_backend_typed. Qed.
Print Assumptions C16_storage_backend_typed.

(* FetchConsumer cannot panic in the storage model (Storage.v after /repo 54faa50), hence for ANY storage state
   and time only the evaluator half is left as an assumption *)
Theorem C16_fetch_consumer_no_crash :
  forall cf now st c g, Storage.fetch_consumer cf now st c g <> Storage.Crashed.
Proof. exact fetch_consumer_no_crash. Qed.
Print Assumptions C16_fetch_consumer_no_crash.

Theorem C16_storage_backend_typed_any_state :
  forall (intern : bytes -> Z) (name_of : Z -> bytes) cf now st ev ready,
    (forall c g a, eval_ok (ev c g a) = true) ->
    backend_typed (storage_backend intern name_of cf now st ev ready).
Proof. exact storage_backend_typed_any_state. Qed.
Print Assumptions C16_storage_backend_typed_any_state.

(* The evaluator half: for every storage state reached by a run of a well-formed history (1 <= intervals <= 2^24, at
   most 2^24 partitions per group) the status the evaluator model produces for any cluster and group -- StorageFetchConsumer
   on that state, nil => NOTFOUND, otherwise Eval.eval_group over the reply, filtered for the problems-only view -- is a
   non-nil status that encoding/json can encode: the group's, every listed partition's and Maxlag's completeness values
   are finite float32.  (Pieces: StorageWindows.storage_reply_windows, EvalProofs.eval_partition_no_crash,
   JsonProofs.group_finite over F32Proofs; the Flocq/Reals axioms enter through the float32 division.) *)
Theorem C16_evaluator_backend_typed :
  forall cf cls h st reps,
    (1 <= Storage.cf_intervals cf)%nat -> Z.of_nat (Storage.cf_intervals cf) <= 2 ^ 24 ->
    StorageProofs.wf_hist h ->
    Storage.run cf (Storage.init_state cls) h = Some (st, reps) ->
    groups_bounded st ->
    forall now minimum allowed enow c g a,
      eval_ok (evaluator_model cf now st minimum allowed enow c g a) = true.
Proof. exact evaluator_backend_typed. Qed.
Print Assumptions C16_evaluator_backend_typed.

(* both halves: the composed storage + evaluator backend keeps the contract, with no assumption beyond those bounds *)
Theorem C16_backend_typed_reachable :
  forall (intern : bytes -> Z) (name_of : Z -> bytes) cf cls h st reps,
    (1 <= Storage.cf_intervals cf)%nat -> Z.of_nat (Storage.cf_intervals cf) <= 2 ^ 24 ->
    StorageProofs.wf_hist h ->
    Storage.run cf (Storage.init_state cls) h = Some (st, reps) ->
    groups_bounded st ->
    forall now minimum allowed enow ready,
      backend_typed (composed_backend intern name_of cf now st minimum allowed enow ready).
Proof. exact backend_typed_reachable. Qed.
Print Assumptions C16_backend_typed_reachable.

(* ... hence no handler panics, and the server answers every method and path, over that backend *)
Theorem C16_handle_total_reachable :
  forall (intern : bytes -> Z) (name_of : Z -> bytes) cf cls h st reps,
    (1 <= Storage.cf_intervals cf)%nat -> Z.of_nat (Storage.cf_intervals cf) <= 2 ^ 24 ->
    StorageProofs.wf_hist h ->
    Storage.run cf (Storage.init_state cls) h = Some (st, reps) ->
    groups_bounded st ->
    forall now minimum allowed enow ready (r : route) (ps : params) (reqbody : Z) (cfg : tree),
      snd (handle r ps reqbody (composed_backend intern name_of cf now st minimum allowed enow ready) cfg) <> Crash.
Proof. exact handle_total_reachable. Qed.
Print Assumptions C16_handle_total_reachable.

Theorem C16_serve_total_reachable :
  forall (intern : bytes -> Z) (name_of : Z -> bytes) tbl opts, route_table_ok tbl opts = true ->
  forall cf cls h st reps,
    (1 <= Storage.cf_intervals cf)%nat -> Z.of_nat (Storage.cf_intervals cf) <= 2 ^ 24 ->
    StorageProofs.wf_hist h ->
    Storage.run cf (Storage.init_state cls) h = Some (st, reps) ->
    groups_bounded st ->
    forall now minimum allowed enow ready (ra : bytes -> bytes -> option Z) (method path : bytes) (reqbody : Z) (cfg : tree),
      snd (serve ra (compile_table tbl) method path reqbody
                 (composed_backend intern name_of cf now st minimum allowed enow ready) cfg) <> Crash.
Proof. exact serve_total_reachable. Qed.
Print Assumptions C16_serve_total_reachable.

(* ---- "existing resources get 200 and a JSON object with error=false" ---- *)

Theorem C16_envelope_exists :
  forall (b : backend), backend_typed b ->
  forall (r : route) (ps : params) (reqbody : Z) (cfg : tree),
    is_v3 r = true ->
    present r ps reqbody b cfg ->
    exists st, snd (handle r ps reqbody b cfg) = Resp 200 true (BJson false true true st).
Proof. exact envelope_exists. Qed.
Print Assumptions C16_envelope_exists.

(* ---- "unknown cluster / group / module / topic offsets get 404 (error=true; NOTFOUND on status routes)" ----

   FULL STATEMENT (refuted for the two DELETE registrations, see below):
     forall b, backend_typed b -> forall r ps reqbody cfg,
       unknown_full r ps b cfg -> snd (handle r ps reqbody b cfg) = unknown_answer r.
   Proved: the same with the guard [is_delete_route r = false], which excludes exactly the input class of the
   recorded finding C16:delete-unknown-group. *)
Theorem C16_envelope_unknown_partial :
  forall (b : backend), backend_typed b ->
  forall (r : route) (ps : params) (reqbody : Z) (cfg : tree),
    is_delete_route r = false ->
    unknown_full r ps b cfg ->
    snd (handle r ps reqbody b cfg) =
      if is_status_route r
      then Resp 404 true (BJson false true true (Some 0))
      else Resp 404 true (BJson true true true None).
Proof. exact envelope_unknown_partial. Qed.
Print Assumptions C16_envelope_unknown_partial.

(* DELETE of a group of an empty storage is answered 200 error=false (replayed on the real code by every run
   of checks/c16.py: KNOWN-FINDING C16:delete-unknown-group) *)
Theorem C16_envelope_unknown_delete_refuted :
  exists (b : backend) (ps : params) (reqbody : Z) (cfg : tree),
    backend_typed b /\
    unknown_full RConsumerDelete ps b cfg /\
    snd (handle RConsumerDelete ps reqbody b cfg) = Resp 200 true (BJson false true true None) /\
    snd (handle RConsumerDelete ps reqbody b cfg) <> unknown_answer RConsumerDelete.
Proof. exact envelope_unknown_delete_refuted. Qed.
Print Assumptions C16_envelope_unknown_delete_refuted.

(* ---- "unrouted paths get 404" ----
   FULL STATEMENT of the text (every method and path that matches no registration is answered 404) is FALSE of the
   router Burrow uses: httprouter answers some of them itself -- 301/307 redirect when its radix tree recommends the path
   with the trailing slash toggled or finds the cleaned path case-insensitively; 405 + Allow when the path is registered
   under another method; 200 + Allow for OPTIONS on such a path.  Which paths these are depends on the shape of the radix
   tree (GET /v3/kafka/ is redirected, GET /v3/kafka/c1/ is a 404), which is not modelled: the router's choice is the
   trusted function [ra] (Some code = answered by the router, None = handed to NotFound).  Proved, and exactly what is tied:
     - whatever [ra] is, a request it hands to NotFound is answered 404, error=true, no backend request (C16_unrouted_404);
     - [router_level_possible] = false is a modelled region (not "*", cleaned path not the root, neither the path nor its
       cleaned form with or without trailing slash fits any registration of any method, ASCII-case-insensitively and with
       parameters allowed to be empty) in which the router never answers by itself: that constraint on [ra]
       ([router_answer_sound]) is compared with the real router on every unrouted case of every run, and under it those
       paths get 404 (C16_unrouted_404_outside_router_region);
     - inside the region the answer is the router's (observed and accepted by the oracle: 404, 301, 307, 405, 200), never a
       handler's, never with a backend request (C16_unrouted_router_level, C16_unrouted_no_backend). *)
Theorem C16_unrouted_404 :
  forall (ra : bytes -> bytes -> option Z) (tbl : list brow) (method path : bytes) (reqbody : Z) (b : backend) (cfg : tree),
    dispatch tbl method path = None ->
    ra method path = None ->
    serve ra tbl method path reqbody b cfg = ([], Resp 404 false (BJson true true false None)).
Proof. exact unrouted_404. Qed.
Print Assumptions C16_unrouted_404.

Theorem C16_unrouted_404_outside_router_region :
  forall (ra : bytes -> bytes -> option Z) (tbl : list brow), router_answer_sound tbl ra ->
  forall (method path : bytes) (reqbody : Z) (b : backend) (cfg : tree),
    dispatch tbl method path = None ->
    router_level_possible tbl path = false ->
    serve ra tbl method path reqbody b cfg = ([], Resp 404 false (BJson true true false None)).
Proof. exact unrouted_404_outside_router_region. Qed.
Print Assumptions C16_unrouted_404_outside_router_region.

Theorem C16_unrouted_router_level :
  forall (ra : bytes -> bytes -> option Z) (tbl : list brow) (method path : bytes) (reqbody : Z) (b : backend) (cfg : tree) (code : Z),
    dispatch tbl method path = None ->
    ra method path = Some code ->
    serve ra tbl method path reqbody b cfg = ([], Resp code false BOpaque).
Proof. exact unrouted_router_level. Qed.
Print Assumptions C16_unrouted_router_level.

Theorem C16_unrouted_no_backend :
  forall (ra : bytes -> bytes -> option Z) (tbl : list brow) (method path : bytes) (reqbody : Z) (b : backend) (cfg : tree),
    dispatch tbl method path = None -> fst (serve ra tbl method path reqbody b cfg) = [].
Proof. exact unrouted_no_backend. Qed.
Print Assumptions C16_unrouted_no_backend.

(* all of the above at the level of the server, for arbitrary method and path bytes *)
Theorem C16_serve_envelope :
  forall tbl opts, route_table_ok tbl opts = true ->
  forall (b : backend), backend_typed b ->
  forall (ra : bytes -> bytes -> option Z) (method path : bytes) (reqbody : Z) (cfg : tree),
    match dispatch (compile_table tbl) method path with
    | None => fst (serve ra (compile_table tbl) method path reqbody b cfg) = [] /\
              (ra method path = None ->
               serve ra (compile_table tbl) method path reqbody b cfg = ([], default_handler))
    | Some (row, ps) =>
        exists r, br_route row = Some r /\
          serve ra (compile_table tbl) method path reqbody b cfg = handle r ps reqbody b cfg /\
          snd (handle r ps reqbody b cfg) <> Crash /\
          (is_v3 r = true -> present r ps reqbody b cfg ->
             exists st, snd (handle r ps reqbody b cfg) = Resp 200 true (BJson false true true st)) /\
          (is_delete_route r = false -> unknown_full r ps b cfg ->
             snd (handle r ps reqbody b cfg) = unknown_answer r)
    end.
Proof. exact serve_envelope. Qed.
Print Assumptions C16_serve_envelope.

(* ---- "read requests never change what later reads return, apart from dropping expired groups" ---- *)

(* HTTP half: a GET handler sends only Fetch-type storage requests and evaluator requests *)
Theorem C16_get_is_readonly_http :
  forall (r : route) (ps : params) (reqbody : Z) (b : backend) (cfg : tree),
    is_get r = true ->
    Forall (fun i => match i with
                     | IStorage q => is_fetch_type (sq_type q) = true
                     | IEval _ _ _ => True
                     end) (fst (handle r ps reqbody b cfg)).
Proof. exact get_is_readonly_http. Qed.
Print Assumptions C16_get_is_readonly_http.

(* storage half: Storage.step on a Fetch request of any kind returns the same state, or -- FetchConsumer on a
   group whose last commit is already older than expire-group -- the state without that group, answering nil *)
Theorem C16_fetch_step_readonly :
  forall cf now st r st' rep,
    storage_fetch_req r = true ->
    Storage.step cf now st r = Storage.Done st' rep ->
    st' = st \/
    (exists c g, r = Storage.FetchConsumer c g /\ rep = Storage.RNil /\
       exists cl grp,
         AMap.get st c = Some cl /\ AMap.get (Storage.cl_consumer cl) g = Some grp /\
         Storage.expired cf now (Storage.g_last grp) = true /\
         st' = AMap.set st c (Storage.mkCluster (Storage.cl_broker cl) (AMap.remove (Storage.cl_consumer cl) g))).
Proof. exact fetch_step_readonly. Qed.
Print Assumptions C16_fetch_step_readonly.

(* ... and after such a drop every Fetch that is not a listing of that cluster's groups and not about that
   group is answered exactly as it would have been, at any later time *)
Theorem C16_fetch_after_drop_same :
  forall cf now st st' c g,
    drops_expired_group cf now st st' c g ->
    forall r now2,
      storage_fetch_req r = true -> about_dropped c g r = false ->
      reply_of_step (Storage.step cf now2 st' r) = reply_of_step (Storage.step cf now2 st r).
Proof. exact fetch_after_drop_same. Qed.
Print Assumptions C16_fetch_after_drop_same.

Theorem C16_cluster_list_after_drop :
  forall cf now st st' c g,
    drops_expired_group cf now st st' c g ->
    forall x, In x (AMap.keys st') <-> In x (AMap.keys st).
Proof. exact cluster_list_after_drop. Qed.
Print Assumptions C16_cluster_list_after_drop.

(* the two halves linked: every request a GET handler sends -- directly or through the evaluator, which
   issues StorageFetchConsumer for the same pair -- is a Fetch request of the storage model, on which
   Storage.step is read-only in the sense above *)
Theorem C16_get_is_readonly :
  forall (intern : bytes -> Z) (r : route) (ps : params) (reqbody : Z) (b : backend) (cfg : tree),
    is_get r = true ->
    Forall (fun i =>
              let q := match i with IStorage q => q | IEval c g _ => eval_storage_req c g end in
              exists sr, to_storage_req intern q = Some sr /\ storage_fetch_req sr = true /\ step_readonly sr)
           (fst (handle r ps reqbody b cfg)).
Proof. exact get_is_readonly. Qed.
Print Assumptions C16_get_is_readonly.

(* ---- the tables: what the per-run obligations mean ---- *)

Theorem C16_route_table_complete :
  forall tbl opts, route_table_ok tbl opts = true ->
    (forall m p, In (m, p) documented_v3 ->
       exists r segs h reg, is_v3 r = true /\ route_method r = m /\ route_pattern r = p /\
                          In (RtRow m p segs h reg) tbl) /\
    (forall r, count_rows (row_is r) tbl = 1%nat /\ count_rows (row_same_path r) tbl = 1%nat) /\
    (forall row, In row tbl -> exists r, route_of_row row = Some r /\ row_is r row = true) /\
    (forall o, In o opts -> In (fst o) allowed_router_opts) /\ (exists o, In o opts /\ fst o = "NotFound"%string).
Proof. exact route_table_complete. Qed.
Print Assumptions C16_route_table_complete.

Theorem C16_every_row_has_envelope :
  forall tbl opts, route_table_ok tbl opts = true ->
  forall row, In row tbl ->
    exists r, route_of_row row = Some r /\
      forall (b : backend), backend_typed b -> forall (ps : params) (reqbody : Z) (cfg : tree),
        snd (handle r ps reqbody b cfg) <> Crash /\
        (is_v3 r = true -> present r ps reqbody b cfg ->
           exists st, snd (handle r ps reqbody b cfg) = Resp 200 true (BJson false true true st)) /\
        (is_delete_route r = false -> unknown_full r ps b cfg ->
           snd (handle r ps reqbody b cfg) = unknown_answer r).
Proof. exact every_row_has_envelope. Qed.
Print Assumptions C16_every_row_has_envelope.

Theorem C16_get_handlers_construct_only_fetch :
  forall tbl hr, request_types_ok tbl hr = true ->
  forall r, is_get r = true ->
    exists h tys ev pn, row_handler_of r tbl = Some h /\ hreq_for h hr = Some (HReq h tys ev pn) /\
                        (forall t, In t tys -> fetch_name t = true) /\
                        (r <> RMetrics -> same_set tys (map req_type_name (route_req_types r)) = true /\ ev = route_evals r).
Proof. exact get_handlers_construct_only_fetch. Qed.
Print Assumptions C16_get_handlers_construct_only_fetch.

(* ---- F9 (repaired by /repo commit cc4f2f8): the old module test answered 200 for a dotted name ---- *)
Theorem C16_dotted_module_name_v0_refuted :
  exists (cfg : tree) (name : bytes) (b : backend),
    module_configured cfg s_storage name = false /\
    snd (handle_v0 RCfgStorageDetail [(s_name, name)] 2 b cfg) = Resp 200 true (BJson false true true None).
Proof. exact dotted_module_name_v0_refuted. Qed.
Print Assumptions C16_dotted_module_name_v0_refuted.

(* ---- non-vacuity: the hypotheses are met by concrete, non-trivial states ---- *)

(* a typed backend with a cluster, a topic with two offsets and a group in status ERR *)
Example C16_ex_typed_backend : backend_typed example_backend.
Proof. exact typed_backend_exists. Qed.

(* [present] / [unknown_full] hold of concrete requests, and the answers are the ones the theorems give *)
Example C16_ex_exists :
  present RTopicDetail [(s_cluster, pb "c1"); (s_topic, pb "orders")] 2 example_backend (Node KNil) /\
  snd (handle RTopicDetail [(s_cluster, pb "c1"); (s_topic, pb "orders")] 2 example_backend (Node KNil))
  = Resp 200 true (BJson false true true None).
Proof. exact envelope_example_exists. Qed.

Example C16_ex_unknown_topic :
  unknown_full RTopicDetail [(s_cluster, pb "c1"); (s_topic, pb "nosuch")] example_backend (Node KNil) /\
  snd (handle RTopicDetail [(s_cluster, pb "c1"); (s_topic, pb "nosuch")] 2 example_backend (Node KNil))
  = Resp 404 true (BJson true true true None).
Proof. exact envelope_example_unknown_topic. Qed.

Example C16_ex_status :
  snd (handle RConsumerStatus [(s_cluster, pb "c1"); (s_consumer, pb "billing")] 2 example_backend (Node KNil))
  = Resp 200 true (BJson false true true (Some 3))
  /\ snd (handle RConsumerStatus [(s_cluster, pb "c1"); (s_consumer, pb "nogroup")] 2 example_backend (Node KNil))
  = Resp 404 true (BJson false true true (Some 0)).
Proof. exact envelope_example_status. Qed.

(* a configured module (case-insensitively) and a dotted non-module *)
Example C16_ex_module :
  present RCfgStorageDetail [(s_name, pb "LOCAL")] 2 example_backend f9_cfg /\
  unknown_full RCfgStorageDetail [(s_name, pb "local.intervals")] example_backend f9_cfg.
Proof. exact envelope_example_module. Qed.

(* module names are compared as viper compares them, with Go's Unicode lower-casing: U+212A KELVIN SIGN + "afka" names
   the configured module "kafka" (200), a truncated sequence does not (unknown) *)
Example C16_ex_kelvin_sign_names_module :
  present RCfgConsumerDetail [(s_name, kelvin_afka)] 2 example_backend kelvin_cfg /\
  snd (handle RCfgConsumerDetail [(s_name, kelvin_afka)] 2 example_backend kelvin_cfg) = Resp 200 true (BJson false true true None) /\
  unknown_full RCfgConsumerDetail [(s_name, kelvin_truncated)] example_backend kelvin_cfg.
Proof. exact kelvin_sign_names_module. Qed.

(* unrouted requests on a three-row table: outside the region where the router may answer by itself, and inside it
   (trailing slash, case / "//" / "." variants, a path registered under another method, the root) *)
Example C16_ex_unrouted_region :
  dispatch mini_table (pb "GET") (pb "/v3/no/such/uri") = None /\
  router_level_possible mini_table (pb "/v3/no/such/uri") = false /\
  router_level_possible mini_table (pb "/v3/kafka/c1/extra") = false /\
  dispatch mini_table (pb "GET") (pb "/v3/kafka/") = None /\
  router_level_possible mini_table (pb "/v3/kafka/") = true /\
  router_level_possible mini_table (pb "/V3//Kafka/./c1") = true /\
  dispatch mini_table (pb "PUT") (pb "/v3/kafka") = None /\
  router_level_possible mini_table (pb "/v3/kafka") = true /\
  router_level_possible mini_table (pb "/./.") = true.
Proof. exact unrouted_region_example. Qed.

(* the contract is needed: FetchClusters answered with nil panics handleClusterList *)
Example C16_ex_untyped_backend_crashes :
  snd (handle RClusterList [] 2 (world_backend example_world 1 true) (Node KNil)) = Crash.
Proof. exact untyped_backend_crashes. Qed.

(* a storage state where a Fetch does drop an expired group, and on which the storage-backed backend is typed *)
Example C16_ex_fetch_drops_expired :
  Storage.step example_cf 100 example_state (Storage.FetchConsumer 1 7)
  = Storage.Done [(1, Storage.mkCluster [] [])] Storage.RNil /\
  drops_expired_group example_cf 100 example_state [(1, Storage.mkCluster [] [])] 1 7.
Proof. exact fetch_drops_expired_example. Qed.

Example C16_ex_storage_backend_typed :
  backend_typed (storage_backend (fun _ => 1) (fun _ => []) example_cf 0 example_state
                                 (fun _ _ _ => Some (mk_gstatus 1 true)) true).
Proof. exact storage_backend_typed_example. Qed.

(* a reachable storage state with a live group: the bounds hold, FetchConsumer answers a non-empty reply, and the
   evaluator model answers status OK for the group and NOTFOUND for an unknown one *)
Example C16_ex_reachable_state :
  (exists reps, Storage.run reach_cf (Storage.init_state [1]) reach_hist = Some (reach_state, reps)) /\
  StorageProofs.wf_hist reach_hist /\ groups_bounded reach_state /\
  (exists l, Storage.fetch_consumer reach_cf 1005 reach_state 1 7 = Storage.Done reach_state (Storage.RConsumer l) /\ l <> []) /\
  evaluator_model reach_cf 1005 reach_state F32.f32_zero 0 1005 1 7 true = Some (mk_gstatus 1 true) /\
  evaluator_model reach_cf 1005 reach_state F32.f32_zero 0 1005 1 8 true = Some (mk_gstatus 0 true).
Proof. exact reachable_state_example. Qed.
