(* C05 — every status request gets one answer, for the right group, within cache age.
   Model: Cache.v (goswarm Simple.Query at the granularity of its atomic operations + getConsumerStatus +
   cacheKey/splitCacheKey of the repaired caching.go).  A run is [run ... reqs sched]: one thread per request,
   [sched] says which thread takes its next atomic step at which wall-clock time (ANY list: every interleaving of any
   number of concurrent requesters, the sequential ones included); storage is ANY function of time [lookup]; the
   evaluation of a storage reply [evalf] and the problems-only view [filt] are ANY functions; names are ANY byte
   strings.  [cfg_ok L fixed0]: lifetime L >= 0, and the cache is consulted only when L > 0 (the repaired code:
   fixed0 = true, see cfg_ok_repaired).
   A request is (cluster, group, ShowAll).  The status objects evaluateConsumerStatus makes live in a heap; the cache
   and every requester of the full view hold the SAME object, the filtered view is an operation [filt_op] on that object
   (Cache.deliver); the code's operation is [pure_op filt] (it copies), for which all run theorems below are stated.
   What stays true BY CONSTRUCTION of the model (faithful to the code, but not a theorem with content): the ShowAll flag is
   read only at the reply step (getConsumerStatus reads request.ShowAll after Query returned), so it cannot influence
   what is fetched or cached; check_obs_sound takes the delivered body as view sa v of the EvReply event (that this is
   what the requester is really handed is filtered_does_not_disturb); the evaluation clock is the fetch time s.
   Reply event: EvReply i t rc rg c g v s cr r start = request i (for cluster rc, group rg) is answered at time t with
   names (c, g) and status v (None = NOTFOUND), computed from the storage fetch made at s, stored at cr, found valid
   at r; the request's first step was at start. *)
From Coq Require Import ZArith List Bool Lia.
From Burrow Require Import Eval AMap Storage Cache CacheProofs CacheStorageProofs.
Import ListNotations.
Open Scope Z_scope.

(* ---- keys ---- *)
Theorem split_mk_key : forall c g, split_key (mk_key c g) = Some (c, g).
Proof. exact CacheProofs.split_mk_key. Qed.
Print Assumptions split_mk_key.

Theorem key_injective : forall c1 g1 c2 g2, mk_key c1 g1 = mk_key c2 g2 -> c1 = c2 /\ g1 = g2.
Proof. exact CacheProofs.key_injective. Qed.
Print Assumptions key_injective.

(* the key of the unrepaired code was right only for cluster names without a space ... *)
Theorem split_mk_key_old : forall c g, no_space c -> split_key_old (mk_key_old c g) = Some (c, g).
Proof. exact CacheProofs.split_mk_key_old. Qed.
Print Assumptions split_mk_key_old.

Theorem key_injective_old : forall c1 g1 c2 g2, no_space c1 -> no_space c2 ->
  mk_key_old c1 g1 = mk_key_old c2 g2 -> c1 = c2 /\ g1 = g2.
Proof. exact CacheProofs.key_injective_old. Qed.
Print Assumptions key_injective_old.

(* ... and wrong otherwise (repaired in /repo; kept as documentation): "a b"/"c" and "a"/"b c" *)
Theorem key_collision_refuted :
  exists c1 g1 c2 g2, (c1, g1) <> (c2, g2) /\ mk_key_old c1 g1 = mk_key_old c2 g2
                      /\ split_key_old (mk_key_old c1 g1) = Some (c2, g2).
Proof. exact CacheProofs.key_collision_refuted. Qed.
Print Assumptions key_collision_refuted.

Theorem names_shared_old_refuted :
  exists reqs sched,
    hd_error (trace (run Z Z (fun _ d => d) (pure_op (fun v => v)) wit_lookup1 mk_key_old split_key_old 10 true reqs sched))
    = Some (EvReply 0 4 [97; 32; 98] [99] [97] [98; 32; 99] (Some 7) 2 3 3 1)
    /\ wit_lookup1 2 [97; 32; 98] [99] = None.
Proof. exact CacheProofs.names_shared_old_refuted. Qed.
Print Assumptions names_shared_old_refuted.

Theorem zero_lifetime_old_refuted :
  exists reqs sched,
    hd_error (trace (run Z Z (fun _ d => d) (pure_op (fun v => v)) wit_lookup2 mk_key split_key 0 false reqs sched))
    = Some (EvReply 1 1001 [97] [103] [97] [103] (Some 7) 2 3 1000 1000)
    /\ wit_lookup2 1000 [97] [103] = None.
Proof. exact CacheProofs.zero_lifetime_old_refuted. Qed.
Print Assumptions zero_lifetime_old_refuted.

(* ---- the property, for the repaired code ---- *)

(* exactly one reply per request -- never two in any schedule, one as soon as the request's goroutine has been given
   five steps (no step can block), none for anything that is not a request -- naming the request's cluster and group *)
Theorem one_reply_named :
  forall (data value : Type) (evalf : Z -> data -> value) (filt : value -> value) (lookup : Z -> name -> name -> option data)
         (L : Z) (fixed0 : bool) (reqs : list (name * name * bool)) (sched : list (nat * Z)) (i : nat),
    cfg_ok L fixed0 ->
    let tr := trace (run data value evalf (pure_op filt) lookup mk_key split_key L fixed0 reqs sched) in
    (length (replies_of data value i tr) <= 1)%nat
    /\ ((i < length reqs)%nat -> (5 <= occ i sched)%nat -> length (replies_of data value i tr) = 1%nat)
    /\ ((length reqs <= i)%nat -> replies_of data value i tr = [])
    /\ (forall t rc rg c g v s cr r start,
          In (EvReply i t rc rg c g v s cr r start) tr ->
          (exists sa, nth_error reqs i = Some (rc, rg, sa)) /\ c = rc /\ g = rg).
Proof. exact CacheProofs.one_reply_named. Qed.
Print Assumptions one_reply_named.

(* a reply delivered at t is the evaluation of the storage fetch of the request's own (cluster, group) made at s --
   that fetch is in the trace --; its result was stored at cr >= s, and at some moment r within the request
   (start <= r <= t) it was still valid: r <= cr + L, i.e. r - s <= L + evaluation time (cr - s) *)
Theorem staleness_bound :
  forall (data value : Type) (evalf : Z -> data -> value) (filt : value -> value) (lookup : Z -> name -> name -> option data)
         (L : Z) (fixed0 : bool) (reqs : list (name * name * bool)) (sched : list (nat * Z))
         i t rc rg c g v s cr r start,
    cfg_ok L fixed0 ->
    let tr := trace (run data value evalf (pure_op filt) lookup mk_key split_key L fixed0 reqs sched) in
    In (EvReply i t rc rg c g v s cr r start) tr ->
    v = option_map (evalf s) (lookup s rc rg)
    /\ (exists tid, In (EvLookup tid s rc rg (lookup s rc rg)) tr)
    /\ s <= cr /\ cr <= t /\ start <= r /\ r <= t /\ r - s <= L + (cr - s).
Proof. exact CacheProofs.staleness_bound. Qed.
Print Assumptions staleness_bound.

(* NOTFOUND exactly when storage held no live data for the group at that moment s *)
Theorem notfound_iff :
  forall (data value : Type) (evalf : Z -> data -> value) (filt : value -> value) (lookup : Z -> name -> name -> option data)
         (L : Z) (fixed0 : bool) (reqs : list (name * name * bool)) (sched : list (nat * Z))
         i t rc rg c g v s cr r start,
    cfg_ok L fixed0 ->
    In (EvReply i t rc rg c g v s cr r start) (trace (run data value evalf (pure_op filt) lookup mk_key split_key L fixed0 reqs sched)) ->
    (v = None <-> lookup s rc rg = None).
Proof. exact CacheProofs.notfound_iff. Qed.
Print Assumptions notfound_iff.

(* requests for different (cluster, group) pairs have different keys, and each is answered from fetches of its own pair *)
Theorem not_shared :
  forall (data value : Type) (evalf : Z -> data -> value) (filt : value -> value) (lookup : Z -> name -> name -> option data)
         (L : Z) (fixed0 : bool) (reqs : list (name * name * bool)) (sched : list (nat * Z))
         i t rc rg c g v s cr r start j t' rc' rg' c' g' v' s' cr' r' start',
    cfg_ok L fixed0 ->
    let tr := trace (run data value evalf (pure_op filt) lookup mk_key split_key L fixed0 reqs sched) in
    In (EvReply i t rc rg c g v s cr r start) tr ->
    In (EvReply j t' rc' rg' c' g' v' s' cr' r' start') tr ->
    (rc, rg) <> (rc', rg') ->
    mk_key rc rg <> mk_key rc' rg'
    /\ (c, g) = (rc, rg) /\ v = option_map (evalf s) (lookup s rc rg)
    /\ (c', g') = (rc', rg') /\ v' = option_map (evalf s') (lookup s' rc' rg').
Proof. exact CacheProofs.not_shared. Qed.
Print Assumptions not_shared.

(* serving a filtered view never changes what later requests see.  In every schedule every requester -- whoever was
   served what before, filtered or not -- is handed exactly the view it asked for (sa is the ShowAll flag of its
   request) of the status v that Query returned to it (the v of its own EvReply event, which staleness_bound and
   notfound_iff describe); a later full view is the untouched evaluation.  This is NOT true by construction: the full
   view hands out the cached object itself, the filtered view is an operation on that shared heap object, and the
   theorem is about the code's operation pure_op filt (CacheProofs.inv3: every cached object stays what
   evaluateConsumerStatus made it).  With an operation that builds the copy in place it fails: next theorem. *)
Theorem filtered_does_not_disturb :
  forall (data value : Type) (evalf : Z -> data -> value) (filt : value -> value)
         (lookup : Z -> name -> name -> option data) (L : Z) (fixed0 : bool)
         (reqs : list (name * name * bool)) (sched : list (nat * Z)) i t sa v dv,
    let tr := trace (run data value evalf (pure_op filt) lookup mk_key split_key L fixed0 reqs sched) in
    In (EvDeliver i t sa v dv) tr ->
    dv = option_map (view value filt sa) v
    /\ (exists rc rg c g s cr r start, In (EvReply i t rc rg c g v s cr r start) tr)
    /\ (exists rc rg, nth_error reqs i = Some (rc, rg, sa)).
Proof. exact CacheProofs.filtered_does_not_disturb. Qed.
Print Assumptions filtered_does_not_disturb.

(* what the probe's "reply objects unchanged afterwards" guards: with a filtered view built in place
   (wit_alias_op: the cached object is left holding the filtered list) request 0 (filtered) is served, then request 1
   (full view of the same group, served from the cache) is handed [3] although Query returned the evaluation [1; 3];
   with the code's copying operation the same run hands it [1; 3] *)
Theorem filtered_aliasing_refuted :
  exists reqs sched,
    nth_error (trace (run (list Z) (list Z) (fun _ d => d) wit_alias_op wit_lookup3 mk_key split_key 10 true reqs sched)) 1
    = Some (EvDeliver 1 6 true (Some [1; 3]) (Some [3]))
    /\ Some [3] <> option_map (view (list Z) wit_filt true) (Some [1; 3])
    /\ nth_error (trace (run (list Z) (list Z) (fun _ d => d) (pure_op wit_filt) wit_lookup3 mk_key split_key 10 true reqs sched)) 1
       = Some (EvDeliver 1 6 true (Some [1; 3]) (Some [1; 3])).
Proof. exact CacheProofs.filtered_aliasing_refuted. Qed.
Print Assumptions filtered_aliasing_refuted.

(* the delivery-time reading (what the observation oracle enforces): a request issued at qt, not after its first step,
   answered from a fetch whose evaluation (fetch to store) took at most slack, reflects storage no older than
   L + slack when the request was made, and not newer than the reply *)
Theorem delivery_age_bound :
  forall (data value : Type) (evalf : Z -> data -> value) (filt : value -> value) (lookup : Z -> name -> name -> option data)
         (L : Z) (fixed0 : bool) (reqs : list (name * name * bool)) (sched : list (nat * Z))
         i t rc rg c g v s cr r start qt slack,
    cfg_ok L fixed0 ->
    In (EvReply i t rc rg c g v s cr r start)
       (trace (run data value evalf (pure_op filt) lookup mk_key split_key L fixed0 reqs sched)) ->
    qt <= start -> cr - s <= slack ->
    qt - s <= L + slack /\ s <= t.
Proof. exact CacheProofs.delivery_age_bound. Qed.
Print Assumptions delivery_age_bound.

(* the property's oracle over observations alone (Cache.check_obs: one reply per request, naming it, equal to the
   evaluation -- NOTFOUND for nil -- of a storage fetch of the request's own pair that is not later than the reply and
   not older than L + slack when the request was made) accepts what the storage channel and the requesters see of
   EVERY complete run of the model in which requests are issued before their first step and evaluation (fetch to
   store) takes at most slack.  This is the oracle the check evaluates on the implementation's observations. *)
Theorem check_obs_sound :
  forall (data value : Type) (evalf : Z -> data -> value) (filt : value -> value)
         (lookup : Z -> name -> name -> option data) (L : Z) (fixed0 : bool)
         (value_eqb : value -> value -> bool),
    (forall v, value_eqb v v = true) ->
    forall (qs : list oreq) (sched : list (nat * Z)) (slack : Z),
    cfg_ok L fixed0 ->
    let tr := trace (run data value evalf (pure_op filt) lookup mk_key split_key L fixed0 (map (fun q => (q_c q, q_g q, q_sa q)) qs) sched) in
    (forall i, (i < length qs)%nat -> (5 <= occ i sched)%nat) ->
    (forall i t rc rg c g v s cr r start q,
        In (EvReply i t rc rg c g v s cr r start) tr -> nth_error qs i = Some q ->
        cr - s <= slack /\ q_t q <= start) ->
    Forall (fun z => z = 0)
           (check_obs data value evalf filt L value_eqb slack qs (obs_looks data value tr) (obs_reps data value filt qs tr)).
Proof. exact CacheProofs.check_obs_sound. Qed.
Print Assumptions check_obs_sound.

(* composed once with the storage layer (CacheStorageProofs.v): [lookup] is the storage model's FetchConsumer handler on
   ANY storage history [sst] (state of the storage module at a wall-clock time), so "no live data" reads as Storage.v's
   unknown cluster / unknown group / group past expire-group.  Hypothesis besides cfg_ok: the storage handler does not
   crash on a fetch (storage layer, C08/C17). *)
Theorem C05_notfound_means_absent :
  forall (cf : Storage.config) (sst : Z -> Storage.state) (now_s : Z -> Z) (idc idg : name -> Z)
         (value : Type) (evalf : Z -> list (Z * list cpart) -> value) (filt : value -> value) (L : Z) (fixed0 : bool)
         (reqs : list (name * name * bool)) (sched : list (nat * Z)) i t rc rg c g v s cr r start,
    cfg_ok L fixed0 ->
    (forall t c g, fetch cf sst now_s idc idg t c g <> Crashed) ->
    In (EvReply i t rc rg c g v s cr r start)
       (trace (run (list (Z * list cpart)) value evalf (pure_op filt) (storage_lookup cf sst now_s idc idg)
                   mk_key split_key L fixed0 reqs sched)) ->
    (v = None <-> unknown_cluster sst idc s rc \/ unknown_group sst idc idg s rc rg \/ expired_group cf sst now_s idc idg s rc rg)
    /\ s <= cr /\ cr <= t /\ start <= r /\ r <= t /\ r - s <= L + (cr - s).
Proof. exact CacheStorageProofs.C05_notfound_means_absent. Qed.
Print Assumptions C05_notfound_means_absent.

(* ---- non-vacuity ---- *)

(* the configuration of the repaired code satisfies cfg_ok for every lifetime, 0 included *)
Example cfg_ok_zero : cfg_ok 0 true.
Proof. apply cfg_ok_repaired. lia. Qed.
Example cfg_ok_ten : cfg_ok 10 true.
Proof. apply cfg_ok_repaired. lia. Qed.

(* a run with two requesters of one group interleaved with a third for a colliding pair ("a b"/"c" vs "a"/"b c"):
   storage holds data for "a"/"b c" until time 100.  Thread 1 and 2 both miss and both fetch (no per-key lock);
   thread 0 (the colliding name) is answered NOTFOUND under its own names; request 3 comes at 2000, after the
   lifetime (1000), re-fetches and finds the group gone; the cached NOTFOUND then serves request 4 and starts a
   background refresh (thread 5). *)
Definition ex_lookup (t : Z) (c g : name) : option Z :=
  if bytes_eqb c [97] && bytes_eqb g [98; 32; 99] && (t <? 100) then Some (t * 10) else None.
Definition ex_reqs : list (name * name * bool) :=
  [([97; 32; 98], [99], true); ([97], [98; 32; 99], true); ([97], [98; 32; 99], false); ([97], [98; 32; 99], true);
   ([97], [98; 32; 99], true)].
Definition ex_sched : list (nat * Z) :=
  [(1%nat, 1); (2%nat, 2); (0%nat, 3); (1%nat, 4); (2%nat, 5); (0%nat, 6); (1%nat, 7); (2%nat, 8); (0%nat, 9); (0%nat, 10); (0%nat, 11);
   (2%nat, 12); (1%nat, 13);
   (3%nat, 2000); (3%nat, 2001); (3%nat, 2002); (3%nat, 2003); (3%nat, 2004);
   (4%nat, 2100); (4%nat, 2101); (5%nat, 2102); (5%nat, 2103); (5%nat, 2104); (5%nat, 2105)].
Example ex_trace :
  filter (fun ev => match ev with EvReply _ _ _ _ _ _ _ _ _ _ _ => true | _ => false end)
         (trace (run Z Z (fun _ d => d) (pure_op (fun v => v)) ex_lookup mk_key split_key 1000 true ex_reqs ex_sched))
  = [EvReply 4 2101 [97] [98; 32; 99] [97] [98; 32; 99] None 2001 2002 2100 2100;
     EvReply 3 2004 [97] [98; 32; 99] [97] [98; 32; 99] None 2001 2002 2002 2000;
     EvReply 1 13 [97] [98; 32; 99] [97] [98; 32; 99] (Some 40) 4 7 7 1;
     EvReply 2 12 [97] [98; 32; 99] [97] [98; 32; 99] (Some 50) 5 8 8 2;
     EvReply 0 11 [97; 32; 98] [99] [97; 32; 98] [99] None 6 9 9 3].
Proof. vm_compute. reflexivity. Qed.
Example ex_refresh_fetch :
  In (EvLookup 5 2102 [97] [98; 32; 99] None)
     (trace (run Z Z (fun _ d => d) (pure_op (fun v => v)) ex_lookup mk_key split_key 1000 true ex_reqs ex_sched)).
Proof. vm_compute. tauto. Qed.
(* steps taken: an error path needs five steps (thread 0, 3), a good path four; request 4 answered a cached NOTFOUND in two *)
Example ex_steps : map (fun i => occ i ex_sched) [0; 1; 2; 3; 4; 5]%nat = [5; 4; 4; 5; 2; 4]%nat.
Proof. vm_compute. reflexivity. Qed.

(* the oracle on the observations of that run (lifetime 1000, slack 10): accepted; and it is not vacuous -- a reply to
   request 4 claiming the data of the fetch made at 4 (long expired at 2100) is rejected with code 3, a reply to
   request 3 under another group name with code 2 *)
Definition ex_qs : list oreq :=
  [mkOreq [97; 32; 98] [99] true 3; mkOreq [97] [98; 32; 99] true 1; mkOreq [97] [98; 32; 99] false 2;
   mkOreq [97] [98; 32; 99] true 2000; mkOreq [97] [98; 32; 99] true 2100].
Definition ex_tr := trace (run Z Z (fun _ d => d) (pure_op (fun v => v)) ex_lookup mk_key split_key 1000 true ex_reqs ex_sched).
Example ex_oracle_accepts :
  check_obs Z Z (fun _ d => d) (fun v => v) 1000 Z.eqb 10 ex_qs (obs_looks Z Z ex_tr) (obs_reps Z Z (fun v => v) ex_qs ex_tr)
  = [0; 0; 0; 0; 0].
Proof. vm_compute. reflexivity. Qed.
Example ex_oracle_rejects :
  check_obs Z Z (fun _ d => d) (fun v => v) 1000 Z.eqb 10 ex_qs (obs_looks Z Z ex_tr)
            (mkOrep Z 4 2101 [97] [98; 32; 99] (Some 40) :: mkOrep Z 3 2004 [97] [98; 32] None
             :: skipn 2 (obs_reps Z Z (fun v => v) ex_qs ex_tr))
  = [0; 0; 0; 2; 3].
Proof. vm_compute. reflexivity. Qed.

(* the storage instantiation is inhabited: a storage module that knows cluster 1 and no group never crashes on a fetch,
   answers nil, and the three readings of "no live data" are distinguished *)
Definition ex_cf : Storage.config := mkConfig 2 600 1 (fun _ => true).
Definition ex_sst (t : Z) : Storage.state := init_state [1].
Definition ex_id (n : name) : Z := match n with [x] => x | _ => 0 end.
Example ex_storage_unknown_cluster : unknown_cluster ex_sst ex_id 5 [9] /\ storage_lookup ex_cf ex_sst (fun t => t) ex_id ex_id 5 [9] [7] = None.
Proof. split; vm_compute; reflexivity. Qed.
Example ex_storage_unknown_group : unknown_group ex_sst ex_id ex_id 5 [1] [7] /\ ~ unknown_cluster ex_sst ex_id 5 [1].
Proof. split; [eexists; split; vm_compute; reflexivity|vm_compute; discriminate]. Qed.
Example ex_storage_no_crash : forall t c g, fetch ex_cf ex_sst (fun t => t) ex_id ex_id t c g <> Crashed.
Proof.
  intros t c g. unfold fetch, ex_sst, init_state. cbn [Storage.step map]. unfold fetch_consumer. cbn [get].
  destruct (1 =? ex_id c); [cbn [cl_consumer get]|]; discriminate.
Qed.
