From Coq Require Import ZArith List Bool Lia.
From Burrow Require Import Cache CacheProofs.
Import ListNotations.
Open Scope Z_scope.

Theorem split_mk_key : forall c g, split_key (mk_key c g) = Some (c, g).
Proof. exact CacheProofs.split_mk_key. Qed.
Print Assumptions split_mk_key.
