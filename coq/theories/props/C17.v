(* C17 — Served data equals ingested state; nothing outlives its deletion.
   Statements only; proofs in MetricsProofs.v.  Model: Metrics (registry, scrape, the Delete functions) over Storage.step and Eval.eval_group. *)
From Coq Require Import ZArith List Bool String.
From Burrow Require Import Int64 F32 Eval AMap Ring Storage StorageProofs Metrics MetricsProofs MetricsFullProofs.
From BurrowGen Require Import JsonTags.
Import ListNotations.
Open Scope Z_scope.

(* ---- the three exported Delete functions remove exactly the series labelled with the named item ---- *)
Theorem C17_delete_consumer_metrics :
  forall c g r k, reg_get (delete_consumer_metrics c g r) k = if names_group c g k then None else reg_get r k.
Proof. exact delete_consumer_metrics_spec. Qed.
Print Assumptions C17_delete_consumer_metrics.

Theorem C17_delete_topic_metrics :
  forall c t r k, reg_get (delete_topic_metrics c t r) k = if names_topic c t k then None else reg_get r k.
Proof. exact delete_topic_metrics_spec. Qed.
Print Assumptions C17_delete_topic_metrics.

Theorem C17_delete_consumer_topic_metrics :
  forall c g t r k, reg_get (delete_consumer_topic_metrics c g t r) k = if names_group_topic c g t k then None else reg_get r k.
Proof. exact delete_consumer_topic_metrics_spec. Qed.
Print Assumptions C17_delete_consumer_topic_metrics.

(* DeletePartialMatch with a label name the family does not have matches nothing (the two calls of DeleteTopicMetrics on the
   group-level families are harmless no-ops) *)
Theorem C17_partial_match_foreign_label :
  forall c t r k,
    reg_get (vec_delete_partial FStatus [(LCluster, c); (LTopic, t)]
               (vec_delete_partial FTotalLag [(LCluster, c); (LTopic, t)] r)) k = reg_get r k.
Proof. exact delete_partial_group_family_noop. Qed.
Print Assumptions C17_partial_match_foreign_label.

(* before the repair f85cddf: the partition status series of a deleted topic stayed *)
Theorem C17_delete_topic_metrics_v0_refuted :
  exists c t r k, names_topic c t k = true /\ reg_get (delete_topic_metrics_v0 c t r) k <> None.
Proof. exact delete_topic_metrics_v0_refuted. Qed.
Print Assumptions C17_delete_topic_metrics_v0_refuted.

(* ==== metrics_equal_state ====
   C17_metrics_equal_state is the property at its strongest reading: for EVERY history of ingest, deletions through their paths,
   status requests and EARLIER SCRAPES, the registry after a scrape is exactly what the live state calls for, key by key (each
   offset / lag / status attributed to its own group, topic and partition id through [expected] / [written]).
   Side conditions (all about the configuration / the shape of requests, none about the history's length or order):
     1 <= intervals <= 2^24   (float32: beyond 2^24 slots (n-1)/n rounds to 1.0, EvalCompleteProofs)
     the configured cluster names are distinct
     op_ok: a SetBrokerOffset names a partition below its partition count and offsets are int64 (StorageProofs.wf_req: otherwise
            the storage worker panics), and StorageSetDeleteTopic reaches storage only together with DeleteTopicMetrics
            (OTopicDeleted; the regenerated table C17_delete_sites_table shows the tree has no other sender;
            C17_bare_delete_topic_refuted shows the condition is needed).
   No series can be called for at one scrape and not at the next without a deletion path having run in between
   (MetricsFullProofs.step_live: groups, partition lists and broker partitions only disappear through DeleteTopic / DeleteGroup /
   the expiry purge, whose metric deletions remove exactly those series; a full window stays full).
   C17_scrape_reports_state / C17_scrape_never_invents / C17_metrics_equal_state_first_scrape need no side condition at all. *)
Theorem C17_scrape_reports_state :
  forall sc now sy sy' k,
    scrape sc now sy = Some sy' -> expected sc now (s_st sy') k <> None ->
    reg_get (s_reg sy') k = expected sc now (s_st sy') k.
Proof. exact scrape_reports_state. Qed.
Print Assumptions C17_scrape_reports_state.

Theorem C17_scrape_never_invents :
  forall sc now sy sy' k,
    scrape sc now sy = Some sy' ->
    reg_get (s_reg sy') k = expected sc now (s_st sy') k \/
    (expected sc now (s_st sy') k = None /\ reg_get (s_reg sy') k = reg_get (s_reg sy) k).
Proof. exact scrape_spec. Qed.
Print Assumptions C17_scrape_never_invents.

Theorem C17_metrics_equal_state_first_scrape :
  forall sc clusters h sy now sy' k,
    forallb (fun no => not_scrape (snd no)) h = true ->
    sys_run sc (init_sys clusters) h = Some sy -> scrape sc now sy = Some sy' ->
    reg_get (s_reg sy') k = expected sc now (s_st sy') k.
Proof. exact metrics_equal_state_first_scrape. Qed.
Print Assumptions C17_metrics_equal_state_first_scrape.

Theorem C17_metrics_equal_state :
  forall sc clusters h sy now sy' k,
    (1 <= cf_intervals (sc_st sc))%nat -> Z.of_nat (cf_intervals (sc_st sc)) <= 2 ^ 24 -> NoDup clusters ->
    Forall (fun no => op_ok (snd no)) h ->
    sys_run sc (init_sys clusters) h = Some sy -> scrape sc now sy = Some sy' ->
    reg_get (s_reg sy') k = expected sc now (s_st sy') k.
Proof. exact metrics_equal_state. Qed.
Print Assumptions C17_metrics_equal_state.

(* what "called for" means structurally: the group exists / the partition is in the group's list for that topic / its window
   is full / the broker partition has an offset *)
Theorem C17_expected_iff_live :
  forall sc clusters h sy now sy' k,
    (1 <= cf_intervals (sc_st sc))%nat -> Z.of_nat (cf_intervals (sc_st sc)) <= 2 ^ 24 -> NoDup clusters ->
    Forall (fun no => op_ok (snd no)) h ->
    sys_run sc (init_sys clusters) h = Some sy -> scrape sc now sy = Some sy' ->
    (expected sc now (s_st sy') k <> None <-> live (s_st sy') k).
Proof. exact expected_iff_live. Qed.
Print Assumptions C17_expected_iff_live.

(* a StorageSetDeleteTopic without DeleteTopicMetrics (excluded by op_ok; no function of the tree sends one) leaves series behind *)
Theorem C17_bare_delete_topic_refuted :
  exists sc cls h sy now sy' k,
    sys_run sc (init_sys cls) h = Some sy /\ scrape sc now sy = Some sy' /\
    reg_get (s_reg sy') k <> expected sc now (s_st sy') k.
Proof. exact bare_delete_topic_refuted. Qed.
Print Assumptions C17_bare_delete_topic_refuted.

Example C17_metrics_equal_state_nonvacuous :
  Forall (fun no => op_ok (snd no)) ex_full_hist /\
  exists sy sy',
    sys_run (wsc 1 604800) (init_sys [1]) ex_full_hist = Some sy /\ scrape (wsc 1 604800) 1007 sy = Some sy' /\
    reg_get (s_reg sy') (KTopic 1 1 1) = Some 200 /\ reg_get (s_reg sy') (KGroup GStatus 1 1) = None.
Proof. exact metrics_equal_state_nonvacuous. Qed.
Print Assumptions C17_metrics_equal_state_nonvacuous.

(* ==== each offset attributed to its OWN partition ====
   FULL STATEMENT: forall sc now st c t p, expected sc now st (KTopic c t p) = broker_offset st c t p.
   It is false (finding C17:topic-offset-position, not repaired); proved with exactly the excluding guard. *)
Theorem C17_topic_offset_own_partition_partial :
  forall sc now st c t p,
    topic_no_gap st c t = true -> expected sc now st (KTopic c t p) = broker_offset st c t p.
Proof. exact topic_offset_own_partition. Qed.
Print Assumptions C17_topic_offset_own_partition_partial.

Theorem C17_topic_offset_position_refuted :
  exists sc now st c t p, expected sc now st (KTopic c t p) <> broker_offset st c t p.
Proof. exact topic_offset_position_refuted. Qed.
Print Assumptions C17_topic_offset_position_refuted.

(* ==== no_series_outlives: one theorem per deletion path; now' is the time of the next scrape ==== *)
Theorem C17_no_series_outlives_tombstone_or_reaper :
  forall sc now now' sy sy1 sy2 c g k,
    sys_step sc now sy (OGroupGone c g) = Some sy1 -> scrape sc now' sy1 = Some sy2 ->
    names_group c g k = true -> reg_get (s_reg sy2) k = None /\ find_group (s_st sy2) c g = None.
Proof. exact no_series_outlives_group_gone. Qed.
Print Assumptions C17_no_series_outlives_tombstone_or_reaper.

Theorem C17_no_series_outlives_api_delete_group :
  forall sc now now' sy sy1 sy2 c g k,
    get (s_st sy) c <> None ->
    sys_step sc now sy (OStorage (DeleteGroup c g 0)) = Some sy1 -> scrape sc now' sy1 = Some sy2 ->
    names_group c g k = true -> reg_get (s_reg sy2) k = None /\ find_group (s_st sy2) c g = None.
Proof. exact no_series_outlives_api_group. Qed.
Print Assumptions C17_no_series_outlives_api_delete_group.

Theorem C17_no_series_outlives_api_delete_group_topic :
  forall sc now now' sy sy1 sy2 c g t k,
    get (s_st sy) c <> None -> t <> 0 ->
    sys_step sc now sy (OStorage (DeleteGroup c g t)) = Some sy1 -> scrape sc now' sy1 = Some sy2 ->
    names_group_topic c g t k = true -> reg_get (s_reg sy2) k = None.
Proof. exact no_series_outlives_api_group_topic. Qed.
Print Assumptions C17_no_series_outlives_api_delete_group_topic.

Theorem C17_no_series_outlives_topic_deletion :
  forall sc now now' sy sy1 sy2 c t k,
    sys_step sc now sy (OTopicDeleted c t) = Some sy1 -> scrape sc now' sy1 = Some sy2 ->
    names_topic c t k = true -> reg_get (s_reg sy2) k = None.
Proof. exact no_series_outlives_topic. Qed.
Print Assumptions C17_no_series_outlives_topic_deletion.

Theorem C17_no_series_outlives_expiry :
  forall sc now sy sy' c g k,
    group_expired (sc_st sc) now (s_st sy) c g = true -> scrape sc now sy = Some sy' ->
    names_group c g k = true -> reg_get (s_reg sy') k = None /\ find_group (s_st sy') c g = None.
Proof. exact no_series_outlives_expiry. Qed.
Print Assumptions C17_no_series_outlives_expiry.

Theorem C17_no_series_outlives_expiry_on_fetch :
  forall sc now sy sy1 rep c g k,
    group_expired (sc_st sc) now (s_st sy) c g = true ->
    sys_storage sc now sy (FetchConsumer c g) = Some (sy1, rep) ->
    names_group c g k = true ->
    rep = RNil /\ reg_get (s_reg sy1) k = None /\ find_group (s_st sy1) c g = None.
Proof. exact no_series_outlives_expiry_fetch. Qed.
Print Assumptions C17_no_series_outlives_expiry_on_fetch.

Theorem C17_scrape_purges_expired :
  forall sc now sy sy' c g grp,
    scrape sc now sy = Some sy' -> find_group (s_st sy') c g = Some grp -> expired (sc_st sc) now (g_last grp) = false.
Proof. exact scrape_purges_expired. Qed.
Print Assumptions C17_scrape_purges_expired.

(* FULL STATEMENT of "once expired, no endpoint reports it": false for the list endpoints until the lazy purge has run
   (finding C17:expired-group-listed, not repaired); what holds is the three theorems above. *)
Theorem C17_expired_group_listed_refuted :
  exists sc sy now c g sy' l,
    group_expired (sc_st sc) now (s_st sy) c g = true /\
    sys_storage sc now sy (FetchConsumers c) = Some (sy', RStrings l) /\ In g l.
Proof. exact expired_group_listed_refuted. Qed.
Print Assumptions C17_expired_group_listed_refuted.

(* ==== json_equals_state: the status / lag endpoints serve the evaluation of the stored group ==== *)
Theorem C17_json_status_equals_state :
  forall sc now sy c g show_all sy' v,
    json_status sc now sy c g show_all = Some (sy', Some v) ->
    sy' = sy /\ exists gs, group_view sc now (s_st sy) c g = Some gs /\ v = (if show_all then gs else filter_view gs).
Proof. exact json_status_equals_state. Qed.
Print Assumptions C17_json_status_equals_state.

Theorem C17_json_status_notfound :
  forall sc now sy c g show_all sy',
    json_status sc now sy c g show_all = Some (sy', None) -> find_group (s_st sy') c g = None.
Proof. exact json_status_notfound. Qed.
Print Assumptions C17_json_status_notfound.

(* ==== the behaviour before the repairs 8eaa8f9 and ff5734c (scrape_v0 / nil_end_panics), kept as documentation ==== *)
Theorem C17_expiry_outlives_v0_refuted :
  exists sc sy now c g k sy',
    group_expired (sc_st sc) now (s_st sy) c g = true /\ names_group c g k = true /\
    scrape_v0 sc now sy = Some sy' /\ find_group (s_st sy') c g = None /\ reg_get (s_reg sy') k <> None.
Proof. exact expiry_outlives_v0_refuted. Qed.
Print Assumptions C17_expiry_outlives_v0_refuted.

(* a status entry with Complete = 1.0 and End = nil (what the evaluator produced for the window [nil] before 21f3585) made the
   unguarded handler panic; the guarded one reports the lag and skips offset / status *)
Theorem C17_scrape_nil_end_v0_refuted :
  exists gs, nil_end_panics gs = true /\
             reg_get (set_group 4 1 [] gs) (KPart PLag 4 1 1 1) = Some 0 /\
             reg_get (set_group 4 1 [] gs) (KPart POffset 4 1 1 1) = None.
Proof. exact scrape_nil_end_v0_refuted. Qed.
Print Assumptions C17_scrape_nil_end_v0_refuted.

(* ==== non-vacuity ==== *)
Example C17_nonvacuous :
  exists sy1 sy2 sy3,
    w_ingest (wsc 1 604800) [1]
      [(1000, SetBrokerOffset 1 1 0 2 100); (1000, SetBrokerOffset 1 2 0 1 50);
       (1000, SetConsumerOffset 1 1 1 0 90 1 999000); (1000, SetConsumerOffset 1 2 2 0 50 2 999500);
       (1000, SetConsumerOwner 1 1 1 0 7 8)] = Some sy1 /\
    scrape (wsc 1 604800) 1001 sy1 = Some sy2 /\
    reg_get (s_reg sy2) (KPart POffset 1 1 1 0) = Some 90 /\
    reg_get (s_reg sy2) (KPart PLag 1 1 1 0) = Some 10 /\
    reg_get (s_reg sy2) (KTopic 1 2 0) = Some 50 /\
    sys_step (wsc 1 604800) 1002 sy2 (OTopicDeleted 1 1) = Some sy3 /\
    reg_get (s_reg sy3) (KPart POffset 1 1 1 0) = None /\
    reg_get (s_reg sy3) (KGroup GStatus 1 1) <> None.
Proof. exact scrape_nonvacuous. Qed.
Print Assumptions C17_nonvacuous.

(* ==== regenerated tables (translator/jsontags re-reads /repo on every run; gen/JsonTags.v) ==== *)
(* once and for all: what the two checkers guarantee *)
Theorem C17_sites_ok_sound :
  forall l, sites_ok l = true ->
    (exists s, In s l /\ site_req s = "StorageSetDeleteTopic"%string) /\
    (forall s, In s l -> site_req s = "StorageSetDeleteTopic"%string -> In (wanted_call s) (site_calls s)).
Proof. exact sites_ok_sound. Qed.
Print Assumptions C17_sites_ok_sound.

Theorem C17_tags_ok_sound :
  forall tbl, tags_ok tbl = true -> forall s f k, In (s, f, k) required_tags -> In (s, f, k) tbl.
Proof. exact tags_ok_sound. Qed.
Print Assumptions C17_tags_ok_sound.

(* per run: every function of the tree that tells storage to delete a topic also calls DeleteTopicMetrics for that cluster
   and topic (the OTopicDeleted step of the model), and the served structs carry the documented JSON keys *)
Theorem C17_delete_sites_table : sites_ok JsonTags.sites = true.
Proof. vm_compute; reflexivity. Qed.
Print Assumptions C17_delete_sites_table.

Theorem C17_json_tags_table : tags_ok JsonTags.tags = true.
Proof. vm_compute; reflexivity. Qed.
Print Assumptions C17_json_tags_table.
