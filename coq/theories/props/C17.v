(* C17 — Served data equals ingested state; nothing outlives its deletion.
   Statements only; proofs in MetricsProofs.v.  Model: Metrics (registry, Delete functions, evaluator cache, pruning scrape) over Storage.step and Eval.eval_group.
   Proofs: MetricsProofs.v, MetricsFullProofs.v, MetricsCacheProofs.v. *)
From Coq Require Import ZArith List Bool String.
From Burrow Require Import Int64 F32 Eval AMap Ring Storage StorageProofs Metrics MetricsProofs MetricsFullProofs MetricsCacheProofs.
From BurrowGen Require Import JsonTags.
Import ListNotations.
Open Scope Z_scope.

(* ---- the three exported Delete functions remove exactly the series labelled with the named item ---- *)
Theorem C17_delete_consumer_metrics :
  forall c g r k, reg_get (delete_consumer_metrics c g r) k = if names_group c g k then None else reg_get r k.
Proof. exact delete_consumer_metrics_spec. Qed.
Print Assumptions C17_delete_consumer_metrics.

Theorem C17_delete_topic_metrics :
  forall c t r k, reg_get (delete_topic_metrics c t r) k = if names_topic c t k then None else reg_get r k.
Proof. exact delete_topic_metrics_spec. Qed.
Print Assumptions C17_delete_topic_metrics.

Theorem C17_delete_consumer_topic_metrics :
  forall c g t r k, reg_get (delete_consumer_topic_metrics c g t r) k = if names_group_topic c g t k then None else reg_get r k.
Proof. exact delete_consumer_topic_metrics_spec. Qed.
Print Assumptions C17_delete_consumer_topic_metrics.

(* DeletePartialMatch with a label name the family does not have matches nothing (the two calls of DeleteTopicMetrics on the
   group-level families are harmless no-ops) *)
Theorem C17_partial_match_foreign_label :
  forall c t r k,
    reg_get (vec_delete_partial FStatus [(LCluster, c); (LTopic, t)]
               (vec_delete_partial FTotalLag [(LCluster, c); (LTopic, t)] r)) k = reg_get r k.
Proof. exact delete_partial_group_family_noop. Qed.
Print Assumptions C17_partial_match_foreign_label.

(* before the repair f85cddf: the partition status series of a deleted topic stayed *)
Theorem C17_delete_topic_metrics_v0_refuted :
  exists c t r k, names_topic c t k = true /\ reg_get (delete_topic_metrics_v0 c t r) k <> None.
Proof. exact delete_topic_metrics_v0_refuted. Qed.
Print Assumptions C17_delete_topic_metrics_v0_refuted.

(* ==== metrics_equal_state ====
   What /metrics shows is read through the evaluator's result cache (expire-cache = L, on the real clock rt), and since cc5e0f6
   the scrape removes the partition series of a group that the status it has just read does not contain.  System model:
   Metrics.csys = storage + registry + cache; Metrics.cscrape; histories Metrics.crun over (real time, clock, operation).
   FULL STATEMENT, for every history (ingest, deletions through their paths, status requests, earlier scrapes, warm or cold):
     C17_metrics_equal_served_state: after a scrape, topic offsets are exactly the present state's; a group that is not in
       storage has no series; a group that is has exactly the series that the status served for it calls for - the newest cache
       entry of the group, which is the evaluation of the storage state at the fetch it came from (entry_sound), fetched during
       this scrape or no longer ago than the cache lifetime (ce_valid: rt <= created + L).
     C17_metrics_equal_state_cold: with no valid entry in the cache (expire-cache = 0, or nothing evaluated within the last L) the
       registry equals [expected] of the present state, key by key.
   Side conditions: 1 <= intervals, distinct cluster names, cop_ok (StorageProofs.wf_req on ingest requests; StorageSetDeleteTopic
   only together with DeleteTopicMetrics: C17_delete_sites_table; C17_bare_delete_topic_refuted shows it is needed).
   The development without cache and without pruning (MetricsProofs.scrape, MetricsFullProofs.metrics_equal_state) describes the
   handler before cc5e0f6 read with a cold cache; it is kept as a library of lemmas, no longer as a claim about the tree. *)
Theorem C17_metrics_equal_served_state :
  forall sc cls L h cs rt now cs',
    (1 <= cf_intervals (sc_st sc))%nat -> NoDup cls -> Forall (fun x => cop_ok (snd x)) h ->
    crun sc L (init_csys cls) h = Some cs -> cscrape sc L rt now cs = Some cs' ->
    (forall c t p, reg_get (s_reg (cs_sys cs')) (KTopic c t p) = expected sc now (s_st (cs_sys cs')) (KTopic c t p)) /\
    (forall c g k, names_group c g k = true ->
       (find_group (s_st (cs_sys cs')) c g = None -> reg_get (s_reg (cs_sys cs')) k = None) /\
       (find_group (s_st (cs_sys cs')) c g <> None ->
          exists e, cache_get (cs_cache cs') c g = Some e /\ entry_sound sc c g e /\
            ((cache_get (cs_cache cs) c g = Some e /\ ce_valid L rt e = true) \/
             (ce_created e = rt /\ Metrics.group_expired (sc_st sc) now (s_st (cs_sys cs')) c g = false /\
              exists gs0, ce_res e = Some gs0 /\ group_view sc now (s_st (cs_sys cs')) c g = Some gs0)) /\
            reg_get (s_reg (cs_sys cs')) k = match ce_res e with Some gs0 => written c g gs0 k | None => None end)).
Proof. exact metrics_equal_served_state. Qed.
Print Assumptions C17_metrics_equal_served_state.

Theorem C17_metrics_equal_state_cold :
  forall sc cls L h cs rt now cs' k,
    (1 <= cf_intervals (sc_st sc))%nat -> NoDup cls -> Forall (fun x => cop_ok (snd x)) h ->
    crun sc L (init_csys cls) h = Some cs -> cold L rt (cs_cache cs) -> cscrape sc L rt now cs = Some cs' ->
    reg_get (s_reg (cs_sys cs')) k = expected sc now (s_st (cs_sys cs')) k.
Proof. exact metrics_equal_state_cold. Qed.
Print Assumptions C17_metrics_equal_state_cold.

(* expire-cache = 0 (the cache is off, c3210ba) is always cold *)
Theorem C17_cold_when_cache_off : forall rt ca, cold 0 rt ca.
Proof. exact cold_zero. Qed.
Print Assumptions C17_cold_when_cache_off.

(* a StorageSetDeleteTopic without DeleteTopicMetrics (excluded by cop_ok; no function of the tree sends one) leaves series behind *)
Theorem C17_bare_delete_topic_refuted :
  exists sc cls L h cs rt now cs' k,
    crun sc L (init_csys cls) h = Some cs /\ cold L rt (cs_cache cs) /\ cscrape sc L rt now cs = Some cs' /\
    reg_get (s_reg (cs_sys cs')) k <> expected sc now (s_st (cs_sys cs')) k.
Proof. exact bare_delete_topic_refuted_c. Qed.
Print Assumptions C17_bare_delete_topic_refuted.

(* before cc5e0f6 (cscrape_v1: cache, no pruning): after a topic deletion the series re-created from the cached status were
   never removed - still there at a cold scrape four cache lifetimes later *)
Theorem C17_stale_status_repopulates_v1_refuted :
  exists sc cls L h cs rt now cs' k,
    Forall (fun x => cop_ok (snd x)) h /\ crun_gen false sc L (init_csys cls) h = Some cs /\
    cold L rt (cs_cache cs) /\ cscrape_v1 sc L rt now cs = Some cs' /\
    names_topic 1 1 k = true /\ reg_get (s_reg (cs_sys cs')) k <> expected sc now (s_st (cs_sys cs')) k.
Proof. exact stale_status_repopulates_v1_refuted. Qed.
Print Assumptions C17_stale_status_repopulates_v1_refuted.

(* non-vacuity: the same history on the tree as it is: the stale status is shown while its cache entry is valid (bounded by
   expire-cache), the topic's own offsets are gone at once, and the cold scrape removes the rest *)
Example C17_stale_status_bounded :
  exists cs cs',
    Forall (fun x => cop_ok (snd x)) ex_stale_hist /\
    crun (wsc 1 604800) 1000 (init_csys [1]) ex_stale_hist = Some cs /\
    reg_get (s_reg (cs_sys cs)) (KPart PLag 1 1 1 0) = Some 10 /\
    reg_get (s_reg (cs_sys cs)) (KTopic 1 1 0) = None /\
    cscrape (wsc 1 604800) 1000 5000 1005 cs = Some cs' /\
    reg_get (s_reg (cs_sys cs')) (KPart PLag 1 1 1 0) = None /\
    reg_get (s_reg (cs_sys cs')) (KPart PLag 1 1 2 0) = Some 50.
Proof. exact stale_status_bounded. Qed.
Print Assumptions C17_stale_status_bounded.

(* ==== no panic: every well-formed history runs to the end (storage, evaluator and the /metrics handler never panic), so the
   `= Some` hypotheses above are always met ==== *)
Theorem C17_crun_total :
  forall sc cls L h,
    (1 <= cf_intervals (sc_st sc))%nat -> NoDup cls -> Forall (fun x => cop_ok (snd x)) h ->
    exists cs, crun sc L (init_csys cls) h = Some cs /\ cInv sc cls cs.
Proof. exact crun_total. Qed.
Print Assumptions C17_crun_total.

Theorem C17_cscrape_total :
  forall sc cls L rt now cs,
    (1 <= cf_intervals (sc_st sc))%nat -> NoDup cls -> cInv sc cls cs -> exists cs', cscrape sc L rt now cs = Some cs'.
Proof. exact cscrape_total. Qed.
Print Assumptions C17_cscrape_total.

(* ==== each offset attributed to its OWN partition ====
   FULL STATEMENT: forall sc now st c t p, expected sc now st (KTopic c t p) = broker_offset st c t p.
   It is false (finding C17:topic-offset-position, not repaired); proved with exactly the excluding guard. *)
Theorem C17_topic_offset_own_partition_partial :
  forall sc now st c t p,
    topic_no_gap st c t = true -> expected sc now st (KTopic c t p) = broker_offset st c t p.
Proof. exact topic_offset_own_partition. Qed.
Print Assumptions C17_topic_offset_own_partition_partial.

Theorem C17_topic_offset_position_refuted :
  exists sc now st c t p, expected sc now st (KTopic c t p) <> broker_offset st c t p.
Proof. exact topic_offset_position_refuted. Qed.
Print Assumptions C17_topic_offset_position_refuted.

(* ==== no_series_outlives ====
   What each deletion path does to storage (the group / the group's topic / the topic is gone), and what /metrics shows then:
   - a group that is gone (tombstone, reaper, API delete, expiry purge): no series after ANY scrape, warm or cold;
   - a topic the group no longer consumes (topic deletion, API delete of the group's topic): its partition series are shown only
     while the status served was evaluated on a state that still had it, i.e. for at most the cache lifetime (C05 bounds that);
     gone at every cold scrape;  the topic's own offset series are never cached: gone at once (C17_metrics_equal_served_state);
   - expiry: a cold scrape purges every expired group and leaves none of its series; so does any fetch of the group. *)
Theorem C17_whole_group_deletion_removes_group :
  forall st c g st' rep, delete_group st c g 0 = Done st' rep -> find_group st' c g = None.
Proof. exact delete_group_all. Qed.
Print Assumptions C17_whole_group_deletion_removes_group.

Theorem C17_group_topic_deletion_removes_topic :
  forall st c g t st' rep, delete_group st c g t = Done st' rep -> t <> 0 -> group_has_topic st' c g t = false.
Proof. exact delete_group_topic. Qed.
Print Assumptions C17_group_topic_deletion_removes_topic.

Theorem C17_topic_deletion_removes_topic :
  forall st c t st' rep, delete_topic st c t = Done st' rep ->
    (forall g, group_has_topic st' c g t = false) /\ Metrics.topic_offsets st' c t = None.
Proof. exact delete_topic_effect. Qed.
Print Assumptions C17_topic_deletion_removes_topic.

Theorem C17_no_series_of_absent_group :
  forall sc cls L h cs rt now cs' c g k,
    (1 <= cf_intervals (sc_st sc))%nat -> NoDup cls -> Forall (fun x => cop_ok (snd x)) h ->
    crun sc L (init_csys cls) h = Some cs -> cscrape sc L rt now cs = Some cs' ->
    find_group (s_st (cs_sys cs)) c g = None -> names_group c g k = true ->
    reg_get (s_reg (cs_sys cs')) k = None /\ find_group (s_st (cs_sys cs')) c g = None.
Proof. exact no_series_of_absent_group. Qed.
Print Assumptions C17_no_series_of_absent_group.

Theorem C17_no_series_of_deleted_topic :
  forall sc cls L h cs rt now cs' c g t f p,
    (1 <= cf_intervals (sc_st sc))%nat -> NoDup cls -> Forall (fun x => cop_ok (snd x)) h ->
    crun sc L (init_csys cls) h = Some cs -> cscrape sc L rt now cs = Some cs' ->
    (forall e, cache_get (cs_cache cs') c g = Some e -> group_has_topic (ce_st e) c g t = false) ->
    reg_get (s_reg (cs_sys cs')) (KPart f c g t p) = None.
Proof. exact no_series_of_deleted_topic. Qed.
Print Assumptions C17_no_series_of_deleted_topic.

Theorem C17_no_series_of_deleted_topic_cold :
  forall sc cls L h cs rt now cs' c g t k,
    (1 <= cf_intervals (sc_st sc))%nat -> NoDup cls -> Forall (fun x => cop_ok (snd x)) h ->
    crun sc L (init_csys cls) h = Some cs -> cold L rt (cs_cache cs) -> cscrape sc L rt now cs = Some cs' ->
    group_has_topic (s_st (cs_sys cs)) c g t = false -> names_group_topic c g t k = true ->
    reg_get (s_reg (cs_sys cs')) k = None.
Proof. exact no_series_of_deleted_topic_cold. Qed.
Print Assumptions C17_no_series_of_deleted_topic_cold.

Theorem C17_no_series_outlives_expiry_cold :
  forall sc cls L h cs rt now cs' c g k,
    (1 <= cf_intervals (sc_st sc))%nat -> NoDup cls -> Forall (fun x => cop_ok (snd x)) h ->
    crun sc L (init_csys cls) h = Some cs -> cold L rt (cs_cache cs) -> cscrape sc L rt now cs = Some cs' ->
    Metrics.group_expired (sc_st sc) now (s_st (cs_sys cs)) c g = true -> names_group c g k = true ->
    reg_get (s_reg (cs_sys cs')) k = None /\ find_group (s_st (cs_sys cs')) c g = None.
Proof. exact no_series_outlives_expiry_cold. Qed.
Print Assumptions C17_no_series_outlives_expiry_cold.

Theorem C17_no_series_outlives_expiry_on_fetch :
  forall sc now sy sy1 rep c g k,
    Metrics.group_expired (sc_st sc) now (s_st sy) c g = true ->
    sys_storage sc now sy (FetchConsumer c g) = Some (sy1, rep) ->
    names_group c g k = true ->
    rep = RNil /\ reg_get (s_reg sy1) k = None /\ find_group (s_st sy1) c g = None.
Proof. exact no_series_outlives_expiry_fetch. Qed.
Print Assumptions C17_no_series_outlives_expiry_on_fetch.

(* FULL STATEMENT of "once expired, no endpoint reports it": false for the list endpoints until the lazy purge has run
   (finding C17:expired-group-listed, not repaired); what holds is the three theorems above. *)
Theorem C17_expired_group_listed_refuted :
  exists sc sy now c g sy' l,
    group_expired (sc_st sc) now (s_st sy) c g = true /\
    sys_storage sc now sy (FetchConsumers c) = Some (sy', RStrings l) /\ In g l.
Proof. exact expired_group_listed_refuted. Qed.
Print Assumptions C17_expired_group_listed_refuted.

(* ==== json_equals_state: the status / lag endpoints answer the newest cache entry of the group: the evaluation (filtered for
   the default view) of the storage state of the fetch it came from, done now or no longer ago than the cache lifetime ==== *)
Theorem C17_json_status_served :
  forall sc L rt now cs c g show_all cs' v,
    cache_sound sc (cs_cache cs) ->
    cjson_status sc L rt now cs c g show_all = Some (cs', v) ->
    exists e, cache_get (cs_cache cs') c g = Some e /\ entry_sound sc c g e /\ fresh_enough L rt e /\
              v = match ce_res e with Some gs => Some (if show_all then gs else filter_view gs) | None => None end.
Proof. exact json_status_served. Qed.
Print Assumptions C17_json_status_served.

(* ==== the behaviour before the repairs 8eaa8f9 and ff5734c (scrape_v0 / nil_end_panics), kept as documentation ==== *)
Theorem C17_expiry_outlives_v0_refuted :
  exists sc sy now c g k sy',
    group_expired (sc_st sc) now (s_st sy) c g = true /\ names_group c g k = true /\
    scrape_v0 sc now sy = Some sy' /\ find_group (s_st sy') c g = None /\ reg_get (s_reg sy') k <> None.
Proof. exact expiry_outlives_v0_refuted. Qed.
Print Assumptions C17_expiry_outlives_v0_refuted.

(* a status entry with Complete = 1.0 and End = nil (what the evaluator produced for the window [nil] before 21f3585) made the
   unguarded handler panic; the guarded one reports the lag and skips offset / status *)
Theorem C17_scrape_nil_end_v0_refuted :
  exists gs, nil_end_panics gs = true /\
             reg_get (set_group 4 1 [] gs) (KPart PLag 4 1 1 1) = Some 0 /\
             reg_get (set_group 4 1 [] gs) (KPart POffset 4 1 1 1) = None.
Proof. exact scrape_nil_end_v0_refuted. Qed.
Print Assumptions C17_scrape_nil_end_v0_refuted.

(* ==== regenerated tables (translator/jsontags re-reads /repo on every run; gen/JsonTags.v) ==== *)
(* once and for all: what the two checkers guarantee *)
Theorem C17_sites_ok_sound :
  forall l, sites_ok l = true ->
    (exists s, In s l /\ site_req s = "StorageSetDeleteTopic"%string) /\
    (forall s, In s l -> site_req s = "StorageSetDeleteTopic"%string -> In (wanted_call s) (site_calls s)).
Proof. exact sites_ok_sound. Qed.
Print Assumptions C17_sites_ok_sound.

Theorem C17_tags_ok_sound :
  forall tbl, tags_ok tbl = true -> forall s f k, In (s, f, k) required_tags -> In (s, f, k) tbl.
Proof. exact tags_ok_sound. Qed.
Print Assumptions C17_tags_ok_sound.

(* per run: every function of the tree that tells storage to delete a topic also calls DeleteTopicMetrics for that cluster
   and topic (the OTopicDeleted step of the model), and the served structs carry the documented JSON keys *)
Theorem C17_delete_sites_table : sites_ok JsonTags.sites = true.
Proof. vm_compute; reflexivity. Qed.
Print Assumptions C17_delete_sites_table.

Theorem C17_json_tags_table : tags_ok JsonTags.tags = true.
Proof. vm_compute; reflexivity. Qed.
Print Assumptions C17_json_tags_table.
