(* C17 — Served data equals ingested state; nothing outlives its deletion.
   Statements only; proofs in MetricsProofs.v.  Model: Metrics (registry, scrape, the Delete functions) over Storage.step and Eval.eval_group. *)
From Coq Require Import ZArith List Bool.
From Burrow Require Import Int64 F32 Eval AMap Ring Storage Metrics MetricsProofs.
Import ListNotations.
Open Scope Z_scope.

(* ---- the three exported Delete functions remove exactly the series labelled with the named item ---- *)
Theorem C17_delete_consumer_metrics :
  forall c g r k, reg_get (delete_consumer_metrics c g r) k = if names_group c g k then None else reg_get r k.
Proof. exact delete_consumer_metrics_spec. Qed.
Print Assumptions C17_delete_consumer_metrics.

Theorem C17_delete_topic_metrics :
  forall c t r k, reg_get (delete_topic_metrics c t r) k = if names_topic c t k then None else reg_get r k.
Proof. exact delete_topic_metrics_spec. Qed.
Print Assumptions C17_delete_topic_metrics.

Theorem C17_delete_consumer_topic_metrics :
  forall c g t r k, reg_get (delete_consumer_topic_metrics c g t r) k = if names_group_topic c g t k then None else reg_get r k.
Proof. exact delete_consumer_topic_metrics_spec. Qed.
Print Assumptions C17_delete_consumer_topic_metrics.

(* DeletePartialMatch with a label name the family does not have matches nothing (the two calls of DeleteTopicMetrics on the
   group-level families are harmless no-ops) *)
Theorem C17_partial_match_foreign_label :
  forall c t r k,
    reg_get (vec_delete_partial FStatus [(LCluster, c); (LTopic, t)]
               (vec_delete_partial FTotalLag [(LCluster, c); (LTopic, t)] r)) k = reg_get r k.
Proof. exact delete_partial_group_family_noop. Qed.
Print Assumptions C17_partial_match_foreign_label.

(* before the repair f85cddf: the partition status series of a deleted topic stayed *)
Theorem C17_delete_topic_metrics_v0_refuted :
  exists c t r k, names_topic c t k = true /\ reg_get (delete_topic_metrics_v0 c t r) k <> None.
Proof. exact delete_topic_metrics_v0_refuted. Qed.
Print Assumptions C17_delete_topic_metrics_v0_refuted.
