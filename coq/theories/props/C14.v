(* C14 - Notifications obey threshold / interval / send-once; every incident is announced.
   Statements only; proofs are in NotifierProofs.v.  Model: Notifier.v (notifyModule gating of
   core/internal/notifier/coordinator.go after the `fix:` commit for finding F3, tied to the source by the probe of
   checks/c14.py on every run).  Vocabulary as in props/C13.v; [open_call mods h j n] - result j makes a
   stateGood = false notification to the module named n.  send-interval and send-once are counted within an incident. *)
From Coq Require Import ZArith List Bool.
From Burrow Require Import Int64 Notifier NotifierProofs.
Import ListNotations.
Open Scope Z_scope.

(* Only for a status at or above the module's threshold, and a group its lists (and AcceptConsumerGroup) accept. *)
Theorem C14_threshold_respected :
  forall mods h j c,
    names_distinct mods -> In c (calls_at mods h j) -> nc_good c = false ->
    exists now r m, nth_error h j = Some (now, r) /\ In m mods /\ nm_name m = nc_module c /\
      nc_status c = nr_status r /\ nr_status r <> 0 /\ (nc_cluster c, nc_group c) = resp_key r /\
      nm_threshold m <= nr_status r /\
      lists_accept (nm_lists m (nr_group r)) = true /\ nm_accept_group m = true.
Proof. exact threshold_respected. Qed.
Print Assumptions C14_threshold_respected.

(* At most once per send interval (within an incident; the interval in nanoseconds fits time.Duration). *)
Theorem C14_interval_respected :
  forall mods h k i j1 j2 m,
    names_distinct mods -> opens h k i -> member h k i j1 -> member h k i j2 -> (j1 < j2)%nat -> In m mods ->
    0 <= nm_interval m * 1000000000 < two63 ->
    open_call mods h j1 (nm_name m) -> open_call mods h j2 (nm_name m) ->
    clock_at h j2 - clock_at h j1 > nm_interval m * 1000000000.
Proof. exact interval_respected. Qed.
Print Assumptions C14_interval_respected.

(* At most once per incident when send-once is set. *)
Theorem C14_send_once_respected :
  forall mods h k i j1 j2 m c1 c2,
    names_distinct mods -> opens h k i -> member h k i j1 -> member h k i j2 -> In m mods -> nm_once m = true ->
    In c1 (calls_at mods h j1) -> nc_module c1 = nm_name m -> nc_good c1 = false ->
    In c2 (calls_at mods h j2) -> nc_module c2 = nm_name m -> nc_good c2 = false ->
    j1 = j2 /\ c1 = c2.
Proof. exact send_once_respected. Qed.
Print Assumptions C14_send_once_respected.

(* Every incident whose status reaches a module's threshold is announced to it - the second and later incidents of a
   group included, for every combination of threshold, send-interval, send-once and send-close. *)
Theorem C14_every_incident_announced :
  forall mods h k i j m s,
    names_distinct mods -> opens h k i -> member h k i j -> In m mods ->
    status_of h k j = Some s -> nm_threshold m <= s ->
    lists_accept (nm_lists m (snd k)) = true -> nm_accept_group m = true ->
    exists p, member h k i p /\ (p <= j)%nat /\ open_call mods h p (nm_name m).
Proof. exact every_incident_announced. Qed.
Print Assumptions C14_every_incident_announced.

(* Documentation of finding F3: the same statement was false for the tree before the fix ([run_gen false]). *)
Theorem C14_announce_refuted_before_fix :
  exists mods h k i m s,
    names_distinct mods /\ opens h k i /\ In m mods /\ status_of h k i = Some s /\ nm_threshold m <= s /\
    lists_accept (nm_lists m (snd k)) = true /\ nm_accept_group m = true /\
    (forall p c, member h k i p -> In c (nth p (fst (run_gen false mods c_init h)) []) -> nc_good c = true) /\
    (exists c, In c (nth i (fst (run mods c_init h)) []) /\ nc_module c = nm_name m /\ nc_good c = false).
Proof. exact announce_refuted_before_fix. Qed.
Print Assumptions C14_announce_refuted_before_fix.
