From Burrow Require Import Notifier.
Example placeholder_C14 : True. Proof. exact I. Qed.
