(* C14 - Notifications obey threshold / interval / send-once; every incident is announced.

   READ FIRST - what is claimed for "at most once per send interval".  The clause is claimed PER INCIDENT
   (C14_interval_respected: two open notifications to one module made for results of the same incident are more than
   send-interval apart).  Across incidents it is FALSE of the code, and stated so: C14_interval_across_incidents_refuted
   (ERR, OK, ERR two seconds apart, send-interval 60: both ERR results are notified).  The property's two sentences meet
   exactly there: "every incident whose status reaches a module's threshold produces at least one open notification ...
   including the second and later incidents" demands the second notification, the interval clause read across incidents
   forbids it.  Counting send-interval and send-once within an incident is the reading under which both sentences hold;
   it is what the code does since the fix of finding F3 (the remembered notify times are forgotten when an incident
   opens), and before that fix the other sentence failed (C14_announce_refuted_before_fix).  checks/c14.py counts the
   generated histories that contain such a pair (evidence key
   histories-with-open-notifications-closer-than-send-interval-across-incidents).

   Statements only; proofs are in NotifierProofs.v.  Model: Notifier.v (notifyModule gating of
   core/internal/notifier/coordinator.go after the `fix:` commit for finding F3, with the group-list / cluster-list
   refresh, tied to the source by the probe of checks/c14.py on every run).  Vocabulary as in props/C13.v: histories mix
   evaluator responses with refreshes; [member h k i j] includes [listed_throughout h k i j] (the group stays on the
   notifier's list from the opening result i to the result j, whatever refreshes fall in between);
   [open_call mods h j n] - event j makes a stateGood = false notification to the module named n.
   send-interval and send-once are counted within an incident. *)
From Coq Require Import ZArith List Bool.
From Burrow Require Import Int64 Notifier NotifierProofs.
Import ListNotations.
Open Scope Z_scope.

(* Only for a status at or above the module's threshold, and a group (on the list) its lists and AcceptConsumerGroup
   accept. *)
Theorem C14_threshold_respected :
  forall mods h j c,
    names_distinct mods -> In c (calls_at mods h j) -> nc_good c = false ->
    exists now r m, nth_error h j = Some (HResponse now r) /\ In m mods /\ nm_name m = nc_module c /\
      nc_status c = nr_status r /\ nr_status r <> 0 /\ recorded h (resp_key r) j = true /\
      (nc_cluster c, nc_group c) = resp_key r /\
      nm_threshold m <= nr_status r /\
      lists_accept (nm_lists m (nr_group r)) = true /\ nm_accept_group m = true.
Proof. exact threshold_respected. Qed.
Print Assumptions C14_threshold_respected.

(* At most once per send interval (within an incident; the interval in nanoseconds fits time.Duration) - the remembered
   notify time survives every refresh that still lists the group. *)
Theorem C14_interval_respected :
  forall mods h k i j1 j2 m,
    names_distinct mods -> opens h k i -> member h k i j1 -> member h k i j2 -> (j1 < j2)%nat -> In m mods ->
    0 <= nm_interval m * 1000000000 < two63 ->
    open_call mods h j1 (nm_name m) -> open_call mods h j2 (nm_name m) ->
    clock_at h j2 - clock_at h j1 > nm_interval m * 1000000000.
Proof. exact interval_respected. Qed.
Print Assumptions C14_interval_respected.

(* ... and NOT across incidents: notifications closer than send-interval that belong to different incidents of one group
   (a flapping group is notified at every flap, whatever send-interval says - see the head of this file). *)
Theorem C14_interval_across_incidents_refuted :
  exists mods h k i1 i2 m,
    names_distinct mods /\ In m mods /\ 0 <= nm_interval m * 1000000000 < two63 /\
    opens h k i1 /\ opens h k i2 /\ (i1 < i2)%nat /\
    open_call mods h i1 (nm_name m) /\ open_call mods h i2 (nm_name m) /\
    clock_at h i2 - clock_at h i1 <= nm_interval m * 1000000000.
Proof. exact interval_across_incidents_refuted. Qed.
Print Assumptions C14_interval_across_incidents_refuted.

(* One result makes at most one call - open or close - to a module (so "once" is per result as well). *)
Theorem C14_one_call_per_module_per_event :
  forall mods h j c1 c2,
    names_distinct mods -> In c1 (calls_at mods h j) -> In c2 (calls_at mods h j) -> nc_module c1 = nc_module c2 -> c1 = c2.
Proof. exact one_call_per_module_per_event. Qed.
Print Assumptions C14_one_call_per_module_per_event.

(* At most once per incident when send-once is set. *)
Theorem C14_send_once_respected :
  forall mods h k i j1 j2 m c1 c2,
    names_distinct mods -> opens h k i -> member h k i j1 -> member h k i j2 -> In m mods -> nm_once m = true ->
    In c1 (calls_at mods h j1) -> nc_module c1 = nm_name m -> nc_good c1 = false ->
    In c2 (calls_at mods h j2) -> nc_module c2 = nm_name m -> nc_good c2 = false ->
    j1 = j2 /\ c1 = c2.
Proof. exact send_once_respected. Qed.
Print Assumptions C14_send_once_respected.

(* Every incident whose status reaches a module's threshold is announced to it - the second and later incidents of a
   group included, for every combination of threshold, send-interval, send-once and send-close, and whatever refreshes
   happen before or during the incident. *)
Theorem C14_every_incident_announced :
  forall mods h k i j m s,
    names_distinct mods -> opens h k i -> member h k i j -> In m mods ->
    status_of h k j = Some s -> nm_threshold m <= s ->
    lists_accept (nm_lists m (snd k)) = true -> nm_accept_group m = true ->
    exists p, member h k i p /\ (p <= j)%nat /\ open_call mods h p (nm_name m).
Proof. exact every_incident_announced. Qed.
Print Assumptions C14_every_incident_announced.

(* The refresh itself notifies nobody and keeps what the gating remembers: the record of a group that is on the list
   before and after a refresh - LastNotify of every module included - is unchanged. *)
Theorem C14_refresh_keeps_listed_record :
  forall mods h j e k,
    nth_error h j = Some e -> is_resp e = false -> recorded h k j = true -> recorded h k (S j) = true ->
    calls_at mods h j = [] /\ c_groups (state_at mods h (S j)) k = c_groups (state_at mods h j) k.
Proof. exact refresh_keeps_listed_record_silent. Qed.
Print Assumptions C14_refresh_keeps_listed_record.

(* A group that is listed again after having left the list starts with a blank record: its next incident is announced
   like a first one (C14_every_incident_announced applies: the new opening result is an [opens]). *)
Theorem C14_unrecorded_blank :
  forall mods h k j, recorded h k j = false -> c_groups (state_at mods h j) k = g_init.
Proof. exact unrecorded_blank. Qed.
Print Assumptions C14_unrecorded_blank.

(* Documentation of finding F3: the same statement was false for the tree before the fix ([run_gen false]). *)
Theorem C14_announce_refuted_before_fix :
  exists mods h k i m s,
    names_distinct mods /\ opens h k i /\ In m mods /\ status_of h k i = Some s /\ nm_threshold m <= s /\
    lists_accept (nm_lists m (snd k)) = true /\ nm_accept_group m = true /\
    (forall p c, member h k i p -> In c (nth p (fst (run_gen false mods c_init h)) []) -> nc_good c = true) /\
    (exists c, In c (nth i (fst (run mods c_init h)) []) /\ nc_module c = nm_name m /\ nc_good c = false).
Proof. exact announce_refuted_before_fix. Qed.
Print Assumptions C14_announce_refuted_before_fix.

(* ---- non-vacuity (NotifierProofs.ex_hist: refreshes 4 and 6 fall inside incident A of group 1) ---- *)

(* results 2 and 5 of incident A are 61 s apart with the refresh 4 between them: module 1 (send-interval 60) is notified
   by both, module 2 (send-once) only by the first *)
Example C14_ex_gating :
  member ex_hist ex_k1 2 5 /\ interval_fits (nth 0 ex_mods f3_mod) /\ nm_once (nth 1 ex_mods f3_mod) = true /\
  open_call ex_mods ex_hist 2 1 /\ open_call ex_mods ex_hist 5 1 /\
  open_call ex_mods ex_hist 2 2 /\ ~ open_call ex_mods ex_hist 5 2 /\
  clock_at ex_hist 5 - clock_at ex_hist 2 = 61000000000.
Proof. exact ex_gating. Qed.

(* the second incident B of group 1 is announced to module 2 (send-once, no send-close, notified during A) *)
Example C14_ex_announced :
  opens ex_hist ex_k1 8 /\ member ex_hist ex_k1 8 9 /\ status_of ex_hist ex_k1 9 = Some 3 /\
  open_call ex_mods ex_hist 9 2 /\ open_call ex_mods ex_hist 8 1.
Proof. exact ex_announced. Qed.

(* the incident of group 2 opened after it was dropped and listed again is announced *)
Example C14_ex_relisted_announced :
  recorded ex_hist ex_k2 7 = false /\ opens ex_hist ex_k2 13 /\
  calls_at ex_mods ex_hist 13 = [mkNcall 1 1 2 3 (Some 4) (Some 68000000000) false].
Proof. exact ex_relisted_announced. Qed.
