(* C09 — Deletion and expiry remove exactly what they name.
   Statements only; proofs in StorageDelProofs.v.  Model: Burrow.Storage (step / run, delete_group, delete_topic,
   fetch_consumer's lazy purge, too_old / expired).

   Vocabulary (StorageDelProofs.v §1):
     after cf now s r   the state after request r (deletions never crash: C09_deletion_total)
     obs cf now s r     the reply of request r in state s (None = the handler panicked)
     names o            the names a reply lists (groups / topics / clusters; the topics of a FetchConsumer detail)
     wf_state s         no duplicate keys in any map of s — an invariant of step, true of every reachable state
   Listings stand for Go map iteration and are compared as sets; C09_listings_nodup makes that multiset equality.
   The status route is evaluate(FetchConsumer): a FetchConsumer reply RNil is what it maps to NOTFOUND. *)
From Coq Require Import ZArith List Bool.
From Burrow Require Import Int64 Eval AMap Ring Storage StorageDelProofs.
Import ListNotations.
Open Scope Z_scope.

(* ---------------------------------------------------------------------------------------------- *)
(* every reachable state is well formed; listings carry no duplicates                              *)
(* ---------------------------------------------------------------------------------------------- *)

Theorem C09_reachable_wf :
  forall cf cls h s reps, NoDup cls -> run cf (init_state cls) h = Some (s, reps) -> wf_state s.
Proof. exact reachable_wf. Qed.
Print Assumptions C09_reachable_wf.

Theorem C09_step_preserves_wf :
  forall cf now s r s' rep, wf_state s -> step cf now s r = Done s' rep -> wf_state s'.
Proof. exact step_wf. Qed.
Print Assumptions C09_step_preserves_wf.

Theorem C09_listings_nodup :
  forall cf now s r, wf_state s -> is_fetch r = true -> NoDup (names (obs cf now s r)).
Proof. exact listings_nodup. Qed.
Print Assumptions C09_listings_nodup.

Theorem C09_deletion_total :
  forall cf now s,
    (forall c g t, step cf now s (DeleteGroup c g t) = Done (after cf now s (DeleteGroup c g t)) RNone) /\
    (forall c t, step cf now s (DeleteTopic c t) = Done (after cf now s (DeleteTopic c t)) RNone).
Proof. exact deletion_total. Qed.
Print Assumptions C09_deletion_total.

(* ---------------------------------------------------------------------------------------------- *)
(* delete-group (whole group): removal and frame, in ANY state (existing or not, known cluster or not) *)
(* ---------------------------------------------------------------------------------------------- *)

Theorem C09_delete_group_removed :
  forall cf now now' s c g,
    let s' := after cf now s (DeleteGroup c g 0) in
    obs cf now' s' (FetchConsumer c g) = Some RNil /\
    ~ In g (names (obs cf now' s' (FetchConsumers c))) /\
    (forall t, ~ In g (names (obs cf now' s' (FetchConsumersForTopic c t)))).
Proof. exact delete_group_removed. Qed.
Print Assumptions C09_delete_group_removed.

(* for every topic argument t (0 = whole group): other clusters (incl. the same group/topic names there), the cluster
   list, every other group's detail, the topic list and every topic's offsets are answered exactly as before *)
Theorem C09_delete_group_frame :
  forall cf now now' s c g t,
    let s' := after cf now s (DeleteGroup c g t) in
    (forall r c', req_cluster r = Some c' -> c' <> c -> is_fetch r = true -> obs cf now' s' r = obs cf now' s r) /\
    (forall x, In x (names (obs cf now' s' FetchClusters)) <-> In x (names (obs cf now' s FetchClusters))) /\
    (forall g', g' <> g -> obs cf now' s' (FetchConsumer c g') = obs cf now' s (FetchConsumer c g')) /\
    obs cf now' s' (FetchTopics c) = obs cf now' s (FetchTopics c) /\
    (forall t', obs cf now' s' (FetchTopic c t') = obs cf now' s (FetchTopic c t')).
Proof. exact delete_group_frame. Qed.
Print Assumptions C09_delete_group_frame.

(* the group lists lose exactly g *)
Theorem C09_delete_group_listing :
  forall cf now now' s c g,
    wf_state s ->
    let s' := after cf now s (DeleteGroup c g 0) in
    (obs cf now' s' (FetchConsumers c) = Some RNil <-> obs cf now' s (FetchConsumers c) = Some RNil) /\
    (forall x, In x (names (obs cf now' s' (FetchConsumers c))) <->
               In x (names (obs cf now' s (FetchConsumers c))) /\ x <> g) /\
    (forall t,
       (obs cf now' s' (FetchConsumersForTopic c t) = Some RNil <-> obs cf now' s (FetchConsumersForTopic c t) = Some RNil) /\
       (forall x, In x (names (obs cf now' s' (FetchConsumersForTopic c t))) <->
                  In x (names (obs cf now' s (FetchConsumersForTopic c t))) /\ x <> g)).
Proof. exact delete_group_listing. Qed.
Print Assumptions C09_delete_group_listing.

(* ---------------------------------------------------------------------------------------------- *)
(* delete-group-topic (t <> ""): removal, frame, the group's other topics, the last-topic case      *)
(* ---------------------------------------------------------------------------------------------- *)

Theorem C09_delete_group_topic_removed :
  forall cf now now' s c g t,
    wf_state s -> t <> 0 ->
    let s' := after cf now s (DeleteGroup c g t) in
    ~ In t (names (obs cf now' s' (FetchConsumer c g))) /\
    ~ In g (names (obs cf now' s' (FetchConsumersForTopic c t))).
Proof. exact delete_group_topic_removed. Qed.
Print Assumptions C09_delete_group_topic_removed.

(* (the cluster / other-group / topic part of the frame is C09_delete_group_frame.)
   Group lists: g stays listed unless t was its one and only topic (the group goes with its last topic); a topic the group
   does not consume is nothing to delete (C09_delete_foreign_topic_changes_nothing); every other group is listed as before;
   for another topic t' the consumer list is unchanged, for t it loses exactly g. *)
Theorem C09_delete_group_topic_listing :
  forall cf now now' s c g t,
    wf_state s -> t <> 0 ->
    let s' := after cf now s (DeleteGroup c g t) in
    (obs cf now' s' (FetchConsumers c) = Some RNil <-> obs cf now' s (FetchConsumers c) = Some RNil) /\
    (forall x, In x (names (obs cf now' s' (FetchConsumers c))) <->
               In x (names (obs cf now' s (FetchConsumers c))) /\
               (x = g -> has_other_topic s c g t \/ absent_group_topic s c g t)) /\
    (forall t',
       (obs cf now' s' (FetchConsumersForTopic c t') = Some RNil <-> obs cf now' s (FetchConsumersForTopic c t') = Some RNil) /\
       (forall x, In x (names (obs cf now' s' (FetchConsumersForTopic c t'))) <->
                  In x (names (obs cf now' s (FetchConsumersForTopic c t'))) /\ (x = g -> t' <> t))).
Proof. exact delete_group_topic_listing. Qed.
Print Assumptions C09_delete_group_topic_listing.

(* the remaining topics of g — every partition, offset window, owner and lag — are reported exactly as before
   ([remove l t] drops the entry of t from the detail and nothing else); [drops l t]: t was the only topic => not found *)
Theorem C09_delete_group_topic_detail :
  forall cf now now' s c g t,
    t <> 0 ->
    let s' := after cf now s (DeleteGroup c g t) in
    (forall l, obs cf now' s (FetchConsumer c g) = Some (RConsumer l) ->
       obs cf now' s' (FetchConsumer c g) = if drops l t then Some RNil else Some (RConsumer (remove l t))) /\
    (obs cf now' s (FetchConsumer c g) = Some RNil -> obs cf now' s' (FetchConsumer c g) = Some RNil).
Proof. exact delete_group_topic_detail. Qed.
Print Assumptions C09_delete_group_topic_detail.

(* ---------------------------------------------------------------------------------------------- *)
(* delete-topic                                                                                    *)
(* ---------------------------------------------------------------------------------------------- *)

Theorem C09_delete_topic_removed :
  forall cf now now' s c t,
    let s' := after cf now s (DeleteTopic c t) in
    ~ In t (names (obs cf now' s' (FetchTopics c))) /\
    obs cf now' s' (FetchTopic c t) = Some RNil /\
    names (obs cf now' s' (FetchConsumersForTopic c t)) = [] /\
    (forall g, ~ In t (names (obs cf now' s' (FetchConsumer c g)))).
Proof. exact delete_topic_removed. Qed.
Print Assumptions C09_delete_topic_removed.

(* other clusters, the cluster list, the group list (groups left empty stay listed — what the code does), the other
   topics' offsets and consumer lists, and in every group's detail all other topics with all their partitions *)
Theorem C09_delete_topic_frame :
  forall cf now now' s c t,
    let s' := after cf now s (DeleteTopic c t) in
    (forall r c', req_cluster r = Some c' -> c' <> c -> is_fetch r = true -> obs cf now' s' r = obs cf now' s r) /\
    (forall x, In x (names (obs cf now' s' FetchClusters)) <-> In x (names (obs cf now' s FetchClusters))) /\
    obs cf now' s' (FetchConsumers c) = obs cf now' s (FetchConsumers c) /\
    (obs cf now' s' (FetchTopics c) = Some RNil <-> obs cf now' s (FetchTopics c) = Some RNil) /\
    (forall x, In x (names (obs cf now' s' (FetchTopics c))) <-> In x (names (obs cf now' s (FetchTopics c))) /\ x <> t) /\
    (forall t', t' <> t -> obs cf now' s' (FetchTopic c t') = obs cf now' s (FetchTopic c t')) /\
    (forall t', t' <> t -> obs cf now' s' (FetchConsumersForTopic c t') = obs cf now' s (FetchConsumersForTopic c t')) /\
    (forall g l, obs cf now' s (FetchConsumer c g) = Some (RConsumer l) ->
                 obs cf now' s' (FetchConsumer c g) = Some (RConsumer (remove l t))) /\
    (forall g, obs cf now' s (FetchConsumer c g) = Some RNil -> obs cf now' s' (FetchConsumer c g) = Some RNil).
Proof. exact delete_topic_frame. Qed.
Print Assumptions C09_delete_topic_frame.

(* ---------------------------------------------------------------------------------------------- *)
(* expiry and too-old commits                                                                      *)
(* ---------------------------------------------------------------------------------------------- *)

(* the int64 threshold is the mathematical one exactly when (now - expire) * 1000 fits in int64 *)
Theorem C09_expired_spec :
  forall cf now last,
    in_i64 ((now - cf_expire cf) * 1000) -> (expired cf now last = true <-> last < (now - cf_expire cf) * 1000).
Proof. exact expired_spec. Qed.
Print Assumptions C09_expired_spec.

Theorem C09_too_old_spec :
  forall cf now ts,
    in_i64 ((now - cf_expire cf) * 1000) -> (too_old cf now ts = true <-> ts < (now - cf_expire cf) * 1000).
Proof. exact too_old_spec. Qed.
Print Assumptions C09_too_old_spec.

Example C09_expiry_guard_needed :
  exists cf now last, expired cf now last = true /\ too_old cf now last = true /\ ~ last < (now - cf_expire cf) * 1000.
Proof. exact expiry_guard_needed. Qed.
Print Assumptions C09_expiry_guard_needed.

(* an expired group is reported as not found; the purge is exactly a whole-group deletion (so C09_delete_group_removed,
   _frame and _listing describe what else is — not — affected); afterwards it is in no listing *)
Theorem C09_expired_notfound_then_unlisted :
  forall cf now s c g cl grp,
    get s c = Some cl -> get (cl_consumer cl) g = Some grp -> expired cf now (g_last grp) = true ->
    exists s', step cf now s (FetchConsumer c g) = Done s' RNil /\
      s' = after cf now s (DeleteGroup c g 0) /\
      forall now', obs cf now' s' (FetchConsumer c g) = Some RNil /\
                   ~ In g (names (obs cf now' s' (FetchConsumers c))) /\
                   (forall t, ~ In g (names (obs cf now' s' (FetchConsumersForTopic c t)))).
Proof. exact expired_notfound_then_unlisted. Qed.
Print Assumptions C09_expired_notfound_then_unlisted.

Theorem C09_not_expired_unchanged :
  forall cf now s c g cl grp,
    get s c = Some cl -> get (cl_consumer cl) g = Some grp -> expired cf now (g_last grp) = false ->
    after cf now s (FetchConsumer c g) = s /\ obs cf now s (FetchConsumer c g) <> Some RNil.
Proof. exact not_expired_unchanged. Qed.
Print Assumptions C09_not_expired_unchanged.

(* no other read ever changes the state *)
Theorem C09_fetch_changes_state_only_by_purge :
  forall cf now s r s' rep,
    is_fetch r = true -> step cf now s r = Done s' rep ->
    s' = s \/
    exists c g cl grp, r = FetchConsumer c g /\ get s c = Some cl /\ get (cl_consumer cl) g = Some grp /\
      expired cf now (g_last grp) = true /\ rep = RNil /\ s' = after cf now s (DeleteGroup c g 0).
Proof. exact fetch_changes_state_only_by_purge. Qed.
Print Assumptions C09_fetch_changes_state_only_by_purge.

Theorem C09_old_commit_ignored :
  forall cf now s c g t p off order ts,
    too_old cf now ts = true -> step cf now s (SetConsumerOffset c g t p off order ts) = Done s RNone.
Proof. exact old_commit_ignored. Qed.
Print Assumptions C09_old_commit_ignored.

(* ---------------------------------------------------------------------------------------------- *)
(* exactness of expiry and of delete-group-topic (two defects found by audit A, repaired in /repo;    *)
(* the model describes the repaired code; the old behaviour is kept as *_before_fix documentation)    *)
(* ---------------------------------------------------------------------------------------------- *)

(* lastCommit (g_last) is the largest timestamp among the commits the group has stored: a commit the ring stores raises it to
   max(ts, g_last), whichever partition and ring position it lands in; nothing else changes it; it never decreases. *)
Theorem C09_g_last_after_commit :
  forall cf now s c g t p off order ts s' rep cl' grp',
    step cf now s (SetConsumerOffset c g t p off order ts) = Done s' rep ->
    get s' c = Some cl' -> get (cl_consumer cl') g = Some grp' ->
    exists cl, get s c = Some cl /\
      (g_last grp' = Z.max ts (g_last (grp_or_empty cl g)) \/ g_last grp' = g_last (grp_or_empty cl g)).
Proof. exact g_last_after_commit. Qed.
Print Assumptions C09_g_last_after_commit.

(* the timestamp that counts is the ARRIVED commit's own: a commit that reaches the ring and is stored there (appended, inserted,
   or merged by min-distance into the previous slot, which keeps the previous timestamp) raises g_last to max(ts, g_last) *)
Theorem C09_stored_commit_raises_last :
  forall cf now s c g t p off order ts cl,
    get s c = Some cl -> too_old cf now ts = false -> cf_accept cf g = true -> snd (get_broker_offset cl t p) <> 0 ->
    commit_stored (commit_ring cf cl g t p) order = true ->
    exists parts,
      step cf now s (SetConsumerOffset c g t p off order ts) =
      Done (set s c (mkCluster (cl_broker cl)
                      (set (cl_consumer cl) g (mkCgroup parts (Z.max ts (g_last (grp_or_empty cl g))))))) RNone /\
      ts <= Z.max ts (g_last (grp_or_empty cl g)).
Proof. exact stored_commit_raises_last. Qed.
Print Assumptions C09_stored_commit_raises_last.

Example C09_ex_merged_commit_counts :
  (exists cl grp, get mg_state 1 = Some cl /\ get (cl_consumer cl) 1 = Some grp /\
     stored_ts grp = [1599999300] /\ g_last grp = 1600000000) /\
  names (obs mg_cf 1601000 mg_state (FetchConsumer 1 1)) = [1] /\
  obs mg_cf 1601001 mg_state (FetchConsumer 1 1) = Some RNil.
Proof. exact merged_commit_example. Qed.

Theorem C09_g_last_monotone :
  forall cf now s r s' rep c g cl grp cl' grp',
    step cf now s r = Done s' rep ->
    get s c = Some cl -> get (cl_consumer cl) g = Some grp ->
    get s' c = Some cl' -> get (cl_consumer cl') g = Some grp' ->
    g_last grp <= g_last grp'.
Proof. exact g_last_monotone. Qed.
Print Assumptions C09_g_last_monotone.

(* in every reachable state every commit a group stores has a timestamp <= the group's g_last (ring level: a slot of the new
   ring carries the arriving commit's timestamp or an old slot's; storage level: g_last' = max ts g_last when stored; deletes
   and purges only remove) *)
Theorem C09_stored_timestamps_below_last :
  forall cf cls h s reps c cl g grp x,
    run cf (init_state cls) h = Some (s, reps) ->
    get s c = Some cl -> get (cl_consumer cl) g = Some grp -> In x (stored_ts grp) -> x <= g_last grp.
Proof. exact stored_timestamps_below_last. Qed.
Print Assumptions C09_stored_timestamps_below_last.

Theorem C09_step_preserves_stored_below_last :
  forall cf now s r s' rep, ts_inv s -> step cf now s r = Done s' rep -> ts_inv s'.
Proof. exact step_ts_inv. Qed.
Print Assumptions C09_step_preserves_stored_below_last.

(* the direction users rely on, at full strength: a group reported as not found by a fetch stores only commits older than the
   cut-off - a group with ANY stored commit inside the expiry time is never purged (all histories, inside the int64 guard) *)
Theorem C09_purged_only_if_all_stored_expired :
  forall cf cls h s reps now c g cl grp,
    run cf (init_state cls) h = Some (s, reps) -> in_i64 ((now - cf_expire cf) * 1000) ->
    get s c = Some cl -> get (cl_consumer cl) g = Some grp ->
    obs cf now s (FetchConsumer c g) = Some RNil ->
    forall x, In x (stored_ts grp) -> x < (now - cf_expire cf) * 1000.
Proof. exact purged_only_if_all_stored_expired. Qed.
Print Assumptions C09_purged_only_if_all_stored_expired.

(* the property's own direction, as an equivalence in terms of the group's newest commit time g_last (the largest own timestamp
   of a commit the group stored - C09_stored_commit_raises_last, C09_g_last_after_commit, C09_g_last_monotone): *)
Theorem C09_notfound_iff_newest_commit_expired :
  forall cf now s c g cl grp,
    in_i64 ((now - cf_expire cf) * 1000) ->
    get s c = Some cl -> get (cl_consumer cl) g = Some grp ->
    (obs cf now s (FetchConsumer c g) = Some RNil <-> g_last grp < (now - cf_expire cf) * 1000).
Proof. exact purged_iff_last_expired. Qed.
Print Assumptions C09_notfound_iff_newest_commit_expired.

(* the asymmetry, made visible: "every STORED timestamp is older than the cut-off" does not imply not-found, and must not - a
   commit merged by min-distance leaves its predecessor's timestamp in the ring while the group's newest commit time is its own
   (and ring eviction forgets old commits).  mg_state: the ring stores 1 599 999 300 only, g_last = 1 600 000 000; at
   1 601 000 s the cut-off is 1 600 000 000: all stored timestamps are older, the group is still reported. *)
Example C09_ex_all_stored_expired_yet_reported :
  exists cf cls h s reps now c g cl grp,
    run cf (init_state cls) h = Some (s, reps) /\ in_i64 ((now - cf_expire cf) * 1000) /\
    get s c = Some cl /\ get (cl_consumer cl) g = Some grp /\
    (forall x, In x (stored_ts grp) -> x < (now - cf_expire cf) * 1000) /\
    obs cf now s (FetchConsumer c g) <> Some RNil.
Proof. exact all_stored_expired_yet_reported. Qed.

(* documentation of the behaviour before the repair (audit witness, then replayed on the real code): with
   "lastCommit = timestamp of the last APPENDED commit" the group of lc_hist was purged 700 s early; now g_last = 1 900 000,
   the group is reported at 2200 s and stays listed *)
Theorem C09_not_expired_but_purged_before_fix :
  expired lc_cf 2200 (last_commit_before_fix true 1100000 (last_commit_before_fix true 1900000 0)) = true /\
  in_i64 ((2200 - cf_expire lc_cf) * 1000) /\
  run lc_cf (init_state [1]) lc_hist = Some (lc_state, repeat RNone 4) /\
  (exists cl grp, get lc_state 1 = Some cl /\ get (cl_consumer cl) 1 = Some grp /\
     In 1900000 (stored_ts grp) /\ ~ 1900000 < (2200 - cf_expire lc_cf) * 1000 /\ g_last grp = 1900000) /\
  names (obs lc_cf 2200 lc_state (FetchConsumer 1 1)) = [1] /\
  In 1 (names (obs lc_cf 2200 (after lc_cf 2200 lc_state (FetchConsumer 1 1)) (FetchConsumers 1))).
Proof. exact not_expired_but_purged_before_fix. Qed.
Print Assumptions C09_not_expired_but_purged_before_fix.

(* deleting what does not exist changes nothing: a delete-group-topic naming a topic the group does not consume leaves the
   consumer list, the group's detail and every topic's consumer list as they were (with C09_delete_group_frame: everything) *)
Theorem C09_delete_foreign_topic_changes_nothing :
  forall cf now now' s c g t,
    wf_state s -> t <> 0 -> absent_group_topic s c g t ->
    let s' := after cf now s (DeleteGroup c g t) in
    (forall x, In x (names (obs cf now' s' (FetchConsumers c))) <-> In x (names (obs cf now' s (FetchConsumers c)))) /\
    obs cf now' s' (FetchConsumer c g) = obs cf now' s (FetchConsumer c g) /\
    (forall t' x, In x (names (obs cf now' s' (FetchConsumersForTopic c t'))) <->
                  In x (names (obs cf now' s (FetchConsumersForTopic c t')))).
Proof. exact delete_foreign_topic_changes_nothing. Qed.
Print Assumptions C09_delete_foreign_topic_changes_nothing.

(* documentation of the behaviour before the repair: an owner-only group without topics was unlisted by deleting a topic it
   never had; the repaired handler leaves it listed *)
Theorem C09_delete_foreign_topic_unlists_group_before_fix :
  run fg_cf (init_state [1]) [(1600000000, SetConsumerOwner 1 1 7 0 1 1)] = Some (fg_state, [RNone]) /\
  absent_group_topic fg_state 1 1 5 /\
  names (obs fg_cf 1600000000 fg_state (FetchConsumers 1)) = [1] /\
  (exists st', delete_group_before_fix fg_state 1 1 5 = Done st' RNone /\
               names (obs fg_cf 1600000000 st' (FetchConsumers 1)) = []) /\
  names (obs fg_cf 1600000000 (after fg_cf 1600000000 fg_state (DeleteGroup 1 1 5)) (FetchConsumers 1)) = [1].
Proof. exact delete_foreign_topic_unlists_group_before_fix. Qed.
Print Assumptions C09_delete_foreign_topic_unlists_group_before_fix.

(* ---------------------------------------------------------------------------------------------- *)
(* histories: after the deletion, and until a later ingest re-creates the item, no reply mentions it *)
(* ---------------------------------------------------------------------------------------------- *)

Theorem C09_deleted_group_stays_gone :
  forall cf s0 h1 now c g h2 s reps,
    run cf s0 (h1 ++ (now, DeleteGroup c g 0) :: h2) = Some (s, reps) ->
    Forall (fun nr => ~ creates_group c g (snd nr)) h2 ->
    exists reps1 reps2, reps = reps1 ++ RNone :: reps2 /\ length reps1 = length h1 /\
      Forall2 (fun nr rep => ~ mentions_group c g (snd nr) rep) h2 reps2.
Proof. exact deleted_group_stays_gone. Qed.
Print Assumptions C09_deleted_group_stays_gone.

Theorem C09_deleted_group_topic_stays_gone :
  forall cf s0 h1 now c g t h2 s reps,
    wf_state s0 -> t <> 0 ->
    run cf s0 (h1 ++ (now, DeleteGroup c g t) :: h2) = Some (s, reps) ->
    Forall (fun nr => ~ creates_group_topic c g t (snd nr)) h2 ->
    exists reps1 reps2, reps = reps1 ++ RNone :: reps2 /\ length reps1 = length h1 /\
      Forall2 (fun nr rep => ~ mentions_group_topic c g t (snd nr) rep) h2 reps2.
Proof. exact deleted_group_topic_stays_gone. Qed.
Print Assumptions C09_deleted_group_topic_stays_gone.

Theorem C09_deleted_topic_stays_gone :
  forall cf s0 h1 now c t h2 s reps,
    run cf s0 (h1 ++ (now, DeleteTopic c t) :: h2) = Some (s, reps) ->
    Forall (fun nr => ~ creates_topic c t (snd nr)) h2 ->
    exists reps1 reps2, reps = reps1 ++ RNone :: reps2 /\ length reps1 = length h1 /\
      Forall2 (fun nr rep => ~ mentions_topic c t (snd nr) rep) h2 reps2.
Proof. exact deleted_topic_stays_gone. Qed.
Print Assumptions C09_deleted_topic_stays_gone.

(* "reported as not found and then disappears from listings": whenever FetchConsumer answers not-found (unknown, deleted,
   or purged as expired by this very request), no later reply mentions the group until it is ingested again *)
Theorem C09_notfound_group_stays_unlisted :
  forall cf s0 h1 now c g h2 s reps,
    run cf s0 (h1 ++ (now, FetchConsumer c g) :: h2) = Some (s, reps) ->
    Forall (fun nr => ~ creates_group c g (snd nr)) h2 ->
    exists reps1 rep reps2, reps = reps1 ++ rep :: reps2 /\ length reps1 = length h1 /\
      (rep = RNil -> Forall2 (fun nr rep => ~ mentions_group c g (snd nr) rep) h2 reps2).
Proof. exact notfound_group_stays_unlisted. Qed.
Print Assumptions C09_notfound_group_stays_unlisted.

(* ---------------------------------------------------------------------------------------------- *)
(* non-vacuity: a reachable state with two clusters sharing group and topic names, two groups sharing *)
(* a topic, one of them with that topic as its only one                                            *)
(* ---------------------------------------------------------------------------------------------- *)

Example C09_ex_state_reachable : run ex_cf (init_state [1; 2]) ex_hist = Some (ex_state, repeat RNone 12).
Proof. exact ex_state_reachable. Qed.

Example C09_ex_shared_names :
  wf_state ex_state /\
  ex_names ex_now ex_state FetchClusters = [2; 1] /\
  ex_names ex_now ex_state (FetchConsumers 1) = [2; 1] /\ ex_names ex_now ex_state (FetchConsumers 2) = [2; 1] /\
  ex_names ex_now ex_state (FetchTopics 1) = [2; 1] /\ ex_names ex_now ex_state (FetchTopics 2) = [2; 1] /\
  ex_names ex_now ex_state (FetchConsumersForTopic 1 1) = [2; 1] /\
  ex_names ex_now ex_state (FetchConsumer 1 1) = [2; 1] /\ ex_names ex_now ex_state (FetchConsumer 1 2) = [1].
Proof. exact ex_shared_names. Qed.

(* group 1 of cluster 1 deleted: gone there, group 2 and the same group name in cluster 2 untouched *)
Example C09_ex_delete_group :
  let s' := after ex_cf ex_now ex_state (DeleteGroup 1 1 0) in
  ex_names ex_now s' (FetchConsumers 1) = [2] /\ ex_names ex_now s' (FetchConsumers 2) = [2; 1] /\
  obs ex_cf ex_now s' (FetchConsumer 1 1) = Some RNil /\
  obs ex_cf ex_now s' (FetchConsumer 2 1) = obs ex_cf ex_now ex_state (FetchConsumer 2 1) /\
  ex_names ex_now s' (FetchConsumer 2 1) = [1] /\
  ex_names ex_now s' (FetchConsumersForTopic 1 1) = [2] /\ ex_names ex_now s' (FetchConsumer 1 2) = [1].
Proof. exact ex_delete_group. Qed.

(* the last topic of group 2: the group goes with it; group 1, which shares the topic, keeps it *)
Example C09_ex_delete_last_topic :
  let s' := after ex_cf ex_now ex_state (DeleteGroup 1 2 1) in
  ex_names ex_now s' (FetchConsumers 1) = [1] /\ obs ex_cf ex_now s' (FetchConsumer 1 2) = Some RNil /\
  ex_names ex_now s' (FetchConsumersForTopic 1 1) = [1] /\ ex_names ex_now s' (FetchConsumer 1 1) = [2; 1] /\
  ex_names ex_now s' (FetchConsumers 2) = [2; 1] /\ ex_names ex_now s' (FetchConsumer 2 2) = [1].
Proof. exact ex_delete_last_topic. Qed.

Example C09_ex_delete_one_of_several :
  let s' := after ex_cf ex_now ex_state (DeleteGroup 1 1 2) in
  has_other_topic ex_state 1 1 2 /\
  ex_names ex_now s' (FetchConsumers 1) = [1; 2] /\ ex_names ex_now s' (FetchConsumer 1 1) = [1] /\
  ex_names ex_now s' (FetchConsumersForTopic 1 2) = [] /\ ex_names ex_now s' (FetchConsumersForTopic 1 1) = [1; 2].
Proof. exact ex_delete_one_of_several. Qed.

(* topic 1 of cluster 1 deleted: both groups lose it, group 2 stays listed with an empty detail, cluster 2 keeps its topic 1 *)
Example C09_ex_delete_topic :
  let s' := after ex_cf ex_now ex_state (DeleteTopic 1 1) in
  ex_names ex_now s' (FetchTopics 1) = [2] /\ ex_names ex_now s' (FetchTopics 2) = [2; 1] /\
  ex_names ex_now s' (FetchConsumers 1) = [2; 1] /\ obs ex_cf ex_now s' (FetchConsumer 1 2) = Some (RConsumer []) /\
  ex_names ex_now s' (FetchConsumer 1 1) = [2] /\ ex_names ex_now s' (FetchConsumersForTopic 1 1) = [] /\
  obs ex_cf ex_now s' (FetchTopic 1 1) = Some RNil /\ ex_names ex_now s' (FetchConsumer 2 1) = [1].
Proof. exact ex_delete_topic. Qed.

(* expire-group = 1000 s: at +1001 s the commit is older than the expiry time (guard satisfied), at +1000 s it is not *)
Example C09_ex_expiry :
  in_i64 ((ex_now + 1001 - cf_expire ex_cf) * 1000) /\
  expired ex_cf (ex_now + 1001) ex_ts = true /\ expired ex_cf (ex_now + 1000) ex_ts = false /\
  too_old ex_cf (ex_now + 1001) ex_ts = true /\ too_old ex_cf (ex_now + 1000) ex_ts = false /\
  obs ex_cf (ex_now + 1001) ex_state (FetchConsumer 1 1) = Some RNil /\
  ex_names (ex_now + 1001) (after ex_cf (ex_now + 1001) ex_state (FetchConsumer 1 1)) (FetchConsumers 1) = [2] /\
  ex_names (ex_now + 1000) ex_state (FetchConsumer 1 1) = [2; 1] /\
  after ex_cf (ex_now + 1000) ex_state (FetchConsumer 1 1) = ex_state.
Proof. exact ex_expiry. Qed.
