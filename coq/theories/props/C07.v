From Burrow Require Import Int64 Wire WireEnc.
Example placeholder_C07 : True. Proof. exact I. Qed.
