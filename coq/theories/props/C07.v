(* C07 - Well-formed commit and group-metadata messages are decoded exactly.
   Statements only; proofs are in WireProofs.v and WireRoundtripProofs.v.  Model: Wire.v (process_message); "well-formed"
   is defined by the reference encoders of WireEnc.v (written from the Kafka schemas; anchored below on the literal byte
   strings of core/internal/consumer/kafka_client_test.go; cross-checked on every run against an independent Go encoder
   and an independent Python encoder by checks/c07.py, which also runs the real decoder and the model on the same
   messages).

   HYPOTHESIS OF THE TIE (storage_in_time): "is produced" below means "is offered to App.StorageChannel".  The code sends
   every request with helpers.TimeoutSendStorageRequest(channel, request, 1), which gives up after one second; the
   theorems (and the probe, whose channel is buffered and drained) assume the storage side accepts each request within
   that second.  If it does not, the request is dropped silently and "exactly one update" / "one owner update per
   assigned partition" fail for that message - outside the model, as for C11.
   The order of the requests in the model is members, topics, partitions; the tie compares each message's requests as a
   sorted multiset, so neither the order within a member (Go map iteration, C07_owner_updates_any_map_order) nor the
   order ACROSS members is compared with the code. *)
From Coq Require Import ZArith List Bool Permutation.
From Burrow Require Import Int64 Wire WireEnc WireProofs WireRoundtripProofs.
Import ListNotations.
Open Scope Z_scope.

(* For every well-formed offset commit - key version 0 or 1, value version 0, 1 or 3 (leader epoch in 3, expire timestamp
   in 1), any group, topic and metadata strings (null, empty, any bytes, up to 32767 long), any int32 partition and
   leader epoch, any int64 offset and timestamps - exactly one consumer-offset update is produced, carrying the
   message's group, topic, partition, offset and commit timestamp, ordered by the message's own position o in the
   offsets log - when the reader's lists accept the group; nothing when they reject it. *)
Theorem C07_offset_roundtrip :
  forall (accept : list Z -> bool) kv vv g t p v o,
    (kv = 0 \/ kv = 1) -> (vv = 0 \/ vv = 1 \/ vv = 3) ->
    str_ok g -> str_ok t -> in_i32 p -> offset_value_ok v ->
    exists al,
      process_message accept (enc_offset_key kv g t p) (enc_offset_value vv v) o
      = Done (if accept (str_val g)
              then [SetConsumerOffset (str_val g) (str_val t) p (ov_offset v) (ov_commit_ts v) o]
              else []) al.
Proof. exact offset_roundtrip. Qed.
Print Assumptions C07_offset_roundtrip.

(* an offset tombstone (empty value) yields nothing *)
Theorem C07_offset_tombstone :
  forall (accept : list Z -> bool) kv g t p o,
    (kv = 0 \/ kv = 1) -> str_ok g -> str_ok t -> in_i32 p ->
    exists al, process_message accept (enc_offset_key kv g t p) [] o = Done [] al.
Proof. exact offset_tombstone. Qed.
Print Assumptions C07_offset_tombstone.

(* For every well-formed group-metadata message of protocol type "consumer" - value version 0, 1, 2 or 3 (rebalance
   timeout from 1, state timestamp from 2, group instance id in 3); any strings (null, empty, any bytes, up to 32767
   long); any int32 / int64 fields; any number of members; each member with a null, an empty or a present assignment
   (any non-negative version) of any number of topics with any number of int32 partitions each, topic names pairwise
   distinct within one member (the decoder collects a member's topics in a Go map: a repeated name overwrites); null /
   empty / present subscription and user data - for a group the reader's lists accept:
   no member => exactly one owner clear for the group; otherwise exactly one owner update per member and assigned
   topic-partition, with that member's host and client id, and nothing else.  (meta_ok: the side conditions just listed,
   all of them what the wire format can carry.) *)
Theorem C07_metadata_roundtrip :
  forall (accept : list Z -> bool) g vv v o,
    0 <= vv <= 3 -> str_ok g -> meta_ok v ->
    str_val (mv_ptype v) = str_consumer -> accept (str_val g) = true ->
    exists al,
      process_message accept (enc_meta_key g) (enc_meta_value vv v) o
      = Done (match mv_members v with
              | [] => [ClearConsumerOwners (str_val g)]
              | ms => flat_map (owner_requests (str_val g)) ms
              end) al.
Proof. exact metadata_roundtrip. Qed.
Print Assumptions C07_metadata_roundtrip.

(* The list above is in the order members, topics, partitions; the Go code ranges over each member's map in an
   unspecified order.  Whatever that order, the same updates are sent (as a multiset). *)
Theorem C07_owner_updates_any_map_order :
  forall g (ms ms' : list member),
    Forall2 (fun m m' => m_client_id m = m_client_id m' /\ m_client_host m = m_client_host m'
                         /\ Permutation (m_assignment m) (m_assignment m')) ms ms' ->
    Permutation (flat_map (member_requests g) ms) (flat_map (member_requests g) ms').
Proof. exact owner_updates_any_map_order. Qed.
Print Assumptions C07_owner_updates_any_map_order.

(* any other protocol type - null and empty included - yields nothing *)
Theorem C07_metadata_other_protocol :
  forall (accept : list Z -> bool) g vv v o,
    0 <= vv <= 3 -> str_ok g -> meta_ok v ->
    str_val (mv_ptype v) <> str_consumer ->
    exists al, process_message accept (enc_meta_key g) (enc_meta_value vv v) o = Done [] al.
Proof. exact metadata_other_protocol. Qed.
Print Assumptions C07_metadata_other_protocol.

(* a metadata tombstone (empty value) deletes the group - for a group the reader's lists accept *)
Theorem C07_metadata_tombstone :
  forall (accept : list Z -> bool) g o,
    str_ok g ->
    exists al, process_message accept (enc_meta_key g) [] o
               = Done (if accept (str_val g) then [DeleteGroup (str_val g)] else []) al.
Proof. exact metadata_tombstone. Qed.
Print Assumptions C07_metadata_tombstone.

(* Whatever the bytes: every partition in a request is a Go int32, every offset and timestamp a Go int64 (what the
   storage layer's arithmetic assumes, C01), and the Order of an offset update is the message's own offset. *)
Theorem C07_in_range :
  forall (accept : list Z -> bool) key value o rs al,
    process_message accept key value o = Done rs al -> Forall (req_in_range o) rs.
Proof. exact in_range. Qed.
Print Assumptions C07_in_range.

(* Every request goes to the right cluster.  The module has a name of its own and a configured cluster (two different
   strings in general); whatever the bytes, every request sent - offset update, owner update, owner clear, group
   delete - names the configured cluster, and is otherwise the request of process_message (so all the statements above
   carry over to the addressed requests). *)
Theorem C07_requests_addressed_to_cluster :
  forall cfg (accept : list Z -> bool) key value o rs al,
    process_message_for cfg accept key value o = DoneFor rs al ->
    Forall (fun cr => fst cr = rc_cluster cfg) rs /\
    process_message accept key value o = Done (map snd rs) al.
Proof. exact requests_addressed_to_cluster. Qed.
Print Assumptions C07_requests_addressed_to_cluster.

(* in particular: a metadata tombstone deletes the group in the module's cluster *)
Theorem C07_metadata_tombstone_for :
  forall cfg (accept : list Z -> bool) g o,
    str_ok g -> accept (str_val g) = true ->
    exists al, process_message_for cfg accept (enc_meta_key g) [] o
               = DoneFor [(rc_cluster cfg, DeleteGroup (str_val g))] al.
Proof. exact metadata_tombstone_for. Qed.
Print Assumptions C07_metadata_tombstone_for.

(* ---- the specification of well-formed agrees with the unit tests' literals (WireEnc.v) ---- *)

Example C07_anchor_offset_key_v1 :
  enc_offset_key 1 (Some b_testgroup) (Some b_testtopic) 11 = lit_okey1.
Proof. vm_compute. reflexivity. Qed.
Example C07_anchor_offset_value_v0 : exists md, enc_offset_value 0 (mkOV 8372 0 md 1637 0) = lit_oval0.
Proof. eexists. exact anchor_offset_value_v0. Qed.
Example C07_anchor_offset_value_v3 : exists md, enc_offset_value 3 (mkOV 8372 0 md 1637 0) = lit_oval3.
Proof. eexists. exact anchor_offset_value_v3. Qed.
Example C07_anchor_meta_key : enc_meta_key (Some b_testgroup) = lit_mkey.
Proof. vm_compute. reflexivity. Qed.
Example C07_anchor_meta_values :
  (exists v, enc_meta_value 1 v = lit_mval1) /\ (exists v, enc_meta_value 2 v = lit_mval2)
  /\ (exists v, enc_meta_value 3 v = lit_mval3).
Proof.
  split; [|split]; eexists;
    [exact anchor_meta_value_v1 | exact anchor_meta_value_v2 | exact anchor_meta_value_v3].
Qed.

(* ---- non-vacuity ---- *)

(* a version 3 message with two members: the first owns t1/{0,1} and t2/{5}, the second (null instance id, null
   subscription, user data present) owns t1/{2}; it meets meta_ok, and decodes to the four owner updates *)
Definition C07_ex_value : meta_value :=
  mkMV b_consumer 7 None (Some []) 1567112890219
    [ mkWM b_cid1 b_g b_cid1 b_host1 (-1) 30000 (Some [0; 1; 0; 0])
        (Asg (mkAsg 1 [(b_t1, [0; 1]); (b_t2, [5])] (Some [])));
      mkWM b_cid2 None b_cid2 b_host2 0 2147483647 None
        (Asg (mkAsg 0 [(b_t1, [2])] (Some [1; 2; 3]))) ].

Example C07_ex_meta_ok : meta_ok C07_ex_value /\ str_val (mv_ptype C07_ex_value) = str_consumer.
Proof.
  split; [|reflexivity].
  unfold meta_ok, C07_ex_value, member_ok, asg_field_ok, asg_ok, topic_ok, str_ok, bytes_ok32, in_i32, in_i64,
    two31, two63.
  cbn -[Z.lt Z.le Z.opp].
  repeat (first [ split | constructor ]);
    try (vm_compute in *; first [ reflexivity | discriminate | contradiction
                                | match goal with H : _ \/ _ |- _ => destruct H; first [discriminate | contradiction] end ]).
  vm_compute. intros [H|[]]. discriminate H.
Qed.

Example C07_ex_metadata_decodes :
  process_message (fun _ => true) (enc_meta_key b_g) (enc_meta_value 3 C07_ex_value) 0
  = Done (flat_map (owner_requests (str_val b_g)) (mv_members C07_ex_value))
         [1; 8; 0; 2; 1; 2; 9; 2; 8; 2; 4; 2; 2; 9; 2; 4].
Proof. vm_compute. reflexivity. Qed.

Example C07_ex_four_updates :
  length (flat_map (owner_requests (str_val b_g)) (mv_members C07_ex_value)) = 4%nat.
Proof. vm_compute. reflexivity. Qed.

(* extreme values in an offset commit *)
Example C07_ex_offset_extremes :
  process_message (fun _ => true) (enc_offset_key 1 (Some [103]) None (-1))
                  (enc_offset_value 3 (mkOV (-9223372036854775808) (-1) None 9223372036854775807 0)) 42
  = Done [SetConsumerOffset [103] [] (-1) (-9223372036854775808) 9223372036854775807 42] [1].
Proof. exact offset_roundtrip_example. Qed.

(* The side condition "topic names pairwise distinct within one member" is needed: the decoder collects a member's topics
   in a Go map, so of two entries with the same name only the later one is kept (no Kafka client writes such an
   assignment: the serializer groups partitions by topic). *)
Example C07_ex_repeated_topic_later_wins :
  process_message (fun _ => true) (enc_meta_key b_g)
    (enc_meta_value 1 (mkMV b_consumer 1 None None 0
       [mkWM b_cid1 None b_cid1 b_host1 0 0 None (Asg (mkAsg 0 [(b_t1, [0]); (b_t1, [1])] None))])) 0
  = Done [SetConsumerOwner (str_val b_g) (str_val b_t1) 1 (str_val b_host1) (str_val b_cid1)] [1; 8; 2; 2; 9; 2; 4; 2; 4].
Proof. vm_compute. reflexivity. Qed.

(* a module called "c1" reading for cluster "t1": the tombstone goes to "t1" *)
Example C07_ex_tombstone_cluster :
  process_message_for (mkReaderCfg (str_val b_cid1) (str_val b_t1)) (fun _ => true) (enc_meta_key b_g) [] 0
  = DoneFor [(str_val b_t1, DeleteGroup (str_val b_g))] [1].
Proof. vm_compute. reflexivity. Qed.
