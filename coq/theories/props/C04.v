(* C04 — Group status is a faithful aggregate of its partitions.
   Statements only; proofs in EvalGroupProofs.v.  Model: Eval.eval_group / filter_view. *)
From Coq Require Import ZArith List Permutation.
From Burrow Require Import Int64 F32 Eval EvalGroupProofs.
From Coq Require Import Reals.
From Flocq Require Import Core IEEE754.Binary IEEE754.Bits.
From Burrow Require Import F32Proofs EvalProofs EvalCompleteProofs.
Import ListNotations.
Open Scope Z_scope.

(* What evaluateConsumerStatus returns, field by field, in terms of the per-partition results. *)
Theorem C04_group_is_fold_of_partitions :
  forall ts minimum allowed now g,
    eval_group ts minimum allowed now = Ok g ->
    exists parts,
      eval_topics ts minimum allowed now = Ok parts /\
      gs_partitions g = parts /\
      gs_status g = fold_left step_status parts StOK /\
      gs_maxlag g = fold_left step_max parts None /\
      gs_total_partitions g = Z.of_nat (length parts) /\
      gs_totallag g = sum_lags ts /\
      map ps_lag parts = part_lags ts /\
      gs_complete g = (if 0 <? Z.of_nat (length parts)
                       then f32_div (f32_of_int (count_complete parts)) (f32_of_int (Z.of_nat (length parts)))
                       else f32_zero).
Proof. exact eval_group_spec. Qed.
Print Assumptions C04_group_is_fold_of_partitions.

(* OK iff all partitions OK; WARN iff the worst is WARN; ERR iff some partition stopped/stalled/rewound. *)
Theorem C04_group_status :
  forall parts,
    Forall (fun p => part_status_ok (ps_status p)) parts ->
    let g := fold_left step_status parts StOK in
    (g = StOK <-> Forall (fun p => ps_status p = StOK) parts) /\
    (g = StWarn <-> (exists p, In p parts /\ ps_status p = StWarn) /\
                    Forall (fun p => ps_status p = StOK \/ ps_status p = StWarn) parts) /\
    (g = StErr <-> exists p, In p parts /\ (ps_status p = StStop \/ ps_status p = StStall \/ ps_status p = StRewind)) /\
    (g = StOK \/ g = StWarn \/ g = StErr).
Proof. exact group_status_spec. Qed.
Print Assumptions C04_group_status.

Theorem C04_partition_statuses_in_range :
  forall ts minimum allowed now l,
    eval_topics ts minimum allowed now = Ok l -> Forall (fun p => part_status_ok (ps_status p)) l.
Proof. exact eval_topics_range. Qed.
Print Assumptions C04_partition_statuses_in_range.

Theorem C04_total_lag_is_sum :
  forall ts, Forall in_u64 (part_lags ts) ->
    sum_lags ts = (fold_right Z.add 0 (part_lags ts)) mod two64.
Proof. exact total_lag_sum. Qed.
Print Assumptions C04_total_lag_is_sum.

Theorem C04_total_lag_exact_below_2_64 :
  forall ts, Forall in_u64 (part_lags ts) -> fold_right Z.add 0 (part_lags ts) < two64 ->
    sum_lags ts = fold_right Z.add 0 (part_lags ts).
Proof. exact total_lag_exact. Qed.
Print Assumptions C04_total_lag_exact_below_2_64.

(* max-lag names a listed partition with the largest current lag; absent iff there are no partitions *)
Theorem C04_maxlag_is_max :
  forall parts,
    match fold_left step_max parts None with
    | None => parts = []
    | Some m => In m parts /\ Forall (fun p => ps_lag p <= ps_lag m) parts
    end.
Proof. exact maxlag_is_max. Qed.
Print Assumptions C04_maxlag_is_max.

(* the iteration order of the Go map does not matter (except which of several tied partitions max-lag names) *)
Theorem C04_order_independent :
  forall ts ts' minimum allowed now g,
    Permutation ts ts' -> Forall in_u64 (part_lags ts) ->
    eval_group ts minimum allowed now = Ok g ->
    exists g', eval_group ts' minimum allowed now = Ok g' /\
      gs_status g' = gs_status g /\ gs_totallag g' = gs_totallag g /\
      gs_total_partitions g' = gs_total_partitions g /\ gs_complete g' = gs_complete g /\
      Permutation (gs_partitions g) (gs_partitions g') /\
      option_map ps_lag (gs_maxlag g') = option_map ps_lag (gs_maxlag g).
Proof. exact order_independent. Qed.
Print Assumptions C04_order_independent.

(* the problems-only view: exactly the partitions worse than OK, same summary fields *)
Theorem C04_filtered_view :
  forall g,
    gs_partitions (filter_view g) = filter (fun p => worse (ps_status p) StOK) (gs_partitions g) /\
    gs_status (filter_view g) = gs_status g /\ gs_complete (filter_view g) = gs_complete g /\
    gs_total_partitions (filter_view g) = gs_total_partitions g /\
    gs_maxlag (filter_view g) = gs_maxlag g /\ gs_totallag (filter_view g) = gs_totallag g.
Proof. exact filtered_view_spec. Qed.
Print Assumptions C04_filtered_view.

(* What C04_filtered_view is and is not.  It makes the DEFINITION of the problems-only view explicit (a restatement of
   Eval.filter_view: true by construction).  The request-path content of the clause -- a ShowAll=false reply is this
   view of the very evaluation the cache holds for ShowAll=true, and producing it leaves what later requests get
   untouched -- is C05's `filtered_does_not_disturb` over the heap model of the cache (Cache.v: cache and requesters share
   one status object; an in-place filter is shown to break it), and is tied here by the probe, which asks one cached
   evaluation for both views in both orders (filtered first every third case) and compares the view asked first with
   the same view asked again last.
   "The partition reported as max-lag is a listed one" is a statement about the FULL view: in the problems-only view the
   max-lag partition may be one that is not listed there (it is OK), as this example shows. *)
Example C04_ex_maxlag_outside_filtered_view :
  let a := mkPstatus 1 0 0 0 StOK None None 100 f32_zero in     (* largest lag, status OK *)
  let b := mkPstatus 1 1 0 0 StWarn None None 5 f32_zero in
  let g := mkGstatus StWarn f32_zero [a; b] 2 (Some a) 105 in
  gs_partitions (filter_view g) = [b] /\ gs_maxlag (filter_view g) = Some a /\ In a (gs_partitions g) /\
  ~ In a (gs_partitions (filter_view g)).
Proof.
  cbn zeta. split; [reflexivity|]. split; [reflexivity|]. split; [left; reflexivity|].
  cbn. intros [H|[]]. discriminate H.
Qed.
Print Assumptions C04_ex_maxlag_outside_filtered_view.

(* ---- completeness in mathematical terms (proofs: F32Proofs.v, EvalCompleteProofs.v) ---- *)

(* float32(z) is exact up to 2^24 *)
Theorem C04_float32_of_int_exact :
  forall z, 0 <= z <= 2 ^ 24 ->
    B2R 24 128 (f32_of_int z) = IZR z /\ is_finite 24 128 (f32_of_int z) = true.
Proof. exact f32_of_int_exact. Qed.
Print Assumptions C04_float32_of_int_exact.

(* float32(k)/float32(n) is the fraction k/n rounded once to binary32 (nearest, ties to even) *)
Theorem C04_float32_fraction_correctly_rounded :
  forall k n, 0 <= k <= 2 ^ 24 -> 0 < n <= 2 ^ 24 ->
    B2R 24 128 (f32_div (f32_of_int k) (f32_of_int n)) =
      round radix2 (FLT_exp (-149) 24) ZnearestE (IZR k / IZR n) /\
    is_finite 24 128 (f32_div (f32_of_int k) (f32_of_int n)) = true.
Proof. exact f32_div_correct_frac. Qed.
Print Assumptions C04_float32_fraction_correctly_rounded.

(* a proper fraction never rounds up to 1.0; k/n == 1.0 exactly when k = n *)
Theorem C04_fraction_eq_one_iff :
  forall k n, 0 <= k <= n -> 0 < n <= 2 ^ 24 ->
    (f32_eq (f32_div (f32_of_int k) (f32_of_int n)) f32_one = true <-> k = n).
Proof. exact f32_frac_eq_one_iff. Qed.
Print Assumptions C04_fraction_eq_one_iff.

Theorem C04_proper_fraction_below_one :
  forall k n, 0 <= k < n -> n <= 2 ^ 24 ->
    Bcompare 24 128 (f32_div (f32_of_int k) (f32_of_int n)) f32_one = Some Lt.
Proof. exact f32_frac_lt_one_cmp. Qed.
Print Assumptions C04_proper_fraction_below_one.

(* a window with b unfilled slots in front of >= 1 commits: Complete == 1.0 iff no slot is unfilled *)
Theorem C04_partition_complete_iff_full :
  forall b c0 cs p minimum allowed now s st en c,
    cp_offsets p = repeat None b ++ map Some (c0 :: cs) ->
    Z.of_nat (b + S (length cs)) <= 2 ^ 24 ->
    eval_partition p minimum allowed now = Ok (s, st, en, c) ->
    (f32_eq c f32_one = true <-> b = 0%nat).
Proof. exact partition_complete_iff_full. Qed.
Print Assumptions C04_partition_complete_iff_full.

(* ... and its value is the correctly rounded fraction filled/slots *)
Theorem C04_partition_complete_value :
  forall b c0 cs p minimum allowed now s st en c,
    cp_offsets p = repeat None b ++ map Some (c0 :: cs) ->
    Z.of_nat (b + S (length cs)) <= 2 ^ 24 ->
    eval_partition p minimum allowed now = Ok (s, st, en, c) ->
    B2R 24 128 c = round radix2 (FLT_exp (-149) 24) ZnearestE
                     (IZR (Z.of_nat (S (length cs))) / IZR (Z.of_nat (b + S (length cs)))) /\
    is_finite 24 128 c = true.
Proof. exact partition_complete_value. Qed.
Print Assumptions C04_partition_complete_value.

(* a window without any commit (any length, the no-ring length 0 included) is never complete: its value is 0 *)
Theorem C04_window_without_commits_not_complete :
  forall b p minimum allowed now s st en c,
    cp_offsets p = repeat None b -> Z.of_nat b <= 2 ^ 24 ->
    eval_partition p minimum allowed now = Ok (s, st, en, c) ->
    f32_eq c f32_one = false /\ B2R 24 128 c = 0%R.
Proof. exact partition_no_commits_not_complete. Qed.
Print Assumptions C04_window_without_commits_not_complete.

(* every storage-shaped window of at most 2^24 slots: Complete == 1.0 iff >= 1 slot and no slot unfilled *)
Theorem C04_partition_complete_iff_window_full :
  forall p minimum allowed now s st en c,
    storage_shaped p ->
    eval_partition p minimum allowed now = Ok (s, st, en, c) ->
    (f32_eq c f32_one = true <-> window_full p = true).
Proof. exact partition_complete_iff_window_full. Qed.
Print Assumptions C04_partition_complete_iff_window_full.

(* the group's Complete is (number of partitions whose window is full)/(number of partitions), rounded once to
   binary32; 0 for a group without partitions *)
Theorem C04_group_complete_is_rounded_fraction :
  forall ts minimum allowed now g,
    Forall storage_shaped (all_parts ts) ->
    Z.of_nat (length (all_parts ts)) <= 2 ^ 24 ->
    eval_group ts minimum allowed now = Ok g ->
    gs_total_partitions g = Z.of_nat (length (all_parts ts)) /\
    is_finite 24 128 (gs_complete g) = true /\
    ((0 < length (all_parts ts))%nat ->
       B2R 24 128 (gs_complete g) =
       round radix2 (FLT_exp (-149) 24) ZnearestE
         (IZR (count_full (all_parts ts)) / IZR (Z.of_nat (length (all_parts ts))))) /\
    (length (all_parts ts) = 0%nat -> B2R 24 128 (gs_complete g) = 0%R).
Proof. exact group_complete_is_rounded_fraction. Qed.
Print Assumptions C04_group_complete_is_rounded_fraction.

(* the group's Complete is 1.0 exactly when every partition's window is full *)
Theorem C04_group_complete_one_iff :
  forall ts minimum allowed now g,
    Forall storage_shaped (all_parts ts) ->
    (0 < length (all_parts ts))%nat -> Z.of_nat (length (all_parts ts)) <= 2 ^ 24 ->
    eval_group ts minimum allowed now = Ok g ->
    (f32_eq (gs_complete g) f32_one = true <-> forallb window_full (all_parts ts) = true).
Proof. exact group_complete_one_iff. Qed.
Print Assumptions C04_group_complete_one_iff.

(* non-vacuity: 1 full window among 3 storage-shaped partitions => 0x3EAAAAAB (float32(1)/float32(3));
   3 of 4 slots => 0x3F400000, not complete; the bound 2^24 is sharp *)
Example C04_complete_witness_shapes :
  Forall storage_shaped (all_parts [(1, [ex_full; ex_partial]); (2, [ex_nocommit; ex_noring])]).
Proof. exact ex_shapes. Qed.
Example C04_complete_witness_group :
  match eval_group [(1, [ex_full; ex_partial]); (2, [ex_nocommit])] f32_zero 0 3 with
  | Ok g => f32_bits (gs_complete g) = 0x3EAAAAAB /\ gs_total_partitions g = 3
  | Crash => False
  end /\ count_full (all_parts [(1, [ex_full; ex_partial]); (2, [ex_nocommit])]) = 1.
Proof. exact ex_group_bits. Qed.
Example C04_complete_witness_partition :
  match eval_partition ex_partial f32_zero 0 3 with
  | Ok (_, _, _, c) => f32_bits c = 0x3F400000 /\ f32_eq c f32_one = false
  | Crash => False
  end /\ window_full ex_partial = false /\ window_full ex_full = true /\
  window_full ex_nocommit = false /\ window_full ex_noring = false.
Proof. exact ex_partition_bits. Qed.
Example C04_bound_2_24_is_sharp :
  f32_eq (f32_div (f32_of_int (2 ^ 24)) (f32_of_int (2 ^ 24 + 1))) f32_one = true.
Proof. exact frac_beyond_bound_is_one. Qed.
