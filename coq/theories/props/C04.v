(* C04 — Group status is a faithful aggregate of its partitions.
   Statements only; proofs in EvalGroupProofs.v.  Model: Eval.eval_group / filter_view. *)
From Coq Require Import ZArith List Permutation.
From Burrow Require Import Int64 F32 Eval EvalGroupProofs.
Import ListNotations.
Open Scope Z_scope.

(* What evaluateConsumerStatus returns, field by field, in terms of the per-partition results. *)
Theorem C04_group_is_fold_of_partitions :
  forall ts minimum allowed now g,
    eval_group ts minimum allowed now = Ok g ->
    exists parts,
      eval_topics ts minimum allowed now = Ok parts /\
      gs_partitions g = parts /\
      gs_status g = fold_left step_status parts StOK /\
      gs_maxlag g = fold_left step_max parts None /\
      gs_total_partitions g = Z.of_nat (length parts) /\
      gs_totallag g = sum_lags ts /\
      map ps_lag parts = part_lags ts /\
      gs_complete g = (if 0 <? Z.of_nat (length parts)
                       then f32_div (f32_of_int (count_complete parts)) (f32_of_int (Z.of_nat (length parts)))
                       else f32_zero).
Proof. exact eval_group_spec. Qed.
Print Assumptions C04_group_is_fold_of_partitions.

(* OK iff all partitions OK; WARN iff the worst is WARN; ERR iff some partition stopped/stalled/rewound. *)
Theorem C04_group_status :
  forall parts,
    Forall (fun p => part_status_ok (ps_status p)) parts ->
    let g := fold_left step_status parts StOK in
    (g = StOK <-> Forall (fun p => ps_status p = StOK) parts) /\
    (g = StWarn <-> (exists p, In p parts /\ ps_status p = StWarn) /\
                    Forall (fun p => ps_status p = StOK \/ ps_status p = StWarn) parts) /\
    (g = StErr <-> exists p, In p parts /\ (ps_status p = StStop \/ ps_status p = StStall \/ ps_status p = StRewind)) /\
    (g = StOK \/ g = StWarn \/ g = StErr).
Proof. exact group_status_spec. Qed.
Print Assumptions C04_group_status.

Theorem C04_partition_statuses_in_range :
  forall ts minimum allowed now l,
    eval_topics ts minimum allowed now = Ok l -> Forall (fun p => part_status_ok (ps_status p)) l.
Proof. exact eval_topics_range. Qed.
Print Assumptions C04_partition_statuses_in_range.

Theorem C04_total_lag_is_sum :
  forall ts, Forall in_u64 (part_lags ts) ->
    sum_lags ts = (fold_right Z.add 0 (part_lags ts)) mod two64.
Proof. exact total_lag_sum. Qed.
Print Assumptions C04_total_lag_is_sum.

Theorem C04_total_lag_exact_below_2_64 :
  forall ts, Forall in_u64 (part_lags ts) -> fold_right Z.add 0 (part_lags ts) < two64 ->
    sum_lags ts = fold_right Z.add 0 (part_lags ts).
Proof. exact total_lag_exact. Qed.
Print Assumptions C04_total_lag_exact_below_2_64.

(* max-lag names a listed partition with the largest current lag; absent iff there are no partitions *)
Theorem C04_maxlag_is_max :
  forall parts,
    match fold_left step_max parts None with
    | None => parts = []
    | Some m => In m parts /\ Forall (fun p => ps_lag p <= ps_lag m) parts
    end.
Proof. exact maxlag_is_max. Qed.
Print Assumptions C04_maxlag_is_max.

(* the iteration order of the Go map does not matter (except which of several tied partitions max-lag names) *)
Theorem C04_order_independent :
  forall ts ts' minimum allowed now g,
    Permutation ts ts' -> Forall in_u64 (part_lags ts) ->
    eval_group ts minimum allowed now = Ok g ->
    exists g', eval_group ts' minimum allowed now = Ok g' /\
      gs_status g' = gs_status g /\ gs_totallag g' = gs_totallag g /\
      gs_total_partitions g' = gs_total_partitions g /\ gs_complete g' = gs_complete g /\
      Permutation (gs_partitions g) (gs_partitions g') /\
      option_map ps_lag (gs_maxlag g') = option_map ps_lag (gs_maxlag g).
Proof. exact order_independent. Qed.
Print Assumptions C04_order_independent.

(* the problems-only view: exactly the partitions worse than OK, same summary fields *)
Theorem C04_filtered_view :
  forall g,
    gs_partitions (filter_view g) = filter (fun p => worse (ps_status p) StOK) (gs_partitions g) /\
    gs_status (filter_view g) = gs_status g /\ gs_complete (filter_view g) = gs_complete g /\
    gs_total_partitions (filter_view g) = gs_total_partitions g /\
    gs_maxlag (filter_view g) = gs_maxlag g /\ gs_totallag (filter_view g) = gs_totallag g.
Proof. exact filtered_view_spec. Qed.
Print Assumptions C04_filtered_view.
