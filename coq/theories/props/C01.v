(* C01 — Reported lag is exact and never negative.
   Model: Burrow.Storage (InMemoryStorage handlers) over Burrow.Ring; proofs in Burrow.StorageProofs.
   A history is a list of (clock, request); [run cf (init_state cls) h] folds [step] over it from the empty
   storage for the configured clusters [cls]; [None] means some handler panicked.
   [last_broker h c t p] (spec side, a function of the history only) is the offset carried by the last
   SetBrokerOffset for (c,t,p) in h.  Hypotheses: [intervals >= 1] (ring.New(0) is nil) and [wf_hist h]:
   offsets are int64 and a broker offset names a partition below the count it announces. *)
From Coq Require Import ZArith List Bool.
From Burrow Require Import Int64 Int64Proofs Eval AMap Ring Storage StorageProofs.
Import ListNotations.
Open Scope Z_scope.

(* uint64(int64 - int64) behind either guard never wraps, including b = 2^63-1, o = -2^63 *)
Theorem lag_cast_exact :
  forall b o, in_i64 b -> in_i64 o -> o < b -> u64 (sub64 b o) = b - o /\ 0 < b - o < two64.
Proof. exact lag_cast_exact_strict. Qed.
Print Assumptions lag_cast_exact.

(* Sequentially storage never panics, and the shared state invariant holds after every history. *)
Theorem storage_inv_holds :
  forall cf cls h, (1 <= cf_intervals cf)%nat -> wf_hist h ->
  exists st reps, run cf (init_state cls) h = Some (st, reps) /\ storage_inv cf st.
Proof. exact storage_never_crashes. Qed.
Print Assumptions storage_inv_holds.

(* Current lag: for every partition of every topic of every FetchConsumer reply after any history: if the newest
   slot of the window holds commit k, CurrentLag = max 0 (last recorded broker offset - k.offset), below 2^64, and
   the newest reported broker offset is that same history value; if the newest slot is empty, CurrentLag = 0. *)
Theorem current_lag_exact :
  forall cf cls h st reps now c g st' l t cps i cp,
  (1 <= cf_intervals cf)%nat -> wf_hist h ->
  run cf (init_state cls) h = Some (st, reps) ->
  fetch_consumer cf now st c g = Done st' (RConsumer l) ->
  In (t, cps) l -> nth_error cps i = Some cp ->
  match last (cp_offsets cp) None with
  | Some k => exists b, last_broker h c t (Z.of_nat i) = Some b /\ (forall d, last (cp_brokers cp) d = b) /\
                        cp_lag cp = Z.max 0 (b - co_offset k) /\ 0 <= cp_lag cp < two64
  | None => cp_lag cp = 0
  end.
Proof. exact StorageProofs.current_lag_exact. Qed.
Print Assumptions current_lag_exact.

(* the same, for a fetch made at any point of a longer history (the reply is the one at that position) *)
Theorem current_lag_exact_anywhere :
  forall cf cls h1 now c g h2 st reps l t cps i cp,
  (1 <= cf_intervals cf)%nat -> wf_hist (h1 ++ (now, FetchConsumer c g) :: h2) ->
  run cf (init_state cls) (h1 ++ (now, FetchConsumer c g) :: h2) = Some (st, reps) ->
  nth_error reps (length h1) = Some (RConsumer l) ->
  In (t, cps) l -> nth_error cps i = Some cp ->
  match last (cp_offsets cp) None with
  | Some k => exists b, last_broker h1 c t (Z.of_nat i) = Some b /\ (forall d, last (cp_brokers cp) d = b) /\
                        cp_lag cp = Z.max 0 (b - co_offset k) /\ 0 <= cp_lag cp < two64
  | None => cp_lag cp = 0
  end.
Proof. exact StorageProofs.current_lag_exact_anywhere. Qed.
Print Assumptions current_lag_exact_anywhere.

(* Lag at commit, step-wise (commit_lag_exact of DESIGN 4.1): what one arriving commit does to the window it goes to.
   Either nothing (dropped); or it is placed as the newest and carries
   Some (max 0 (broker offset known at this arrival - offset)) while exactly one old slot gives way; or it is
   placed out of order (its log position is not above the newest) and carries no lag value, again replacing
   exactly one old slot.  All other slots are kept unchanged, in order. *)
Theorem commit_lag_exact :
  forall cf cls h st reps now c g t p off order ts st' rep,
  (1 <= cf_intervals cf)%nat -> wf_hist h -> in_i64 off ->
  run cf (init_state cls) h = Some (st, reps) ->
  step cf now st (SetConsumerOffset c g t p off order ts) = Done st' rep ->
  let w := ring_of cf st c g t p in
  let w' := ring_of cf st' c g t p in
  w' = w \/
  (exists b, last_broker h c t p = Some b /\
     (hd None w = None \/ exists nw, hd None w = Some nw /\ co_order nw < order) /\
     exists e rest a' x b', w' = Some e :: rest /\ co_offset e = off /\ co_order e = order /\
        co_lag e = Some (Z.max 0 (b - off)) /\ 0 <= Z.max 0 (b - off) < two64 /\
        w = a' ++ x :: b' /\ rest = a' ++ b') \/
  ((exists nw, hd None w = Some nw /\ order <= co_order nw) /\
   exists e, co_offset e = off /\ co_order e = order /\ co_lag e = None /\ overwrite w w' e).
Proof. exact commit_lag_step. Qed.
Print Assumptions commit_lag_exact.

(* ... and no other request ever rewrites a stored commit: the ring of (c,g,t,p) is untouched or removed whole. *)
Theorem commit_lag_frame :
  forall cf cls h st reps now r c g t p st' rep,
  (1 <= cf_intervals cf)%nat -> wf_hist h -> wf_req r -> 0 <= p ->
  run cf (init_state cls) h = Some (st, reps) ->
  step cf now st r = Done st' rep ->
  (forall off order ts, r <> SetConsumerOffset c g t p off order ts) ->
  ring_of cf st' c g t p = ring_of cf st c g t p \/ ring_of cf st' c g t p = new_ring (cf_intervals cf).
Proof. exact commit_frame. Qed.
Print Assumptions commit_lag_frame.

(* Lag at commit, lifted over the fold and read off the reply: every commit reported by a fetch either carries no
   lag value, or carries max 0 (b - offset) < 2^64 where b is the last broker offset recorded before an arrival
   (in this history, for this group/topic/partition) of a commit with exactly this offset and log position. *)
Theorem stored_lag_exact :
  forall cf cls h st reps now c g st' l t cps i cp e,
  (1 <= cf_intervals cf)%nat -> wf_hist h ->
  run cf (init_state cls) h = Some (st, reps) ->
  fetch_consumer cf now st c g = Done st' (RConsumer l) ->
  In (t, cps) l -> nth_error cps i = Some cp -> In (Some e) (cp_offsets cp) ->
  co_lag e = None \/
  exists h1 now' ts rest b,
    h = h1 ++ (now', SetConsumerOffset c g t (Z.of_nat i) (co_offset e) (co_order e) ts) :: rest /\
    last_broker h1 c t (Z.of_nat i) = Some b /\ co_lag e = Some (Z.max 0 (b - co_offset e)) /\
    0 <= Z.max 0 (b - co_offset e) < two64.
Proof. exact StorageProofs.stored_lag_exact. Qed.
Print Assumptions stored_lag_exact.

(* the same, for a fetch made at any point of a longer history ("at every point a detail or status query can be made"):
   the reply at position [length h1] is judged against the history BEFORE that fetch, h1 *)
Theorem stored_lag_exact_anywhere :
  forall cf cls h1 now c g h2 st reps l t cps i cp e,
  (1 <= cf_intervals cf)%nat -> wf_hist (h1 ++ (now, FetchConsumer c g) :: h2) ->
  run cf (init_state cls) (h1 ++ (now, FetchConsumer c g) :: h2) = Some (st, reps) ->
  nth_error reps (length h1) = Some (RConsumer l) ->
  In (t, cps) l -> nth_error cps i = Some cp -> In (Some e) (cp_offsets cp) ->
  co_lag e = None \/
  exists h0 now' ts rest b,
    h1 = h0 ++ (now', SetConsumerOffset c g t (Z.of_nat i) (co_offset e) (co_order e) ts) :: rest /\
    last_broker h0 c t (Z.of_nat i) = Some b /\ co_lag e = Some (Z.max 0 (b - co_offset e)) /\
    0 <= Z.max 0 (b - co_offset e) < two64.
Proof. exact StorageProofs.stored_lag_exact_anywhere. Qed.
Print Assumptions stored_lag_exact_anywhere.

(* "The most recent commit in the offsets log".  current_lag_exact speaks about the commit k in the NEWEST SLOT of the
   reported window.  That this slot holds the commit latest in the log is property C02, proved in props/C02.v:
   C02_storage_reply_windows / C02_storage_windows_wf say that every reported window is the read-out of
   Ring.ring_run over exactly the commits of this history that reached the partition since it was last removed
   (arrivals, equivalently the state-free h_arrivals: C02_storage_arrivals_from_history), and C02_window_newest_last says
   that the last entry of that read-out is a commit whose log position is the greatest of all those arrivals.  props/C01.v
   does not depend on RingProofs.v, so the composition is not restated here; it is carried out in the composed layer:
   PIPE_e2e_lag_exact (props/PIPE.v; PipelineProofs.lag_exact uses RingProofs.run_newest_last on
   StorageWindows.storage_reply_windows) states that the k of CurrentLag = max 0 (b - k.offset) is a live commit of the
   group / topic / partition and that no live commit has a higher log position. *)

(* ---- non-vacuity ---- *)
(* consumer ahead of the broker (broker 50, commit 60): both lags are 0 *)
Example ex_consumer_ahead :
  wf_hist ex_ahead /\ last_broker ex_ahead 1 1 0 = Some 50 /\
  exists st reps, run ex_cfg (init_state [1]) ex_ahead = Some (st, reps) /\
    fetch_consumer ex_cfg 100 st 1 1 =
      Done st (RConsumer [(1, [mkCpart [None; None; Some (mkCoff 60 1 100000 (Some 0))] [50] 0 0 0])]).
Proof. exact ex_ahead_ok. Qed.

(* broker offset changes between two commits: each commit's lag is against the offset known at its arrival *)
Example ex_broker_moves :
  wf_hist ex_moving /\ last_broker ex_moving 1 1 0 = Some 200 /\
  last_broker (firstn 1 ex_moving) 1 1 0 = Some 100 /\
  exists st reps, run ex_cfg (init_state [1]) ex_moving = Some (st, reps) /\
    fetch_consumer ex_cfg 101 st 1 1 =
      Done st (RConsumer [(1, [mkCpart [None; Some (mkCoff 90 1 100000 (Some 10)); Some (mkCoff 150 2 101000 (Some 50))]
                                       [100; 200] 0 0 50])]).
Proof. exact ex_moving_ok. Qed.

(* an out-of-order commit is stored without a lag value *)
Example ex_out_of_order :
  wf_hist ex_ooo /\
  exists st reps, run ex_cfg (init_state [1]) ex_ooo = Some (st, reps) /\
    fetch_consumer ex_cfg 100 st 1 1 =
      Done st (RConsumer [(1, [mkCpart [None; Some (mkCoff 40 3 99000 None); Some (mkCoff 50 5 100000 (Some 50))]
                                       [100] 0 0 50])]).
Proof. exact ex_ooo_ok. Qed.

(* extremes: broker 2^63-1, commit -2^63: lag 2^64-1 exactly *)
Example ex_extremes :
  wf_hist ex_extreme /\
  exists st reps, run ex_cfg (init_state [1]) ex_extreme = Some (st, reps) /\
    fetch_consumer ex_cfg 100 st 1 1 =
      Done st (RConsumer [(1, [mkCpart [None; None; Some (mkCoff (-9223372036854775808) 1 100000 (Some 18446744073709551615))]
                                       [9223372036854775807] 0 0 18446744073709551615])]).
Proof. exact ex_extreme_ok. Qed.

(* ===== audit A strengthening (builder lag): three composed statements.  They need C02's window shape, hence RingProofs. ===== *)
From Burrow Require Import RingProofs StorageWindows.

(* [arrivals cf cls h c g t p] (StorageWindows.v; the same list as in C02_storage_ring_provenance): the SetConsumerOffset
   requests of h for exactly (c,g,t,p) that storage did not drop on arrival (configured cluster, not older than expire-group,
   accepted group, a broker offset known for the partition) since the request that last removed that ring (DeleteTopic,
   DeleteGroup, expiry purge), each paired with the lag value the handler attaches.  StorageWindows.hist_sim_correct gives the
   same list as a recursion over the history alone (h_arrivals). *)

(* "the consumer's most recent commit (the one latest in the offsets log)": the commit k the current lag is computed from has
   the greatest log position of all commits of that partition that reached the ring, and is one of them; with an empty newest
   slot no commit has reached the ring. *)
Theorem current_lag_latest_in_log :
  forall cf cls h st reps now c g st' l t cps i cp,
  (1 <= cf_intervals cf)%nat -> wf_hist h ->
  run cf (init_state cls) h = Some (st, reps) ->
  fetch_consumer cf now st c g = Done st' (RConsumer l) ->
  In (t, cps) l -> nth_error cps i = Some cp ->
  let arr := arrivals cf cls h c g t (Z.of_nat i) in
  match last (cp_offsets cp) None with
  | Some k => (exists b, last_broker h c t (Z.of_nat i) = Some b /\
                         cp_lag cp = Z.max 0 (b - co_offset k) /\ 0 <= cp_lag cp < two64) /\
              (exists cl, In cl arr /\ cm_order (fst cl) = co_order k) /\
              (forall cl, In cl arr -> cm_order (fst cl) <= co_order k)
  | None => cp_lag cp = 0 /\ arr = []
  end.
Proof. exact StorageWindows.current_lag_latest_in_log. Qed.
Print Assumptions current_lag_latest_in_log.

(* stored_lag_exact at full strength (neither "never store a lag" nor "guess" satisfies it): every reported commit e was
   written by an arrival y of its ring epoch with e's offset and log position; y is a SetConsumerOffset of the history and the
   lag attached to it is max 0 (b - offset) < 2^64 for the last broker offset b recorded before it; if e carries a lag it is
   exactly that value; if e carries none, an arrival of the same epoch BEFORE y had a log position at least as high, i.e. y
   did arrive out of order. *)
Theorem stored_lag_exact_strong :
  forall cf cls h st reps now c g st' l t cps i cp e,
  (1 <= cf_intervals cf)%nat -> wf_hist h ->
  run cf (init_state cls) h = Some (st, reps) ->
  fetch_consumer cf now st c g = Done st' (RConsumer l) ->
  In (t, cps) l -> nth_error cps i = Some cp -> In (Some e) (cp_offsets cp) ->
  exists l1 y l3,
    arrivals cf cls h c g t (Z.of_nat i) = l1 ++ y :: l3 /\
    cm_offset (fst y) = co_offset e /\ cm_order (fst y) = co_order e /\
    (exists h1 now' rest b,
       h = h1 ++ (now', SetConsumerOffset c g t (Z.of_nat i) (co_offset e) (co_order e) (cm_ts (fst y))) :: rest /\
       last_broker h1 c t (Z.of_nat i) = Some b /\
       snd y = Z.max 0 (b - co_offset e) /\ 0 <= snd y < two64) /\
    match co_lag e with
    | Some v => v = snd y
    | None => exists l1a x l1b, l1 = l1a ++ x :: l1b /\ co_order e <= cm_order (fst x)
    end.
Proof. exact StorageWindows.stored_lag_exact_strong. Qed.
Print Assumptions stored_lag_exact_strong.

(* an in-order commit IS stored with its lag: a commit that is not dropped on arrival ([reaches_ring] = Some b: configured
   cluster, not too old, accepted group, broker offset b known — state-free reading: StorageProofs.reaches_ring_history) and
   whose log position is above the newest stored one (or the ring is empty) is, after the step, the newest slot of its ring,
   carrying lag = max 0 (b - offset) with b the last recorded broker offset. *)
Theorem commit_in_order_stored :
  forall cf cls h st reps now c g t p off order ts st' rep b,
  (1 <= cf_intervals cf)%nat -> wf_hist h -> in_i64 off ->
  run cf (init_state cls) h = Some (st, reps) ->
  step cf now st (SetConsumerOffset c g t p off order ts) = Done st' rep ->
  reaches_ring cf now st c g t p ts = Some b ->
  (forall nw, hd None (ring_of cf st c g t p) = Some nw -> co_order nw < order) ->
  last_broker h c t p = Some b /\
  exists e, hd None (ring_of cf st' c g t p) = Some e /\
            co_offset e = off /\ co_order e = order /\
            co_lag e = Some (Z.max 0 (b - off)) /\ 0 <= Z.max 0 (b - off) < two64.
Proof. exact StorageWindows.commit_in_order_stored. Qed.
Print Assumptions commit_in_order_stored.

(* non-vacuity of the provenance clause: in the out-of-order history the entry at log position 3 carries no lag and the
   arrival at position 5 precedes its arrival; the entry at position 5 carries the lag attached to its arrival *)
Example ex_entry_provenance :
  entry_prov (arrivals ex_cfg [1] ex_ooo 1 1 1 0) (mkCoff 40 3 99000 None) /\
  entry_prov (arrivals ex_cfg [1] ex_ooo 1 1 1 0) (mkCoff 50 5 100000 (Some 50)).
Proof. exact ex_entry_prov_ooo. Qed.
