(* Theorems about the cluster-module model (C11, C12): every statement is for all environments (layouts, fault
   patterns) and, through `trace`, for any number of consecutive cycles. *)
From Coq Require Import ZArith List Bool Lia.
From Burrow Require Import ClusterMod.
Import ListNotations.
Open Scope Z_scope.

(* ---------------------------------------------------------------------------------------------
   generic list facts
   --------------------------------------------------------------------------------------------- *)
Lemma NoDup_app_intro {A} (l1 l2 : list A) :
  NoDup l1 -> NoDup l2 -> (forall x, In x l1 -> ~ In x l2) -> NoDup (l1 ++ l2).
Proof.
  induction l1 as [|a l1 IH]; simpl; intros H1 H2 H; auto.
  inversion H1; subst. constructor.
  - rewrite in_app_iff. intros [?|?]; [contradiction|]. eapply H; eauto.
  - apply IH; auto.
Qed.

Lemma NoDup_map_inj_on {A B} (f : A -> B) (l : list A) :
  NoDup l -> (forall x y, In x l -> In y l -> f x = f y -> x = y) -> NoDup (map f l).
Proof.
  induction l as [|a l IH]; simpl; intros Hn Hi; [constructor|].
  inversion Hn; subst. constructor.
  - rewrite in_map_iff. intros [y [Hy Hin]].
    assert (y = a) by (apply Hi; auto). subst. contradiction.
  - apply IH; auto.
Qed.

(* a flat_map that yields, per element, a duplicate-free handful of items all carrying that element's key *)
Lemma NoDup_flat_map_keyed {A B K} (f : A -> list B) (key : B -> K) (g : A -> K) (l : list A) :
  NoDup (map g l) ->
  (forall x, In x l -> NoDup (map key (f x))) ->
  (forall x u, In x l -> In u (f x) -> key u = g x) ->
  NoDup (map key (flat_map f l)).
Proof.
  induction l as [|a l IH]; simpl; intros Hn Hd Hk; [constructor|].
  inversion Hn; subst. rewrite map_app. apply NoDup_app_intro.
  - apply Hd; auto.
  - apply IH; auto.
  - intros k Hin1 Hin2. apply in_map_iff in Hin1 as [u [Hu Hin1]].
    apply in_map_iff in Hin2 as [v [Hv Hin2]].
    apply in_flat_map in Hin2 as [x [Hx Hin2]].
    apply H1. apply in_map_iff. exists x. split; auto.
    rewrite <- (Hk x v), Hv, <- Hu; auto.
Qed.

(* ---------------------------------------------------------------------------------------------
   the Go map
   --------------------------------------------------------------------------------------------- *)
Lemma smap_find_set_eq t v s : smap_find t (smap_set t v s) = Some v.
Proof.
  induction s as [|[k w] r IH]; simpl.
  - rewrite Z.eqb_refl. reflexivity.
  - destruct (k =? t) eqn:E; simpl; rewrite E; auto.
Qed.

Lemma smap_find_set_neq t u v s : t <> u -> smap_find u (smap_set t v s) = smap_find u s.
Proof.
  intros Hne. induction s as [|[k w] r IH]; simpl.
  - destruct (t =? u) eqn:E; auto. apply Z.eqb_eq in E. contradiction.
  - destruct (k =? t) eqn:E; simpl.
    + apply Z.eqb_eq in E. subst. apply Z.eqb_neq in Hne. rewrite Hne. reflexivity.
    + rewrite IH. reflexivity.
Qed.

Lemma keys_set t v s x : In x (keys (smap_set t v s)) <-> x = t \/ In x (keys s).
Proof.
  unfold keys. induction s as [|[k w] r IH]; simpl.
  - intuition.
  - destruct (k =? t) eqn:E; simpl.
    + apply Z.eqb_eq in E. subst. intuition.
    + rewrite IH. intuition.
Qed.

Lemma NoDup_keys_set t v s : NoDup (keys s) -> NoDup (keys (smap_set t v s)).
Proof.
  unfold keys. induction s as [|[k w] r IH]; simpl; intros Hn.
  - constructor; auto.
  - inversion Hn; subst. destruct (k =? t) eqn:E; simpl.
    + constructor; auto.
    + constructor; auto. intros Hin. apply (keys_set t v r k) in Hin.
      destruct Hin as [->|Hin]; [rewrite Z.eqb_refl in E; discriminate | contradiction].
Qed.

Lemma find_none_keys t s : smap_find t s = None <-> ~ In t (keys s).
Proof.
  unfold keys. induction s as [|[k w] r IH]; simpl.
  - intuition.
  - destruct (k =? t) eqn:E.
    + apply Z.eqb_eq in E. subst. split; [discriminate | intros H; exfalso; apply H; auto].
    + apply Z.eqb_neq in E. rewrite IH. intuition.
Qed.

Lemma find_some_keys t s : (exists i, smap_find t s = Some i) <-> In t (keys s).
Proof.
  destruct (smap_find t s) eqn:E.
  - split; [intros _ | intros _; eauto].
    destruct (in_dec Z.eq_dec t (keys s)) as [H|H]; auto.
    apply find_none_keys in H. congruence.
  - split; [intros [i Hi]; discriminate | intros H]. apply find_none_keys in E. contradiction.
Qed.

Lemma find_in t i s : smap_find t s = Some i -> In (t, i) s.
Proof.
  induction s as [|[k w] r IH]; simpl; [discriminate|].
  destruct (k =? t) eqn:E; intros H.
  - apply Z.eqb_eq in E. inversion H; subst. auto.
  - auto.
Qed.

Lemma in_find t i s : NoDup (keys s) -> In (t, i) s -> smap_find t s = Some i.
Proof.
  unfold keys. induction s as [|[k w] r IH]; simpl; intros Hn Hin; [contradiction|].
  inversion Hn; subst. destruct Hin as [Heq|Hin].
  - inversion Heq; subst. rewrite Z.eqb_refl. reflexivity.
  - destruct (k =? t) eqn:E.
    + apply Z.eqb_eq in E. subst. exfalso. apply H1. apply in_map_iff. exists (t, i). auto.
    + auto.
Qed.

Lemma smap_mem_true t s : smap_mem t s = true <-> In t (keys s).
Proof.
  unfold smap_mem. rewrite <- find_some_keys. destruct (smap_find t s); split; eauto; try discriminate.
  intros [i Hi]. discriminate.
Qed.

(* ---------------------------------------------------------------------------------------------
   the refresh
   --------------------------------------------------------------------------------------------- *)
Lemma build_some e ts s :
  build_snapshot e ts = Some s ->
  NoDup (keys s)
  /\ (forall t, In t ts -> smap_find t s = topic_info e t /\ topic_info e t <> None)
  /\ (forall t, ~ In t ts -> smap_find t s = None).
Proof.
  revert s. induction ts as [|a r IH]; simpl; intros s H.
  - inversion H; subst. repeat split; try constructor; intros; simpl in *; tauto.
  - destruct (topic_info e a) as [i|] eqn:Ei; [|discriminate].
    destruct (build_snapshot e r) as [s0|] eqn:Eb; [|discriminate].
    inversion H; subst. destruct (IH s0 eq_refl) as [Hn [Hin Hout]].
    split; [apply NoDup_keys_set; auto|]. split.
    + intros t Ht. destruct (Z.eq_dec a t) as [->|Hne].
      * rewrite smap_find_set_eq, Ei. split; [reflexivity | discriminate].
      * rewrite smap_find_set_neq by auto. destruct Ht as [?|Ht]; [contradiction|]. auto.
    + intros t Ht. rewrite smap_find_set_neq by (intros ->; apply Ht; auto). apply Hout. tauto.
Qed.

Lemma build_none e ts :
  build_snapshot e ts = None <-> exists t, In t ts /\ topic_info e t = None.
Proof.
  induction ts as [|a r IH]; simpl.
  - split; [discriminate | intros [t [[] _]]].
  - destruct (topic_info e a) as [i|] eqn:Ei.
    + destruct (build_snapshot e r) as [s0|] eqn:Eb.
      * split; [discriminate|]. intros [t [[->|Ht] Hn]]; [congruence|].
        assert (@None snapshot = None) as _ by reflexivity.
        destruct IH as [_ IH]. discriminate IH. eauto.
      * split; [intros _ | reflexivity]. destruct IH as [IH _]. destruct (IH eq_refl) as [t [Ht Hn]]. eauto.
    + split; [intros _; eauto | reflexivity].
Qed.

Lemma topic_info_none e t : topic_info e t = None <-> e_parts e t = Fail.
Proof. unfold topic_info. destruct (e_parts e t); split; congruence. Qed.

Lemma refreshed_some st e ts :
  refreshed st e = Some ts <->
  fetchMetadata st = true /\ e_topics e = Good ts /\ exists new, build_snapshot e ts = Some new.
Proof.
  unfold refreshed. destruct (fetchMetadata st); [|split; [discriminate | intros [? _]; discriminate]].
  destruct (e_topics e) as [ts'|]; [|split; [discriminate | intros [_ [? _]]; discriminate]].
  destruct (build_snapshot e ts') as [new|] eqn:Eb.
  - split.
    + intros H; inversion H; subst. eauto.
    + intros [_ [H _]]. inversion H; subst. reflexivity.
  - split; [discriminate|]. intros [_ [H [new Hn]]]. inversion H; subst. congruence.
Qed.

(* maybe_refresh in terms of `refreshed` *)
Lemma maybe_refresh_done st e ts :
  refreshed st e = Some ts ->
  exists new, build_snapshot e ts = Some new /\ maybe_refresh st e = (new, deletions (snap st) new).
Proof.
  intros H. apply refreshed_some in H as [Hf [Ht [new Hn]]].
  exists new. split; auto. unfold maybe_refresh. rewrite Hf, Ht, Hn. reflexivity.
Qed.

Lemma maybe_refresh_not st e :
  refreshed st e = None -> maybe_refresh st e = (snap st, []).
Proof.
  unfold refreshed, maybe_refresh. destruct (fetchMetadata st); auto.
  destruct (e_topics e); auto. destruct (build_snapshot e a); [discriminate | auto].
Qed.

Lemma deletions_in old new t :
  In t (deletions old new) <-> In t (keys old) /\ smap_find t new = None.
Proof.
  unfold deletions. rewrite filter_In. rewrite negb_true_iff.
  unfold smap_mem. destruct (smap_find t new); intuition congruence.
Qed.

Lemma deletions_nodup old new : NoDup (keys old) -> NoDup (deletions old new).
Proof. intros. apply NoDup_filter. auto. Qed.

(* ---------------------------------------------------------------------------------------------
   one cycle, unfolded
   --------------------------------------------------------------------------------------------- *)
Lemma cycle_done st e o :
  cycle st e = Done o ->
  let s := fst (maybe_refresh st e) in
  snap (co_state o) = s
  /\ co_asks o = gen_asks e s
  /\ co_updates o = flat_map (ask_update e s) (gen_asks e s)
  /\ co_deletes o = snd (maybe_refresh st e)
  /\ fetchMetadata (co_state o) = (leader_failed e s || existsb (is_error e) (gen_asks e s))
  /\ existsb (is_crash e) (gen_asks e s) = false.
Proof.
  unfold cycle. destruct (maybe_refresh st e) as [s dels]. simpl.
  destruct (existsb (is_crash e) (gen_asks e s)) eqn:Ec; [discriminate|].
  intros H. inversion H; subst. simpl. auto 10.
Qed.

Definition wf (st : state) : Prop := NoDup (keys (snap st)).

Lemma wf_init : wf init_state.
Proof. constructor. Qed.

Lemma wf_tick tk st : wf st -> wf (tick tk st).
Proof. unfold wf, tick. destruct tk; auto. Qed.

Lemma refresh_wf st e : wf st -> NoDup (keys (fst (maybe_refresh st e))).
Proof.
  intros Hw. destruct (refreshed st e) as [ts|] eqn:Er.
  - destruct (maybe_refresh_done _ _ _ Er) as [new [Hb ->]]. simpl. apply (build_some _ _ _ Hb).
  - rewrite (maybe_refresh_not _ _ Er). auto.
Qed.

Lemma cycle_wf st e o : wf st -> cycle st e = Done o -> wf (co_state o).
Proof.
  intros Hw Hc. apply cycle_done in Hc as [Hs _]. unfold wf. rewrite Hs. apply refresh_wf; auto.
Qed.

(* ---------------------------------------------------------------------------------------------
   C11, one cycle
   --------------------------------------------------------------------------------------------- *)
Lemma gen_asks_in e s b t p :
  NoDup (keys s) ->
  (In (b, t, p) (gen_asks e s) <->
   exists i, smap_find t s = Some i /\ In p (ti_ids i) /\ e_leader e t p = Good b).
Proof.
  intros Hn. unfold gen_asks. rewrite nodup_In, in_flat_map. split.
  - intros [[t' i] [Hin Ha]]. simpl in Ha. unfold topic_asks in Ha.
    apply in_flat_map in Ha as [p' [Hp Ha]].
    destruct (e_leader e t' p') as [b'|] eqn:El; simpl in Ha; [|contradiction].
    destruct Ha as [Ha|[]]. inversion Ha; subst.
    exists i. split; [apply in_find; auto | auto].
  - intros [i [Hf [Hp Hl]]]. exists (t, i). split; [apply find_in; auto|].
    simpl. unfold topic_asks. apply in_flat_map. exists p. split; auto. rewrite Hl. simpl. auto.
Qed.

(* C11.1  Each partition the module knows to have a leader is asked of exactly its current leader and of nobody
   else; a partition whose leader lookup fails, and every leaderless partition, is in no request.  No block twice. *)
Theorem asked_exactly_leaders st e o :
  wf st -> cycle st e = Done o ->
  (forall b t p, In (b, t, p) (co_asks o) <->
     exists i, smap_find t (snap (co_state o)) = Some i /\ In p (ti_ids i) /\ e_leader e t p = Good b)
  /\ NoDup (co_asks o)
  /\ (forall b b' t p, In (b, t, p) (co_asks o) -> In (b', t, p) (co_asks o) -> b = b').
Proof.
  intros Hw Hc. pose proof (refresh_wf st e Hw) as Hn.
  apply cycle_done in Hc as [Hs [Ha _]]. rewrite Hs, Ha.
  split; [intros; apply gen_asks_in; auto|]. split; [apply NoDup_nodup|].
  intros b b' t p H1 H2. apply gen_asks_in in H1 as [i [_ [_ H1]]]; auto.
  apply gen_asks_in in H2 as [i' [_ [_ H2]]]; auto. congruence.
Qed.

(* ... and on a cycle whose refresh ran to completion that is: exactly the partitions that have a leader now *)
Theorem asked_exactly_leaders_refreshed st e o ts :
  wf st -> cycle st e = Done o -> refreshed st e = Some ts ->
  forall b t p, In (b, t, p) (co_asks o) <->
    In t ts /\ exists ps, e_parts e t = Good ps /\ In p ps /\ e_leader e t p = Good b.
Proof.
  intros Hw Hc Hr b t p. destruct (asked_exactly_leaders _ _ _ Hw Hc) as [Hiff _]. rewrite Hiff.
  apply cycle_done in Hc as [Hs _]. rewrite Hs.
  destruct (maybe_refresh_done _ _ _ Hr) as [new [Hb ->]]. simpl.
  destruct (build_some _ _ _ Hb) as [_ [Hin Hout]]. split.
  - intros [i [Hf [Hp Hl]]]. destruct (in_dec Z.eq_dec t ts) as [Ht|Ht]; [|rewrite Hout in Hf by auto; discriminate].
    split; auto. destruct (Hin t Ht) as [Hfi _]. rewrite Hfi in Hf. unfold topic_info in Hf.
    destruct (e_parts e t) as [ps|]; [|discriminate]. inversion Hf; subst. simpl in Hp.
    apply filter_In in Hp as [Hp _]. eauto.
  - intros [Ht [ps [Hps [Hp Hl]]]]. destruct (Hin t Ht) as [Hfi _].
    unfold topic_info in Hfi. rewrite Hps in Hfi. eexists. split; [exact Hfi|]. simpl. split; auto.
    apply filter_In. split; auto. unfold has_leader. rewrite Hl. reflexivity.
Qed.

Lemma ask_update_in e s a u :
  In u (ask_update e s a) <->
  exists ans off rest, e_answer e (fst (fst a)) = Good ans
    /\ ans (snd (fst a)) (snd a) = (0, off :: rest)
    /\ u = (snd (fst a), snd a, off, count_of s (snd (fst a))).
Proof.
  unfold ask_update, ask_result. destruct a as [[b t] p]. simpl.
  destruct (e_answer e b) as [ans|] eqn:Ea.
  - unfold block_result_of. destruct (ans t p) as [err offs] eqn:Eans.
    destruct (err =? 0) eqn:Eerr.
    + apply Z.eqb_eq in Eerr. subst. destruct offs as [|o r]; simpl.
      * split; [contradiction|]. intros [ans' [off [rest [H1 [H2 _]]]]]. inversion H1; subst. congruence.
      * split.
        -- intros [<-|[]]. exists ans, o, r. auto.
        -- intros [ans' [off [rest [H1 [H2 ->]]]]]. inversion H1; subst. rewrite Eans in H2. inversion H2; subst. auto.
    + apply Z.eqb_neq in Eerr. simpl. split; [contradiction|].
      intros [ans' [off [rest [H1 [H2 _]]]]]. inversion H1; subst. rewrite Eans in H2. inversion H2. contradiction.
  - simpl. split; [contradiction|]. intros [ans' [off [rest [H1 _]]]]. discriminate.
Qed.

Definition upd_key (u : update) : Z * Z := (fst (fst (fst u)), snd (fst (fst u))).
Definition ask_key (a : ask) : Z * Z := (snd (fst a), snd a).

(* C11.2  Updates and successful answers correspond one to one: a SetBrokerOffset (t, p, off, c) is emitted iff
   (t, p) was asked of broker b in THIS cycle, b's call succeeded, its block for (t, p) has ErrNoError and off is its
   first offset (so nothing stale, nothing fabricated), and c is the topic's total partition count in the snapshot;
   at most one update per (t, p). *)
Theorem answer_to_update st e o :
  wf st -> cycle st e = Done o ->
  (forall t p off c, In (t, p, off, c) (co_updates o) <->
     exists b ans rest, In (b, t, p) (co_asks o) /\ e_answer e b = Good ans
       /\ ans t p = (0, off :: rest) /\ c = count_of (snap (co_state o)) t)
  /\ NoDup (map upd_key (co_updates o)).
Proof.
  intros Hw Hc. destruct (asked_exactly_leaders _ _ _ Hw Hc) as [_ [Hnd Huniq]].
  apply cycle_done in Hc as [Hs [Ha [Hu _]]]. rewrite Hu, Hs. rewrite Ha in Hnd, Huniq. rewrite Ha. split.
  - intros t p off c. rewrite in_flat_map. split.
    + intros [[[b t'] p'] [Hin Hupd]]. apply ask_update_in in Hupd as [ans [off' [rest [H1 [H2 H3]]]]].
      simpl in *. inversion H3; subst. exists b, ans, rest. auto.
    + intros [b [ans [rest [Hin [H1 [H2 ->]]]]]]. exists (b, t, p). split; auto.
      apply ask_update_in. exists ans, off, rest. simpl. auto.
  - apply NoDup_flat_map_keyed with (g := ask_key).
    + apply NoDup_map_inj_on; auto. intros [[b t] p] [[b' t'] p'] H1 H2 Hk. unfold ask_key in Hk. simpl in Hk.
      inversion Hk; subst. f_equal. f_equal. eapply Huniq; eauto.
    + intros a _. unfold ask_update. destruct (ask_result e a) as [[| |]|]; simpl; repeat constructor; auto.
    + intros a u _ Hin. apply ask_update_in in Hin as [ans [off [rest [_ [_ ->]]]]]. reflexivity.
Qed.

(* C11.3  A failed broker call, a per-partition error code, or not being asked at all: no update for (t, p). *)
Theorem fault_no_update st e o b t p :
  wf st -> cycle st e = Done o ->
  (~ (exists b', In (b', t, p) (co_asks o)))
  \/ (In (b, t, p) (co_asks o) /\ e_answer e b = Fail)
  \/ (In (b, t, p) (co_asks o) /\ exists ans, e_answer e b = Good ans /\ fst (ans t p) <> 0) ->
  forall off c, ~ In (t, p, off, c) (co_updates o).
Proof.
  intros Hw Hc H off c Hin. destruct (asked_exactly_leaders _ _ _ Hw Hc) as [_ [_ Huniq]].
  apply (answer_to_update _ _ _ Hw Hc) in Hin as [b' [ans [rest [Hin [Ha [Hb _]]]]]].
  destruct H as [H|[[H1 H2]|[H1 [ans' [H2 H3]]]]].
  - apply H. eauto.
  - assert (b = b') by (eapply Huniq; eauto). subst. congruence.
  - assert (b = b') by (eapply Huniq; eauto). subst. rewrite Ha in H2. inversion H2; subst.
    rewrite Hb in H3. simpl in H3. contradiction.
Qed.

(* the two events that oblige a re-read of the metadata *)
Definition partition_error (e : env) (o : cycle_out) : Prop :=
  exists b t p ans, In (b, t, p) (co_asks o) /\ e_answer e b = Good ans /\ fst (ans t p) <> 0.
Definition unknown_leader (e : env) (o : cycle_out) : Prop :=
  exists t i p, smap_find t (snap (co_state o)) = Some i /\ In p (ti_ids i) /\ e_leader e t p = Fail.

(* C11.4 (one cycle)  fetchMetadata is set when getOffsets returns iff a block came back with an error code or the
   leader of a partition believed to have one could not be found. *)
Theorem error_sets_flag st e o :
  wf st -> cycle st e = Done o ->
  (fetchMetadata (co_state o) = true <-> partition_error e o \/ unknown_leader e o).
Proof.
  intros Hw Hc. pose proof (refresh_wf st e Hw) as Hn.
  pose proof (cycle_done _ _ _ Hc) as [Hs [Ha [_ [_ [Hf Hcr]]]]].
  unfold partition_error, unknown_leader. rewrite Hf, Hs, Ha, orb_true_iff. split.
  - intros [H|H].
    + right. unfold leader_failed in H. apply existsb_exists in H as [[t i] [Hin H]].
      apply existsb_exists in H as [p [Hp H]]. simpl in *. exists t, i, p.
      split; [apply in_find; auto|]. split; auto. unfold has_leader in H.
      destruct (e_leader e t p); [discriminate | reflexivity].
    + left. apply existsb_exists in H as [[[b t] p] [Hin H]]. unfold is_error, ask_result in H.
      destruct (e_answer e b) as [ans|] eqn:Ea; [|discriminate]. exists b, t, p, ans. split; auto. split; auto.
      unfold block_result_of in H. destruct (ans t p) as [err offs]. simpl.
      destruct (err =? 0) eqn:E; [destruct offs; discriminate | apply Z.eqb_neq; auto].
  - intros [[b [t [p [ans [Hin [Hans Herr]]]]]] | [t [i [p [Hfind [Hp Hl]]]]]].
    + right. apply existsb_exists. exists (b, t, p). split; auto. unfold is_error, ask_result. rewrite Hans.
      unfold block_result_of. destruct (ans t p) as [err offs]. simpl in Herr.
      apply Z.eqb_neq in Herr. rewrite Herr. reflexivity.
    + left. unfold leader_failed. apply existsb_exists. exists (t, i). split; [apply find_in; auto|].
      apply existsb_exists. exists p. split; auto. simpl. unfold has_leader. rewrite Hl. reflexivity.
Qed.

(* ---------------------------------------------------------------------------------------------
   C12, one cycle
   --------------------------------------------------------------------------------------------- *)

(* C12.2  A refresh that was skipped or failed part-way (Topics or any Partitions call) keeps the old snapshot and
   deletes nothing. *)
Theorem failed_refresh_keeps_snapshot st e o :
  cycle st e = Done o -> refreshed st e = None ->
  snap (co_state o) = snap st /\ co_deletes o = [].
Proof.
  intros Hc Hr. apply cycle_done in Hc as [Hs [_ [_ [Hd _]]]].
  rewrite Hs, Hd, (maybe_refresh_not _ _ Hr). auto.
Qed.

(* one cycle's deletions: the keys of the old snapshot that a completed refresh does not list; each once *)
Lemma deletes_cycle st e o :
  wf st -> cycle st e = Done o ->
  (forall t, In t (co_deletes o) <->
     exists ts, refreshed st e = Some ts /\ ~ In t ts /\ In t (keys (snap st)))
  /\ NoDup (co_deletes o).
Proof.
  intros Hw Hc. apply cycle_done in Hc as [_ [_ [_ [Hd _]]]]. rewrite Hd.
  destruct (refreshed st e) as [ts|] eqn:Er.
  - destruct (maybe_refresh_done _ _ _ Er) as [new [Hb ->]]. simpl.
    destruct (build_some _ _ _ Hb) as [_ [Hin Hout]]. split; [|apply deletions_nodup; auto].
    intros t. rewrite deletions_in. split.
    + intros [Hk Hf]. exists ts. split; auto. split; auto. intros Ht. destruct (Hin t Ht) as [H1 H2]. congruence.
    + intros [ts' [Heq [Hnin Hk]]]. inversion Heq; subst. auto.
  - rewrite (maybe_refresh_not _ _ Er). simpl. split; [|constructor].
    intros t. split; [contradiction | intros [ts [H _]]; discriminate].
Qed.

(* C12.4  A topic the client lists is never deleted in that cycle (whatever else fails). *)
Theorem present_not_deleted st e o ts t :
  wf st -> cycle st e = Done o -> e_topics e = Good ts -> In t ts -> ~ In t (co_deletes o).
Proof.
  intros Hw Hc Ht Hin Hd. apply (deletes_cycle _ _ _ Hw Hc) in Hd as [ts' [Hr [Hn _]]].
  apply refreshed_some in Hr as [_ [Ht' _]]. congruence.
Qed.

Lemma filter_no_leader e t ps : (forall p, e_leader e t p = Fail) -> filter (has_leader e t) ps = [].
Proof.
  intros Hl. induction ps as [|a ps IH]; simpl; auto. unfold has_leader at 1. rewrite Hl. apply IH.
Qed.

(* C12.3  A listed topic whose partitions all have no leader keeps its key (with an empty id list, so nothing is
   asked for it) and is not deleted. *)
Theorem leaderless_not_deleted st e o ts t :
  wf st -> cycle st e = Done o -> refreshed st e = Some ts -> In t ts ->
  (forall p, e_leader e t p = Fail) ->
  ~ In t (co_deletes o)
  /\ (exists i, smap_find t (snap (co_state o)) = Some i /\ ti_ids i = [])
  /\ (forall b p, ~ In (b, t, p) (co_asks o)).
Proof.
  intros Hw Hc Hr Hin Hl. pose proof Hr as Hr'. apply refreshed_some in Hr' as [_ [Ht _]].
  split; [eapply present_not_deleted; eauto|].
  assert (exists i, smap_find t (snap (co_state o)) = Some i /\ ti_ids i = []) as [i [Hf Hi]].
  { pose proof (cycle_done _ _ _ Hc) as [Hs _]. rewrite Hs.
    destruct (maybe_refresh_done _ _ _ Hr) as [new [Hb ->]]. simpl.
    destruct (build_some _ _ _ Hb) as [_ [Hin' _]]. destruct (Hin' t Hin) as [H1 H2]. rewrite H1.
    unfold topic_info in *. destruct (e_parts e t) as [ps|]; [|congruence].
    eexists. split; [reflexivity|]. simpl. apply filter_no_leader. auto. }
  split; [eauto|]. intros b p Ha.
  apply (asked_exactly_leaders _ _ _ Hw Hc) in Ha as [i' [Hf' [Hp _]]].
  rewrite Hf in Hf'. inversion Hf'; subst. rewrite Hi in Hp. contradiction.
Qed.

(* ---------------------------------------------------------------------------------------------
   consecutive cycles: the ghost "last completely refreshed environment"
   --------------------------------------------------------------------------------------------- *)
Definition ghost_topics (g : option env) : list Z :=
  match g with
  | Some ge => match e_topics ge with Good ts => ts | Fail => [] end
  | None => []
  end.

(* what the snapshot must hold for topic t, read off the ghost *)
Definition ghost_find (g : option env) (t : Z) : option tinfo :=
  match g with
  | Some ge => if in_dec Z.eq_dec t (ghost_topics g) then topic_info ge t else None
  | None => None
  end.

Definition ghost_ok (g : option env) : Prop :=
  forall t, In t (ghost_topics g) -> ghost_find g t <> None.

(* the invariant tying the module state to the ghost *)
Definition inv (st : state) (g : option env) : Prop :=
  wf st /\ ghost_ok g /\ forall t, smap_find t (snap st) = ghost_find g t.

Lemma inv_init : inv init_state None.
Proof. split; [apply wf_init|]. split; [intros t []|]. reflexivity. Qed.

Lemma inv_tick tk st g : inv st g -> inv (tick tk st) g.
Proof. unfold inv, wf, tick. destruct tk; auto. Qed.

Lemma inv_keys st g t : inv st g -> (In t (keys (snap st)) <-> In t (ghost_topics g)).
Proof.
  intros [_ [Hok Hf]]. rewrite <- find_some_keys, Hf. split.
  - intros [i Hi]. unfold ghost_find in Hi. destruct g as [ge|]; [|discriminate].
    destruct (in_dec Z.eq_dec t (ghost_topics (Some ge))); [auto | discriminate].
  - intros Hin. specialize (Hok t Hin). destruct (ghost_find g t); [eauto | congruence].
Qed.

Lemma ghost_find_env e ts t :
  e_topics e = Good ts ->
  ghost_find (Some e) t = if in_dec Z.eq_dec t ts then topic_info e t else None.
Proof. intros H. unfold ghost_find, ghost_topics. rewrite H. reflexivity. Qed.

Lemma inv_cycle st g e o :
  inv st g -> cycle st e = Done o -> inv (co_state o) (ghost_next st e g).
Proof.
  intros [Hw [Hok Hf]] Hc. split; [eapply cycle_wf; eauto|].
  pose proof (cycle_done _ _ _ Hc) as [Hs _]. rewrite Hs. unfold ghost_next.
  destruct (refreshed st e) as [ts|] eqn:Er.
  - destruct (maybe_refresh_done _ _ _ Er) as [new [Hb ->]]. cbn [fst].
    destruct (build_some _ _ _ Hb) as [_ [Hin Hout]].
    apply refreshed_some in Er as [_ [Ht _]].
    split.
    + intros t Hin'. rewrite (ghost_find_env _ _ _ Ht). unfold ghost_topics in Hin'. rewrite Ht in Hin'.
      destruct (in_dec Z.eq_dec t ts); [|contradiction]. apply Hin. auto.
    + intros t. rewrite (ghost_find_env _ _ _ Ht). destruct (in_dec Z.eq_dec t ts) as [H|H].
      * apply Hin. auto.
      * apply Hout. auto.
  - rewrite (maybe_refresh_not _ _ Er). cbn [fst]. auto.
Qed.

(* every entry of a run satisfies the invariant at its call and is a completed cycle *)
Lemma trace_inv l : forall st g en,
  inv st g -> In en (trace st g l) ->
  inv (en_pre en) (en_ghost en) /\ cycle (en_pre en) (en_env en) = Done (en_out en).
Proof.
  induction l as [|[tk e] r IH]; simpl; intros st g en Hi Hin; [contradiction|].
  destruct (cycle (tick tk st) e) as [o|] eqn:Ec; [|contradiction].
  destruct Hin as [<-|Hin].
  - simpl. split; [apply inv_tick; auto | auto].
  - eapply IH; [|exact Hin]. eapply inv_cycle; [apply inv_tick; eauto | auto].
Qed.

(* a run cut at an entry: what follows is the run from that entry's result *)
Lemma trace_split l : forall st g l1 a l2,
  trace st g l = l1 ++ a :: l2 ->
  exists r, l2 = trace (co_state (en_out a)) (ghost_next (en_pre a) (en_env a) (en_ghost a)) r.
Proof.
  induction l as [|[tk e] r IH]; simpl; intros st g l1 a l2 H.
  - destruct l1; discriminate.
  - destruct (cycle (tick tk st) e) as [o|] eqn:Ec; [|destruct l1; discriminate].
    destruct l1 as [|x l1]; simpl in H; inversion H; subst.
    + simpl. eauto.
    + eapply IH; eauto.
Qed.

(* ---------------------------------------------------------------------------------------------
   C12 over runs
   --------------------------------------------------------------------------------------------- *)

(* C12.1  In every cycle of every run from a fresh module: topic t is reported deleted iff this cycle performed a
   complete refresh whose topic list lacks t and the last complete refresh before it listed t; and at most once in
   the cycle. *)
Theorem delete_exactly_once l en t :
  In en (trace init_state None l) ->
  (In t (co_deletes (en_out en)) <->
     exists ts, refreshed (en_pre en) (en_env en) = Some ts /\ ~ In t ts /\ In t (ghost_topics (en_ghost en)))
  /\ NoDup (co_deletes (en_out en)).
Proof.
  intros Hin. destruct (trace_inv _ _ _ _ inv_init Hin) as [Hi Hc].
  destruct (deletes_cycle _ _ _ (proj1 Hi) Hc) as [Hd Hn]. split; auto.
  rewrite Hd. split; intros [ts [H1 [H2 H3]]]; exists ts; repeat split; auto; eapply inv_keys; eauto.
Qed.

(* a topic can only come (back) into the ghost through a complete refresh that lists it *)
Lemma ghost_gain t l : forall st g l2 b l3,
  trace st g l = l2 ++ b :: l3 ->
  ~ In t (ghost_topics g) -> In t (ghost_topics (en_ghost b)) ->
  exists c ts, In c l2 /\ refreshed (en_pre c) (en_env c) = Some ts /\ In t ts.
Proof.
  induction l as [|[tk e] r IH]; simpl; intros st g l2 b l3 H Hn Hg.
  - destruct l2; discriminate.
  - destruct (cycle (tick tk st) e) as [o|] eqn:Ec; [|destruct l2; discriminate].
    destruct l2 as [|c0 l2]; simpl in H; inversion H as [[Hhd Htl]]; subst.
    + simpl in Hg. contradiction.
    + destruct (in_dec Z.eq_dec t (ghost_topics (ghost_next (tick tk st) e g))) as [Hy|Hy].
      * unfold ghost_next in Hy. destruct (refreshed (tick tk st) e) as [ts|] eqn:Er; [|contradiction].
        exists (mkEntry (tick tk st) e g o), ts. simpl. split; auto. split; auto.
        apply refreshed_some in Er as [_ [Ht _]]. simpl in Hy. rewrite Ht in Hy. auto.
      * destruct (IH _ _ _ _ _ Htl Hy Hg) as [c [ts [Hc [Hr Ht]]]]. exists c, ts. simpl. auto.
Qed.

(* C12.1'  Consequently: between two deletions of t there is a complete refresh in which t was present again
   (at most one deletion per disappearance). *)
Theorem one_deletion_per_disappearance l l1 a l2 b l3 t :
  trace init_state None l = l1 ++ a :: l2 ++ b :: l3 ->
  In t (co_deletes (en_out a)) -> In t (co_deletes (en_out b)) ->
  exists c ts, In c l2 /\ refreshed (en_pre c) (en_env c) = Some ts /\ In t ts.
Proof.
  intros H Ha Hb.
  assert (Hina : In a (trace init_state None l)) by (rewrite H; apply in_elt).
  assert (Hinb : In b (trace init_state None l)).
  { rewrite H. apply in_or_app. right. right. apply in_elt. }
  apply (delete_exactly_once _ _ _ Hina) in Ha as [ts [Hr [Hnt _]]].
  apply (delete_exactly_once _ _ _ Hinb) in Hb as [_ [_ [_ Hgb]]].
  destruct (trace_split _ _ _ _ _ _ H) as [r Hr2].
  symmetry in Hr2. eapply ghost_gain; [exact Hr2 | | exact Hgb].
  unfold ghost_next. rewrite Hr. apply refreshed_some in Hr as [_ [Ht _]]. simpl. rewrite Ht. auto.
Qed.

(* ---------------------------------------------------------------------------------------------
   C11 over runs
   --------------------------------------------------------------------------------------------- *)

(* the partitions of topic t that had a leader in, and the partition count of t according to, the last completely
   refreshed environment (the one of this cycle if its refresh completed) *)
Definition ghost_now (en : entry) : option env := ghost_next (en_pre en) (en_env en) (en_ghost en).

Lemma entry_post_inv l en :
  In en (trace init_state None l) -> inv (co_state (en_out en)) (ghost_now en).
Proof.
  intros Hin. destruct (trace_inv _ _ _ _ inv_init Hin) as [Hi Hc]. eapply inv_cycle; eauto.
Qed.

Lemma ghost_find_some g t i :
  ghost_find g t = Some i <->
  exists ge ts ps, g = Some ge /\ e_topics ge = Good ts /\ In t ts /\ e_parts ge t = Good ps
    /\ i = mkTinfo (filter (has_leader ge t) ps) (Z.of_nat (length ps)).
Proof.
  unfold ghost_find. destruct g as [ge|]; [|split; [discriminate | intros [? [? [? [? _]]]]; discriminate]].
  simpl. destruct (e_topics ge) as [ts|] eqn:Et.
  - destruct (in_dec Z.eq_dec t ts) as [Hin|Hin].
    + unfold topic_info. destruct (e_parts ge t) as [ps|] eqn:Ep.
      * split.
        -- intros H. inversion H; subst. exists ge, ts, ps. auto.
        -- intros [ge' [ts' [ps' [H1 [H2 [H3 [H4 ->]]]]]]]. inversion H1; subst. congruence.
      * split; [discriminate|]. intros [ge' [ts' [ps' [H1 [H2 [H3 [H4 _]]]]]]]. inversion H1; subst. congruence.
    + split; [discriminate|]. intros [ge' [ts' [ps' [H1 [H2 [H3 _]]]]]]. inversion H1; subst.
      rewrite Et in H2. inversion H2; subst. contradiction.
  - split; [destruct (in_dec Z.eq_dec t []); [contradiction | discriminate]|].
    intros [ge' [ts' [ps' [H1 [H2 _]]]]]. inversion H1; subst. congruence.
Qed.

(* C11.1 over runs.  In every cycle of every run: (t, p) is in broker b's request iff, according to the last
   complete metadata read (this cycle's if it completed), t exists and p is one of its partitions that had a leader,
   and the client names b as p's leader now.  Never twice, never to two brokers. *)
Theorem asked_exactly_leaders_run l en :
  In en (trace init_state None l) ->
  (forall b t p, In (b, t, p) (co_asks (en_out en)) <->
     exists ge ts ps, ghost_now en = Some ge /\ e_topics ge = Good ts /\ In t ts /\ e_parts ge t = Good ps
       /\ In p ps /\ has_leader ge t p = true /\ e_leader (en_env en) t p = Good b)
  /\ NoDup (co_asks (en_out en))
  /\ (forall b b' t p, In (b, t, p) (co_asks (en_out en)) -> In (b', t, p) (co_asks (en_out en)) -> b = b').
Proof.
  intros Hin. destruct (trace_inv _ _ _ _ inv_init Hin) as [Hi Hc].
  destruct (entry_post_inv _ _ Hin) as [_ [_ Hf]].
  destruct (asked_exactly_leaders _ _ _ (proj1 Hi) Hc) as [Hiff [Hn Hu]]. split; [|auto].
  intros b t p. rewrite Hiff. split.
  - intros [i [Hfi [Hp Hl]]]. rewrite Hf in Hfi. apply ghost_find_some in Hfi as [ge [ts [ps [H1 [H2 [H3 [H4 ->]]]]]]].
    simpl in Hp. apply filter_In in Hp as [Hp Hh]. exists ge, ts, ps. auto 10.
  - intros [ge [ts [ps [H1 [H2 [H3 [H4 [H5 [H6 H7]]]]]]]]]. eexists. rewrite Hf. split.
    + apply ghost_find_some. exists ge, ts, ps. auto 10.
    + simpl. split; auto. apply filter_In. auto.
Qed.

(* C11.2 over runs.  In every cycle of every run: SetBrokerOffset (t, p, off, c) is sent iff (t, p) was asked of b in
   this cycle, b's call succeeded, its block has ErrNoError with first offset off -- and then c is the number of
   partitions of t in the last complete metadata read, leaderless ones included.  At most one update per (t, p). *)
Theorem answer_to_update_run l en :
  In en (trace init_state None l) ->
  (forall t p off c, In (t, p, off, c) (co_updates (en_out en)) <->
     exists b ans rest ge ps, In (b, t, p) (co_asks (en_out en)) /\ e_answer (en_env en) b = Good ans
       /\ ans t p = (0, off :: rest)
       /\ ghost_now en = Some ge /\ e_parts ge t = Good ps /\ c = Z.of_nat (length ps))
  /\ NoDup (map upd_key (co_updates (en_out en))).
Proof.
  intros Hin. destruct (trace_inv _ _ _ _ inv_init Hin) as [Hi Hc].
  destruct (entry_post_inv _ _ Hin) as [_ [_ Hf]].
  destruct (answer_to_update _ _ _ (proj1 Hi) Hc) as [Hiff Hn]. split; [|auto].
  destruct (asked_exactly_leaders_run _ _ Hin) as [Hask _].
  intros t p off c. rewrite Hiff. split.
  - intros [b [ans [rest [Ha [H1 [H2 ->]]]]]].
    pose proof Ha as Ha'. apply Hask in Ha' as [ge [ts [ps [G1 [G2 [G3 [G4 _]]]]]]].
    exists b, ans, rest, ge, ps. repeat split; auto.
    unfold count_of. rewrite Hf.
    assert (ghost_find (ghost_now en) t = Some (mkTinfo (filter (has_leader ge t) ps) (Z.of_nat (length ps)))) as ->.
    { apply ghost_find_some. exists ge, ts, ps. auto. }
    reflexivity.
  - intros [b [ans [rest [ge [ps [Ha [H1 [H2 [G1 [G4 ->]]]]]]]]]]. exists b, ans, rest. repeat split; auto.
    pose proof Ha as Ha'. apply Hask in Ha' as [ge' [ts [ps' [G1' [G2 [G3 [G4' _]]]]]]].
    rewrite G1 in G1'. inversion G1'; subst ge'. rewrite G4 in G4'. inversion G4'; subst ps'.
    unfold count_of. rewrite Hf.
    assert (ghost_find (ghost_now en) t = Some (mkTinfo (filter (has_leader ge t) ps) (Z.of_nat (length ps)))) as ->.
    { apply ghost_find_some. exists ge, ts, ps. auto. }
    reflexivity.
Qed.

(* C11.3 over runs *)
Theorem fault_no_update_run l en b t p :
  In en (trace init_state None l) ->
  (~ (exists b', In (b', t, p) (co_asks (en_out en))))
  \/ (In (b, t, p) (co_asks (en_out en)) /\ e_answer (en_env en) b = Fail)
  \/ (In (b, t, p) (co_asks (en_out en)) /\ exists ans, e_answer (en_env en) b = Good ans /\ fst (ans t p) <> 0) ->
  forall off c, ~ In (t, p, off, c) (co_updates (en_out en)).
Proof.
  intros Hin. destruct (trace_inv _ _ _ _ inv_init Hin) as [Hi Hc]. eapply fault_no_update; eauto. apply Hi.
Qed.

(* C11.4 over runs.  A per-partition error or an unknown leader in one cycle: the next call of getOffsets finds
   fetchMetadata set, i.e. it re-reads the metadata (whether or not the ticker fired in between). *)
Theorem error_forces_refresh l l1 a b l2 :
  trace init_state None l = l1 ++ a :: b :: l2 ->
  partition_error (en_env a) (en_out a) \/ unknown_leader (en_env a) (en_out a) ->
  fetchMetadata (en_pre b) = true.
Proof.
  intros H Herr.
  assert (Hina : In a (trace init_state None l)) by (rewrite H; apply in_elt).
  destruct (trace_inv _ _ _ _ inv_init Hina) as [Hi Hc].
  apply (error_sets_flag _ _ _ (proj1 Hi) Hc) in Herr.
  destruct (trace_split _ _ _ _ _ _ H) as [r Hr].
  destruct r as [|[tk e] r]; simpl in Hr; [discriminate|].
  destruct (cycle (tick tk (co_state (en_out a))) e); [|discriminate].
  inversion Hr; subst. simpl. unfold tick. destruct tk; auto.
Qed.

(* C11.5  Kafka numbers the partitions of a topic 0..n-1: every id Partitions(t) returns is below the length of the
   list.  Under that assumption on the environments of the run, every update carries partition < count (what keeps
   storage's addBrokerOffset inside its ring slice). *)
Definition env_ids_ok (e : env) : Prop :=
  forall t ps p, e_parts e t = Good ps -> In p ps -> 0 <= p < Z.of_nat (length ps).

Lemma ghost_from_run l : forall st g en ge,
  In en (trace st g l) -> ghost_now en = Some ge ->
  g = Some ge \/ exists x, In x l /\ snd x = ge.
Proof.
  induction l as [|[tk e] r IH]; simpl; intros st g en ge Hin Hg; [contradiction|].
  destruct (cycle (tick tk st) e) as [o|] eqn:Ec; [|contradiction].
  destruct Hin as [<-|Hin].
  - unfold ghost_now, ghost_next in Hg. simpl in Hg. destruct (refreshed (tick tk st) e).
    + inversion Hg; subst. right. exists (tk, ge). auto.
    + auto.
  - destruct (IH _ _ _ _ Hin Hg) as [H|[x [Hx1 Hx2]]].
    + unfold ghost_next in H. destruct (refreshed (tick tk st) e).
      * inversion H; subst. right. exists (tk, ge). auto.
      * auto.
    + right. exists x. auto.
Qed.

Theorem count_bounds_partition l en t p off c :
  (forall x, In x l -> env_ids_ok (snd x)) ->
  In en (trace init_state None l) ->
  In (t, p, off, c) (co_updates (en_out en)) -> 0 <= p < c.
Proof.
  intros Hok Hin Hu.
  apply (answer_to_update_run _ _ Hin) in Hu as [b [ans [rest [ge [ps [Ha [_ [_ [Hg [Hp ->]]]]]]]]]].
  apply (asked_exactly_leaders_run _ _ Hin) in Ha as [ge' [ts [ps' [G1 [_ [_ [G4 [G5 _]]]]]]]].
  rewrite Hg in G1. inversion G1; subst ge'. rewrite Hp in G4. inversion G4; subst ps'.
  destruct (ghost_from_run _ _ _ _ _ Hin Hg) as [H|[x [Hx <-]]]; [discriminate|].
  eapply Hok; eauto.
Qed.

(* a partition without a (findable) leader is in nobody's request *)
Corollary leaderless_not_asked l en b t p :
  In en (trace init_state None l) -> e_leader (en_env en) t p = Fail -> ~ In (b, t, p) (co_asks (en_out en)).
Proof.
  intros Hin Hl Ha. apply (asked_exactly_leaders_run _ _ Hin) in Ha as [ge [ts [ps [_ [_ [_ [_ [_ [_ H]]]]]]]]].
  congruence.
Qed.

(* ---------------------------------------------------------------------------------------------
   crashes: the only panic of the cycle is Offsets[0] on an ErrNoError block without offsets
   --------------------------------------------------------------------------------------------- *)
Definition env_offsets_ok (e : env) : Prop :=
  forall b ans t p, e_answer e b = Good ans -> fst (ans t p) = 0 -> snd (ans t p) <> [].

Lemma cycle_crash_iff st e :
  cycle st e = Crash <->
  exists b t p ans, In (b, t, p) (gen_asks e (fst (maybe_refresh st e)))
    /\ e_answer e b = Good ans /\ ans t p = (0, []).
Proof.
  unfold cycle. destruct (maybe_refresh st e) as [s dels]. cbn [fst].
  destruct (existsb (is_crash e) (gen_asks e s)) eqn:Ec.
  - split; [intros _ | reflexivity]. apply existsb_exists in Ec as [[[b t] p] [Hin H]].
    unfold is_crash, ask_result in H. destruct (e_answer e b) as [ans|] eqn:Ea; [|discriminate].
    exists b, t, p, ans. split; auto. split; auto. unfold block_result_of in H.
    destruct (ans t p) as [err offs]. destruct (err =? 0) eqn:E; [|discriminate].
    apply Z.eqb_eq in E. subst. destruct offs; [reflexivity | discriminate].
  - split; [discriminate|]. intros [b [t [p [ans [Hin [Ha Hb]]]]]]. exfalso.
    assert (existsb (is_crash e) (gen_asks e s) = true); [|congruence].
    apply existsb_exists. exists (b, t, p). split; auto. unfold is_crash, ask_result. rewrite Ha.
    unfold block_result_of. rewrite Hb. reflexivity.
Qed.

(* brokers that always put an offset into an ErrNoError block: no cycle crashes, the trace covers the whole run *)
Theorem no_crash l : forall st g,
  (forall x, In x l -> env_offsets_ok (snd x)) -> length (trace st g l) = length l.
Proof.
  induction l as [|[tk e] r IH]; simpl; intros st g Hok; auto.
  destruct (cycle (tick tk st) e) as [o|] eqn:Ec.
  - simpl. f_equal. apply IH. auto.
  - exfalso. apply cycle_crash_iff in Ec as [b [t [p [ans [_ [Ha Hb]]]]]].
    apply (Hok (tk, e) (or_introl eq_refl) b ans t p Ha); rewrite Hb; reflexivity.
Qed.

(* ---------------------------------------------------------------------------------------------
   the run the driver prints (and the probe is compared with) is the trace the theorems speak about
   --------------------------------------------------------------------------------------------- *)
Theorem run_entries l en :
  In en (trace init_state None l) ->
  wf (en_pre en) /\ cycle (en_pre en) (en_env en) = Done (en_out en).
Proof.
  intros Hin. destruct (trace_inv _ _ _ _ inv_init Hin) as [Hi Hc]. split; [apply Hi | auto].
Qed.

Theorem run_is_trace l : forall st g,
  exists tail,
    run st l = map (fun en => (fetchMetadata (en_pre en), Done (en_out en))) (trace st g l) ++ tail
    /\ (tail = [] \/ exists f, tail = [(f, Crash)]).
Proof.
  induction l as [|[tk e] r IH]; simpl; intros st g.
  - exists []. auto.
  - destruct (cycle (tick tk st) e) as [o|] eqn:Ec.
    + destruct (IH (co_state o) (ghost_next (tick tk st) e g)) as [tail [H1 H2]].
      exists tail. simpl. rewrite H1. auto.
    + exists [(fetchMetadata (tick tk st), Crash)]. simpl. eauto.
Qed.

(* ---------------------------------------------------------------------------------------------
   non-vacuity: a concrete run exercising every hypothesis above (evaluated by vm_compute)
   topics 1,2,3; brokers 1,2.
     cycle 0 (tick)   : 1 = {p0@b1, p1 leaderless, p2@b2}, 2 = {p0@b2}, 3 = {all leaderless}
     cycle 1 (no tick): broker 2 fails, (1,p0) answers error 6                       -> flag set
     cycle 2 (no tick): forced refresh, but Partitions(2) fails                      -> old snapshot kept
     cycle 3 (tick)   : topic 2 gone                                                 -> deleted once
     cycle 4 (tick)   : topic 2 still gone                                           -> not again
     cycle 5 (tick)   : topic 2 back; cycle 6 (tick): gone again                     -> deleted again
   --------------------------------------------------------------------------------------------- *)
Definition ex_t1 (err0 : Z) : trow :=
  mkTrow 1 true [mkProw 0 (Good 1) err0 [100; 7]; mkProw 1 Fail 0 [50]; mkProw 2 (Good 2) 0 [300]].
Definition ex_t2 (ok : bool) : trow := mkTrow 2 ok [mkProw 0 (Good 2) 0 [20]].
Definition ex_t3 : trow := mkTrow 3 true [mkProw 0 Fail 0 [1]; mkProw 1 Fail 0 [2]].
Definition ex_run : list (bool * env) :=
  [ (true,  env_of_tables (Good [1; 2; 3]) [ex_t1 0; ex_t2 true; ex_t3] []);
    (false, env_of_tables (Good [1; 2; 3]) [ex_t1 6; ex_t2 true; ex_t3] [2]);
    (false, env_of_tables (Good [1; 2; 3]) [ex_t1 0; ex_t2 false; ex_t3] []);
    (true,  env_of_tables (Good [1; 3]) [ex_t1 0; ex_t3] []);
    (true,  env_of_tables (Good [3; 1]) [ex_t1 0; ex_t3] []);
    (true,  env_of_tables (Good [1; 2; 3]) [ex_t1 0; ex_t2 true; ex_t3] []);
    (true,  env_of_tables (Good [1; 3]) [ex_t1 0; ex_t3] []) ].
Definition ex_trace := trace init_state None ex_run.

(* the run does not crash: seven entries *)
Example ex_trace_length : length ex_trace = 7%nat.
Proof. vm_compute. reflexivity. Qed.

(* asked_exactly_leaders: leaderless (1,1) and all of topic 3 are never asked; two brokers are asked *)
Example asked_exactly_leaders_ex :
  map (fun en => co_asks (en_out en)) (firstn 2 ex_trace)
  = [ [(2, 2, 0); (1, 1, 0); (2, 1, 2)]; [(2, 2, 0); (1, 1, 0); (2, 1, 2)] ].
Proof. vm_compute. reflexivity. Qed.

(* answer_to_update: first offset of the list, count 3 for topic 1 although only two partitions have a leader;
   fault_no_update: in cycle 1 broker 2 fails and (1,0) has an error code: no update at all *)
Example answer_to_update_ex :
  map (fun en => co_updates (en_out en)) (firstn 2 ex_trace)
  = [ [(2, 0, 20, 1); (1, 0, 100, 3); (1, 2, 300, 3)]; [] ].
Proof. vm_compute. reflexivity. Qed.

(* error_forces_refresh: the error of cycle 1 sets the flag, cycle 2 starts with it although no tick *)
Example error_forces_refresh_ex :
  map (fun en => (fetchMetadata (en_pre en), fetchMetadata (co_state (en_out en)))) (firstn 3 ex_trace)
  = [ (true, false); (false, true); (true, false) ].
Proof. vm_compute. reflexivity. Qed.

(* delete_exactly_once / failed_refresh_keeps_snapshot / leaderless_not_deleted: topic 2 is deleted in cycles 3 and
   6 only; the failed refresh of cycle 2 deletes nothing; topic 3 (no leaders at all) is never deleted *)
Example delete_exactly_once_ex :
  map (fun en => co_deletes (en_out en)) ex_trace = [ []; []; []; [2]; []; []; [2] ].
Proof. vm_compute. reflexivity. Qed.

Example refreshed_ex :
  map (fun en => refreshed (en_pre en) (en_env en)) ex_trace
  = [ Some [1; 2; 3]; None; None; Some [1; 3]; Some [3; 1]; Some [1; 2; 3]; Some [1; 3] ].
Proof. vm_compute. reflexivity. Qed.

Example ghost_topics_ex :
  map (fun en => ghost_topics (en_ghost en)) ex_trace
  = [ []; [1; 2; 3]; [1; 2; 3]; [1; 2; 3]; [1; 3]; [3; 1]; [1; 2; 3] ].
Proof. vm_compute. reflexivity. Qed.

(* count_bounds_partition: the example's environments number their partitions 0..n-1 *)
Definition table_ids_ok (tb : list trow) : bool :=
  forallb (fun r => forallb (fun p => (0 <=? p) && (p <? Z.of_nat (length (tr_parts r)))) (map pr_id (tr_parts r))) tb.

Lemma find_trow_in t tb r : find_trow t tb = Some r -> In r tb.
Proof.
  induction tb as [|a q IH]; simpl; [discriminate|].
  destruct (tr_id a =? t); intros H; [inversion H; auto | auto].
Qed.

Lemma env_of_tables_ids_ok tops tb failing :
  table_ids_ok tb = true -> env_ids_ok (env_of_tables tops tb failing).
Proof.
  intros Hok t ps p Hps Hp. simpl in Hps. destruct (find_trow t tb) as [r|] eqn:Ef; [|discriminate].
  destruct (tr_ok r); [|discriminate]. inversion Hps; subst.
  apply find_trow_in in Ef. unfold table_ids_ok in Hok. rewrite forallb_forall in Hok.
  specialize (Hok r Ef). rewrite forallb_forall in Hok. specialize (Hok p Hp).
  rewrite map_length. apply andb_true_iff in Hok as [H1 H2]. apply Z.leb_le in H1. apply Z.ltb_lt in H2. lia.
Qed.

Example env_ids_ok_ex : forall x, In x ex_run -> env_ids_ok (snd x).
Proof.
  intros x Hx. unfold ex_run in Hx. simpl in Hx.
  repeat (destruct Hx as [<-|Hx]; [apply env_of_tables_ids_ok; vm_compute; reflexivity|]).
  contradiction.
Qed.

Example count_bounds_partition_ex :
  forallb (fun en => forallb (fun u : update => let '(t, p, off, c) := u in (0 <=? p) && (p <? c)) (co_updates (en_out en)))
          ex_trace = true
  /\ existsb (fun en => negb (Nat.eqb (length (co_updates (en_out en))) 0)) ex_trace = true.
Proof. vm_compute. auto. Qed.

(* a crash: an ErrNoError answer with no offsets ends the run *)
Example crash_ex :
  trace init_state None [(true, env_of_tables (Good [1]) [mkTrow 1 true [mkProw 0 (Good 1) 0 []]] [])] = [].
Proof. vm_compute. reflexivity. Qed.

(* fault_no_update: in cycle 1 block (1,2) is in failing broker 2's request and block (1,0) came back with error 6:
   both hypotheses of the theorem occur, and the cycle emits no update *)
Example fault_no_update_ex :
  match nth_error ex_trace 1 with
  | Some en =>
      existsb (fun a => if ask_eq_dec a (2, 1, 2) then true else false) (co_asks (en_out en)) = true
      /\ (match e_answer (en_env en) 2 with Fail => true | Good _ => false end) = true
      /\ existsb (fun a => if ask_eq_dec a (1, 1, 0) then true else false) (co_asks (en_out en)) = true
      /\ (match e_answer (en_env en) 1 with Good ans => fst (ans 1 0) | Fail => 0 end) = 6
      /\ co_updates (en_out en) = []
  | None => False
  end.
Proof. vm_compute. auto. Qed.

(* failed_refresh_keeps_snapshot: cycle 2 attempts the refresh (flag set), Partitions(2) fails, the key set stays *)
Example failed_refresh_keeps_snapshot_ex :
  match nth_error ex_trace 2 with
  | Some en => fetchMetadata (en_pre en) = true /\ refreshed (en_pre en) (en_env en) = None
               /\ keys (snap (co_state (en_out en))) = keys (snap (en_pre en))
               /\ keys (snap (en_pre en)) = [3; 2; 1]
  | None => False
  end.
Proof. vm_compute. auto. Qed.

(* leaderless_not_deleted: topic 3 is listed with two partitions, none has a leader: key kept, ids empty, count 2 *)
Example leaderless_not_deleted_ex :
  match nth_error ex_trace 0 with
  | Some en => refreshed (en_pre en) (en_env en) = Some [1; 2; 3]
               /\ map (fun p => has_leader (en_env en) 3 p) [0; 1] = [false; false]
               /\ option_map (fun i => (ti_ids i, ti_count i)) (smap_find 3 (snap (co_state (en_out en)))) = Some ([], 2)
  | None => False
  end.
Proof. vm_compute. auto. Qed.

(* How "has a leader" is to be read (C11.1): the set of partitions asked is the one of the last complete metadata
   read; the leader asked is the current one.  A partition that gains a leader between two metadata reads is asked
   from the next read on, not before (cycle 1 has no tick and no error: no re-read). *)
Example snapshot_between_refreshes_ex :
  let t0 := mkTrow 1 true [mkProw 0 (Good 1) 0 [10]; mkProw 1 Fail 0 [20]] in
  let t1 := mkTrow 1 true [mkProw 0 (Good 2) 0 [11]; mkProw 1 (Good 2) 0 [21]] in
  map (fun en => (co_asks (en_out en), co_updates (en_out en)))
      (trace init_state None [ (true, env_of_tables (Good [1]) [t0] []);
                               (false, env_of_tables (Good [1]) [t1] []);
                               (true, env_of_tables (Good [1]) [t1] []) ])
  = [ ([(1, 1, 0)], [(1, 0, 10, 2)]);
      ([(2, 1, 0)], [(1, 0, 11, 2)]);
      ([(2, 1, 0); (2, 1, 1)], [(1, 0, 11, 2); (1, 1, 21, 2)]) ].
Proof. vm_compute. reflexivity. Qed.

(* count_bounds_partition needs its assumption: a client that lists partition ids {1} for a one-partition topic
   (ids not 0..n-1) makes the module send partition 1 with count 1 *)
Example count_bounds_needs_contiguous_ids :
  map (fun en => co_updates (en_out en))
      (trace init_state None [ (true, env_of_tables (Good [1]) [mkTrow 1 true [mkProw 1 (Good 1) 0 [10]]] []) ])
  = [ [(1, 1, 10, 1)] ].
Proof. vm_compute. reflexivity. Qed.

(* ---------------------------------------------------------------------------------------------
   the storage side (added 2026-10-02): deletions are sent blocking and always arrive; a broker-offset update arrives
   iff storage takes it within the 1 s timeout; the module's behaviour does not depend on storage
   --------------------------------------------------------------------------------------------- *)
Definition sreq_eq_dec (x y : sreq) : {x = y} + {x <> y}.
Proof. repeat decide equality. Defined.

(* hypothesis of C11's "every successful answer produces exactly one update": storage took every request of the
   cycle within the timeout *)
Definition storage_in_time (sv : storage_beh) (o : cycle_out) : Prop :=
  forall u, In u (co_updates o) -> sv u = true.

Lemma storage_in_time_prompt o : storage_in_time prompt o.
Proof. intros u _. reflexivity. Qed.

Lemma filter_delivered_offers sv us :
  map (fun f => SBrokerOffset (of_update f)) (filter delivered (map (fun u => mkOffer u (sv u)) us))
  = map SBrokerOffset (filter sv us).
Proof.
  induction us as [|u us IH]; simpl; auto. destruct (sv u); simpl; rewrite IH; reflexivity.
Qed.

Lemma received_eq sv o :
  received sv o = map SDeleteTopic (co_deletes o) ++ map SBrokerOffset (filter sv (co_updates o)).
Proof. unfold received, offers. rewrite filter_delivered_offers. reflexivity. Qed.

Lemma flat_deletes_app ds us :
  flat_map (fun r => match r with SDeleteTopic t => [t] | SBrokerOffset _ => [] end)
           (map SDeleteTopic ds ++ map SBrokerOffset us) = ds.
Proof.
  rewrite flat_map_app.
  assert (H1 : forall l, flat_map (fun r => match r with SDeleteTopic t => [t] | SBrokerOffset _ => [] end)
                                  (map SDeleteTopic l) = l).
  { induction l as [|a l IH]; simpl; [|rewrite IH]; reflexivity. }
  assert (H2 : forall l, flat_map (fun r => match r with SDeleteTopic t => [t] | SBrokerOffset _ => [] end)
                                  (map SBrokerOffset l) = []).
  { induction l as [|a l IH]; simpl; auto. }
  rewrite H1, H2, app_nil_r. reflexivity.
Qed.

Lemma flat_updates_app ds us :
  flat_map (fun r => match r with SBrokerOffset u => [u] | SDeleteTopic _ => [] end)
           (map SDeleteTopic ds ++ map SBrokerOffset us) = us.
Proof.
  rewrite flat_map_app.
  assert (H1 : forall l, flat_map (fun r => match r with SBrokerOffset u => [u] | SDeleteTopic _ => [] end)
                                  (map SDeleteTopic l) = []).
  { induction l as [|a l IH]; simpl; auto. }
  assert (H2 : forall l, flat_map (fun r => match r with SBrokerOffset u => [u] | SDeleteTopic _ => [] end)
                                  (map SBrokerOffset l) = l).
  { induction l as [|a l IH]; simpl; [|rewrite IH]; reflexivity. }
  rewrite H1, H2. reflexivity.
Qed.

(* S.1  Whatever storage does, it receives exactly the deletions the cycle emits (the send of line 197 blocks). *)
Theorem received_deletes_all sv o : received_deletes sv o = co_deletes o.
Proof. unfold received_deletes. rewrite received_eq. apply flat_deletes_app. Qed.

(* S.2  ... and exactly those broker-offset updates it took within the timeout. *)
Theorem received_updates_delivered sv o : received_updates sv o = filter sv (co_updates o).
Proof. unfold received_updates. rewrite received_eq. apply flat_updates_app. Qed.

Lemma in_received_delete sv o t : In (SDeleteTopic t) (received sv o) <-> In t (co_deletes o).
Proof.
  rewrite received_eq, in_app_iff, !in_map_iff. split.
  - intros [[x [Hx Hin]]|[x [Hx _]]]; [inversion Hx; subst; auto | discriminate].
  - intros H. left. eauto.
Qed.

Lemma in_received_update sv o u : In (SBrokerOffset u) (received sv o) <-> In u (co_updates o) /\ sv u = true.
Proof.
  rewrite received_eq, in_app_iff, !in_map_iff. split.
  - intros [[x [Hx _]]|[x [Hx Hin]]]; [discriminate|]. inversion Hx; subst. apply filter_In in Hin. auto.
  - intros H. right. exists u. split; auto. apply filter_In. auto.
Qed.

Lemma NoDup_filter_map {A B} (f : A -> B) (q : A -> bool) (l : list A) :
  NoDup (map f l) -> NoDup (map f (filter q l)).
Proof.
  induction l as [|a l IH]; simpl; intros Hn; [constructor|]. inversion Hn; subst.
  destruct (q a); simpl; auto. constructor; auto.
  rewrite in_map_iff. intros [y [Hy Hin]]. apply filter_In in Hin as [Hin _].
  apply H1. apply in_map_iff. eauto.
Qed.

Lemma NoDup_of_map {A B} (f : A -> B) (l : list A) : NoDup (map f l) -> NoDup l.
Proof.
  induction l as [|a l IH]; simpl; intros Hn; [constructor|]. inversion Hn; subst.
  constructor; auto. intros Hin. apply H1. apply in_map. auto.
Qed.

(* S.3  Storage receives no request twice within a cycle. *)
Theorem received_nodup st e o sv : wf st -> cycle st e = Done o -> NoDup (received sv o).
Proof.
  intros Hw Hc. rewrite received_eq.
  destruct (deletes_cycle _ _ _ Hw Hc) as [_ Hnd]. destruct (answer_to_update _ _ _ Hw Hc) as [_ Hnu].
  apply NoDup_app_intro.
  - apply NoDup_map_inj_on; auto. intros x y _ _ H. inversion H; auto.
  - apply NoDup_map_inj_on.
    + apply (NoDup_of_map upd_key). apply NoDup_filter_map. auto.
    + intros x y _ _ H. inversion H; auto.
  - intros x H1 H2. apply in_map_iff in H1 as [t [<- _]]. apply in_map_iff in H2 as [u [Hu _]]. discriminate.
Qed.

(* C12 with a stalling storage.  In every cycle of every run and for EVERY storage behaviour: the storage module
   receives SetDeleteTopic t iff this cycle performed a complete refresh whose topic list lacks t and the last complete
   refresh before it listed t; it receives it exactly once. *)
Theorem deletion_reaches_storage_once l en sv t :
  In en (trace init_state None l) ->
  (In (SDeleteTopic t) (received sv (en_out en)) <->
     exists ts, refreshed (en_pre en) (en_env en) = Some ts /\ ~ In t ts /\ In t (ghost_topics (en_ghost en)))
  /\ (In (SDeleteTopic t) (received sv (en_out en)) ->
      count_occ sreq_eq_dec (received sv (en_out en)) (SDeleteTopic t) = 1%nat).
Proof.
  intros Hin. destruct (delete_exactly_once l en t Hin) as [Hiff _].
  destruct (trace_inv _ _ _ _ inv_init Hin) as [Hi Hc]. split.
  - rewrite in_received_delete. exact Hiff.
  - intros H. apply NoDup_count_occ'; auto. eapply received_nodup; eauto. apply Hi.
Qed.

(* C11 with a stalling storage.  The storage module receives SetBrokerOffset (t, p, off, c) iff that update was due
   (asked in this cycle, successful answer with first offset off, c the partition count of the last complete metadata
   read) AND storage took the request within the timeout. *)
Theorem answer_to_update_delivered l en sv :
  In en (trace init_state None l) ->
  forall t p off c, In (SBrokerOffset (t, p, off, c)) (received sv (en_out en)) <->
     (exists b ans rest ge ps, In (b, t, p) (co_asks (en_out en)) /\ e_answer (en_env en) b = Good ans
        /\ ans t p = (0, off :: rest)
        /\ ghost_now en = Some ge /\ e_parts ge t = Good ps /\ c = Z.of_nat (length ps))
     /\ sv (t, p, off, c) = true.
Proof.
  intros Hin t p off c. destruct (answer_to_update_run l en Hin) as [Hiff _].
  rewrite in_received_update, Hiff. reflexivity.
Qed.

(* ... so under the hypothesis "storage took the requests within the timeout" every successful answer reaches storage
   as exactly one update, and nothing else does *)
Theorem answer_to_update_in_time l en sv :
  In en (trace init_state None l) -> storage_in_time sv (en_out en) ->
  (forall t p off c, In (SBrokerOffset (t, p, off, c)) (received sv (en_out en)) <->
     exists b ans rest ge ps, In (b, t, p) (co_asks (en_out en)) /\ e_answer (en_env en) b = Good ans
        /\ ans t p = (0, off :: rest)
        /\ ghost_now en = Some ge /\ e_parts ge t = Good ps /\ c = Z.of_nat (length ps))
  /\ NoDup (map upd_key (received_updates sv (en_out en))).
Proof.
  intros Hin Hs. destruct (answer_to_update_run l en Hin) as [Hiff Hn]. split.
  - intros t p off c. rewrite in_received_update, <- Hiff. split; [tauto|]. intros H. split; auto.
  - rewrite received_updates_delivered. apply NoDup_filter_map. auto.
Qed.

(* without that hypothesis: what arrives is still never fabricated or stale, at most one per partition, and an update
   that was due is missing only because of the timeout *)
Theorem stalled_storage_sound l en sv :
  In en (trace init_state None l) ->
  (forall u, In (SBrokerOffset u) (received sv (en_out en)) -> In u (co_updates (en_out en)))
  /\ (forall u, In u (co_updates (en_out en)) -> ~ In (SBrokerOffset u) (received sv (en_out en)) -> sv u = false)
  /\ NoDup (map upd_key (received_updates sv (en_out en))).
Proof.
  intros Hin. destruct (answer_to_update_run l en Hin) as [_ Hn]. split; [|split].
  - intros u H. apply in_received_update in H. tauto.
  - intros u Hu Hnot. destruct (sv u) eqn:E; auto. exfalso. apply Hnot. apply in_received_update. auto.
  - rewrite received_updates_delivered. apply NoDup_filter_map. auto.
Qed.

(* The module does not look at what storage does: forgetting the storage side of run_s gives run. *)
Definition forget_storage (x : bool * outcome (cycle_out * list sreq)) : bool * outcome cycle_out :=
  (fst x, match snd x with Done (o, _) => Done o | Crash => Crash end).

Theorem run_s_forget l : forall st, map forget_storage (run_s st l) = run st (map fst l).
Proof.
  induction l as [|[[tk e] sv] r IH]; simpl; intros st; auto.
  destruct (cycle (tick tk st) e) as [o|]; simpl; [rewrite IH|]; reflexivity.
Qed.

(* run_s (what the driver prints for storage-scripted cases) is the trace the theorems speak about, each cycle paired
   with its storage behaviour *)
Theorem run_s_is_trace l : forall st g,
  exists tail,
    run_s st l = map (fun x => (fetchMetadata (en_pre (fst x)), Done (en_out (fst x), received (snd x) (en_out (fst x)))))
                     (combine (trace st g (map fst l)) (map snd l)) ++ tail
    /\ (tail = [] \/ exists f, tail = [(f, Crash)]).
Proof.
  induction l as [|[[tk e] sv] r IH]; simpl; intros st g.
  - exists []. auto.
  - destruct (cycle (tick tk st) e) as [o|] eqn:Ec.
    + destruct (IH (co_state o) (ghost_next (tick tk st) e g)) as [tail [H1 H2]].
      exists tail. simpl. rewrite H1. auto.
    + exists [(fetchMetadata (tick tk st), Crash)]. simpl. eauto.
Qed.

(* non-vacuity: the example run with a storage module that is busy in cycles 0 and 3 (takes no broker-offset update
   within the timeout).  The deletion of topic 2 in cycle 3 arrives all the same, the updates of those cycles are lost,
   the module's own trajectory (flags, requests) is the one of ex_run. *)
Definition ex_run_s : list (bool * env * storage_beh) :=
  map (fun x => (fst x, if (snd x =? 0)%nat || (snd x =? 3)%nat then (fun _ => false) else prompt))
      (combine ex_run (seq 0 7)).

Example received_ex :
  map (fun x => match snd x with Done (_, rs) => rs | Crash => [] end) (run_s init_state ex_run_s)
  = [ [];
      [];
      [SBrokerOffset (2, 0, 20, 1); SBrokerOffset (1, 0, 100, 3); SBrokerOffset (1, 2, 300, 3)];
      [SDeleteTopic 2];
      [SBrokerOffset (1, 0, 100, 3); SBrokerOffset (1, 2, 300, 3)];
      [SBrokerOffset (2, 0, 20, 1); SBrokerOffset (1, 0, 100, 3); SBrokerOffset (1, 2, 300, 3)];
      [SDeleteTopic 2; SBrokerOffset (1, 0, 100, 3); SBrokerOffset (1, 2, 300, 3)] ].
Proof. vm_compute. reflexivity. Qed.

Example run_s_forget_ex : map forget_storage (run_s init_state ex_run_s) = run init_state ex_run.
Proof. vm_compute. reflexivity. Qed.

Example storage_in_time_ex :
  match nth_error ex_trace 5 with
  | Some en => storage_in_time prompt (en_out en) /\ length (received prompt (en_out en)) = 3%nat
  | None => False
  end.
Proof. simpl. split; [apply storage_in_time_prompt | vm_compute; reflexivity]. Qed.

(* ---------------------------------------------------------------------------------------------
   worlds that violate the two assumptions baked into `env` (added 2026-10-02, audit C11)
   --------------------------------------------------------------------------------------------- *)
Lemma existsb_ext' {A} (f g : A -> bool) l : (forall a, f a = g a) -> existsb f l = existsb g l.
Proof. intros H. induction l as [|a l IH]; simpl; [|rewrite H, IH]; reflexivity. Qed.

Lemma flat_map_nil {A B} (f : A -> list B) l : (forall a, f a = []) -> flat_map f l = [].
Proof. intros H. induction l as [|a l IH]; simpl; [|rewrite H, IH]; reflexivity. Qed.

Lemma gen_asks_stable x s : leader_stable x -> gen_asks (env_req x) s = gen_asks (x_env x) s.
Proof.
  intros H. unfold gen_asks. f_equal. apply flat_map_ext. intros [t i]. unfold topic_asks.
  apply flat_map_ext. intros p. cbn [env_req e_leader fst snd]. rewrite H. reflexivity.
Qed.

Lemma leader_failed_stable x s : leader_stable x -> leader_failed (env_req x) s = leader_failed (x_env x) s.
Proof.
  intros H. unfold leader_failed. apply existsb_ext'. intros [t i]. apply existsb_ext'. intros p.
  unfold has_leader. cbn [env_req e_leader fst snd]. rewrite H. reflexivity.
Qed.

(* X.0  Under the two named hypotheses the general cycle IS `cycle`: everything proved about `cycle` / `trace` is
   a statement about worlds in which Leader answers the same at both call sites of a cycle and every response holds
   exactly the asked blocks. *)
Theorem xcycle_stable st x : leader_stable x -> answers_match_asks x -> xcycle st x = cycle st (x_env x).
Proof.
  intros Hl [Ho He]. unfold xcycle, cycle. destruct (maybe_refresh st (x_env x)) as [s dels].
  rewrite (gen_asks_stable x s Hl), (leader_failed_stable x s Hl).
  assert (Hex : extra_results x (gen_asks (x_env x) s) = []).
  { unfold extra_results. apply flat_map_nil. intros b. rewrite He. destruct (e_answer (x_env x) b); reflexivity. }
  assert (Hr : forall a, x_ask_result x a = ask_result (x_env x) a).
  { intros a. unfold x_ask_result. rewrite Ho. reflexivity. }
  rewrite Hex.
  rewrite (existsb_ext' (x_is_crash x) (is_crash (x_env x))) by (intros a; unfold x_is_crash, is_crash; rewrite Hr; reflexivity).
  rewrite (existsb_ext' (x_is_error x) (is_error (x_env x))) by (intros a; unfold x_is_error, is_error; rewrite Hr; reflexivity).
  rewrite (flat_map_ext (x_ask_update x s) (ask_update (x_env x) s)) by (intros a; unfold x_ask_update, ask_update; rewrite Hr; reflexivity).
  cbn [existsb flat_map]. rewrite !orb_false_r, app_nil_r. reflexivity.
Qed.

Lemma plain_stable e : leader_stable (plain e) /\ answers_match_asks (plain e).
Proof. repeat split. Qed.

Corollary xcycle_plain st e : xcycle st (plain e) = cycle st e.
Proof. destruct (plain_stable e) as [H1 H2]. apply (xcycle_stable st (plain e) H1 H2). Qed.

Theorem xrun_plain l : forall st, xrun st (map (fun x => (fst x, plain (snd x))) l) = run st l.
Proof.
  induction l as [|[tk e] r IH]; simpl; intros st; auto. rewrite xcycle_plain.
  destruct (cycle (tick tk st) e); [rewrite IH|]; reflexivity.
Qed.

Lemma xcycle_done st x o :
  xcycle st x = Done o ->
  let s := fst (maybe_refresh st (x_env x)) in
  let asks := gen_asks (env_req x) s in
  snap (co_state o) = s
  /\ co_asks o = asks
  /\ co_updates o = flat_map (x_ask_update x s) asks ++ flat_map (extra_update s) (extra_results x asks)
  /\ co_deletes o = snd (maybe_refresh st (x_env x))
  /\ fetchMetadata (co_state o)
     = (leader_failed (env_req x) s || existsb (x_is_error x) asks || existsb br_is_error (extra_results x asks)).
Proof.
  unfold xcycle. destruct (maybe_refresh st (x_env x)) as [s dels]. cbn [fst snd].
  destruct (existsb (x_is_crash x) (gen_asks (env_req x) s)
            || existsb br_is_crash (extra_results x (gen_asks (env_req x) s))); [discriminate|].
  intros H. inversion H; subst. cbn. auto 10.
Qed.

(* X.1  Whom the module asks, in a world where Leader may answer differently at the two call sites: the partitions
   whose Leader SUCCEEDED DURING THE LAST COMPLETE REFRESH (ti_ids of the snapshot), each of the broker that Leader
   names NOW, in generateOffsetRequests.  (In particular a refreshing cycle can see an unknown leader at :219.) *)
Theorem xasked_exactly st x o :
  wf st -> xcycle st x = Done o ->
  (forall b t p, In (b, t, p) (co_asks o) <->
     exists i, smap_find t (snap (co_state o)) = Some i /\ In p (ti_ids i) /\ x_leader_req x t p = Good b)
  /\ NoDup (co_asks o).
Proof.
  intros Hw Hc. pose proof (refresh_wf st (x_env x) Hw) as Hn.
  apply xcycle_done in Hc as [Hs [Ha _]]. rewrite Hs, Ha. split; [|apply NoDup_nodup].
  intros b t p. apply (gen_asks_in (env_req x)). exact Hn.
Qed.

(* X.2  An asked block that the response omits: no update for that partition (and, see x_omitted_ex, no flag). *)
Theorem xomitted_block_silent st x o b t p :
  wf st -> xcycle st x = Done o -> (forall b', x_extra x b' = []) ->
  In (b, t, p) (co_asks o) -> x_omit x b t p = true ->
  forall off c, ~ In (t, p, off, c) (co_updates o).
Proof.
  intros Hw Hc He Hin Ho off c Hu.
  destruct (xasked_exactly _ _ _ Hw Hc) as [Hask _].
  apply xcycle_done in Hc as [_ [Ha [Hupd _]]]. rewrite Hupd in Hu.
  assert (Hex : extra_results x (gen_asks (env_req x) (fst (maybe_refresh st (x_env x)))) = []).
  { unfold extra_results. apply flat_map_nil. intros b'. rewrite He. destruct (e_answer (x_env x) b'); reflexivity. }
  rewrite Hex in Hu. cbn [flat_map] in Hu. rewrite app_nil_r in Hu.
  apply in_flat_map in Hu as [[[b' t'] p'] [Hin' Hu]]. rewrite <- Ha in Hin'.
  unfold x_ask_update in Hu. destruct (x_ask_result x (b', t', p')) as [[o'| |]|] eqn:Er; try contradiction.
  cbn in Hu. destruct Hu as [Hu|[]]. inversion Hu; subst t' p' o' c.
  assert (b' = b).
  { apply Hask in Hin as [_ [_ [_ H1]]]. apply Hask in Hin' as [_ [_ [_ H2]]]. congruence. }
  subst b'. unfold x_ask_result in Er. cbn [fst snd] in Er. rewrite Ho in Er. discriminate.
Qed.

Lemma existsb_ask_eqb_false a asks : ~ In a asks -> existsb (ask_eqb a) asks = false.
Proof.
  intros H. destruct (existsb (ask_eqb a) asks) eqn:E; auto. exfalso. apply H.
  apply existsb_exists in E as [y [Hy E]]. unfold ask_eqb in E. destruct (ask_eq_dec a y); [subst; auto | discriminate].
Qed.

(* X.3  A successful block that was NOT asked (broker b was asked something and its call succeeded): the module
   sends an update for it all the same, with cap(module.topicPartitions[t]) as count -- 0 for an unknown topic. *)
Theorem xunasked_block_update st x o b t' p' ans t p off rest :
  xcycle st x = Done o ->
  In (b, t', p') (co_asks o) -> e_answer (x_env x) b = Good ans ->
  In (t, p, (0, off :: rest)) (x_extra x b) -> ~ In (b, t, p) (co_asks o) ->
  In (t, p, off, count_of (snap (co_state o)) t) (co_updates o).
Proof.
  intros Hc Hb Hans Hex Hnot. apply xcycle_done in Hc as [Hs [Ha [Hupd _]]].
  rewrite Hupd, Hs. rewrite Ha in Hb, Hnot. apply in_or_app. right.
  apply in_flat_map. exists (t, p, BUpdate off). split; [|cbn; auto].
  unfold extra_results. apply in_flat_map. exists b. split.
  - unfold asked_brokers. apply nodup_In. apply in_map_iff. exists (b, t', p'). auto.
  - rewrite Hans. apply in_map_iff. exists (t, p, (0, off :: rest)). split; [reflexivity|].
    apply filter_In. split; auto. cbn [fst snd]. rewrite existsb_ask_eqb_false by exact Hnot. reflexivity.
Qed.

(* the three behaviours on concrete worlds (vm_compute):
   cycle 0 refreshes; topic 1 = {p0@b1, p1@b1}.  Leader(1,1) succeeds during the refresh and fails in
   generateOffsetRequests: p1 is in the snapshot, is not asked, the flag is set -- in a REFRESHING cycle, which no
   `env` can exhibit.  Broker 1 omits nothing and adds a block for the unknown topic 9: update (9, 0, 77, 0). *)
Definition xex_rows (lr1 : call Z) (om0 : bool) : list xtrow :=
  [ mkXtrow 1 true [ mkXprow (mkProw 0 (Good 1) 0 [10]) (Good 1) om0;
                     mkXprow (mkProw 1 (Good 1) 0 [20]) lr1 false ] ].

Example x_leader_differs_ex :
  map (fun r => match snd r with Done o => (fetchMetadata (co_state o), co_asks o, co_updates o) | Crash => (false, [], []) end)
      (xrun init_state [ (true, xenv_of_tables (Good [1]) (xex_rows Fail false) [] []) ])
  = [ (true, [(1, 1, 0)], [(1, 0, 10, 2)]) ].
Proof. vm_compute. reflexivity. Qed.

Example x_unasked_block_ex :
  map (fun r => match snd r with Done o => (fetchMetadata (co_state o), co_asks o, co_updates o) | Crash => (false, [], []) end)
      (xrun init_state [ (true, xenv_of_tables (Good [1]) (xex_rows (Good 1) false) [] [(1, 9, 0, 0, [77])]) ])
  = [ (false, [(1, 1, 0); (1, 1, 1)], [(1, 0, 10, 2); (1, 1, 20, 2); (9, 0, 77, 0)]) ].
Proof. vm_compute. reflexivity. Qed.

(* an omitted block with an error code behind it: no update, and no flag either *)
Example x_omitted_ex :
  map (fun r => match snd r with Done o => (fetchMetadata (co_state o), co_asks o, co_updates o) | Crash => (false, [], []) end)
      (xrun init_state [ (true, xenv_of_tables (Good [1]) (xex_rows (Good 1) true) [] []) ])
  = [ (false, [(1, 1, 0); (1, 1, 1)], [(1, 1, 20, 2)]) ].
Proof. vm_compute. reflexivity. Qed.

(* ---------------------------------------------------------------------------------------------
   C11, the literal clauses and what HEAD does (audit 2026-10-02; known finding C11:leaderless-at-refresh)
   --------------------------------------------------------------------------------------------- *)

(* Leader failed for a partition while THIS cycle's refresh ran to completion (kafka_cluster.go:179-184: logged, the
   partition is left out of the slice, fetchMetadata is NOT set) *)
Definition unknown_leader_at_refresh (st : state) (e : env) : Prop :=
  exists ts t ps p, refreshed st e = Some ts /\ In t ts /\ e_parts e t = Good ps /\ In p ps /\ e_leader e t p = Fail.

(* the audit's run: topic 1 = {p0@b1, p1}; p1 has no leader when the metadata is read (cycle 0) and has one from
   cycle 1 on; the ticker does not fire *)
Definition aud_e (l1 : call Z) : env :=
  env_of_tables (Good [1]) [mkTrow 1 true [mkProw 0 (Good 1) 0 [10]; mkProw 1 l1 0 [20]]] [].
Definition aud_run : list (bool * env) := [ (true, aud_e Fail); (false, aud_e (Good 1)); (false, aud_e (Good 1)) ].

Example aud_run_ex :
  map (fun en => (fetchMetadata (en_pre en), fetchMetadata (co_state (en_out en)), co_asks (en_out en)))
      (trace init_state None aud_run)
  = [ (true, false, [(1, 1, 0)]); (false, false, [(1, 1, 0)]); (false, false, [(1, 1, 0)]) ].
Proof. vm_compute. reflexivity. Qed.

(* FULL clause 4 ("a per-partition error or an unknown leader causes cluster metadata to be re-read on the next
   cycle", an unknown leader at EITHER call site) is FALSE for HEAD: *)
Theorem unknown_leader_at_refresh_forces_refresh_refuted :
  exists l l1 a b l2,
    trace init_state None l = l1 ++ a :: b :: l2
    /\ unknown_leader_at_refresh (en_pre a) (en_env a)
    /\ fetchMetadata (en_pre b) = false.
Proof.
  exists aud_run, []. eexists. eexists. eexists. split; [reflexivity|]. split.
  - exists [1], 1, [0; 1], 1. repeat split; try (vm_compute; reflexivity); simpl; auto.
  - vm_compute. reflexivity.
Qed.

(* FULL clause 1 ("every partition that has a leader is asked of exactly its current leader"), even restricted to
   partitions the module has seen in its last complete metadata read, is FALSE for HEAD: *)
Theorem current_leader_asked_refuted :
  exists l en b t p ge ts ps,
    In en (trace init_state None l)
    /\ ghost_now en = Some ge /\ e_topics ge = Good ts /\ In t ts /\ e_parts ge t = Good ps /\ In p ps
    /\ e_topics (en_env en) = Good ts /\ e_parts (en_env en) t = Good ps
    /\ e_leader (en_env en) t p = Good b
    /\ ~ In (b, t, p) (co_asks (en_out en)).
Proof.
  destruct (nth_error (trace init_state None aud_run) 2) as [en|] eqn:E; [|vm_compute in E; discriminate].
  exists aud_run, en, 1, 1, 1, (aud_e Fail), [1], [0; 1].
  split; [eapply nth_error_In; eauto|].
  vm_compute in E. inversion E; subst en. clear E.
  repeat split; try (vm_compute; reflexivity); try (simpl; auto; fail).
  vm_compute. intros [H|[]]. discriminate.
Qed.

(* What HEAD does guarantee, in terms of the CURRENT leaders: a partition with a leader now is asked (of that leader)
   iff its Leader lookup succeeded in the last complete metadata read; that read is this cycle's own whenever this
   cycle's refresh completed (asked_exactly_leaders_refreshed).  So the staleness of the asked set is exactly "since
   the last complete refresh", and since a leaderless partition does not force the next refresh (refuted above) that
   is bounded only by the metadata ticker.  With `module.fetchMetadata = true` at :180 it would be one cycle. *)
Theorem current_leader_asked_iff_known l en b t p :
  In en (trace init_state None l) -> e_leader (en_env en) t p = Good b ->
  (In (b, t, p) (co_asks (en_out en)) <->
   exists ge ts ps, ghost_now en = Some ge /\ e_topics ge = Good ts /\ In t ts /\ e_parts ge t = Good ps
     /\ In p ps /\ has_leader ge t p = true).
Proof.
  intros Hin Hl. destruct (asked_exactly_leaders_run l en Hin) as [Hiff _]. rewrite Hiff. split.
  - intros [ge [ts [ps [H1 [H2 [H3 [H4 [H5 [H6 _]]]]]]]]]. exists ge, ts, ps. auto 10.
  - intros [ge [ts [ps [H1 [H2 [H3 [H4 [H5 H6]]]]]]]]. exists ge, ts, ps. auto 10.
Qed.

(* the one-cycle characterisation says the same about the flag: a Leader failure during the refresh is no cause *)
Theorem unknown_leader_at_refresh_sets_no_flag :
  exists st e o, wf st /\ cycle st e = Done o /\ unknown_leader_at_refresh st e /\ fetchMetadata (co_state o) = false.
Proof.
  exists init_state, (aud_e Fail). eexists. split; [apply wf_init|]. split; [vm_compute; reflexivity|]. split.
  - exists [1], 1, [0; 1], 1. repeat split; try (vm_compute; reflexivity); simpl; auto.
  - reflexivity.
Qed.

(* The repair the audit proposes (module.fetchMetadata = true in the branch at :180), as a model: NOT what HEAD does
   (the existing unit test TestKafkaCluster_maybeUpdateMetadataAndDeleteTopics_PartialUpdate pins the cleared flag, so
   the repair is not applied; see design_notes/C11.md).  With it an unknown leader at the refresh sets the flag, i.e.
   the next cycle re-reads and the asked set is at most one cycle stale. *)
Fixpoint refresh_unknown (e : env) (ts : list Z) : bool :=
  match ts with
  | [] => false
  | t :: r => match e_parts e t with
              | Fail => false                               (* early return: later topics are not looked at *)
              | Good ps => existsb (fun p => negb (has_leader e t p)) ps || refresh_unknown e r
              end
  end.

Definition cycle_repaired (st : state) (e : env) : outcome cycle_out :=
  match cycle st e with
  | Crash => Crash
  | Done o =>
      let seen := fetchMetadata st && match e_topics e with Good ts => refresh_unknown e ts | Fail => false end in
      Done (mkOut (mkState (fetchMetadata (co_state o) || seen) (snap (co_state o))) (co_asks o) (co_updates o) (co_deletes o))
  end.

Lemma refresh_unknown_complete e ts t ps p :
  (forall t', In t' ts -> topic_info e t' <> None) ->
  In t ts -> e_parts e t = Good ps -> In p ps -> e_leader e t p = Fail -> refresh_unknown e ts = true.
Proof.
  intros Hall Hin Hps Hp Hl. induction ts as [|a r IH]; [contradiction|]. simpl.
  destruct (e_parts e a) as [psa|] eqn:Ea.
  - destruct Hin as [->|Hin].
    + rewrite Hps in Ea. inversion Ea; subst psa. apply orb_true_iff. left. apply existsb_exists. exists p.
      split; auto. unfold has_leader. rewrite Hl. reflexivity.
    + apply orb_true_iff. right. apply IH; auto. intros t' Ht'. apply Hall. right. auto.
  - exfalso. apply (Hall a (or_introl eq_refl)). unfold topic_info. rewrite Ea. reflexivity.
Qed.

Theorem repaired_unknown_at_refresh_sets_flag st e o :
  cycle_repaired st e = Done o -> unknown_leader_at_refresh st e -> fetchMetadata (co_state o) = true.
Proof.
  unfold cycle_repaired. destruct (cycle st e) as [o0|]; [|discriminate]. intros H. inversion H; subst o. clear H.
  intros [ts [t [ps [p [Hr [Hin [Hps [Hp Hl]]]]]]]]. cbn [co_state fetchMetadata].
  apply refreshed_some in Hr as [Hf [Ht [new Hb]]]. rewrite Hf, Ht. cbn [andb].
  apply orb_true_iff. right. eapply refresh_unknown_complete; eauto.
  intros t' Ht'. apply (build_some _ _ _ Hb). auto.
Qed.

Example repaired_aud_ex :
  match cycle_repaired init_state (aud_e Fail) with Done o => fetchMetadata (co_state o) | Crash => false end = true.
Proof. vm_compute. reflexivity. Qed.

(* ---------------------------------------------------------------------------------------------
   runs in worlds outside leader_stable / answers_match_asks (added 2026-10-02, appended): the ghost, the
   invariant and the run-level forms of C11's clauses 1-3 for xrun, by induction over the cycle list
   --------------------------------------------------------------------------------------------- *)
Record xentry := mkXentry {
  xn_pre   : state;        (* state at the call of getOffsets (after the ticker) *)
  xn_env   : xenv;
  xn_ghost : option env;   (* the last completely refreshed environment before this cycle *)
  xn_out   : cycle_out
}.

(* the refresh only consults x_env (Topics, Partitions, Leader at :179): the ghost moves as in `trace` *)
Fixpoint xtrace (st : state) (g : option env) (l : list (bool * xenv)) : list xentry :=
  match l with
  | [] => []
  | (tk, x) :: r =>
      let st1 := tick tk st in
      match xcycle st1 x with
      | Crash => []
      | Done o => mkXentry st1 x g o :: xtrace (co_state o) (ghost_next st1 (x_env x) g) r
      end
  end.

Definition xghost_now (en : xentry) : option env := ghost_next (xn_pre en) (x_env (xn_env en)) (xn_ghost en).

(* the invariant only looks at the snapshot: whatever sets the flag, a state whose snapshot is the one
   maybe_refresh leaves satisfies it for the moved ghost *)
Lemma inv_after_refresh st g e st' :
  inv st g -> snap st' = fst (maybe_refresh st e) -> inv st' (ghost_next st e g).
Proof.
  intros [Hw [Hok Hf]] Hs. split; [unfold wf; rewrite Hs; apply refresh_wf; auto|].
  rewrite Hs. unfold ghost_next.
  destruct (refreshed st e) as [ts|] eqn:Er.
  - destruct (maybe_refresh_done _ _ _ Er) as [new [Hb ->]]. cbn [fst].
    destruct (build_some _ _ _ Hb) as [_ [Hin Hout]].
    apply refreshed_some in Er as [_ [Ht _]].
    split.
    + intros t Hin'. rewrite (ghost_find_env _ _ _ Ht). unfold ghost_topics in Hin'. rewrite Ht in Hin'.
      destruct (in_dec Z.eq_dec t ts); [|contradiction]. apply Hin. auto.
    + intros t. rewrite (ghost_find_env _ _ _ Ht). destruct (in_dec Z.eq_dec t ts) as [H|H].
      * apply Hin. auto.
      * apply Hout. auto.
  - rewrite (maybe_refresh_not _ _ Er). cbn [fst]. auto.
Qed.

Lemma inv_xcycle st g x o :
  inv st g -> xcycle st x = Done o -> inv (co_state o) (ghost_next st (x_env x) g).
Proof.
  intros Hi Hc. apply inv_after_refresh; auto. apply xcycle_done in Hc as [Hs _]. exact Hs.
Qed.

Lemma xtrace_inv l : forall st g en,
  inv st g -> In en (xtrace st g l) ->
  inv (xn_pre en) (xn_ghost en) /\ xcycle (xn_pre en) (xn_env en) = Done (xn_out en).
Proof.
  induction l as [|[tk x] r IH]; simpl; intros st g en Hi Hin; [contradiction|].
  destruct (xcycle (tick tk st) x) as [o|] eqn:Ec; [|contradiction].
  destruct Hin as [<-|Hin].
  - simpl. split; [apply inv_tick; auto | auto].
  - eapply IH; [|exact Hin]. eapply inv_xcycle; [apply inv_tick; eauto | auto].
Qed.

Lemma xentry_post_inv l en :
  In en (xtrace init_state None l) -> inv (co_state (xn_out en)) (xghost_now en).
Proof.
  intros Hin. destruct (xtrace_inv _ _ _ _ inv_init Hin) as [Hi Hc]. eapply inv_xcycle; eauto.
Qed.

(* xrun (what the driver prints for the sc3 cases) is xtrace without the ghosts, plus the crash *)
Theorem xrun_is_xtrace l : forall st g,
  exists tail,
    xrun st l = map (fun en => (fetchMetadata (xn_pre en), Done (xn_out en))) (xtrace st g l) ++ tail
    /\ (tail = [] \/ exists f, tail = [(f, Crash)]).
Proof.
  induction l as [|[tk x] r IH]; simpl; intros st g.
  - exists []. auto.
  - destruct (xcycle (tick tk st) x) as [o|] eqn:Ec.
    + destruct (IH (co_state o) (ghost_next (tick tk st) (x_env x) g)) as [tail [H1 H2]].
      exists tail. simpl. rewrite H1. auto.
    + exists [(fetchMetadata (tick tk st), Crash)]. simpl. eauto.
Qed.

(* on worlds with both hypotheses xtrace is trace *)
Theorem xtrace_plain l : forall st g,
  map (fun en => (xn_pre en, xn_ghost en, xn_out en)) (xtrace st g (map (fun x => (fst x, plain (snd x))) l))
  = map (fun en => (en_pre en, en_ghost en, en_out en)) (trace st g l).
Proof.
  induction l as [|[tk e] r IH]; simpl; intros st g; auto. rewrite xcycle_plain.
  destruct (cycle (tick tk st) e) as [o|]; simpl; [rewrite IH|]; reflexivity.
Qed.

(* XR.1 (clause 1 over runs, no environment hypothesis).  In every cycle of every run of xrun: (t, p) is in broker b's
   request iff t was listed and p was one of its partitions WITH A LEADER in the last complete metadata read (this
   cycle's if it completed), and b is the broker Leader names at the REQUEST SITE (:219) of this cycle.  No block twice,
   never two brokers for one partition. *)
Theorem xasked_run l en :
  In en (xtrace init_state None l) ->
  (forall b t p, In (b, t, p) (co_asks (xn_out en)) <->
     exists ge ts ps, xghost_now en = Some ge /\ e_topics ge = Good ts /\ In t ts /\ e_parts ge t = Good ps
       /\ In p ps /\ has_leader ge t p = true /\ x_leader_req (xn_env en) t p = Good b)
  /\ NoDup (co_asks (xn_out en))
  /\ (forall b b' t p, In (b, t, p) (co_asks (xn_out en)) -> In (b', t, p) (co_asks (xn_out en)) -> b = b').
Proof.
  intros Hin. destruct (xtrace_inv _ _ _ _ inv_init Hin) as [Hi Hc].
  destruct (xentry_post_inv _ _ Hin) as [_ [_ Hf]].
  destruct (xasked_exactly _ _ _ (proj1 Hi) Hc) as [Hiff Hn].
  assert (Hrun : forall b t p, In (b, t, p) (co_asks (xn_out en)) <->
     exists ge ts ps, xghost_now en = Some ge /\ e_topics ge = Good ts /\ In t ts /\ e_parts ge t = Good ps
       /\ In p ps /\ has_leader ge t p = true /\ x_leader_req (xn_env en) t p = Good b).
  { intros b t p. rewrite Hiff. split.
    - intros [i [Hfi [Hp Hl]]]. rewrite Hf in Hfi.
      apply ghost_find_some in Hfi as [ge [ts [ps [H1 [H2 [H3 [H4 ->]]]]]]].
      simpl in Hp. apply filter_In in Hp as [Hp Hh]. exists ge, ts, ps. auto 10.
    - intros [ge [ts [ps [H1 [H2 [H3 [H4 [H5 [H6 H7]]]]]]]]]. eexists. rewrite Hf. split.
      + apply ghost_find_some. exists ge, ts, ps. auto 10.
      + simpl. split; auto. apply filter_In. auto. }
  split; [exact Hrun|]. split; [exact Hn|].
  intros b b' t p H1 H2. apply Hrun in H1 as [? [? [? [_ [_ [_ [_ [_ [_ H1]]]]]]]]].
  apply Hrun in H2 as [? [? [? [_ [_ [_ [_ [_ [_ H2]]]]]]]]]. congruence.
Qed.

Lemma existsb_ask_eqb_true a asks : In a asks -> existsb (ask_eqb a) asks = true.
Proof.
  intros H. apply existsb_exists. exists a. split; auto. unfold ask_eqb. destruct (ask_eq_dec a a); congruence.
Qed.

Lemma x_ask_update_eq x s a :
  x_ask_update x s a = if x_omit x (fst (fst a)) (snd (fst a)) (snd a) then [] else ask_update (x_env x) s a.
Proof.
  unfold x_ask_update, x_ask_result, ask_update. destruct (x_omit x (fst (fst a)) (snd (fst a)) (snd a)); reflexivity.
Qed.

(* the two ways a block of a response of THIS cycle can be behind an update *)
Definition answered_asked (x : xenv) (o : cycle_out) (t p off : Z) : Prop :=
  exists b ans rest, In (b, t, p) (co_asks o) /\ x_omit x b t p = false
    /\ e_answer (x_env x) b = Good ans /\ ans t p = (0, off :: rest).
Definition answered_unasked (x : xenv) (o : cycle_out) (t p off : Z) : Prop :=
  exists b t' p' ans rest, In (b, t', p') (co_asks o) /\ e_answer (x_env x) b = Good ans
    /\ In (t, p, (0, off :: rest)) (x_extra x b) /\ ~ In (b, t, p) (co_asks o).

(* one cycle: the updates are exactly the successful blocks of the responses that arrived *)
Lemma xupdate_iff st x o :
  xcycle st x = Done o ->
  forall t p off c, In (t, p, off, c) (co_updates o) <->
    (answered_asked x o t p off \/ answered_unasked x o t p off) /\ c = count_of (snap (co_state o)) t.
Proof.
  intros Hc t p off c. pose proof (xcycle_done _ _ _ Hc) as [Hs [Ha [Hupd _]]].
  set (s := fst (maybe_refresh st (x_env x))) in *. set (asks := gen_asks (env_req x) s) in *.
  split.
  - intros Hu. rewrite Hupd in Hu. apply in_app_or in Hu as [Hu|Hu].
    + apply in_flat_map in Hu as [[[b t'] p'] [Hin Hu]]. rewrite x_ask_update_eq in Hu. cbn [fst snd] in Hu.
      destruct (x_omit x b t' p') eqn:Eo; [contradiction|].
      apply ask_update_in in Hu as [ans [off' [rest [H1 [H2 H3]]]]]. cbn [fst snd] in *. inversion H3; subst t' p' off' c.
      split; [|rewrite Hs; reflexivity]. left. exists b, ans, rest. rewrite Ha. auto.
    + apply in_flat_map in Hu as [[[t' p'] br] [Hr Hu]]. unfold extra_update in Hu. cbn [fst snd] in Hu.
      destruct br as [o'| |]; try contradiction. destruct Hu as [Hu|[]]. inversion Hu; subst t' p' o' c.
      split; [|rewrite Hs; reflexivity]. right.
      unfold extra_results in Hr. apply in_flat_map in Hr as [b [Hb Hr]].
      destruct (e_answer (x_env x) b) as [ans|] eqn:Eans; [|contradiction].
      apply in_map_iff in Hr as [[[t' p'] [err offs]] [Heq Hf]]. cbn [fst snd] in Heq.
      apply filter_In in Hf as [Hex Hnot]. cbn [fst snd] in Hnot.
      inversion Heq as [[Ht Hp Hbr]]. subst t' p'.
      unfold block_result_of in Hbr. destruct (err =? 0) eqn:Eerr; [|discriminate].
      apply Z.eqb_eq in Eerr. subst err. destruct offs as [|o1 rest]; [discriminate|]. inversion Hbr; subst o1.
      unfold asked_brokers in Hb. apply nodup_In in Hb. apply in_map_iff in Hb as [[[b0 t0] p0] [Hb0 Hin0]].
      cbn [fst] in Hb0. subst b0.
      exists b, t0, p0, ans, rest. rewrite Ha. repeat split; auto.
      intros Hin. rewrite (existsb_ask_eqb_true _ _ Hin) in Hnot. discriminate.
  - intros [[HA|HB] ->].
    + destruct HA as [b [ans [rest [Hin [Ho [Hans Hblk]]]]]]. rewrite Hupd. apply in_or_app. left.
      apply in_flat_map. exists (b, t, p). split; [rewrite <- Ha; exact Hin|].
      rewrite x_ask_update_eq. cbn [fst snd]. rewrite Ho. apply ask_update_in. exists ans, off, rest.
      cbn [fst snd]. rewrite Hs. auto.
    + destruct HB as [b [t' [p' [ans [rest [Hin [Hans [Hex Hnot]]]]]]]].
      eapply xunasked_block_update; eauto.
Qed.

(* XR.2 (clauses 2 and 3 over runs, no environment hypothesis).  In every cycle of every run of xrun an update
   (t, p, off, c) is emitted iff a response of THIS cycle holds a successful block for (t, p) with first offset off --
   an asked block the broker did not omit, or a block nobody asked for in a response that arrived -- and c is the number
   of partitions of t in the last complete metadata read (0 when that read did not list t).  So: no update without an
   answer of this cycle, none for an error block (a block with an error code is not (0, _)), none for a failed call,
   nothing invented or carried over from an earlier cycle. *)
Theorem xupdate_run l en :
  In en (xtrace init_state None l) ->
  forall t p off c, In (t, p, off, c) (co_updates (xn_out en)) <->
    (answered_asked (xn_env en) (xn_out en) t p off \/ answered_unasked (xn_env en) (xn_out en) t p off)
    /\ ((exists ge ts ps, xghost_now en = Some ge /\ e_topics ge = Good ts /\ In t ts /\ e_parts ge t = Good ps
          /\ c = Z.of_nat (length ps))
        \/ (ghost_find (xghost_now en) t = None /\ c = 0)).
Proof.
  intros Hin t p off c. destruct (xtrace_inv _ _ _ _ inv_init Hin) as [Hi Hc].
  destruct (xentry_post_inv _ _ Hin) as [_ [_ Hf]].
  rewrite (xupdate_iff _ _ _ Hc). unfold count_of. rewrite Hf.
  split; intros [HAB Hcnt]; (split; [exact HAB|]).
  - destruct (ghost_find (xghost_now en) t) as [i|] eqn:Eg.
    + left. apply ghost_find_some in Eg as [ge [ts [ps [H1 [H2 [H3 [H4 ->]]]]]]]. exists ge, ts, ps. cbn in Hcnt. auto 10.
    + right. auto.
  - destruct Hcnt as [[ge [ts [ps [H1 [H2 [H3 [H4 ->]]]]]]]|[Hn ->]].
    + assert (ghost_find (xghost_now en) t = Some (mkTinfo (filter (has_leader ge t) ps) (Z.of_nat (length ps)))) as ->.
      { apply ghost_find_some. exists ge, ts, ps. auto. }
      reflexivity.
    + rewrite Hn. reflexivity.
Qed.

(* consequences spelled out: an error block, a failed call and an omitted block give no update *)
Corollary xno_update_without_answer l en t p :
  In en (xtrace init_state None l) ->
  (forall b, In (b, t, p) (co_asks (xn_out en)) ->
     x_omit (xn_env en) b t p = true
     \/ e_answer (x_env (xn_env en)) b = Fail
     \/ exists ans, e_answer (x_env (xn_env en)) b = Good ans /\ fst (ans t p) <> 0) ->
  (forall b, ~ exists err offs, In (t, p, (err, offs)) (x_extra (xn_env en) b)) ->
  forall off c, ~ In (t, p, off, c) (co_updates (xn_out en)).
Proof.
  intros Hin Hask Hext off c Hu. apply (xupdate_run _ _ Hin) in Hu as [[HA|HB] _].
  - destruct HA as [b [ans [rest [Ha [Ho [Hans Hblk]]]]]].
    destruct (Hask b Ha) as [H|[H|[ans' [H1 H2]]]]; [congruence | congruence |].
    rewrite Hans in H1. inversion H1; subst ans'. rewrite Hblk in H2. cbn in H2. contradiction.
  - destruct HB as [b [t' [p' [ans [rest [_ [_ [Hex _]]]]]]]]. apply (Hext b). eauto.
Qed.

(* non-vacuity: a run whose worlds violate BOTH hypotheses.
   cycle 0 (tick): topic 1 = {p0@b1, p1@b1} at the refresh; in generateOffsetRequests Leader(1,1) FAILS (not stable);
                   broker 1 adds a block for the unknown topic 9 (answers do not match asks).
   cycle 1 (no tick, flag set by the unknown leader): the refresh sees p1@b1 again, the request site names b2 for p1;
                   broker 1 OMITS its asked block (1,0), broker 2 adds a block for (1, 50). *)
Definition xr_rows (lr1 : call Z) (om0 : bool) : list xtrow :=
  [ mkXtrow 1 true [ mkXprow (mkProw 0 (Good 1) 0 [10]) (Good 1) om0;
                     mkXprow (mkProw 1 (Good 1) 0 [20]) lr1 false ] ].
Definition xr_run : list (bool * xenv) :=
  [ (true,  xenv_of_tables (Good [1]) (xr_rows Fail false) [] [(1, 9, 0, 0, [77])]);
    (false, xenv_of_tables (Good [1]) (xr_rows (Good 2) true) [] [(2, 1, 50, 0, [88])]) ].

Example xr_run_violates_both :
  forall x, In x (map snd xr_run) -> ~ leader_stable x /\ ~ answers_match_asks x.
Proof.
  intros x [<-|[<-|[]]]; split.
  - intros H. specialize (H 1 1). vm_compute in H. discriminate.
  - intros [_ H]. specialize (H 1). vm_compute in H. discriminate.
  - intros H. specialize (H 1 1). vm_compute in H. discriminate.
  - intros [H _]. specialize (H 1 1 0). vm_compute in H. discriminate.
Qed.

Example xr_run_ex :
  map (fun en => (fetchMetadata (xn_pre en), fetchMetadata (co_state (xn_out en)), co_asks (xn_out en), co_updates (xn_out en)))
      (xtrace init_state None xr_run)
  = [ (true, true, [(1, 1, 0)], [(1, 0, 10, 2); (9, 0, 77, 0)]);
      (true, false, [(1, 1, 0); (2, 1, 1)], [(1, 1, 20, 2); (1, 50, 88, 2)]) ].
Proof. vm_compute. reflexivity. Qed.

Example xr_run_is_xrun :
  xrun init_state xr_run
  = map (fun en => (fetchMetadata (xn_pre en), Done (xn_out en))) (xtrace init_state None xr_run).
Proof. vm_compute. reflexivity. Qed.
