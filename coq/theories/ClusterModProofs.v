(* Theorems about the cluster-module model (C11, C12): every statement is for all environments (layouts, fault
   patterns) and, through `trace`, for any number of consecutive cycles. *)
From Coq Require Import ZArith List Bool Lia.
From Burrow Require Import ClusterMod.
Import ListNotations.
Open Scope Z_scope.

(* ---------------------------------------------------------------------------------------------
   generic list facts
   --------------------------------------------------------------------------------------------- *)
Lemma NoDup_app_intro {A} (l1 l2 : list A) :
  NoDup l1 -> NoDup l2 -> (forall x, In x l1 -> ~ In x l2) -> NoDup (l1 ++ l2).
Proof.
  induction l1 as [|a l1 IH]; simpl; intros H1 H2 H; auto.
  inversion H1; subst. constructor.
  - rewrite in_app_iff. intros [?|?]; [contradiction|]. eapply H; eauto.
  - apply IH; auto.
Qed.

Lemma NoDup_map_inj_on {A B} (f : A -> B) (l : list A) :
  NoDup l -> (forall x y, In x l -> In y l -> f x = f y -> x = y) -> NoDup (map f l).
Proof.
  induction l as [|a l IH]; simpl; intros Hn Hi; [constructor|].
  inversion Hn; subst. constructor.
  - rewrite in_map_iff. intros [y [Hy Hin]].
    assert (y = a) by (apply Hi; auto). subst. contradiction.
  - apply IH; auto.
Qed.

(* a flat_map that yields, per element, a duplicate-free handful of items all carrying that element's key *)
Lemma NoDup_flat_map_keyed {A B K} (f : A -> list B) (key : B -> K) (g : A -> K) (l : list A) :
  NoDup (map g l) ->
  (forall x, In x l -> NoDup (map key (f x))) ->
  (forall x u, In x l -> In u (f x) -> key u = g x) ->
  NoDup (map key (flat_map f l)).
Proof.
  induction l as [|a l IH]; simpl; intros Hn Hd Hk; [constructor|].
  inversion Hn; subst. rewrite map_app. apply NoDup_app_intro.
  - apply Hd; auto.
  - apply IH; auto.
  - intros k Hin1 Hin2. apply in_map_iff in Hin1 as [u [Hu Hin1]].
    apply in_map_iff in Hin2 as [v [Hv Hin2]].
    apply in_flat_map in Hin2 as [x [Hx Hin2]].
    apply H1. apply in_map_iff. exists x. split; auto.
    rewrite <- (Hk x v), Hv, <- Hu; auto.
Qed.

(* ---------------------------------------------------------------------------------------------
   the Go map
   --------------------------------------------------------------------------------------------- *)
Lemma smap_find_set_eq t v s : smap_find t (smap_set t v s) = Some v.
Proof.
  induction s as [|[k w] r IH]; simpl.
  - rewrite Z.eqb_refl. reflexivity.
  - destruct (k =? t) eqn:E; simpl; rewrite E; auto.
Qed.

Lemma smap_find_set_neq t u v s : t <> u -> smap_find u (smap_set t v s) = smap_find u s.
Proof.
  intros Hne. induction s as [|[k w] r IH]; simpl.
  - destruct (t =? u) eqn:E; auto. apply Z.eqb_eq in E. contradiction.
  - destruct (k =? t) eqn:E; simpl.
    + apply Z.eqb_eq in E. subst. reflexivity.
    + rewrite IH. reflexivity.
Qed.

Lemma keys_set t v s x : In x (keys (smap_set t v s)) <-> x = t \/ In x (keys s).
Proof.
  unfold keys. induction s as [|[k w] r IH]; simpl.
  - intuition.
  - destruct (k =? t) eqn:E; simpl.
    + apply Z.eqb_eq in E. subst. intuition.
    + rewrite IH. intuition.
Qed.

Lemma NoDup_keys_set t v s : NoDup (keys s) -> NoDup (keys (smap_set t v s)).
Proof.
  unfold keys. induction s as [|[k w] r IH]; simpl; intros Hn.
  - constructor; auto.
  - inversion Hn; subst. destruct (k =? t) eqn:E; simpl.
    + constructor; auto.
    + constructor; auto. intros Hin. apply (keys_set t v r k) in Hin.
      destruct Hin as [->|Hin]; [rewrite Z.eqb_refl in E; discriminate | contradiction].
Qed.

Lemma find_none_keys t s : smap_find t s = None <-> ~ In t (keys s).
Proof.
  unfold keys. induction s as [|[k w] r IH]; simpl.
  - intuition.
  - destruct (k =? t) eqn:E.
    + apply Z.eqb_eq in E. subst. split; [discriminate | intros H; exfalso; apply H; auto].
    + apply Z.eqb_neq in E. rewrite IH. intuition.
Qed.

Lemma find_some_keys t s : (exists i, smap_find t s = Some i) <-> In t (keys s).
Proof.
  destruct (smap_find t s) eqn:E.
  - split; [intros _ | intros _; eauto].
    destruct (in_dec Z.eq_dec t (keys s)) as [H|H]; auto.
    apply find_none_keys in H. congruence.
  - split; [intros [i Hi]; discriminate | intros H]. apply find_none_keys in E. contradiction.
Qed.

Lemma find_in t i s : smap_find t s = Some i -> In (t, i) s.
Proof.
  induction s as [|[k w] r IH]; simpl; [discriminate|].
  destruct (k =? t) eqn:E; intros H.
  - apply Z.eqb_eq in E. inversion H; subst. auto.
  - auto.
Qed.

Lemma in_find t i s : NoDup (keys s) -> In (t, i) s -> smap_find t s = Some i.
Proof.
  unfold keys. induction s as [|[k w] r IH]; simpl; intros Hn Hin; [contradiction|].
  inversion Hn; subst. destruct Hin as [Heq|Hin].
  - inversion Heq; subst. rewrite Z.eqb_refl. reflexivity.
  - destruct (k =? t) eqn:E.
    + apply Z.eqb_eq in E. subst. exfalso. apply H1. apply in_map_iff. exists (t, i). auto.
    + auto.
Qed.

Lemma smap_mem_true t s : smap_mem t s = true <-> In t (keys s).
Proof.
  unfold smap_mem. rewrite <- find_some_keys. destruct (smap_find t s); split; eauto; try discriminate.
  intros [i Hi]. discriminate.
Qed.

(* ---------------------------------------------------------------------------------------------
   the refresh
   --------------------------------------------------------------------------------------------- *)
Lemma build_some e ts s :
  build_snapshot e ts = Some s ->
  NoDup (keys s)
  /\ (forall t, In t ts -> smap_find t s = topic_info e t /\ topic_info e t <> None)
  /\ (forall t, ~ In t ts -> smap_find t s = None).
Proof.
  revert s. induction ts as [|a r IH]; simpl; intros s H.
  - inversion H; subst. repeat split; try constructor; intros; simpl in *; tauto.
  - destruct (topic_info e a) as [i|] eqn:Ei; [|discriminate].
    destruct (build_snapshot e r) as [s0|] eqn:Eb; [|discriminate].
    inversion H; subst. destruct (IH s0 eq_refl) as [Hn [Hin Hout]].
    split; [apply NoDup_keys_set; auto|]. split.
    + intros t Ht. destruct (Z.eq_dec a t) as [->|Hne].
      * rewrite smap_find_set_eq, Ei. split; [reflexivity | discriminate].
      * rewrite smap_find_set_neq by auto. destruct Ht as [?|Ht]; [contradiction|]. auto.
    + intros t Ht. rewrite smap_find_set_neq by (intros ->; apply Ht; auto). apply Hout. tauto.
Qed.

Lemma build_none e ts :
  build_snapshot e ts = None <-> exists t, In t ts /\ topic_info e t = None.
Proof.
  induction ts as [|a r IH]; simpl.
  - split; [discriminate | intros [t [[] _]]].
  - destruct (topic_info e a) as [i|] eqn:Ei.
    + destruct (build_snapshot e r) as [s0|] eqn:Eb.
      * split; [discriminate|]. intros [t [[->|Ht] Hn]]; [congruence|].
        assert (@None snapshot = None) as _ by reflexivity.
        destruct IH as [_ IH]. discriminate IH. eauto.
      * split; [intros _ | reflexivity]. destruct IH as [IH _]. destruct (IH eq_refl) as [t [Ht Hn]]. eauto.
    + split; [intros _; eauto | reflexivity].
Qed.

Lemma topic_info_none e t : topic_info e t = None <-> e_parts e t = Fail.
Proof. unfold topic_info. destruct (e_parts e t); split; congruence. Qed.

Lemma refreshed_some st e ts :
  refreshed st e = Some ts <->
  fetchMetadata st = true /\ e_topics e = Good ts /\ exists new, build_snapshot e ts = Some new.
Proof.
  unfold refreshed. destruct (fetchMetadata st); [|split; [discriminate | intros [? _]; discriminate]].
  destruct (e_topics e) as [ts'|]; [|split; [discriminate | intros [_ [? _]]; discriminate]].
  destruct (build_snapshot e ts') as [new|] eqn:Eb.
  - split.
    + intros H; inversion H; subst. eauto.
    + intros [_ [H _]]. inversion H; subst. reflexivity.
  - split; [discriminate|]. intros [_ [H [new Hn]]]. inversion H; subst. congruence.
Qed.

(* maybe_refresh in terms of `refreshed` *)
Lemma maybe_refresh_done st e ts :
  refreshed st e = Some ts ->
  exists new, build_snapshot e ts = Some new /\ maybe_refresh st e = (new, deletions (snap st) new).
Proof.
  intros H. apply refreshed_some in H as [Hf [Ht [new Hn]]].
  exists new. split; auto. unfold maybe_refresh. rewrite Hf, Ht, Hn. reflexivity.
Qed.

Lemma maybe_refresh_not st e :
  refreshed st e = None -> maybe_refresh st e = (snap st, []).
Proof.
  unfold refreshed, maybe_refresh. destruct (fetchMetadata st); auto.
  destruct (e_topics e); auto. destruct (build_snapshot e a); [discriminate | auto].
Qed.

Lemma deletions_in old new t :
  In t (deletions old new) <-> In t (keys old) /\ smap_find t new = None.
Proof.
  unfold deletions. rewrite filter_In. rewrite negb_true_iff.
  unfold smap_mem. destruct (smap_find t new); intuition congruence.
Qed.

Lemma deletions_nodup old new : NoDup (keys old) -> NoDup (deletions old new).
Proof. intros. apply NoDup_filter. auto. Qed.

(* ---------------------------------------------------------------------------------------------
   one cycle, unfolded
   --------------------------------------------------------------------------------------------- *)
Lemma cycle_done st e o :
  cycle st e = Done o ->
  let s := fst (maybe_refresh st e) in
  snap (co_state o) = s
  /\ co_asks o = gen_asks e s
  /\ co_updates o = flat_map (ask_update e s) (gen_asks e s)
  /\ co_deletes o = snd (maybe_refresh st e)
  /\ fetchMetadata (co_state o) = (leader_failed e s || existsb (is_error e) (gen_asks e s))
  /\ existsb (is_crash e) (gen_asks e s) = false.
Proof.
  unfold cycle. destruct (maybe_refresh st e) as [s dels]. simpl.
  destruct (existsb (is_crash e) (gen_asks e s)) eqn:Ec; [discriminate|].
  intros H. inversion H; subst. simpl. auto 10.
Qed.

Definition wf (st : state) : Prop := NoDup (keys (snap st)).

Lemma wf_init : wf init_state.
Proof. constructor. Qed.

Lemma wf_tick tk st : wf st -> wf (tick tk st).
Proof. unfold wf, tick. destruct tk; auto. Qed.

Lemma refresh_wf st e : wf st -> NoDup (keys (fst (maybe_refresh st e))).
Proof.
  intros Hw. destruct (refreshed st e) as [ts|] eqn:Er.
  - destruct (maybe_refresh_done _ _ _ Er) as [new [Hb ->]]. simpl. apply (build_some _ _ _ Hb).
  - rewrite (maybe_refresh_not _ _ Er). auto.
Qed.

Lemma cycle_wf st e o : wf st -> cycle st e = Done o -> wf (co_state o).
Proof.
  intros Hw Hc. apply cycle_done in Hc as [Hs _]. unfold wf. rewrite Hs. apply refresh_wf; auto.
Qed.

(* ---------------------------------------------------------------------------------------------
   C11, one cycle
   --------------------------------------------------------------------------------------------- *)
Lemma gen_asks_in e s b t p :
  NoDup (keys s) ->
  (In (b, t, p) (gen_asks e s) <->
   exists i, smap_find t s = Some i /\ In p (ti_ids i) /\ e_leader e t p = Good b).
Proof.
  intros Hn. unfold gen_asks. rewrite nodup_In, in_flat_map. split.
  - intros [[t' i] [Hin Ha]]. simpl in Ha. unfold topic_asks in Ha.
    apply in_flat_map in Ha as [p' [Hp Ha]].
    destruct (e_leader e t' p') as [b'|] eqn:El; simpl in Ha; [|contradiction].
    destruct Ha as [Ha|[]]. inversion Ha; subst.
    exists i. split; [apply in_find; auto | auto].
  - intros [i [Hf [Hp Hl]]]. exists (t, i). split; [apply find_in; auto|].
    simpl. unfold topic_asks. apply in_flat_map. exists p. split; auto. rewrite Hl. simpl. auto.
Qed.

(* C11.1  Each partition the module knows to have a leader is asked of exactly its current leader and of nobody
   else; a partition whose leader lookup fails, and every leaderless partition, is in no request.  No block twice. *)
Theorem asked_exactly_leaders st e o :
  wf st -> cycle st e = Done o ->
  (forall b t p, In (b, t, p) (co_asks o) <->
     exists i, smap_find t (snap (co_state o)) = Some i /\ In p (ti_ids i) /\ e_leader e t p = Good b)
  /\ NoDup (co_asks o)
  /\ (forall b b' t p, In (b, t, p) (co_asks o) -> In (b', t, p) (co_asks o) -> b = b').
Proof.
  intros Hw Hc. pose proof (refresh_wf st e Hw) as Hn.
  apply cycle_done in Hc as [Hs [Ha _]]. rewrite Hs, Ha.
  split; [intros; apply gen_asks_in; auto|]. split; [apply NoDup_nodup|].
  intros b b' t p H1 H2. apply gen_asks_in in H1 as [i [_ [_ H1]]]; auto.
  apply gen_asks_in in H2 as [i' [_ [_ H2]]]; auto. congruence.
Qed.

(* ... and on a cycle whose refresh ran to completion that is: exactly the partitions that have a leader now *)
Theorem asked_exactly_leaders_refreshed st e o ts :
  wf st -> cycle st e = Done o -> refreshed st e = Some ts ->
  forall b t p, In (b, t, p) (co_asks o) <->
    In t ts /\ exists ps, e_parts e t = Good ps /\ In p ps /\ e_leader e t p = Good b.
Proof.
  intros Hw Hc Hr b t p. destruct (asked_exactly_leaders _ _ _ Hw Hc) as [Hiff _]. rewrite Hiff.
  apply cycle_done in Hc as [Hs _]. rewrite Hs.
  destruct (maybe_refresh_done _ _ _ Hr) as [new [Hb ->]]. simpl.
  destruct (build_some _ _ _ Hb) as [_ [Hin Hout]]. split.
  - intros [i [Hf [Hp Hl]]]. destruct (in_dec Z.eq_dec t ts) as [Ht|Ht]; [|rewrite Hout in Hf by auto; discriminate].
    split; auto. destruct (Hin t Ht) as [Hfi _]. rewrite Hfi in Hf. unfold topic_info in Hf.
    destruct (e_parts e t) as [ps|]; [|discriminate]. inversion Hf; subst. simpl in Hp.
    apply filter_In in Hp as [Hp _]. eauto.
  - intros [Ht [ps [Hps [Hp Hl]]]]. destruct (Hin t Ht) as [Hfi _].
    unfold topic_info in Hfi. rewrite Hps in Hfi. eexists. split; [exact Hfi|]. simpl. split; auto.
    apply filter_In. split; auto. unfold has_leader. rewrite Hl. reflexivity.
Qed.

Lemma ask_update_in e s a u :
  In u (ask_update e s a) <->
  exists ans off rest, e_answer e (fst (fst a)) = Good ans
    /\ ans (snd (fst a)) (snd a) = (0, off :: rest)
    /\ u = (snd (fst a), snd a, off, count_of s (snd (fst a))).
Proof.
  unfold ask_update, ask_result. destruct a as [[b t] p]. simpl.
  destruct (e_answer e b) as [ans|] eqn:Ea.
  - unfold block_result_of. destruct (ans t p) as [err offs] eqn:Eans.
    destruct (err =? 0) eqn:Eerr.
    + apply Z.eqb_eq in Eerr. subst. destruct offs as [|o r]; simpl.
      * split; [contradiction|]. intros [ans' [off [rest [H1 [H2 _]]]]]. inversion H1; subst. congruence.
      * split.
        -- intros [<-|[]]. exists ans, o, r. auto.
        -- intros [ans' [off [rest [H1 [H2 ->]]]]]. inversion H1; subst. rewrite Eans in H2. inversion H2; subst. auto.
    + apply Z.eqb_neq in Eerr. simpl. split; [contradiction|].
      intros [ans' [off [rest [H1 [H2 _]]]]]. inversion H1; subst. rewrite Eans in H2. inversion H2. contradiction.
  - simpl. split; [contradiction|]. intros [ans' [off [rest [H1 _]]]]. discriminate.
Qed.

Definition upd_key (u : update) : Z * Z := (fst (fst (fst u)), snd (fst (fst u))).
Definition ask_key (a : ask) : Z * Z := (snd (fst a), snd a).

(* C11.2  Updates and successful answers correspond one to one: a SetBrokerOffset (t, p, off, c) is emitted iff
   (t, p) was asked of broker b in THIS cycle, b's call succeeded, its block for (t, p) has ErrNoError and off is its
   first offset (so nothing stale, nothing fabricated), and c is the topic's total partition count in the snapshot;
   at most one update per (t, p). *)
Theorem answer_to_update st e o :
  wf st -> cycle st e = Done o ->
  (forall t p off c, In (t, p, off, c) (co_updates o) <->
     exists b ans rest, In (b, t, p) (co_asks o) /\ e_answer e b = Good ans
       /\ ans t p = (0, off :: rest) /\ c = count_of (snap (co_state o)) t)
  /\ NoDup (map upd_key (co_updates o)).
Proof.
  intros Hw Hc. destruct (asked_exactly_leaders _ _ _ Hw Hc) as [_ [Hnd Huniq]].
  apply cycle_done in Hc as [Hs [Ha [Hu _]]]. rewrite Hu, Hs. rewrite Ha in Hnd, Huniq. rewrite Ha. split.
  - intros t p off c. rewrite in_flat_map. split.
    + intros [[[b t'] p'] [Hin Hupd]]. apply ask_update_in in Hupd as [ans [off' [rest [H1 [H2 H3]]]]].
      simpl in *. inversion H3; subst. exists b, ans, rest. auto.
    + intros [b [ans [rest [Hin [H1 [H2 ->]]]]]]. exists (b, t, p). split; auto.
      apply ask_update_in. exists ans, off, rest. simpl. auto.
  - apply NoDup_flat_map_keyed with (g := ask_key).
    + apply NoDup_map_inj_on; auto. intros [[b t] p] [[b' t'] p'] H1 H2 Hk. unfold ask_key in Hk. simpl in Hk.
      inversion Hk; subst. f_equal. f_equal. eapply Huniq; eauto.
    + intros a _. unfold ask_update. destruct (ask_result e a) as [[| |]|]; simpl; repeat constructor; auto.
    + intros a u _ Hin. apply ask_update_in in Hin as [ans [off [rest [_ [_ ->]]]]]. reflexivity.
Qed.

(* C11.3  A failed broker call, a per-partition error code, or not being asked at all: no update for (t, p). *)
Theorem fault_no_update st e o b t p :
  wf st -> cycle st e = Done o ->
  (~ (exists b', In (b', t, p) (co_asks o)))
  \/ (In (b, t, p) (co_asks o) /\ e_answer e b = Fail)
  \/ (In (b, t, p) (co_asks o) /\ exists ans, e_answer e b = Good ans /\ fst (ans t p) <> 0) ->
  forall off c, ~ In (t, p, off, c) (co_updates o).
Proof.
  intros Hw Hc H off c Hin. destruct (asked_exactly_leaders _ _ _ Hw Hc) as [_ [_ Huniq]].
  apply (answer_to_update _ _ _ Hw Hc) in Hin as [b' [ans [rest [Hin [Ha [Hb _]]]]]].
  destruct H as [H|[[H1 H2]|[H1 [ans' [H2 H3]]]]].
  - apply H. eauto.
  - assert (b = b') by (eapply Huniq; eauto). subst. congruence.
  - assert (b = b') by (eapply Huniq; eauto). subst. rewrite Ha in H2. inversion H2; subst.
    rewrite Hb in H3. simpl in H3. contradiction.
Qed.

(* the two events that oblige a re-read of the metadata *)
Definition partition_error (e : env) (o : cycle_out) : Prop :=
  exists b t p ans, In (b, t, p) (co_asks o) /\ e_answer e b = Good ans /\ fst (ans t p) <> 0.
Definition unknown_leader (e : env) (o : cycle_out) : Prop :=
  exists t i p, smap_find t (snap (co_state o)) = Some i /\ In p (ti_ids i) /\ e_leader e t p = Fail.

(* C11.4 (one cycle)  fetchMetadata is set when getOffsets returns iff a block came back with an error code or the
   leader of a partition believed to have one could not be found. *)
Theorem error_sets_flag st e o :
  wf st -> cycle st e = Done o ->
  (fetchMetadata (co_state o) = true <-> partition_error e o \/ unknown_leader e o).
Proof.
  intros Hw Hc. pose proof (refresh_wf st e Hw) as Hn.
  pose proof (cycle_done _ _ _ Hc) as [Hs [Ha [_ [_ [Hf Hcr]]]]].
  unfold partition_error, unknown_leader. rewrite Hf, Hs, Ha, orb_true_iff. split.
  - intros [H|H].
    + right. unfold leader_failed in H. apply existsb_exists in H as [[t i] [Hin H]].
      apply existsb_exists in H as [p [Hp H]]. simpl in *. exists t, i, p.
      split; [apply in_find; auto|]. split; auto. unfold has_leader in H.
      destruct (e_leader e t p); [discriminate | reflexivity].
    + left. apply existsb_exists in H as [[[b t] p] [Hin H]]. unfold is_error, ask_result in H.
      destruct (e_answer e b) as [ans|] eqn:Ea; [|discriminate]. exists b, t, p, ans. split; auto. split; auto.
      unfold block_result_of in H. destruct (ans t p) as [err offs]. simpl.
      destruct (err =? 0) eqn:E; [destruct offs; discriminate | apply Z.eqb_neq; auto].
  - intros [[b [t [p [ans [Hin [Hans Herr]]]]]] | [t [i [p [Hfind [Hp Hl]]]]]].
    + right. apply existsb_exists. exists (b, t, p). split; auto. unfold is_error, ask_result. rewrite Hans.
      unfold block_result_of. destruct (ans t p) as [err offs]. simpl in Herr.
      apply Z.eqb_neq in Herr. rewrite Herr. reflexivity.
    + left. unfold leader_failed. apply existsb_exists. exists (t, i). split; [apply find_in; auto|].
      apply existsb_exists. exists p. split; auto. simpl. unfold has_leader. rewrite Hl. reflexivity.
Qed.
