(* Soundness of the lockset / lock-order / router checkers of Lockset.v (C08 b, c). *)
From Coq Require Import String List Bool NArith ZArith Lia Arith.
From Burrow Require Import Lockset.
Import ListNotations.

(* ------------------------------------------------------------------------------------------- *)
(* 1. race freedom                                                                              *)
(* ------------------------------------------------------------------------------------------- *)
Section Sound.
  Variable keyed : string -> bool.
  Variable tbl : list row.
  Variable cluster_of : Z -> Z.
  Variable router : Z -> nat.

  Definition excl (h : holdings) : Prop :=
    forall w1 w2 l m1 m2, w1 <> w2 -> In (l, m1) (h w1) -> In (l, m2) (h w2) -> m1 = MR /\ m2 = MR.

  Lemma upd_same : forall h w v, upd h w v w = v.
  Proof. intros h w v. unfold upd. now rewrite Nat.eqb_refl. Qed.

  Lemma upd_other : forall h w v w', w' <> w -> upd h w v w' = h w'.
  Proof. intros h w v w' Hne. unfold upd. apply Nat.eqb_neq in Hne. now rewrite Hne. Qed.

  Lemma step_excl : forall h e h', excl h -> step keyed tbl cluster_of router h e h' -> excl h'.
  Proof.
    intros h e h' Hex Hst. destruct Hst as [h w l m Hc | h w l m rest Hsub | h w r o Hacc].
    - intros w1 w2 l0 m1 m2 Hne H1 H2.
      destruct (Nat.eq_dec w1 w) as [E1 | N1]; destruct (Nat.eq_dec w2 w) as [E2 | N2].
      + subst. contradiction.
      + subst w1. rewrite upd_same in H1. rewrite (upd_other _ _ _ _ N2) in H2.
        destruct H1 as [H1 | H1].
        * inversion H1; subst l0 m1. destruct (Hc w2 m2 N2 H2) as [A B]. now split.
        * exact (Hex w w2 l0 m1 m2 Hne H1 H2).
      + subst w2. rewrite upd_same in H2. rewrite (upd_other _ _ _ _ N1) in H1.
        destruct H2 as [H2 | H2].
        * inversion H2; subst l0 m2. destruct (Hc w1 m1 N1 H1) as [A B]. now split.
        * exact (Hex w1 w l0 m1 m2 Hne H1 H2).
      + rewrite (upd_other _ _ _ _ N1) in H1. rewrite (upd_other _ _ _ _ N2) in H2.
        exact (Hex w1 w2 l0 m1 m2 Hne H1 H2).
    - intros w1 w2 l0 m1 m2 Hne H1 H2.
      assert (G : forall w' x, In x (upd h w rest w') -> In x (h w')).
      { intros w' x Hin. destruct (Nat.eq_dec w' w) as [E | N].
        - subst w'. rewrite upd_same in Hin. now apply Hsub.
        - now rewrite (upd_other _ _ _ _ N) in Hin. }
      exact (Hex w1 w2 l0 m1 m2 Hne (G _ _ H1) (G _ _ H2)).
    - exact Hex.
  Qed.

  Lemma reachable_excl : forall h, reachable keyed tbl cluster_of router h -> excl h.
  Proof.
    intros h Hr. induction Hr as [| h e h' Hr IH Hst].
    - intros w1 w2 l m1 m2 _ H1. destruct H1.
    - eapply step_excl; eauto.
  Qed.

  Lemma lockc_eqb_eq : forall a b, lockc_eqb a b = true -> a = b.
  Proof. destruct a, b; simpl; congruence. Qed.

  (* the generic lockset theorem: a table that passes [race_free] admits no race in any schedule *)
  Theorem lockset_sound_proof :
    race_free keyed tbl = true ->
    forall h, reachable keyed tbl cluster_of router h -> ~ race keyed tbl cluster_of router h.
  Proof.
    intros Hrf h Hr (w1 & w2 & r1 & r2 & o & Hne & Ha1 & Ha2 & Hconf).
    pose proof (reachable_excl h Hr) as Hex.
    destruct Ha1 as (Hin1 & Hl1 & Hk1). destruct Ha2 as (Hin2 & Hl2 & Hk2).
    unfold race_free in Hrf. apply andb_true_iff in Hrf. destruct Hrf as [_ Hpairs].
    rewrite forallb_forall in Hpairs. specialize (Hpairs r1 Hin1).
    rewrite forallb_forall in Hpairs. specialize (Hpairs r2 Hin2).
    unfold pair_ok in Hpairs. rewrite Hconf in Hpairs.
    destruct (common_lock r1 r2) eqn:Hcl.
    - unfold common_lock in Hcl. apply existsb_exists in Hcl. destruct Hcl as ([l1 m1] & Hi1 & Hcl).
      apply existsb_exists in Hcl. destruct Hcl as ([l2 m2] & Hi2 & Hcl). simpl in Hcl.
      apply andb_true_iff in Hcl. destruct Hcl as [Heq Hmw]. apply lockc_eqb_eq in Heq. subst l2.
      destruct (Hl1 l1 m1 Hi1) as (m1' & Hh1 & Hm1). destruct (Hl2 l1 m2 Hi2) as (m2' & Hh2 & Hm2).
      destruct (Hex w1 w2 _ _ _ Hne Hh1 Hh2) as [E1 E2]. subst m1' m2'.
      apply orb_true_iff in Hmw. destruct Hmw as [Hmw | Hmw].
      + destruct m1; simpl in Hmw; try discriminate. specialize (Hm1 eq_refl). discriminate.
      + destruct m2; simpl in Hmw; try discriminate. specialize (Hm2 eq_refl). discriminate.
    - unfold exempt in Hpairs.
      destruct (group_scoped (r_class r1)); [|discriminate].
      destruct (r_own r1) eqn:O1; [|discriminate]. destruct (r_own r2) eqn:O2; [|discriminate].
      destruct (keyed (r_handler r1)) eqn:K1; [|discriminate].
      apply Hne. rewrite (Hk1 eq_refl eq_refl). rewrite (Hk2 eq_refl Hpairs). reflexivity.
  Qed.
End Sound.

(* What a race-free table says about replies.  The translator emits a CEscape row for EVERY store of a reference that
   is reachable from shared storage into an object the handler allocated (reply maps, slices, structs), into a composite
   literal of a reply type, into a channel send or into a call it cannot see through.  So, for a table that passes:
   (1) the only storage memory a delivered reply can share with the module are protocol.Lag values, and
   (2) no handler writes a Lag value that is reachable from shared storage (such a write would be a CLagValue W row,
       which conflicts with the lock-free reply-reader row and is never exempt).
   Hence nothing a later request does is visible through a delivered reply. *)
Theorem reply_alias_free_proof : forall keyed tbl,
  race_free keyed tbl = true -> existsb is_reply_reader tbl = true ->
  (forall r ty, In r tbl -> r_class r = CEscape ty -> ty = "*protocol.Lag"%string) /\
  (forall r, In r tbl -> r_class r = CLagValue -> r_rw r = R) /\
  (forall r what, In r tbl -> r_class r <> CBlocking what).
Proof.
  intros keyed tbl Hrf Hrd. unfold race_free in Hrf. apply andb_true_iff in Hrf. destruct Hrf as [Hok Hpairs].
  rewrite forallb_forall in Hok. repeat split.
  - intros r ty Hin Hc. specialize (Hok r Hin). unfold row_ok in Hok. rewrite Hc in Hok. now apply String.eqb_eq in Hok.
  - intros r Hin Hc. destruct (r_rw r) eqn:Hrw; [reflexivity|]. exfalso.
    apply existsb_exists in Hrd. destruct Hrd as (rd & Hinrd & Hrdr).
    rewrite forallb_forall in Hpairs. specialize (Hpairs r Hin). rewrite forallb_forall in Hpairs. specialize (Hpairs rd Hinrd).
    unfold is_reply_reader in Hrdr. destruct (r_class rd) eqn:Cd; try discriminate. destruct (r_rw rd); try discriminate.
    destruct (r_locks rd) eqn:Ld; try discriminate.
    unfold pair_ok, conflict, common_lock, exempt in Hpairs. rewrite Hc, Cd, Hrw, Ld in Hpairs. cbn in Hpairs.
    assert (E : existsb (fun _ : lockc * lmode => false) (r_locks r) = false) by (induction (r_locks r); auto).
    rewrite E in Hpairs. discriminate.
  - intros r what Hin Hc. specialize (Hok r Hin). unfold row_ok in Hok. rewrite Hc in Hok. discriminate.
Qed.

(* ------------------------------------------------------------------------------------------- *)
(* 2. lock order => progress at lock granularity                                                *)
(* ------------------------------------------------------------------------------------------- *)
Lemma lmode_eq_dec : forall a b : lmode, {a = b} + {a <> b}.
Proof. decide equality. Qed.
Lemma lockc_eq_dec : forall a b : lockc, {a = b} + {a <> b}.
Proof. decide equality. Qed.
Lemma wentry_eq_dec : forall a b : (lockc * Z) * lmode, {a = b} + {a <> b}.
Proof. decide equality. apply lmode_eq_dec. decide equality. apply Z.eq_dec. apply lockc_eq_dec. Qed.

Lemma blocked_dec : forall holds w w' l m, {blocked_by holds w w' l m} + {~ blocked_by holds w w' l m}.
Proof.
  intros holds w w' l m. unfold blocked_by.
  destruct (Nat.eq_dec w' w) as [E | N]; [right; intros [H _]; contradiction |].
  destruct (in_dec wentry_eq_dec (l, MW) (holds w')) as [Hw | Hnw].
  - left. split; [exact N |]. exists MW. split; [exact Hw | now right].
  - destruct m.
    + right. intros [_ (m' & Hin & Hor)]. destruct Hor as [Hor | Hor]; [discriminate | subst m'; contradiction].
    + destruct (in_dec wentry_eq_dec (l, MR) (holds w')) as [Hr | Hnr].
      * left. split; [exact N |]. exists MR. split; [exact Hr | now left].
      * right. intros [_ (m' & Hin & _)]. destruct m'; contradiction.
Qed.

Lemma bounded_search : forall (P : nat -> Prop) (dec : forall i, {P i} + {~ P i}) n,
  (forall i, i < n -> ~ P i) \/ (exists i, i < n /\ P i).
Proof.
  intros P dec n. induction n as [| n IH].
  - left. intros i Hi. lia.
  - destruct IH as [IH | (i & Hi & HP)].
    + destruct (dec n) as [Hn | Hn].
      * right. exists n. split; [lia | exact Hn].
      * left. intros i Hi. destruct (Nat.eq_dec i n) as [E | N]; [subst; exact Hn | apply IH; lia].
    + right. exists i. split; [lia | exact HP].
Qed.

(* Whenever some worker waits for a lock and the waiting pattern follows a ranked acquisition order, either one
   of the waiting workers can take its lock now, or some lock is held by a worker that is not waiting (and
   therefore runs on to its next lock operation).  Go's writer preference (a pending Lock() also stops new
   readers) does not change the argument: whoever stops a waiter is in turn stopped only by a holder of the same
   lock. *)
Theorem lock_order_progress_proof : forall n rk holds waits,
  respects n rk holds waits ->
  (exists w, w < n /\ waits w <> None) ->
  exists w, w < n /\
    ((exists l m, waits w = Some (l, m) /\ can_acquire n holds w l m) \/ (waits w = None /\ holds w <> [])).
Proof.
  intros n rk holds waits Hresp (w0 & Hw0 & Hwait0).
  set (B := rk LBroker + rk LConsumer + rk LGroup).
  assert (HB : forall c, rk c <= B) by (intros []; unfold B; lia).
  assert (G : forall d w l m, w < n -> waits w = Some (l, m) -> B - rk (fst l) <= d ->
              exists w, w < n /\
                ((exists l m, waits w = Some (l, m) /\ can_acquire n holds w l m) \/ (waits w = None /\ holds w <> []))).
  { induction d as [| d IH]; intros w l m Hw Hwt Hd.
    - destruct (bounded_search (fun w' => blocked_by holds w w' l m) (fun w' => blocked_dec holds w w' l m) n)
        as [Hfree | (w' & Hw' & Hblk)].
      + exists w. split; [exact Hw |]. left. exists l, m. split; [exact Hwt | exact Hfree].
      + destruct Hblk as [Hne (m' & Hin & _)].
        destruct (waits w') as [[l2 m2] |] eqn:Hw2.
        * pose proof (Hresp w' l2 m2 Hw' Hw2 l m' Hin) as Hlt. pose proof (HB (fst l2)). lia.
        * exists w'. split; [exact Hw' |]. right. split; [exact Hw2 |]. intro E. rewrite E in Hin. destruct Hin.
    - destruct (bounded_search (fun w' => blocked_by holds w w' l m) (fun w' => blocked_dec holds w w' l m) n)
        as [Hfree | (w' & Hw' & Hblk)].
      + exists w. split; [exact Hw |]. left. exists l, m. split; [exact Hwt | exact Hfree].
      + destruct Hblk as [Hne (m' & Hin & _)].
        destruct (waits w') as [[l2 m2] |] eqn:Hw2.
        * pose proof (Hresp w' l2 m2 Hw' Hw2 l m' Hin) as Hlt.
          apply (IH w' l2 m2 Hw' Hw2). lia.
        * exists w'. split; [exact Hw' |]. right. split; [exact Hw2 |]. intro E. rewrite E in Hin. destruct Hin. }
  destruct (waits w0) as [[l m] |] eqn:E; [| congruence].
  exact (G (B - rk (fst l)) w0 l m Hw0 E (le_n _)).
Qed.

(* the checker yields such a ranking for every acquisition of the table *)
Theorem lock_order_ok_rank_proof : forall acqs,
  lock_order_ok acqs = true ->
  exists rk : lockc -> nat,
    forall a, In a acqs -> forall l m, In (l, m) (a_before a) -> rk l < rk (a_class a).
Proof.
  intros acqs H. unfold lock_order_ok in H. apply existsb_exists in H. destruct H as (o & _ & Hall).
  exists (rank_of o). intros a Ha l m Hin. rewrite forallb_forall in Hall. specialize (Hall a Ha).
  unfold acq_respects in Hall. rewrite forallb_forall in Hall. specialize (Hall (l, m) Hin). simpl in Hall.
  now apply Nat.ltb_lt in Hall.
Qed.

(* ------------------------------------------------------------------------------------------- *)
(* 3. router                                                                                    *)
(* ------------------------------------------------------------------------------------------- *)
Theorem router_group_keyed_complete_proof : forall constants routes handlers problems tbl,
  router_check constants routes handlers problems tbl = true ->
  (* every request type whose handler writes the state of its own group is hashed by (cluster, group) *)
  (forall c h, In (c, h) handlers -> writes_own_group tbl h = true -> route_of routes c = Some RHashed) /\
  (* every StorageRequestConstant is dispatched by mainLoop (in a way the translator understands) and handled *)
  (forall c, In c constants ->
     (route_of routes c = Some RAny \/ route_of routes c = Some RHashed) /\ exists h, In (c, h) handlers) /\
  (* requestTypeMap has no entry for something that is not a StorageRequestConstant *)
  (forall c h, In (c, h) handlers -> In c constants).
Proof.
  intros constants routes handlers problems tbl H. unfold router_check in H.
  apply andb_true_iff in H. destruct H as [H H3]. apply andb_true_iff in H. destruct H as [_ H2].
  rewrite forallb_forall in H2, H3. repeat split.
  - intros c h Hin Hw. specialize (H3 (c, h) Hin). simpl in H3. apply andb_true_iff in H3. destruct H3 as [_ H3].
    rewrite Hw in H3. simpl in H3. destruct (route_of routes c) as [[| |] |]; try discriminate. reflexivity.
  - specialize (H2 c H). apply andb_true_iff in H2. destruct H2 as [H2 _].
    destruct (route_of routes c) as [[| |] |]; try discriminate; auto.
  - specialize (H2 c H). apply andb_true_iff in H2. destruct H2 as [_ H2].
    apply existsb_exists in H2. destruct H2 as ([c' h] & Hin & Heq). simpl in Heq. apply String.eqb_eq in Heq.
    subst c'. now exists h.
  - intros c h Hin. specialize (H3 (c, h) Hin). simpl in H3. apply andb_true_iff in H3. destruct H3 as [H3 _].
    unfold mem_string in H3. apply existsb_exists in H3. destruct H3 as (c' & Hin' & Heq).
    apply String.eqb_eq in Heq. now subst.
Qed.

(* a handler counted as keyed has all its request types hashed *)
Lemma handler_keyed_hashed : forall routes handlers h c,
  handler_keyed routes handlers h = true -> In (c, h) handlers -> route_of routes c = Some RHashed.
Proof.
  intros routes handlers h c H Hin. unfold handler_keyed in H. apply andb_true_iff in H. destruct H as [_ H].
  rewrite forallb_forall in H. specialize (H (c, h) Hin). simpl in H. rewrite String.eqb_refl in H. simpl in H.
  destruct (route_of routes c) as [[| |] |]; try discriminate. reflexivity.
Qed.

(* ------------------------------------------------------------------------------------------- *)
(* 4. the discipline of the tree before the C08 repairs (documentation of the findings)         *)
(* ------------------------------------------------------------------------------------------- *)
Open Scope string_scope.
(* F6(i): deleteTopic ranged over the group map with no lock while addConsumerOffset inserts under consumerLock;
   F6(ii): group.topics written under the group lock in deleteTopic, under the cluster consumerLock in deleteGroup *)
Definition old_rows : list row := [
  mkRow "deleteTopic" "deleteTopic" 656%N CConsumerMap R [] false;
  mkRow "addConsumerOffset" "addConsumerOffset" 409%N CConsumerMap W [(LConsumer, MW)] false;
  mkRow "deleteTopic" "deleteTopic" 659%N CGroupTopics W [(LGroup, MW)] false;
  mkRow "deleteGroup" "deleteGroup" 681%N CGroupTopics W [(LConsumer, MW)] true ].

Lemma old_discipline_refuted_proof :
  race_free (fun _ => true) old_rows = false /\
  length (bad_pairs (fun _ => true) old_rows) = 4.
Proof. vm_compute. split; reflexivity. Qed.

(* ... and each of them is a race of the step semantics: two workers, no lock in common *)
Lemma old_discipline_race_proof :
  exists h, reachable (fun _ => true) old_rows (fun _ => 1%Z) (fun _ => O) h /\
            race (fun _ => true) old_rows (fun _ => 1%Z) (fun _ => O) h.
Proof.
  (* worker 1 holds consumerLock (write) of cluster 1 for the insert; worker 0 ranges holding nothing *)
  exists (upd (fun _ => []) 1 [((LConsumer, 1%Z), MW)]). split.
  - eapply RStep; [apply RInit |]. apply (SAcq _ _ _ _ (fun _ => []) 1 (LConsumer, 1%Z) MW).
    intros w' m' _ Hin. destruct Hin.
  - exists 0, 1, (nth 0 old_rows (mkRow "" "" 0%N CModuleCfg R [] false)),
      (nth 1 old_rows (mkRow "" "" 0%N CModuleCfg R [] false)), 7%Z.
    split; [discriminate |].
    split; [| split].
    + split; [simpl; auto | split].
      * intros l m Hin. destruct Hin.
      * intros H. discriminate H.
    + split; [simpl; auto | split].
      * intros l m Hin. simpl in Hin. destruct Hin as [Hin | []]. inversion Hin; subst.
        exists MW. split; [| auto]. unfold upd. simpl. left. reflexivity.
      * intros H. discriminate H.
    + reflexivity.
Qed.
