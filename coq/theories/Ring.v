(* Executable model of the per-partition consumer offset ring.
   Anchors: core/internal/storage/inmemory.go
     findConsumerOffsetDestination     :449-498
     mergeFrequentCommitIntoPrevious   :502-518
     storeConsumerOffset               :520-550
     getConsumerTopicList (read-out)   :775-814

   container/ring is a cycle of N slots with no origin; the only reference into it is the
   partition's pointer, and every operation of the code is relative to that pointer and walks
   the cycle backwards with Prev().  The model represents a ring by the list of its N slots in
   that walking order: element 0 is pointer.Prev() (the newest commit), the last element is the
   pointer slot itself (the oldest commit, or the next free slot).  getConsumerTopicList reads
   forwards from the pointer, i.e. it returns the reverse of this list. *)
From Coq Require Import ZArith List Bool.
From Burrow Require Import Int64 Eval.
Import ListNotations.
Open Scope Z_scope.

Definition ring := list (option coff).          (* newest first *)
Definition new_ring (n : nat) : ring := repeat None n.
Definition readout (r : ring) : list (option coff) := rev r.

(* a commit request as it reaches storage *)
Record commit := mkCommit { cm_offset : Z; cm_order : Z; cm_ts : Z }.

(* where findConsumerOffsetDestination points, as a decomposition of the ring *)
Inductive place :=
| PDrop                                                   (* nil destination *)
| PAppend                                                 (* insertDest = nil, extendDest = pointer slot *)
| PReplace (above : ring) (x : option coff) (below : ring) (* ring = above ++ x :: below; insertDest = slot of x *)
| PShift (above : ring) (pv : coff) (below : ring).        (* ring = above ++ Some pv :: below; insertDest = the
                                                              slot just above pv, extendDest = pointer slot *)

Definition push (y : option coff) (p : place) : place :=
  match p with
  | PReplace a x b => PReplace (y :: a) x b
  | PShift a pv b => PShift (y :: a) pv b
  | PDrop => PDrop
  | PAppend => PAppend
  end.

(* the search loop: walk down from the newest slot *)
Fixpoint scan (r : ring) (order : Z) : place :=
  match r with
  | [] => PDrop
  | None :: below => PReplace [] None below                       (* blank slot: just replace it *)
  | Some pv :: below =>
      if co_order pv <? order then PShift [] pv below             (* insert here (also above the oldest slot) *)
      else if co_order pv =? order then PDrop                     (* duplicate *)
      else match below with
           | [] => PReplace [] (Some pv) []                       (* reached the pointer slot: replace it *)
           | _ => push (Some pv) (scan below order)               (* keep searching *)
           end
  end.

Definition find_place (r : ring) (order : Z) : place :=
  match r with
  | [] => PDrop
  | None :: _ => PAppend                                           (* empty ring *)
  | Some nw :: _ =>
      match last r None with
      | Some ol => if order <=? co_order ol then PDrop             (* full ring, not newer than the oldest *)
                   else if order <=? co_order nw then scan r order else PAppend
      | None => if order <=? co_order nw then scan r order else PAppend
      end
  end.

(* destinationSlot().Prev() *)
Definition place_prev (r : ring) (p : place) : option coff :=
  match p with
  | PAppend => hd None r
  | PShift _ pv _ => Some pv
  | PReplace _ _ (y :: _) => y
  | PReplace _ _ [] => hd None r
  | PDrop => None
  end.

Definition merges (min_distance : Z) (pv : coff) (c : commit) : bool :=
  (co_order pv <? cm_order c) && (sub64 (cm_ts c) (co_ts pv) <? mul64 min_distance 1000).

(* mergeFrequentCommitIntoPrevious + storeConsumerOffset *)
Definition store (min_distance : Z) (r : ring) (p : place) (c : commit) (lag : option Z) : ring :=
  let fresh := Some (mkCoff (cm_offset c) (cm_order c) (cm_ts c) lag) in
  let merged pv := Some (mkCoff (cm_offset c) (cm_order c) (co_ts pv) lag) in
  match p with
  | PDrop => r
  | PAppend =>
      match hd None r with
      | Some pv => if merges min_distance pv c then merged pv :: tl r
                   else fresh :: removelast r
      | None => fresh :: removelast r
      end
  | PShift a pv b =>
      if merges min_distance pv c then a ++ merged pv :: b
      else a ++ fresh :: removelast (Some pv :: b)
  | PReplace a x b =>
      match b with
      | Some pv :: b' => if merges min_distance pv c then a ++ x :: merged pv :: b'
                         else a ++ fresh :: b
      | None :: _ => a ++ fresh :: b
      | [] =>
          match hd None r with
          | Some pv => if merges min_distance pv c then merged pv :: tl r
                       else a ++ fresh :: b
          | None => a ++ fresh :: b
          end
      end
  end.

(* one commit arriving at a partition ring; lag_if_append is the lag value computed by the
   caller when the destination is an append (inmemory.go:430-441).
   Result: new ring, and whether the destination was an append (then lastCommit is updated). *)
Definition ring_step (min_distance : Z) (r : ring) (c : commit) (lag_if_append : Z) : ring * bool :=
  match find_place r (cm_order c) with
  | PDrop => (r, false)
  | PAppend => (store min_distance r PAppend c (Some lag_if_append), true)
  | p => (store min_distance r p c None, false)
  end.
