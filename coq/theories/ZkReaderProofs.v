(* Proofs about the Zookeeper consumer reader model (C10, ZK half). *)
From Coq Require Import ZArith List Bool Lia.
From Burrow Require Import ZkReader.
Import ListNotations.
Open Scope Z_scope.

Lemma zk_accept_spec : forall a_set a_match d_set d_match,
  zk_accept a_set a_match d_set d_match = true <->
  (a_set = true -> a_match = true) /\ (d_set = true -> d_match = false).
Proof. intros [] [] [] []; unfold zk_accept; simpl; intuition congruence. Qed.

Section Silent.
  Variable acc : positive -> bool.

  Definition call_ok (c : call) : Prop :=
    match c with
    | CGroupList _ => True
    | CTopicList g _ | CTopicRead g _ | CPartList g _ _ | COffset g _ _ _ => acc g = true
    end.
  Definition watch_ok (w : watch) : Prop :=
    match w with
    | WGroupList => True
    | WExists g _ | WTopicList g | WPartList g _ | WOffset g _ _ => acc g = true
    end.
  Definition action_ok (a : zaction) : Prop :=
    match a with
    | SetOffset g _ _ _ _ _ | SetOwner g _ _ _ => acc g = true
    | ZPanic => True
    end.
  Definition zinv (st : zstate) : Prop := Forall call_ok (calls st) /\ Forall watch_ok (watches st).

  Lemma call_eqb_ok : forall a b, call_eqb a b = true -> call_ok b -> call_ok a.
  Proof.
    intros [] []; simpl; intros H Hb; try discriminate; try exact I;
      repeat (apply andb_prop in H as [H ?]); apply Pos.eqb_eq in H; subst; assumption.
  Qed.
  Lemma watch_eqb_ok : forall a b, watch_eqb a b = true -> watch_ok b -> watch_ok a.
  Proof.
    intros [] []; simpl; intros H Hb; try discriminate; try exact I;
      repeat (apply andb_prop in H as [H ?]); apply Pos.eqb_eq in H; subst; assumption.
  Qed.

  Lemma remove_first_P : forall {A} (eqb : A -> A -> bool) (P : A -> Prop),
    (forall x y, eqb x y = true -> P y -> P x) ->
    forall x l l', remove_first eqb x l = Some l' -> Forall P l -> P x /\ Forall P l'.
  Proof.
    intros A eqb P Heq x. induction l as [|y r IH]; intros l' H Hall; simpl in H; [discriminate|].
    inversion Hall as [|? ? Hy Hr]; subst.
    destruct (eqb x y) eqn:E.
    - inversion H; subst. split; [eapply Heq; eassumption | assumption].
    - destruct (remove_first eqb x r) as [r'|] eqn:E2; [|discriminate]. inversion H; subst.
      destruct (IH _ eq_refl Hr) as [Hx Hr']. split; [assumption | constructor; assumption].
  Qed.

  Lemma add_groups_ok : forall gl kn, Forall call_ok (snd (add_groups acc gl kn)).
  Proof.
    induction gl as [|g r IH]; intros kn; simpl; [constructor|].
    destruct (acc g) eqn:E; [|apply IH].
    destruct (lookup g kn); [apply IH|]. simpl. constructor; [exact E | apply IH].
  Qed.

  Lemma add_topics_ok : forall g tl ts, acc g = true -> Forall call_ok (snd (add_topics g tl ts)).
  Proof.
    intros g tl. induction tl as [|t r IH]; intros ts Hg; simpl; [constructor|].
    destruct (lookup t ts); [apply IH; assumption|]. simpl. constructor; [exact Hg | apply IH; assumption].
  Qed.

  Lemma offset_calls_ok : forall g t n from, acc g = true -> Forall call_ok (offset_calls g t from n).
  Proof. intros g t. induction n; intros; simpl; constructor; [assumption | apply IHn; assumption]. Qed.

  Lemma Forall_app2 : forall {A} (P : A -> Prop) l1 l2, Forall P l1 -> Forall P l2 -> Forall P (l1 ++ l2).
  Proof. intros. apply Forall_app. split; assumption. Qed.

  Ltac zfin := repeat (match goal with
    | |- _ /\ _ => split
    | |- Forall _ (_ ++ _) => apply Forall_app2
    | |- Forall _ [] => constructor
    | |- Forall _ (_ :: _) => constructor
    | |- Forall call_ok (snd (add_groups _ _ _)) => apply add_groups_ok
    | |- Forall call_ok (snd (add_topics _ _ _)) => apply add_topics_ok
    | |- Forall call_ok (offset_calls _ _ _ _) => apply offset_calls_ok
    end; simpl); simpl; try assumption; try exact I.

  Lemma exec_ok : forall st c a,
    zinv st -> call_ok c ->
    zinv (fst (exec acc st c a)) /\ Forall action_ok (snd (exec acc st c a)).
  Proof.
    intros [kn cs ws cr] c a [Hc Hw] Hok. unfold zinv, exec, crash. simpl in *.
    destruct c; simpl in Hok; destruct a; simpl; zfin.
    all: try (destruct ro; simpl; zfin).
    all: try (destruct b; simpl; zfin).
    all: try (destruct (lookup g kn) as [ts|]; simpl; zfin).
    all: try (destruct (lookup t ts) as [cnt|]; simpl; zfin).
    all: try (destruct (cnt <=? n); simpl; zfin).
    all: try (destruct parsed; simpl; zfin).
  Qed.

  Lemma call_of_watch_ok : forall w k, watch_ok w -> Forall call_ok (call_of_watch w k).
  Proof. intros [] [] H; simpl in *; repeat constructor; assumption. Qed.

  Lemma zk_step_ok : forall st ev,
    zinv st -> zinv (fst (zk_step acc st ev)) /\ Forall action_ok (snd (zk_step acc st ev)).
  Proof.
    intros st ev Hinv. unfold zk_step. destruct (zcrashed st); [split; [assumption | constructor]|].
    destruct Hinv as [Hc Hw]. destruct ev.
    - destruct (remove_first call_eqb c (calls st)) as [cs|] eqn:E; [|split; [split; assumption | constructor]].
      destruct (remove_first_P call_eqb call_ok call_eqb_ok _ _ _ E Hc) as [Hcok Hcs].
      apply exec_ok; [split; simpl; assumption | assumption].
    - destruct (remove_first watch_eqb w (watches st)) as [ws|] eqn:E; [|split; [split; assumption | constructor]].
      destruct (remove_first_P watch_eqb watch_ok watch_eqb_ok _ _ _ E Hw) as [Hwok Hws].
      simpl. split; [split; simpl; [apply Forall_app2; [assumption | apply call_of_watch_ok; assumption] | assumption] | constructor].
    - simpl. split; [split; simpl; [apply Forall_app2; [assumption | repeat constructor] | assumption] | constructor].
  Qed.

  Lemma zk_run_ok : forall evs st, zinv st -> Forall action_ok (snd (zk_run acc st evs)).
  Proof.
    induction evs as [|e r IH]; intros st Hinv; simpl; [constructor|].
    destruct (zk_step_ok st e Hinv) as [Hi Ha]. apply Forall_app2; [assumption | apply IH; assumption].
  Qed.

  (* C10, Zookeeper reader: whatever the /consumers tree contains and however it changes (every sequence of reads with
     arbitrary answers, watch firings of every kind, session expiries), every offset or owner request the reader sends
     to storage is for a group its lists accept. *)
  Theorem zk_only_accepted : forall evs a,
    In a (snd (zk_run acc zk_init evs)) -> action_ok a.
  Proof.
    intros evs a Hin.
    assert (H : Forall action_ok (snd (zk_run acc zk_init evs))).
    { apply zk_run_ok. split; simpl; repeat constructor. }
    rewrite Forall_forall in H. apply H. exact Hin.
  Qed.

  Theorem zk_rejected_silent : forall evs g,
    acc g = false ->
    forall t p off ts order owner,
      ~ In (SetOffset g t p off ts order) (snd (zk_run acc zk_init evs)) /\
      ~ In (SetOwner g t p owner) (snd (zk_run acc zk_init evs)).
  Proof.
    intros evs g Hg t p off ts order owner.
    split; intros Hin; apply zk_only_accepted in Hin; simpl in Hin; congruence.
  Qed.
End Silent.

(* non-vacuity: allowlist "^a", group 1 matches, group 2 does not; both present with an offset; only group 1 is read *)
Definition ex_tree : tree :=
  [(1%positive, mkG true [(7%positive, [mkP true (Some 81234) 894859 12 3])]);
   (2%positive, mkG true [(7%positive, [mkP true (Some 5) 1 2 3])])].
Definition ex_acc (g : positive) : bool := zk_accept true (Pos.eqb g 1) false false.

Example zk_rejected_silent_example :
  snd (quiesce 50 ex_acc ex_tree zk_init) = [SetOffset 1 7 0 81234 894859 12; SetOwner 1 7 0 3]
  /\ map fst (known (fst (quiesce 50 ex_acc ex_tree zk_init))) = [1%positive]
  /\ watches (fst (quiesce 50 ex_acc ex_tree zk_init)) = [WGroupList; WTopicList 1; WPartList 1 7; WOffset 1 7 0].
Proof. vm_compute. repeat split; reflexivity. Qed.
