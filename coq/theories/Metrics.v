(* Executable model of what Burrow serves: the Prometheus gauge registry and the JSON views,
   composed with the storage model (Storage.step) and the evaluator model (Eval.eval_group).
   Anchors:
     core/internal/httpserver/prometheus.go
       gauge families :15-63            DeleteConsumerMetrics :65-77   DeleteTopicMetrics :79-95
       DeleteConsumerTopicMetrics :97-108      handlePrometheusMetrics :110-164
     core/internal/httpserver/kafka.go          (JSON handlers: pass the storage / evaluator reply through)
     core/internal/storage/inmemory.go
       deleteGroup :671-701 (metric deletions)   fetchConsumer :845-856 (lazy purge + metric deletion)
     core/internal/cluster/kafka_cluster.go:194-203 (topic deletion), :331-341 (reaper)
     core/internal/consumer/kafka_client.go:530-542 (metadata tombstone)
     vendored github.com/prometheus/client_golang/prometheus/vec.go: Delete :95, DeletePartialMatch :113,
       matchPartialLabels :468 (a label name the family does not have matches nothing)
   The model describes the tree AFTER the three C17 repairs (partition status cleared on topic deletion,
   metrics deleted when an expired group is purged, no nil dereference of End); the old behaviour is kept
   as [delete_topic_metrics_v0], [sys_storage_v0], [scrape_v0] (nil_end_panics) for the _refuted witnesses.
   Gauge values are float64 in Go; the model keeps the exact integer, the float64 conversion is applied when
   model and implementation are compared (checks/c17.py). *)
From Coq Require Import ZArith List Bool String.
From Burrow Require Import Int64 F32 Eval AMap Ring Storage.
Import ListNotations.
Open Scope Z_scope.

(* ---------- the registry: six gauge vectors ---------- *)
Inductive family := FTotalLag | FStatus | FPartLag | FPartOffset | FPartStatus | FTopicOffset.
Inductive label := LCluster | LGroup | LTopic | LPartition.

Inductive gfam := GTotalLag | GStatus.                 (* labels: cluster, consumer_group *)
Inductive pfam := PLag | POffset | PStatus.            (* labels: cluster, consumer_group, topic, partition *)
Inductive key :=
| KGroup (f : gfam) (c g : Z)
| KPart (f : pfam) (c g t p : Z)
| KTopic (c t p : Z).                                  (* labels: cluster, topic, partition *)

Definition family_of (k : key) : family :=
  match k with
  | KGroup GTotalLag _ _ => FTotalLag
  | KGroup GStatus _ _ => FStatus
  | KPart PLag _ _ _ _ => FPartLag
  | KPart POffset _ _ _ _ => FPartOffset
  | KPart PStatus _ _ _ _ => FPartStatus
  | KTopic _ _ _ => FTopicOffset
  end.

Definition labels_of (k : key) : list (label * Z) :=
  match k with
  | KGroup _ c g => [(LCluster, c); (LGroup, g)]
  | KPart _ c g t p => [(LCluster, c); (LGroup, g); (LTopic, t); (LPartition, p)]
  | KTopic c t p => [(LCluster, c); (LTopic, t); (LPartition, p)]
  end.

Definition family_eqb (a b : family) : bool :=
  match a, b with
  | FTotalLag, FTotalLag | FStatus, FStatus | FPartLag, FPartLag
  | FPartOffset, FPartOffset | FPartStatus, FPartStatus | FTopicOffset, FTopicOffset => true
  | _, _ => false
  end.
Definition label_eqb (a b : label) : bool :=
  match a, b with
  | LCluster, LCluster | LGroup, LGroup | LTopic, LTopic | LPartition, LPartition => true
  | _, _ => false
  end.
Definition gfam_eqb (a b : gfam) : bool :=
  match a, b with GTotalLag, GTotalLag | GStatus, GStatus => true | _, _ => false end.
Definition pfam_eqb (a b : pfam) : bool :=
  match a, b with PLag, PLag | POffset, POffset | PStatus, PStatus => true | _, _ => false end.

Definition key_eqb (a b : key) : bool :=
  match a, b with
  | KGroup f c g, KGroup f' c' g' => gfam_eqb f f' && (c =? c') && (g =? g')
  | KPart f c g t p, KPart f' c' g' t' p' => pfam_eqb f f' && (c =? c') && (g =? g') && (t =? t') && (p =? p')
  | KTopic c t p, KTopic c' t' p' => (c =? c') && (t =? t') && (p =? p')
  | _, _ => false
  end.

Definition registry := list (key * Z).

Fixpoint reg_get (r : registry) (k : key) : option Z :=
  match r with
  | [] => None
  | (k', v) :: rest => if key_eqb k' k then Some v else reg_get rest k
  end.

(* GaugeVec.With(labels).Set(v) *)
Definition reg_set (r : registry) (k : key) (v : Z) : registry :=
  (k, v) :: filter (fun kv => negb (key_eqb (fst kv) k)) r.

Definition reg_del (pred : key -> bool) (r : registry) : registry :=
  filter (fun kv => negb (pred (fst kv))) r.

Fixpoint lookup_label (l : label) (ls : list (label * Z)) : option Z :=
  match ls with
  | [] => None
  | (l', v) :: rest => if label_eqb l' l then Some v else lookup_label l rest
  end.

(* matchPartialLabels: every given label must be a label of the family and carry that value *)
Definition partial_match (crit : list (label * Z)) (k : key) : bool :=
  forallb (fun lv => match lookup_label (fst lv) (labels_of k) with
                     | Some v => v =? snd lv
                     | None => false
                     end) crit.

(* Delete: the label names must be exactly the family's *)
Definition exact_match (crit : list (label * Z)) (k : key) : bool :=
  Nat.eqb (length crit) (length (labels_of k)) && partial_match crit k.

Definition vec_delete (f : family) (crit : list (label * Z)) (r : registry) : registry :=
  reg_del (fun k => family_eqb (family_of k) f && exact_match crit k) r.
Definition vec_delete_partial (f : family) (crit : list (label * Z)) (r : registry) : registry :=
  reg_del (fun k => family_eqb (family_of k) f && partial_match crit k) r.

(* DeleteConsumerMetrics *)
Definition delete_consumer_metrics (c g : Z) (r : registry) : registry :=
  let labels := [(LCluster, c); (LGroup, g)] in
  vec_delete_partial FPartStatus labels
    (vec_delete_partial FPartOffset labels
      (vec_delete_partial FPartLag labels
        (vec_delete FStatus labels
          (vec_delete FTotalLag labels r)))).

(* DeleteTopicMetrics as it was: the partition status family is forgotten; the two group families have no
   topic label, so DeletePartialMatch on them matches nothing *)
Definition delete_topic_metrics_v0 (c t : Z) (r : registry) : registry :=
  let labels := [(LCluster, c); (LTopic, t)] in
  vec_delete_partial FStatus labels
    (vec_delete_partial FTotalLag labels
      (vec_delete_partial FPartOffset labels
        (vec_delete_partial FPartLag labels
          (vec_delete_partial FTopicOffset labels r)))).

(* DeleteTopicMetrics (repaired) *)
Definition delete_topic_metrics (c t : Z) (r : registry) : registry :=
  let labels := [(LCluster, c); (LTopic, t)] in
  vec_delete_partial FStatus labels
    (vec_delete_partial FTotalLag labels
      (vec_delete_partial FPartStatus labels
        (vec_delete_partial FPartOffset labels
          (vec_delete_partial FPartLag labels
            (vec_delete_partial FTopicOffset labels r))))).

(* DeleteConsumerTopicMetrics *)
Definition delete_consumer_topic_metrics (c g t : Z) (r : registry) : registry :=
  let labels := [(LCluster, c); (LGroup, g); (LTopic, t)] in
  vec_delete_partial FPartLag labels
    (vec_delete_partial FPartOffset labels
      (vec_delete_partial FPartStatus labels r)).

(* ---------- the composed system ---------- *)
Record sconfig := mkSconfig {
  sc_st : config;                (* storage: intervals, expire-group, min-distance, group filter *)
  sc_minimum : f32;              (* evaluator minimum-complete *)
  sc_allowed : Z }.              (* evaluator allowed-lag *)

Record sys := mkSys { s_st : state; s_reg : registry }.

Definition init_sys (clusters : list Z) : sys := mkSys (init_state clusters) [].

Definition find_group (st : state) (c g : Z) : option cgroup :=
  match get st c with
  | Some cl => get (cl_consumer cl) g
  | None => None
  end.

Definition group_expired (cf : config) (now : Z) (st : state) (c g : Z) : bool :=
  match find_group st c g with
  | Some grp => expired cf now (g_last grp)
  | None => false
  end.

(* One storage request as the storage worker executes it, with the metric deletions that deleteGroup and
   (since the repair) the lazy purge of fetchConsumer perform.  [purge_deletes] = false gives the old purge. *)
Definition sys_storage_gen (purge_deletes : bool) (sc : sconfig) (now : Z) (sy : sys) (r : req) : option (sys * reply) :=
  match step (sc_st sc) now (s_st sy) r with
  | Crashed => None
  | Done st' rep =>
      let reg := s_reg sy in
      let reg' :=
        match r with
        | DeleteGroup c g t =>
            match get (s_st sy) c with
            | None => reg                                           (* unknown cluster: returns first *)
            | Some _ =>
                match find_group st' c g with
                | Some _ => delete_consumer_topic_metrics c g t reg (* the group still consumes other topics *)
                | None => delete_consumer_metrics c g reg
                end
            end
        | FetchConsumer c g =>
            if purge_deletes && group_expired (sc_st sc) now (s_st sy) c g
            then delete_consumer_metrics c g reg else reg
        | _ => reg
        end in
      Some (mkSys st' reg', rep)
  end.
Definition sys_storage := sys_storage_gen true.
Definition sys_storage_v0 := sys_storage_gen false.

(* an evaluator request (ShowAll = true) served without a cached result: None = NOTFOUND *)
Definition sys_status_gen (pd : bool) (sc : sconfig) (now : Z) (sy : sys) (c g : Z) : option (sys * option gstatus) :=
  match sys_storage_gen pd sc now sy (FetchConsumer c g) with
  | None => None
  | Some (sy', RConsumer l) =>
      match eval_group l (sc_minimum sc) (sc_allowed sc) now with
      | Crash => None
      | Ok gs => Some (sy', Some gs)
      end
  | Some (sy', _) => Some (sy', None)
  end.
Definition sys_status := sys_status_gen true.

(* inner loop body of handlePrometheusMetrics (repaired: current offset and partition status only when the
   window is complete AND there is an End offset) *)
Definition reports (ps : pstatus) : bool :=
  f32_eq (ps_complete ps) f32_one && match ps_end ps with Some _ => true | None => false end.
Definition end_offset (ps : pstatus) : Z := match ps_end ps with Some e => co_offset e | None => 0 end.

Definition set_partition (c g : Z) (reg : registry) (ps : pstatus) : registry :=
  let reg1 := reg_set reg (KPart PLag c g (ps_topic ps) (ps_partition ps)) (ps_lag ps) in
  if reports ps then
    reg_set (reg_set reg1 (KPart POffset c g (ps_topic ps) (ps_partition ps)) (end_offset ps))
            (KPart PStatus c g (ps_topic ps) (ps_partition ps)) (status_num (ps_status ps))
  else reg1.

Definition set_group (c g : Z) (reg : registry) (gs : gstatus) : registry :=
  fold_left (set_partition c g) (gs_partitions gs)
            (reg_set (reg_set reg (KGroup GTotalLag c g) (gs_totallag gs))
                     (KGroup GStatus c g) (status_num (gs_status gs))).

(* before the repair: `partition.End.Offset` with End == nil panics inside the handler *)
Definition nil_end_panics (gs : gstatus) : bool :=
  existsb (fun ps => f32_eq (ps_complete ps) f32_one && match ps_end ps with None => true | Some _ => false end)
          (gs_partitions gs).

(* one round of the consumer loop; [ge] = false is the handler without the End guard *)
Definition group_step_gen (pd ge : bool) (sc : sconfig) (now c : Z) (sy : sys) (g : Z) : option sys :=
  match sys_status_gen pd sc now sy c g with
  | None => None
  | Some (sy', None) => Some sy'
  | Some (sy', Some gst) =>
      if negb ge && nil_end_panics gst then None
      else Some (mkSys (s_st sy') (set_group c g (s_reg sy') gst))
  end.

Fixpoint scrape_groups_gen (pd ge : bool) (sc : sconfig) (now c : Z) (gs : list Z) (sy : sys) : option sys :=
  match gs with
  | [] => Some sy
  | g :: rest =>
      match group_step_gen pd ge sc now c sy g with
      | None => None
      | Some sy' => scrape_groups_gen pd ge sc now c rest sy'
      end
  end.

(* "for partitionNumber, offset := range getTopicDetail(...)": the label is the POSITION in fetchTopic's reply *)
Fixpoint set_topic_offsets (c t i : Z) (offs : list Z) (reg : registry) : registry :=
  match offs with
  | [] => reg
  | o :: rest => set_topic_offsets c t (i + 1) rest (reg_set reg (KTopic c t i) o)
  end.

Definition topic_offsets (st : state) (c t : Z) : option (list Z) :=
  match fetch_topic st c t with
  | Done _ (RInts l) => Some l
  | _ => None
  end.

Fixpoint scrape_topics (st : state) (c : Z) (ts : list Z) (reg : registry) : registry :=
  match ts with
  | [] => reg
  | t :: rest =>
      scrape_topics st c rest
        (match topic_offsets st c t with Some l => set_topic_offsets c t 0 l reg | None => reg end)
  end.

Definition cluster_groups (st : state) (c : Z) : list Z :=
  match get st c with Some cl => keys (cl_consumer cl) | None => [] end.
Definition cluster_topics (st : state) (c : Z) : list Z :=
  match get st c with Some cl => keys (cl_broker cl) | None => [] end.

Fixpoint scrape_clusters_gen (pd ge : bool) (sc : sconfig) (now : Z) (cs : list Z) (sy : sys) : option sys :=
  match cs with
  | [] => Some sy
  | c :: rest =>
      match scrape_groups_gen pd ge sc now c (cluster_groups (s_st sy) c) sy with
      | None => None
      | Some sy1 =>
          scrape_clusters_gen pd ge sc now rest
            (mkSys (s_st sy1) (scrape_topics (s_st sy1) c (cluster_topics (s_st sy1) c) (s_reg sy1)))
      end
  end.

(* GET /metrics : the gauges are refreshed, then the registry is rendered *)
Definition scrape_gen (pd ge : bool) (sc : sconfig) (now : Z) (sy : sys) : option sys :=
  scrape_clusters_gen pd ge sc now (keys (s_st sy)) sy.
Definition scrape := scrape_gen true true.
Definition scrape_v0 := scrape_gen false false.         (* before the repairs *)

(* ---------- everything that can happen to the system ---------- *)
Inductive op :=
| OStorage (r : req)             (* any storage request: ingest, API delete (DeleteGroup), JSON list/detail fetches *)
| OTopicDeleted (c t : Z)        (* cluster module: StorageSetDeleteTopic; DeleteTopicMetrics *)
| OGroupGone (c g : Z)           (* tombstone / reaper: StorageSetDeleteGroup (whole group); DeleteConsumerMetrics *)
| OStatus (c g : Z)              (* JSON status / lag endpoint, notifier: one evaluator request *)
| OScrape.                       (* GET /metrics *)

Definition sys_step (sc : sconfig) (now : Z) (sy : sys) (o : op) : option sys :=
  match o with
  | OStorage r => match sys_storage sc now sy r with Some (sy', _) => Some sy' | None => None end
  | OTopicDeleted c t =>
      match sys_storage sc now sy (DeleteTopic c t) with
      | Some (sy', _) => Some (mkSys (s_st sy') (delete_topic_metrics c t (s_reg sy')))
      | None => None
      end
  | OGroupGone c g =>
      match sys_storage sc now sy (DeleteGroup c g 0) with
      | Some (sy', _) => Some (mkSys (s_st sy') (delete_consumer_metrics c g (s_reg sy')))
      | None => None
      end
  | OStatus c g => match sys_status sc now sy c g with Some (sy', _) => Some sy' | None => None end
  | OScrape => scrape sc now sy
  end.

Fixpoint sys_run (sc : sconfig) (sy : sys) (h : list (Z * op)) : option sys :=
  match h with
  | [] => Some sy
  | (now, o) :: rest =>
      match sys_step sc now sy o with
      | Some sy' => sys_run sc sy' rest
      | None => None
      end
  end.

(* ---------- what the state holds, as a function of the state alone (the specification side) ---------- *)
(* the evaluation of a group that is present (expiry is a matter of the purge, not of this view) *)
Definition group_view (sc : sconfig) (now : Z) (st : state) (c g : Z) : option gstatus :=
  match get st c with
  | None => None
  | Some cl =>
      match get (cl_consumer cl) g with
      | None => None
      | Some grp =>
          let snap := map (fun tp => (fst tp, map snapshot_partition (snd tp))) (g_topics grp) in
          match fetch_topics_lags (cl_broker cl) snap with
          | None => None
          | Some l =>
              match eval_group l (sc_minimum sc) (sc_allowed sc) now with
              | Crash => None
              | Ok gs => Some gs
              end
          end
      end
  end.

(* the entry of the status for partition (t, p) that the scrape loop writes last *)
Definition last_match (q : pstatus -> bool) (t p : Z) (parts : list pstatus) : option pstatus :=
  find (fun ps => (ps_topic ps =? t) && (ps_partition ps =? p) && q ps) (rev parts).

(* the series one evaluated group calls for *)
Definition written (c g : Z) (gs : gstatus) (k : key) : option Z :=
  match k with
  | KGroup f c' g' =>
      if (c' =? c) && (g' =? g)
      then Some (match f with GTotalLag => gs_totallag gs | GStatus => status_num (gs_status gs) end)
      else None
  | KPart f c' g' t p =>
      if (c' =? c) && (g' =? g) then
        match f with
        | PLag => option_map ps_lag (last_match (fun _ => true) t p (gs_partitions gs))
        | POffset => option_map end_offset (last_match reports t p (gs_partitions gs))
        | PStatus => option_map (fun ps => status_num (ps_status ps)) (last_match reports t p (gs_partitions gs))
        end
      else None
  | KTopic _ _ _ => None
  end.

(* the series the live state calls for, and its value *)
Definition expected (sc : sconfig) (now : Z) (st : state) (k : key) : option Z :=
  match k with
  | KGroup _ c g | KPart _ c g _ _ =>
      match group_view sc now st c g with
      | Some gs => written c g gs k
      | None => None
      end
  | KTopic c t p =>
      match topic_offsets st c t with
      | Some l => if p <? 0 then None else nth_error l (Z.to_nat p)          (* by POSITION (finding C17:topic-offset-position) *)
      | None => None
      end
  end.

(* the newest broker offset of partition p of topic t, by partition ID *)
Definition broker_offset (st : state) (c t p : Z) : option Z :=
  match get st c with
  | None => None
  | Some cl =>
      match get (cl_broker cl) t with
      | None => None
      | Some tl => if p <? 0 then None
                   else match nth_error tl (Z.to_nat p) with Some r => last r None | None => None end
      end
  end.

(* no partition without an offset precedes one that has an offset: then positions are partition ids *)
Fixpoint no_gap (tl : list bring) : bool :=
  match tl with
  | [] => true
  | r :: rest =>
      match last r None with
      | Some _ => no_gap rest
      | None => forallb (fun r' => match last r' None with None => true | Some _ => false end) rest
      end
  end.

Definition topic_no_gap (st : state) (c t : Z) : bool :=
  match get st c with
  | None => true
  | Some cl => match get (cl_broker cl) t with None => true | Some tl => no_gap tl end
  end.

(* which item a series is labelled with *)
Definition key_cluster (k : key) : Z :=
  match k with KGroup _ c _ => c | KPart _ c _ _ _ => c | KTopic c _ _ => c end.
Definition key_group (k : key) : option Z :=
  match k with KGroup _ _ g => Some g | KPart _ _ g _ _ => Some g | KTopic _ _ _ => None end.
Definition key_topic (k : key) : option Z :=
  match k with KGroup _ _ _ => None | KPart _ _ _ t _ => Some t | KTopic _ t _ => Some t end.

Definition names_group (c g : Z) (k : key) : bool :=
  (key_cluster k =? c) && match key_group k with Some g' => g' =? g | None => false end.
Definition names_topic (c t : Z) (k : key) : bool :=
  (key_cluster k =? c) && match key_topic k with Some t' => t' =? t | None => false end.
Definition names_group_topic (c g t : Z) (k : key) : bool := names_group c g k && names_topic c t k.

(* ---------- JSON views (core/internal/httpserver/kafka.go): the handlers pass the replies through
   (the struct-tag table gen/JsonTags.v says under which key each field is exported) ---------- *)
(* GET /v3/kafka/:c/consumer/:g/lag (ShowAll) and .../status (filtered); None = 404 NOTFOUND body *)
Definition json_status (sc : sconfig) (now : Z) (sy : sys) (c g : Z) (show_all : bool) : option (sys * option gstatus) :=
  match sys_status sc now sy c g with
  | None => None
  | Some (sy', Some gs) => Some (sy', Some (if show_all then gs else filter_view gs))
  | Some (sy', None) => Some (sy', None)
  end.

(* ====================================================================================================
   The system as it really is read: /metrics and the status / lag endpoints get a group's status through the
   evaluator's result cache (goswarm Simple as Burrow configures it; sequential behaviour, the concurrent one is C05's
   subject: builder cache's Cache.v), and since cc5e0f6 the scrape removes the partition series of a group that the
   status it has just read does not contain.
     core/internal/evaluator/caching.go getConsumerStatus :117-171 (cache.Query), Configure :65-81 (expire-cache)
     core/internal/httpserver/prometheus.go pruneConsumerPartitionMetrics, handlePrometheusMetrics (after cc5e0f6)
   The cache runs on the REAL clock [rt]; storage and evaluation on the (virtual) clock [now].
   ==================================================================================================== *)
Definition is_part_of (c g : Z) (k : key) : bool :=
  match k with KPart _ c' g' _ _ => (c' =? c) && (g' =? g) | _ => false end.

(* pruneConsumerPartitionMetrics + the two Delete calls of the else branch: after the loop the partition series of the
   group are exactly those the status calls for.  (The code keeps, per group, the set of partitions the last scrape wrote and
   deletes those not written now; every partition series of the group in the registry is in that set, so this is the same.) *)
Definition prune_group (c g : Z) (gs : gstatus) (reg : registry) : registry :=
  reg_del (fun k => is_part_of c g k && match written c g gs k with None => true | Some _ => false end) reg.

Definition set_group_p (prune : bool) (c g : Z) (reg : registry) (gs : gstatus) : registry :=
  if prune then prune_group c g gs (set_group c g reg gs) else set_group c g reg gs.

(* one cached answer: the result (None = the cached NOTFOUND error), the real time it was stored, and - ghost fields, not
   used by any function below - the clock and the storage state of the fetch it came from *)
Record centry := mkCentry { ce_res : option gstatus; ce_created : Z; ce_now : Z; ce_st : state }.
Definition cache := list (Z * Z * centry).

Fixpoint cache_get (ca : cache) (c g : Z) : option centry :=
  match ca with
  | [] => None
  | (c', g', e) :: rest => if (c' =? c) && (g' =? g) then Some e else cache_get rest c g
  end.

(* IsExpiredAt: expired when rt is strictly after created + L; expire-cache = 0 turns the cache off (c3210ba) *)
Definition ce_valid (L rt : Z) (e : centry) : bool := (0 <? L) && (rt <=? ce_created e + L).

Record csys := mkCsys { cs_sys : sys; cs_cache : cache }.

(* getConsumerStatus (ShowAll = true): a valid entry is answered without touching storage; otherwise fetch + evaluate + store *)
Definition cstatus (sc : sconfig) (L rt now : Z) (cs : csys) (c g : Z) : option (csys * option gstatus) :=
  let miss :=
    match sys_status sc now (cs_sys cs) c g with
    | None => None
    | Some (sy', o) => Some (mkCsys sy' ((c, g, mkCentry o rt now (s_st (cs_sys cs))) :: cs_cache cs), o)
    end in
  match cache_get (cs_cache cs) c g with
  | Some e => if ce_valid L rt e then Some (cs, ce_res e) else miss
  | None => miss
  end.

Definition cgroup_step (prune : bool) (sc : sconfig) (L rt now c : Z) (cs : csys) (g : Z) : option csys :=
  match cstatus sc L rt now cs c g with
  | None => None
  | Some (cs', None) => Some cs'
  | Some (cs', Some gst) =>
      Some (mkCsys (mkSys (s_st (cs_sys cs')) (set_group_p prune c g (s_reg (cs_sys cs')) gst)) (cs_cache cs'))
  end.

Fixpoint cscrape_groups (prune : bool) (sc : sconfig) (L rt now c : Z) (gs : list Z) (cs : csys) : option csys :=
  match gs with
  | [] => Some cs
  | g :: rest =>
      match cgroup_step prune sc L rt now c cs g with
      | None => None
      | Some cs' => cscrape_groups prune sc L rt now c rest cs'
      end
  end.

Definition ccluster_step (prune : bool) (sc : sconfig) (L rt now : Z) (cs : csys) (c : Z) : option csys :=
  match cscrape_groups prune sc L rt now c (cluster_groups (s_st (cs_sys cs)) c) cs with
  | None => None
  | Some cs1 =>
      let st1 := s_st (cs_sys cs1) in
      Some (mkCsys (mkSys st1 (scrape_topics st1 c (cluster_topics st1 c) (s_reg (cs_sys cs1)))) (cs_cache cs1))
  end.

Fixpoint cscrape_clusters (prune : bool) (sc : sconfig) (L rt now : Z) (cl : list Z) (cs : csys) : option csys :=
  match cl with
  | [] => Some cs
  | c :: rest =>
      match ccluster_step prune sc L rt now cs c with
      | None => None
      | Some cs' => cscrape_clusters prune sc L rt now rest cs'
      end
  end.

(* GET /metrics as it is served: [prune] = false is the handler before cc5e0f6 *)
Definition cscrape_gen (prune : bool) (sc : sconfig) (L rt now : Z) (cs : csys) : option csys :=
  cscrape_clusters prune sc L rt now (keys (s_st (cs_sys cs))) cs.
Definition cscrape := cscrape_gen true.
Definition cscrape_v1 := cscrape_gen false.

Inductive cop :=
| CO (o : op)                    (* OScrape / OStatus go through the cache, everything else acts on storage + registry *)
| CFlush.                        (* the evaluator is restarted: empty cache (what the probe's cold read phases do) *)

Definition cstep_gen (prune : bool) (sc : sconfig) (L rt now : Z) (cs : csys) (o : cop) : option csys :=
  match o with
  | CFlush => Some (mkCsys (cs_sys cs) [])
  | CO OScrape => cscrape_gen prune sc L rt now cs
  | CO (OStatus c g) => match cstatus sc L rt now cs c g with Some (cs', _) => Some cs' | None => None end
  | CO o' => match sys_step sc now (cs_sys cs) o' with Some sy' => Some (mkCsys sy' (cs_cache cs)) | None => None end
  end.
Definition cstep := cstep_gen true.

(* a history: (real time, clock, what happens) *)
Fixpoint crun_gen (prune : bool) (sc : sconfig) (L : Z) (cs : csys) (h : list (Z * Z * cop)) : option csys :=
  match h with
  | [] => Some cs
  | (rt, now, o) :: rest =>
      match cstep_gen prune sc L rt now cs o with
      | Some cs' => crun_gen prune sc L cs' rest
      | None => None
      end
  end.
Definition crun := crun_gen true.

Definition init_csys (clusters : list Z) : csys := mkCsys (init_sys clusters) [].

(* the status / lag endpoints as served *)
Definition cjson_status (sc : sconfig) (L rt now : Z) (cs : csys) (c g : Z) (show_all : bool) : option (csys * option gstatus) :=
  match cstatus sc L rt now cs c g with
  | None => None
  | Some (cs', Some gs) => Some (cs', Some (if show_all then gs else filter_view gs))
  | Some (cs', None) => Some (cs', None)
  end.

(* ---------- regenerated tables (translator/jsontags -> gen/JsonTags.v) ---------- *)
(* a function of cluster / consumer / storage / httpserver that builds a StorageSetDeleteTopic / StorageSetDeleteGroup request:
   the Cluster / Group / Topic expressions of the literal and the httpserver.Delete*Metrics calls of the same function *)
Record site := mkSite {
  site_fn : string; site_req : string; site_cluster : string; site_group : string; site_topic : string;
  site_calls : list string }.

(* topic series are deleted nowhere but at the site that tells storage to delete the topic: it must call
   DeleteTopicMetrics for the same cluster and topic (group series are also deleted by storage's own deleteGroup) *)
Definition topic_site (s : site) : bool := String.eqb (site_req s) "StorageSetDeleteTopic".
Definition wanted_call (s : site) : string :=
  ("DeleteTopicMetrics(" ++ site_cluster s ++ ", " ++ site_topic s ++ ")")%string.
(* senders of StorageSetDeleteGroup outside the HTTP handler: storage's own deleteGroup deletes the group's series under the
   request's cluster, so the request must name the CLUSTER (a cluster module is named after its cluster: module.name; a consumer
   module reads cluster module.cluster and has a name of its own), and a DeleteConsumerMetrics call of the sender, if any, must be
   about the request's group *)
Definition group_site (s : site) : bool := String.eqb (site_req s) "StorageSetDeleteGroup".
Definition group_call_ok (s : site) (call : string) : bool :=
  if String.prefix "DeleteConsumerMetrics(" call
  then existsb (fun cl => String.eqb call ("DeleteConsumerMetrics(" ++ cl ++ ", " ++ site_group s ++ ")"))
               ["module.name"; "module.cluster"]%string
  else true.
Definition group_site_ok (s : site) : bool :=
  (if String.prefix "cluster." (site_fn s) then String.eqb (site_cluster s) "module.name"
   else if String.prefix "consumer." (site_fn s) then String.eqb (site_cluster s) "module.cluster"
   else true) &&
  negb (String.eqb (site_group s) "") && forallb (group_call_ok s) (site_calls s).
Definition site_ok (s : site) : bool :=
  if topic_site s then existsb (String.eqb (wanted_call s)) (site_calls s)
  else if group_site s then group_site_ok s else true.
Definition sites_ok (l : list site) : bool := existsb topic_site l && forallb site_ok l.

(* the JSON keys the property's fields are served under (core/protocol/storage.go, evaluator.go) *)
Definition required_tags : list (string * string * string) :=
  [("ConsumerOffset", "Offset", "offset"); ("ConsumerOffset", "Timestamp", "timestamp");
   ("ConsumerOffset", "ObservedTimestamp", "observedAt"); ("ConsumerOffset", "Lag", "lag"); ("ConsumerOffset", "Order", "-");
   ("ConsumerPartition", "Offsets", "offsets"); ("ConsumerPartition", "BrokerOffsets", "-");
   ("ConsumerPartition", "Owner", "owner"); ("ConsumerPartition", "ClientID", "client_id");
   ("ConsumerPartition", "CurrentLag", "current-lag");
   ("PartitionStatus", "Topic", "topic"); ("PartitionStatus", "Partition", "partition"); ("PartitionStatus", "Owner", "owner");
   ("PartitionStatus", "ClientID", "client_id"); ("PartitionStatus", "Status", "status"); ("PartitionStatus", "Start", "start");
   ("PartitionStatus", "End", "end"); ("PartitionStatus", "CurrentLag", "current_lag"); ("PartitionStatus", "Complete", "complete");
   ("ConsumerGroupStatus", "Cluster", "cluster"); ("ConsumerGroupStatus", "Group", "group");
   ("ConsumerGroupStatus", "Status", "status"); ("ConsumerGroupStatus", "Complete", "complete");
   ("ConsumerGroupStatus", "Partitions", "partitions"); ("ConsumerGroupStatus", "TotalPartitions", "partition_count");
   ("ConsumerGroupStatus", "Maxlag", "maxlag"); ("ConsumerGroupStatus", "TotalLag", "totallag")]%string.

Definition tag_eqb (a b : string * string * string) : bool :=
  String.eqb (fst (fst a)) (fst (fst b)) && String.eqb (snd (fst a)) (snd (fst b)) && String.eqb (snd a) (snd b).
Definition served_struct (n : string) : bool :=
  existsb (String.eqb n) ["ConsumerOffset"; "ConsumerPartition"; "PartitionStatus"; "ConsumerGroupStatus"]%string.
(* every required field is exported under its documented key, and no other field of the four structs is hidden *)
Definition tags_ok (tbl : list (string * string * string)) : bool :=
  forallb (fun r => existsb (tag_eqb r) tbl) required_tags &&
  forallb (fun e => if served_struct (fst (fst e)) && String.eqb (snd e) "-" then existsb (tag_eqb e) required_tags else true) tbl.
