(* Http.v -- executable model of Burrow's HTTP layer (core/internal/httpserver) for C16 (and the base
   types used by ConfigRead.v for C18).

   The storage and evaluator subsystems are an ABSTRACT BACKEND (functions from requests to replies); the
   configuration is a tree with viper's lookup semantics (keys compared case-insensitively, key strings
   split at '.').  The model starts from (route, params): matching a concrete path against the route table
   is httprouter's business and is trusted; [dispatch] below is only used by the correspondence driver to
   compute (route, params) from the same request line the Go probe sends to the real router.

   Model only: no proofs here (HttpProofs.v). *)
Require Import List ZArith Bool String Ascii.
Import ListNotations.
Open Scope Z_scope.

(* ------------------------------------------------------------------------------------------------ *)
(* byte strings                                                                                      *)
(* ------------------------------------------------------------------------------------------------ *)

Definition bytes := list Z.

Fixpoint bytes_of_string (s : string) : bytes :=
  match s with
  | EmptyString => []
  | String c r => Z.of_nat (nat_of_ascii c) :: bytes_of_string r
  end.

Fixpoint beq (a b : bytes) : bool :=
  match a, b with
  | [], [] => true
  | x :: a', y :: b' => (x =? y) && beq a' b'
  | _, _ => false
  end.

(* strings.ToLower restricted to ASCII (exact for every string without U+212A / U+0130, the only two
   non-ASCII code points whose lower case is an ASCII letter; configuration keys are ASCII) *)
Definition lower_byte (b : Z) : Z := if (65 <=? b) && (b <=? 90) then b + 32 else b.
Definition lower (s : bytes) : bytes := map lower_byte s.

(* strings.ToLower as far as a comparison with ASCII strings can tell (Go's Unicode lower-casing, which viper applies
   to every key string, the URL-supplied module name included): besides A-Z exactly two code points lower-case into
   ASCII -- U+212A KELVIN SIGN (E2 84 AA) -> 'k' and U+0130 (C4 B0) -> 'i' (checked over all of Unicode with the
   toolchain's tables).  Every other non-ASCII rune lower-cases to a non-ASCII rune, and every byte that is not valid
   UTF-8 becomes U+FFFD: here those bytes are left as they are, which is a different but equally non-ASCII result.
   Hence [go_lower s] is an ASCII string iff strings.ToLower(s) is, and then they are equal: against ASCII
   configuration keys the lookup is exact.  (A lead byte is never a continuation byte, so matching the two byte
   patterns left to right finds exactly the places where Go decodes those runes, also after invalid bytes.)
   [lower] (plain ASCII) stays the function applied to configuration keys and key patterns, which are ASCII. *)
Fixpoint go_lower (s : bytes) : bytes :=
  match s with
  | [] => []
  | b :: r =>
      match r with
      | [] => [lower_byte b]
      | b2 :: r2 =>
          if (b =? 196) && (b2 =? 176) then 105 :: go_lower r2
          else match r2 with
               | b3 :: r3 => if (b =? 226) && (b2 =? 132) && (b3 =? 170) then 107 :: go_lower r3
                             else lower_byte b :: go_lower r
               | [] => lower_byte b :: go_lower r
               end
      end
  end.

Definition dot : Z := 46.

(* strings.Split(s, ".") *)
Fixpoint split_dots (s : bytes) : list bytes :=
  match s with
  | [] => [[]]
  | c :: r =>
      if c =? dot then [] :: split_dots r
      else match split_dots r with
           | h :: t => (c :: h) :: t
           | [] => [[c]]
           end
  end.

(* ------------------------------------------------------------------------------------------------ *)
(* configuration tree with viper lookup                                                              *)
(* ------------------------------------------------------------------------------------------------ *)

Inductive value :=
| VStr (s : bytes)
| VNum (n : Z)
| VBool (b : bool)
| VList (l : list bytes).

Inductive tree :=
| Leaf (v : value)
| Node (ks : kids)
with kids :=
| KNil
| KCons (k : bytes) (c : tree) (r : kids).

(* viper lower-cases every key when a configuration is loaded; the model compares [lower k] *)
Fixpoint kid_find (seg : bytes) (ks : kids) : option tree :=
  match ks with
  | KNil => None
  | KCons k c r => if beq (lower k) seg then Some c else kid_find seg r
  end.

Fixpoint lookup (t : tree) (path : list bytes) : option tree :=
  match path with
  | [] => Some t
  | s :: rest =>
      match t with
      | Node ks => match kid_find s ks with
                   | Some c => lookup c rest
                   | None => None
                   end
      | Leaf _ => None
      end
  end.

(* viper.find: the key is lower-cased and split at the delimiter *)
Definition path_of (key : bytes) : list bytes := split_dots (lower key).
Definition cfg_get (cfg : tree) (key : bytes) : option tree := lookup cfg (path_of key).

(* ... for a key string that contains a URL-supplied name (strings.ToLower over the whole key) *)
Definition path_of_go (key : bytes) : list bytes := split_dots (go_lower key).
Definition cfg_get_go (cfg : tree) (key : bytes) : option tree := lookup cfg (path_of_go key).

(* viper.IsSet *)
Definition is_set (cfg : tree) (key : bytes) : bool :=
  match cfg_get cfg key with Some _ => true | None => false end.

Fixpoint kid_keys (ks : kids) : list bytes :=
  match ks with
  | KNil => []
  | KCons k _ r => lower k :: kid_keys r
  end.

(* keys of viper.GetStringMap(key) *)
Definition string_map_keys (cfg : tree) (key : bytes) : list bytes :=
  match cfg_get cfg key with
  | Some (Node ks) => kid_keys ks
  | _ => []
  end.

(* viper.GetString(key) when it can be one of the class names compared in configNotifierDetail; numbers and
   booleans cast to strings that are never a class name, lists and maps cast to "" *)
Definition get_str (cfg : tree) (key : bytes) : option bytes :=
  match cfg_get cfg key with
  | Some (Leaf (VStr s)) => Some s
  | _ => None
  end.

Definition get_str_go (cfg : tree) (key : bytes) : option bytes :=
  match cfg_get_go cfg key with
  | Some (Leaf (VStr s)) => Some s
  | _ => None
  end.

(* ------------------------------------------------------------------------------------------------ *)
(* backend                                                                                           *)
(* ------------------------------------------------------------------------------------------------ *)

(* protocol.StorageRequestConstant *)
Definition StorageSetBrokerOffset : Z := 0.
Definition StorageSetConsumerOffset : Z := 1.
Definition StorageSetConsumerOwner : Z := 2.
Definition StorageSetDeleteTopic : Z := 3.
Definition StorageSetDeleteGroup : Z := 4.
Definition StorageFetchClusters : Z := 5.
Definition StorageFetchConsumers : Z := 6.
Definition StorageFetchTopics : Z := 7.
Definition StorageFetchConsumer : Z := 8.
Definition StorageFetchTopic : Z := 9.
Definition StorageClearConsumerOwners : Z := 10.
Definition StorageFetchConsumersForTopic : Z := 11.

Definition is_fetch_type (ty : Z) : bool :=
  (ty =? 5) || (ty =? 6) || (ty =? 7) || (ty =? 8) || (ty =? 9) || (ty =? 11).

Record sreq := mk_sreq { sq_type : Z; sq_cluster : bytes; sq_group : bytes; sq_topic : bytes }.

(* dynamic type of what arrives on StorageRequest.Reply; None = nil (channel closed without a value) *)
Inductive reply_value :=
| RStrings (l : list bytes)      (* []string *)
| RInts (l : list Z)             (* []int64 *)
| RTopics (tok : Z)              (* protocol.ConsumerTopics (content irrelevant to the envelope) *)
| ROther.                        (* any other dynamic type *)

(* *protocol.ConsumerGroupStatus as far as the envelope depends on it: the status constant and whether
   encoding/json can encode it (it cannot when a float32 field is NaN or infinite) *)
Record gstatus := mk_gstatus { gs_status : Z; gs_finite : bool }.

Record backend := mk_backend {
  storage_reply : sreq -> option reply_value;
  evaluator_reply : bytes -> bytes -> bool -> option gstatus;   (* None = nil pointer *)
  app_ready : bool
}.

Inductive issued :=
| IStorage (q : sreq)
| IEval (cluster group : bytes) (showall : bool).

(* ------------------------------------------------------------------------------------------------ *)
(* responses                                                                                         *)
(* ------------------------------------------------------------------------------------------------ *)

Inductive body :=
| BJson (err has_msg has_req : bool) (status : option Z)   (* a JSON object; status = .status.status *)
| BPlain                                                    (* GOOD / READY / STARTING *)
| BEmpty                                                    (* nothing written *)
| BOpaque.                                                  (* /metrics: not part of C16 (see C17) *)

Inductive outcome :=
| Resp (code : Z) (ct_json : bool) (b : body)
| Crash.                                                    (* Go panic in the handler goroutine *)

Definition result : Type := list issued * outcome.

Definition params := list (bytes * bytes).

(* httprouter.Params.ByName: first match, "" when absent *)
Fixpoint param (ps : params) (name : bytes) : bytes :=
  match ps with
  | [] => []
  | (n, v) :: r => if beq n name then v else param r name
  end.

Definition pb (s : string) : bytes := bytes_of_string s.

(* literal strings of the handlers, as byte lists (computed once so that the extracted model mentions no
   Coq [string]) *)
Definition s_cluster : bytes := Eval vm_compute in pb "cluster".
Definition s_consumer : bytes := Eval vm_compute in pb "consumer".
Definition s_topic : bytes := Eval vm_compute in pb "topic".
Definition s_name : bytes := Eval vm_compute in pb "name".
Definition s_storage : bytes := Eval vm_compute in pb "storage".
Definition s_evaluator : bytes := Eval vm_compute in pb "evaluator".
Definition s_notifier : bytes := Eval vm_compute in pb "notifier".
Definition s_class_name : bytes := Eval vm_compute in pb "class-name".
Definition s_http : bytes := Eval vm_compute in pb "http".
Definition s_email : bytes := Eval vm_compute in pb "email".
Definition s_slack : bytes := Eval vm_compute in pb "slack".
Definition s_null : bytes := Eval vm_compute in pb "null".

Definition ok200 : outcome := Resp 200 true (BJson false true true None).
Definition err (code : Z) : outcome := Resp code true (BJson true true true None).
(* writeResponse when json.Marshal fails *)
Definition encode_failed : outcome := Resp 500 true (BJson true true false None).

(* ------------------------------------------------------------------------------------------------ *)
(* handlers                                                                                          *)
(* ------------------------------------------------------------------------------------------------ *)

Definition is_strings (v : reply_value) : bool := match v with RStrings _ => true | _ => false end.
Definition is_ints (v : reply_value) : bool := match v with RInts _ => true | _ => false end.
Definition is_topics (v : reply_value) : bool := match v with RTopics _ => true | _ => false end.

(* request -> channel -> reply; `response == nil` test (absent in handleClusterList); type assertion *)
Definition storage_fetch (b : backend) (q : sreq) (nil_checked : bool) (expect : reply_value -> bool) : result :=
  ([IStorage q],
   match storage_reply b q with
   | None => if nil_checked then err 404 else Crash
   | Some v => if expect v then ok200 else Crash
   end).

Definition h_status (b : backend) (ps : params) (showall : bool) : result :=
  let c := param ps s_cluster in
  let g := param ps s_consumer in
  ([IEval c g showall],
   match evaluator_reply b c g showall with
   | None => Crash
   | Some st =>
       if gs_finite st
       then Resp (if gs_status st =? 0 then 404 else 200) true (BJson false true true (Some (gs_status st)))
       else encode_failed
   end).

(* The test "is <name> a configured module of section <kind>".
   v1 (current code, after the F9 repair): membership of the lower-cased name among the keys of
             viper.GetStringMap(kind);
   v0 (code before the repair): viper.IsSet(kind + "." + name), which follows dots inside the name. *)
Definition module_configured (cfg : tree) (kind name : bytes) : bool :=
  existsb (beq (go_lower name)) (string_map_keys cfg kind).
Definition module_is_set_v0 (cfg : tree) (kind name : bytes) : bool :=
  is_set cfg (kind ++ [dot] ++ name).

Definition known_notifier_class (s : bytes) : bool :=
  beq s s_http || beq s s_email || beq s s_slack || beq s s_null.

Inductive route :=
| RAdmin | RReady | RMetrics
| RClusterList | RClusterDetail | RTopicList | RTopicDetail | RTopicConsumers
| RConsumerList | RConsumerDetail | RConsumerStatus | RConsumerLag
| RConfigMain
| RCfgStorageList | RCfgStorageDetail
| RCfgEvaluatorList | RCfgEvaluatorDetail
| RCfgClusterList | RCfgClusterDetail
| RCfgConsumerList | RCfgConsumerDetail
| RCfgNotifierList | RCfgNotifierDetail
| RConsumerDelete | RConsumerDeleteTopic
| RGetLogLevel | RSetLogLevel.

Section Handlers.
  Variable modtest : tree -> bytes -> bytes -> bool.

  Definition h_config_detail (cfg : tree) (kind : bytes) (name : bytes) : result :=
    ([], if modtest cfg kind name then ok200 else err 404).

  Definition h_notifier_detail (cfg : tree) (name : bytes) : result :=
    ([], if modtest cfg s_notifier name
         then match get_str_go cfg (s_notifier ++ [dot] ++ name ++ [dot] ++ s_class_name) with
              | Some cls => if known_notifier_class cls then ok200 else Resp 200 false BEmpty
              | None => Resp 200 false BEmpty     (* no case of the switch writes anything *)
              end
         else err 404).



  (* reqbody (POST /v3/admin/loglevel only): 0 = body does not decode, 1 = decodes but the level is not one
     of the accepted names, 2 = accepted level *)
  Definition handle_gen (r : route) (ps : params) (reqbody : Z) (b : backend) (cfg : tree) : result :=
    let cl := param ps s_cluster in
    let gr := param ps s_consumer in
    let tp := param ps s_topic in
    let nm := param ps s_name in
    match r with
    | RAdmin => ([], Resp 200 false BPlain)
    | RReady => ([], Resp (if app_ready b then 200 else 503) false BPlain)
    | RMetrics => ([], Resp 200 false BOpaque)
    | RClusterList => storage_fetch b (mk_sreq StorageFetchClusters [] [] []) false is_strings
    | RClusterDetail | RCfgClusterDetail => h_config_detail cfg s_cluster cl
    | RTopicList => storage_fetch b (mk_sreq StorageFetchTopics cl [] []) true is_strings
    | RTopicDetail => storage_fetch b (mk_sreq StorageFetchTopic cl [] tp) true is_ints
    | RTopicConsumers => storage_fetch b (mk_sreq StorageFetchConsumersForTopic cl [] tp) true is_strings
    | RConsumerList => storage_fetch b (mk_sreq StorageFetchConsumers cl [] []) true is_strings
    | RConsumerDetail => storage_fetch b (mk_sreq StorageFetchConsumer cl gr []) true is_topics
    | RConsumerStatus => h_status b ps false
    | RConsumerLag => h_status b ps true
    | RConfigMain | RCfgStorageList | RCfgEvaluatorList | RCfgClusterList | RCfgConsumerList | RCfgNotifierList =>
        ([], ok200)
    | RCfgStorageDetail => h_config_detail cfg s_storage nm
    | RCfgEvaluatorDetail => h_config_detail cfg s_evaluator nm
    | RCfgConsumerDetail => h_config_detail cfg s_consumer nm
    | RCfgNotifierDetail => h_notifier_detail cfg nm
    | RConsumerDelete | RConsumerDeleteTopic =>
        (* fire and forget: no reply channel, 200 whatever the names *)
        ([IStorage (mk_sreq StorageSetDeleteGroup cl gr tp)], ok200)
    | RGetLogLevel => ([], ok200)
    | RSetLogLevel =>
        ([], if reqbody =? 0 then err 400 else if reqbody =? 1 then err 404 else ok200)
    end.
End Handlers.

Definition handle : route -> params -> Z -> backend -> tree -> result := handle_gen module_configured.
Definition handle_v0 : route -> params -> Z -> backend -> tree -> result := handle_gen module_is_set_v0.

(* ------------------------------------------------------------------------------------------------ *)
(* the contract of the backend, and what "the resource exists / is unknown" means at this layer      *)
(* ------------------------------------------------------------------------------------------------ *)

(* What a handler's Go type assertion expects for each request type: StorageFetchClusters always answers a
   []string (the handler has no nil test); the other Fetch requests answer nil (reply channel closed
   without a value: unknown cluster / group / topic) or the asserted type. *)
Definition reply_ok (ty : Z) (r : option reply_value) : bool :=
  if ty =? 5 then match r with Some (RStrings _) => true | _ => false end
  else if (ty =? 6) || (ty =? 7) || (ty =? 11) then match r with None | Some (RStrings _) => true | _ => false end
  else if ty =? 9 then match r with None | Some (RInts _) => true | _ => false end
  else if ty =? 8 then match r with None | Some (RTopics _) => true | _ => false end
  else true.

(* the evaluator always answers a non-nil status that encoding/json can encode (no NaN / Inf float32) *)
Definition eval_ok (r : option gstatus) : bool :=
  match r with Some st => gs_finite st | None => false end.

(* THE CONTRACT the storage and evaluator models have to discharge. *)
Definition backend_typed (b : backend) : Prop :=
  (forall q : sreq, reply_ok (sq_type q) (storage_reply b q) = true) /\
  (forall (c g : bytes) (showall : bool), eval_ok (evaluator_reply b c g showall) = true).

(* the storage request a route builds from its parameters *)
Definition request_of (r : route) (ps : params) : option sreq :=
  let cl := param ps s_cluster in
  let gr := param ps s_consumer in
  let tp := param ps s_topic in
  match r with
  | RClusterList => Some (mk_sreq StorageFetchClusters [] [] [])
  | RTopicList => Some (mk_sreq StorageFetchTopics cl [] [])
  | RTopicDetail => Some (mk_sreq StorageFetchTopic cl [] tp)
  | RTopicConsumers => Some (mk_sreq StorageFetchConsumersForTopic cl [] tp)
  | RConsumerList => Some (mk_sreq StorageFetchConsumers cl [] [])
  | RConsumerDetail => Some (mk_sreq StorageFetchConsumer cl gr [])
  | RConsumerDelete | RConsumerDeleteTopic => Some (mk_sreq StorageSetDeleteGroup cl gr tp)
  | _ => None
  end.

(* the configuration section a config-backed detail route looks its module up in, and the parameter *)
Definition config_section (r : route) : option (bytes * bytes) :=
  match r with
  | RClusterDetail | RCfgClusterDetail => Some (s_cluster, s_cluster)
  | RCfgStorageDetail => Some (s_storage, s_name)
  | RCfgEvaluatorDetail => Some (s_evaluator, s_name)
  | RCfgConsumerDetail => Some (s_consumer, s_name)
  | RCfgNotifierDetail => Some (s_notifier, s_name)
  | _ => None
  end.

Definition is_status_route (r : route) : bool :=
  match r with RConsumerStatus | RConsumerLag => true | _ => false end.
Definition is_delete_route (r : route) : bool :=
  match r with RConsumerDelete | RConsumerDeleteTopic => true | _ => false end.

Definition status_of (r : route) (ps : params) (b : backend) : option gstatus :=
  evaluator_reply b (param ps s_cluster) (param ps s_consumer)
                  (match r with RConsumerLag => true | _ => false end).

(* a configured notifier has one of the four classes (the notifier coordinator refuses anything else at
   start-up; see C19) *)
Definition notifier_class_known (cfg : tree) (name : bytes) : bool :=
  match get_str_go cfg (s_notifier ++ [dot] ++ name ++ [dot] ++ s_class_name) with
  | Some cls => known_notifier_class cls
  | None => false
  end.

(* "the named resource exists", as far as this layer can tell *)
Definition present (r : route) (ps : params) (reqbody : Z) (b : backend) (cfg : tree) : Prop :=
  if is_status_route r
  then exists st, status_of r ps b = Some st /\ gs_status st <> 0
  else match config_section r with
       | Some (kind, pname) =>
           module_configured cfg kind (param ps pname) = true /\
           (r = RCfgNotifierDetail -> notifier_class_known cfg (param ps pname) = true)
       | None =>
           match r with
           | RSetLogLevel => reqbody = 2
           | _ => match request_of r ps with
                  | Some q => is_delete_route r = true \/ storage_reply b q <> None
                  | None => True
                  end
           end
       end.

(* "the request names an unknown cluster / group / module, or asks for the offsets of an unknown topic";
   False for routes without a named resource.  The two DELETE routes are deliberately NOT covered: they are
   fire-and-forget and cannot know (finding C16:delete-unknown-group). *)
Definition unknown (r : route) (ps : params) (b : backend) (cfg : tree) : Prop :=
  if is_status_route r
  then exists st, status_of r ps b = Some st /\ gs_status st = 0
  else match config_section r with
       | Some (kind, pname) => module_configured cfg kind (param ps pname) = false
       | None =>
           match r with
           | RTopicList | RTopicDetail | RTopicConsumers | RConsumerList | RConsumerDetail =>
               match request_of r ps with Some q => storage_reply b q = None | None => False end
           | _ => False
           end
       end.

(* The property's reading of "unknown" INCLUDING the two DELETE routes: a DELETE names an unknown cluster /
   consumer group when storage would answer StorageFetchConsumer for that pair with nil. *)
Definition delete_names_unknown_group (r : route) (ps : params) (b : backend) : Prop :=
  is_delete_route r = true /\
  storage_reply b (mk_sreq StorageFetchConsumer (param ps s_cluster) (param ps s_consumer) []) = None.

Definition unknown_full (r : route) (ps : params) (b : backend) (cfg : tree) : Prop :=
  unknown r ps b cfg \/ delete_names_unknown_group r ps b.

(* ------------------------------------------------------------------------------------------------ *)
(* the registrations the model covers (the documented API), and the regenerated route table          *)
(* ------------------------------------------------------------------------------------------------ *)

Definition all_routes : list route :=
  [RAdmin; RReady; RMetrics; RClusterList; RClusterDetail; RTopicList; RTopicDetail; RTopicConsumers;
   RConsumerList; RConsumerDetail; RConsumerStatus; RConsumerLag; RConfigMain; RCfgStorageList;
   RCfgStorageDetail; RCfgEvaluatorList; RCfgEvaluatorDetail; RCfgClusterList; RCfgClusterDetail;
   RCfgConsumerList; RCfgConsumerDetail; RCfgNotifierList; RCfgNotifierDetail; RConsumerDelete;
   RConsumerDeleteTopic; RGetLogLevel; RSetLogLevel].

Open Scope string_scope.

(* method, pattern, Go handler *)
Definition route_reg (r : route) : string * string * string :=
  match r with
  | RAdmin => ("GET", "/burrow/admin", "handleAdmin")
  | RReady => ("GET", "/burrow/admin/ready", "handleReady")
  | RMetrics => ("GET", "/metrics", "handlePrometheusMetrics")
  | RClusterList => ("GET", "/v3/kafka", "handleClusterList")
  | RClusterDetail => ("GET", "/v3/kafka/:cluster", "handleClusterDetail")
  | RTopicList => ("GET", "/v3/kafka/:cluster/topic", "handleTopicList")
  | RTopicDetail => ("GET", "/v3/kafka/:cluster/topic/:topic", "handleTopicDetail")
  | RTopicConsumers => ("GET", "/v3/kafka/:cluster/topic/:topic/consumers", "handleTopicConsumerList")
  | RConsumerList => ("GET", "/v3/kafka/:cluster/consumer", "handleConsumerList")
  | RConsumerDetail => ("GET", "/v3/kafka/:cluster/consumer/:consumer", "handleConsumerDetail")
  | RConsumerStatus => ("GET", "/v3/kafka/:cluster/consumer/:consumer/status", "handleConsumerStatus")
  | RConsumerLag => ("GET", "/v3/kafka/:cluster/consumer/:consumer/lag", "handleConsumerStatusComplete")
  | RConfigMain => ("GET", "/v3/config", "configMain")
  | RCfgStorageList => ("GET", "/v3/config/storage", "configStorageList")
  | RCfgStorageDetail => ("GET", "/v3/config/storage/:name", "configStorageDetail")
  | RCfgEvaluatorList => ("GET", "/v3/config/evaluator", "configEvaluatorList")
  | RCfgEvaluatorDetail => ("GET", "/v3/config/evaluator/:name", "configEvaluatorDetail")
  | RCfgClusterList => ("GET", "/v3/config/cluster", "configClusterList")
  | RCfgClusterDetail => ("GET", "/v3/config/cluster/:cluster", "handleClusterDetail")
  | RCfgConsumerList => ("GET", "/v3/config/consumer", "configConsumerList")
  | RCfgConsumerDetail => ("GET", "/v3/config/consumer/:name", "configConsumerDetail")
  | RCfgNotifierList => ("GET", "/v3/config/notifier", "configNotifierList")
  | RCfgNotifierDetail => ("GET", "/v3/config/notifier/:name", "configNotifierDetail")
  | RConsumerDelete => ("DELETE", "/v3/kafka/:cluster/consumer/:consumer", "handleConsumerDelete")
  | RConsumerDeleteTopic => ("DELETE", "/v3/kafka/:cluster/consumer/:consumer/topic/:topic", "handleConsumerDelete")
  | RGetLogLevel => ("GET", "/v3/admin/loglevel", "getLogLevel")
  | RSetLogLevel => ("POST", "/v3/admin/loglevel", "setLogLevel")
  end.

Definition route_method (r : route) : string := fst (fst (route_reg r)).
Definition route_pattern (r : route) : string := snd (fst (route_reg r)).
Definition route_handler (r : route) : string := snd (route_reg r).

(* The documentation list of the /v3 API (Burrow wiki "HTTP Endpoint"): method and path pattern. *)
Definition documented_v3 : list (string * string) :=
  [("GET", "/v3/kafka"); ("GET", "/v3/kafka/:cluster"); ("GET", "/v3/kafka/:cluster/topic");
   ("GET", "/v3/kafka/:cluster/topic/:topic"); ("GET", "/v3/kafka/:cluster/topic/:topic/consumers");
   ("GET", "/v3/kafka/:cluster/consumer"); ("GET", "/v3/kafka/:cluster/consumer/:consumer");
   ("GET", "/v3/kafka/:cluster/consumer/:consumer/status"); ("GET", "/v3/kafka/:cluster/consumer/:consumer/lag");
   ("DELETE", "/v3/kafka/:cluster/consumer/:consumer");
   ("DELETE", "/v3/kafka/:cluster/consumer/:consumer/topic/:topic");
   ("GET", "/v3/config"); ("GET", "/v3/config/storage"); ("GET", "/v3/config/storage/:name");
   ("GET", "/v3/config/evaluator"); ("GET", "/v3/config/evaluator/:name");
   ("GET", "/v3/config/cluster"); ("GET", "/v3/config/cluster/:cluster");
   ("GET", "/v3/config/consumer"); ("GET", "/v3/config/consumer/:name");
   ("GET", "/v3/config/notifier"); ("GET", "/v3/config/notifier/:name");
   ("GET", "/v3/admin/loglevel"); ("POST", "/v3/admin/loglevel")].

Definition is_v3 (r : route) : bool :=
  match r with RAdmin | RReady | RMetrics => false | _ => true end.

Definition is_get (r : route) : bool := String.eqb (route_method r) "GET".

(* table rows as emitted by /verif/translator/http (routes) *)
Inductive seg := SLit (s : string) | SParam (s : string) | SCatchAll (s : string).
Inductive rt_row :=
| RtRow (method pattern : string) (segs : list seg) (handler reg : string)
| RtUnknown (pos why : string).

(* a row IS the registration of route r when method and pattern agree.  The NAME of the Go function that serves it is
   not part of the identity: handlers may be renamed, merged into a factory (consumerStatusHandler(showAll)) or split
   without any change of behaviour; [route_handler] only documents the name at the time of modelling.  What the handler
   does is tied per request by the differential, and which requests it can construct by [request_types_ok], which
   looks the handler up under the name the TABLE gives. *)
Definition row_is (r : route) (row : rt_row) : bool :=
  match row with
  | RtRow m p _ _ _ => String.eqb m (route_method r) && String.eqb p (route_pattern r)
  | RtUnknown _ _ => false
  end.

Definition row_same_path (r : route) (row : rt_row) : bool :=
  match row with
  | RtRow m p _ _ _ => String.eqb m (route_method r) && String.eqb p (route_pattern r)
  | RtUnknown _ _ => false
  end.

Definition route_of_row (row : rt_row) : option route := find (fun r => row_is r row) all_routes.

(* pattern string -> segments, recomputed in Coq so that the segments column of the table is checked *)
Fixpoint split_slash (s : string) (cur : string) : list string :=
  match s with
  | EmptyString => [cur]
  | String c r => if Ascii.eqb c "/"%char then cur :: split_slash r EmptyString
                  else split_slash r (cur ++ String c EmptyString)
  end.

Definition seg_of (s : string) : seg :=
  match s with
  | String c r => if Ascii.eqb c ":"%char then SParam r else if Ascii.eqb c "*"%char then SCatchAll r else SLit s
  | EmptyString => SLit s
  end.

Definition segs_of_pattern (p : string) : list seg := map seg_of (tl (split_slash p EmptyString)).

Definition seg_eqb (a b : seg) : bool :=
  match a, b with
  | SLit x, SLit y | SParam x, SParam y | SCatchAll x, SCatchAll y => String.eqb x y
  | _, _ => false
  end.

Fixpoint segs_eqb (a b : list seg) : bool :=
  match a, b with
  | [], [] => true
  | x :: a', y :: b' => seg_eqb x y && segs_eqb a' b'
  | _, _ => false
  end.

Definition row_wellformed (row : rt_row) : bool :=
  match row with
  | RtRow _ p segs _ _ => segs_eqb segs (segs_of_pattern p)
  | RtUnknown _ _ => false
  end.

Definition count_rows (f : rt_row -> bool) (tbl : list rt_row) : nat := List.length (filter f tbl).

(* The per-run table obligation of C16:
   - no registration the translator could not classify; every row's segments are those of its pattern;
   - every modelled (documented) registration occurs exactly once, with its method and its Go handler,
     and no other registration claims the same method+pattern;
   - every row of the table is one of the modelled registrations (a new route needs a model case);
   - every documented /v3 pattern is a modelled registration;
   - NotFound is set, and no router field outside [allowed_router_opts] is assigned (no PanicHandler etc. that would
     change what a crash means). *)
(* router fields Configure may assign: NotFound (the 404 handler) and the four switches that only decide between a
   router-level answer and NotFound for a request that matches no registration.  PanicHandler (changes what a handler
   panic means) and the custom MethodNotAllowed / GlobalOPTIONS handlers are not among them. *)
Definition allowed_router_opts : list string :=
  ["NotFound"; "RedirectTrailingSlash"; "RedirectFixedPath"; "HandleMethodNotAllowed"; "HandleOPTIONS"].

Definition route_table_ok (tbl : list rt_row) (opts : list (string * string)) : bool :=
  forallb row_wellformed tbl
  && forallb (fun r => Nat.eqb (count_rows (row_is r) tbl) 1 && Nat.eqb (count_rows (row_same_path r) tbl) 1) all_routes
  && forallb (fun row => match route_of_row row with Some _ => true | None => false end) tbl
  && forallb (fun d => existsb (fun r => is_v3 r && String.eqb (fst d) (route_method r) && String.eqb (snd d) (route_pattern r)) all_routes)
       documented_v3
  && forallb (fun r => negb (is_v3 r) || existsb (fun d => String.eqb (fst d) (route_method r) && String.eqb (snd d) (route_pattern r)) documented_v3)
       all_routes
  && forallb (fun o => existsb (String.eqb (fst o)) allowed_router_opts) opts
  && existsb (fun o => String.eqb (fst o) "NotFound") opts.

(* ---- request types: what the model issues, against what the translator found in each Go handler ---- *)

Inductive hreq := HReq (handler : string) (types : list string) (evals : bool) (pnames : list string).

Definition req_type_name (ty : Z) : string :=
  match ty with
  | 0%Z => "StorageSetBrokerOffset" | 1%Z => "StorageSetConsumerOffset" | 2%Z => "StorageSetConsumerOwner"
  | 3%Z => "StorageSetDeleteTopic" | 4%Z => "StorageSetDeleteGroup" | 5%Z => "StorageFetchClusters"
  | 6%Z => "StorageFetchConsumers" | 7%Z => "StorageFetchTopics" | 8%Z => "StorageFetchConsumer"
  | 9%Z => "StorageFetchTopic" | 10%Z => "StorageClearConsumerOwners" | 11%Z => "StorageFetchConsumersForTopic"
  | _ => "UNKNOWN"
  end.

(* storage request types / evaluator use / ByName names of each modelled route (proved to bound [handle]) *)
Definition route_req_types (r : route) : list Z :=
  match r with
  | RClusterList => [5%Z] | RTopicList => [7%Z] | RTopicDetail => [9%Z] | RTopicConsumers => [11%Z]
  | RConsumerList => [6%Z] | RConsumerDetail => [8%Z]
  | RConsumerDelete | RConsumerDeleteTopic => [4%Z]
  | _ => []
  end.
Definition route_evals (r : route) : bool :=
  match r with RConsumerStatus | RConsumerLag => true | _ => false end.

Definition str_in (s : string) (l : list string) : bool := existsb (String.eqb s) l.
Definition same_set (a b : list string) : bool := forallb (fun x => str_in x b) a && forallb (fun x => str_in x a) b.
Definition fetch_name (s : string) : bool := String.prefix "StorageFetch" s.

Definition hreq_for (h : string) (hr : list hreq) : option hreq :=
  find (fun x => match x with HReq n _ _ _ => String.eqb n h end) hr.

(* the Go function the table registers for route r *)
Definition row_handler_of (r : route) (tbl : list rt_row) : option string :=
  match find (row_is r) tbl with
  | Some (RtRow _ _ _ h _) => Some h
  | _ => None
  end.

(* For every modelled route except /metrics the Go function registered for it constructs exactly the request types the
   model issues; and every function registered under GET (including /metrics) constructs only Fetch types. *)
Definition request_types_ok (tbl : list rt_row) (hr : list hreq) : bool :=
  forallb (fun r =>
    match row_handler_of r tbl with
    | None => false
    | Some h =>
        match hreq_for h hr with
        | None => false
        | Some (HReq _ tys ev _) =>
            (match r with
             | RMetrics => true
             | _ => same_set tys (map req_type_name (route_req_types r)) && Bool.eqb ev (route_evals r)
             end)
            && (negb (is_get r) || forallb fetch_name tys)
        end
    end) all_routes.

Close Scope string_scope.

(* ------------------------------------------------------------------------------------------------ *)
(* path -> (row, params): httprouter's matching as documented; used by the driver only (trusted)     *)
(* ------------------------------------------------------------------------------------------------ *)

Definition slash : Z := 47.

Fixpoint split_on (d : Z) (s : bytes) : list bytes :=
  match s with
  | [] => [[]]
  | c :: r =>
      if c =? d then [] :: split_on d r
      else match split_on d r with
           | h :: t => (c :: h) :: t
           | [] => [[c]]
           end
  end.

(* a table row compiled to byte strings (no Coq [string] in the extracted driver) *)
Inductive bseg := BLit (s : bytes) | BParam (n : bytes) | BBad.
Record brow := mk_brow { br_method : bytes; br_segs : list bseg; br_route : option route }.

Definition compile_seg (s : seg) : bseg :=
  match s with
  | SLit x => BLit (bytes_of_string x)
  | SParam x => BParam (bytes_of_string x)
  | SCatchAll _ => BBad
  end.

Definition compile_row (row : rt_row) : option brow :=
  match row with
  | RtRow m _ segs _ _ => Some (mk_brow (bytes_of_string m) (map compile_seg segs) (route_of_row row))
  | RtUnknown _ _ => None
  end.

Definition compile_table (tbl : list rt_row) : list brow :=
  flat_map (fun r => match compile_row r with Some b => [b] | None => [] end) tbl.

(* httprouter v1.3.0 (tree.go getValue): a named parameter takes everything up to the next '/'; an EMPTY
   value is accepted when more of the path follows ("/v3/kafka//topic" gives cluster = ""), but not at
   the end of the path ("/v3/kafka/" is a trailing-slash redirect) *)
Fixpoint match_segs (pat : list bseg) (path : list bytes) : option params :=
  match pat, path with
  | [], [] => Some []
  | BLit s :: pr, x :: xr => if beq s x then match_segs pr xr else None
  | BParam n :: pr, x :: xr =>
      match x, xr with
      | [], [] => None
      | _, _ => match match_segs pr xr with
                | Some ps => Some ((n, x) :: ps)
                | None => None
                end
      end
  | _, _ => None
  end.

Fixpoint dispatch_rows (tbl : list brow) (method : bytes) (segs : list bytes) : option (brow * params) :=
  match tbl with
  | [] => None
  | row :: rest =>
      if beq (br_method row) method
      then match match_segs (br_segs row) segs with
           | Some ps => Some (row, ps)
           | None => dispatch_rows rest method segs
           end
      else dispatch_rows rest method segs
  end.

Definition dispatch (tbl : list brow) (method path : bytes) : option (brow * params) :=
  match path with
  | c :: rest => if c =? slash then dispatch_rows tbl method (split_on slash rest) else None
  | [] => None
  end.

(* ------------------------------------------------------------------------------------------------ *)
(* a scripted backend built from a finite "world" (used by the driver, and as the witness that        *)
(* [backend_typed] is satisfiable)                                                                    *)
(* ------------------------------------------------------------------------------------------------ *)

Record wcluster := mk_wcluster {
  wc_name : bytes;
  wc_topics : list (bytes * list Z);            (* topic -> broker offsets *)
  wc_groups : list (bytes * (Z * bool))         (* group -> (status, json-encodable) *)
}.

Definition world := list wcluster.

Fixpoint find_cluster (w : world) (c : bytes) : option wcluster :=
  match w with
  | [] => None
  | x :: r => if beq (wc_name x) c then Some x else find_cluster r c
  end.

Fixpoint assoc_b {A : Type} (l : list (bytes * A)) (k : bytes) : option A :=
  match l with
  | [] => None
  | (n, v) :: r => if beq n k then Some v else assoc_b r k
  end.

(* override: 0 none; 1 FetchClusters answers nil; 2 every storage reply has a foreign dynamic type;
   3 the evaluator answers a nil pointer; 4 the evaluator's status holds a NaN *)
Definition world_storage (w : world) (override : Z) (q : sreq) : option reply_value :=
  let ty := sq_type q in
  let base :=
    if ty =? 5 then Some (RStrings (map wc_name w))
    else match find_cluster w (sq_cluster q) with
         | None => None
         | Some c =>
             if ty =? 7 then Some (RStrings (map fst (wc_topics c)))
             else if ty =? 6 then Some (RStrings (map fst (wc_groups c)))
             else if ty =? 9 then option_map RInts (assoc_b (wc_topics c) (sq_topic q))
             else if ty =? 11 then Some (RStrings (map fst (wc_groups c)))
             else if ty =? 8 then option_map (fun _ => RTopics 0) (assoc_b (wc_groups c) (sq_group q))
             else None
         end in
  if (override =? 1) && (ty =? 5) then None
  else if override =? 2 then match base with Some _ => Some ROther | None => None end
  else base.

Definition world_evaluator (w : world) (override : Z) (c g : bytes) (showall : bool) : option gstatus :=
  if override =? 3 then None
  else
    let st := match find_cluster w c with
              | None => mk_gstatus 0 true
              | Some cl => match assoc_b (wc_groups cl) g with
                           | Some (s, fin) => mk_gstatus s fin
                           | None => mk_gstatus 0 true
                           end
              end in
    Some (if override =? 4 then mk_gstatus (gs_status st) false else st).

Definition world_backend (w : world) (override : Z) (ready : bool) : backend :=
  mk_backend (world_storage w override) (world_evaluator w override) ready.

(* ------------------------------------------------------------------------------------------------ *)
(* the whole server: router + handlers                                                               *)
(* ------------------------------------------------------------------------------------------------ *)

(* defaultHandler.ServeHTTP (router.NotFound): http.Error(w, <JSON text with error=true and a message>, 404);
   http.Error sets Content-Type text/plain, there is no request block *)
Definition default_handler : outcome := Resp 404 false (BJson true true false None).

(* ---- a request that matches no registration ----
   httprouter v1.3.0 (router.go ServeHTTP; every option at its default except NotFound -- checked by [route_table_ok])
   then either answers BY ITSELF -- 301 (GET) / 307 redirect when its radix tree recommends the path with the trailing
   slash toggled, or finds the cleaned path (CleanPath) case-insensitively; 200 + Allow for OPTIONS and 405 + Allow when
   the path is registered under another method -- or hands the request to NotFound.  Which of the two happens depends on
   the shape of the radix tree (e.g. GET /v3/kafka/ is redirected, GET /v3/kafka/c1/ is not), which is not modelled:
   the router's choice is the TRUSTED function [router_answer] below (Some code = answered by the router with that
   status code, None = handed to NotFound).  What IS modelled, and compared with the real router on every unrouted case
   of every run, is a region in which the router certainly does not answer by itself ([router_level_possible] = false):
   the path is not "*", its cleaned form is not the root, and neither the path nor its cleaned form, with or without a
   trailing slash, fits any registration of any method when literal segments are compared without regard to ASCII case
   and a parameter may be empty. *)

Definition ends_with_slash (p : bytes) : bool := match rev p with c :: _ => c =? slash | [] => false end.
Definition toggle_slash (p : bytes) : bytes := if ends_with_slash p then removelast p else p ++ [slash].

(* httprouter.CleanPath: empty and "." elements dropped, ".." removes the element before it, the result starts with "/"
   and keeps a trailing slash (also when the path ends in "/.") unless it is the root *)
Fixpoint clean_segs (segs : list bytes) (acc : list bytes) : list bytes :=
  match segs with
  | [] => rev acc
  | s :: r =>
      if beq s [] || beq s [dot] then clean_segs r acc
      else if beq s [dot; dot] then clean_segs r (tl acc)
      else clean_segs r (s :: acc)
  end.

Fixpoint join_slash (segs : list bytes) : bytes :=
  match segs with
  | [] => []
  | s :: r => slash :: s ++ join_slash r
  end.

Definition clean_path (p : bytes) : bytes :=
  match p with
  | [] => [slash]
  | c :: rest =>
      let body := if c =? slash then rest else p in
      let segs := split_on slash body in
      let trailing := (match rest with [] => false | _ => ends_with_slash p end) || beq (last segs []) [dot] in
      match clean_segs segs [] with
      | [] => [slash]
      | cs => join_slash cs ++ (if trailing then [slash] else [])
      end
  end.

Fixpoint match_segs_loose (pat : list bseg) (path : list bytes) : bool :=
  match pat, path with
  | [], [] => true
  | BLit s :: pr, x :: xr => beq (lower s) (lower x) && match_segs_loose pr xr
  | BParam _ :: pr, _ :: xr => match_segs_loose pr xr
  | _, _ => false
  end.

Definition loosely_registered (tbl : list brow) (path : bytes) : bool :=
  match path with
  | c :: rest => (c =? slash) && existsb (fun row => match_segs_loose (br_segs row) (split_on slash rest)) tbl
  | [] => false
  end.

Definition star : Z := 42.

Definition router_level_possible (tbl : list brow) (path : bytes) : bool :=
  let c := clean_path path in
  beq path [star] || beq c [slash]
  || loosely_registered tbl c || loosely_registered tbl (toggle_slash c)
  || loosely_registered tbl path || loosely_registered tbl (toggle_slash path).

(* the constraint on the trusted function that the differential checks on every unrouted case *)
Definition router_answer_sound (tbl : list brow) (router_answer : bytes -> bytes -> option Z) : Prop :=
  forall method path, router_level_possible tbl path = false -> router_answer method path = None.

(* A request that matches a registration runs its handler.  One that matches none is answered by the router itself
   (no handler and no backend involved) or handed to NotFound. *)
Definition serve (router_answer : bytes -> bytes -> option Z)
           (tbl : list brow) (method path : bytes) (reqbody : Z) (b : backend) (cfg : tree) : result :=
  match dispatch tbl method path with
  | Some (row, ps) =>
      match br_route row with
      | Some r => handle r ps reqbody b cfg
      | None => ([], Crash)            (* a registration without a model case: excluded by [route_table_ok] *)
      end
  | None =>
      match router_answer method path with
      | Some code => ([], Resp code false BOpaque)
      | None => ([], default_handler)
      end
  end.
