(* Executable model of the lag evaluator.
   Anchors: core/internal/evaluator/caching.go
     calculatePartitionStatus        :315-353
     rule predicates                 :355-438
     evaluatePartitionStatus         :272-313
     evaluateConsumerStatus (fold)   :203-259
     getConsumerStatus (filter copy) :142-166 *)
From Coq Require Import ZArith List Bool.
From Burrow Require Import Int64 F32.
Import ListNotations.
Open Scope Z_scope.

(* protocol.ConsumerOffset; Lag is a nullable uint64 *)
Record coff := mkCoff { co_offset : Z; co_order : Z; co_ts : Z; co_lag : option Z }.

Inductive status := StNotFound | StOK | StWarn | StErr | StStop | StStall | StRewind.
Definition status_num (s : status) : Z :=
  match s with StNotFound => 0 | StOK => 1 | StWarn => 2 | StErr => 3
             | StStop => 4 | StStall => 5 | StRewind => 6 end.

(* a Go panic (nil dereference / index out of range) *)
Inductive res (A : Type) := Ok (a : A) | Crash.
Arguments Ok {A} a. Arguments Crash {A}.

(* Rule 1 *)
Definition lag_always_not_zero (offs : list coff) (allowed : Z) : bool :=
  forallb (fun o => match co_lag o with Some l => negb (l <=? allowed) | None => true end) offs.

(* Rule 2: index of the first commit whose offset is below its predecessor's *)
Fixpoint rewind_from (prev : Z) (l : list coff) (i : nat) : option nat :=
  match l with
  | [] => None
  | o :: r => if co_offset o <? prev then Some i else rewind_from (co_offset o) r (S i)
  end.
Definition rewind_index (offs : list coff) : option nat :=
  match offs with [] => None | o :: r => rewind_from (co_offset o) r 1 end.

(* Rule 2 part 2: some commit at or after index i reached the offset before the rewind *)
Definition rewind_recovered (offs : list coff) (i : nat) : bool :=
  match nth_error offs (i - 1) with
  | Some p => existsb (fun o => co_offset p <=? co_offset o) (skipn i offs)
  | None => false
  end.

(* Rule 2 as calculatePartitionStatus applies it since the repair: EVERY backward step of the window counts, not only
   the first one -- the status is REWIND when for some step prev -> c no commit from c on got back to prev's offset.
   (The loop calls checkIfOffsetsRewind on the remaining sub-slice after each recovered rewind.) *)
Fixpoint unrecovered_rewind (prev : coff) (rest : list coff) : bool :=
  match rest with
  | [] => false
  | c :: post =>
      ((co_offset c <? co_offset prev) && negb (existsb (fun o => co_offset prev <=? co_offset o) rest))
      || unrecovered_rewind c post
  end.
Definition rewound_unrecovered (offs : list coff) : bool :=
  match offs with [] => false | o :: r => unrecovered_rewind o r end.

(* Rule 3, with Go's int64 arithmetic written out *)
Definition offsets_stopped (offs : list coff) (now : Z) : bool :=
  match offs with
  | [] => false
  | f :: _ =>
      let l := last offs f in
      sub64 (co_ts l) (co_ts f) <? sub64 (mul64 now 1000) (co_ts l)
  end.

(* Rule 4 *)
Fixpoint stalled_from (prev : Z) (l : list coff) : bool :=
  match l with
  | [] => true
  | o :: r => if co_offset o =? prev then stalled_from (co_offset o) r else false
  end.
Definition offsets_stalled (offs : list coff) : bool :=
  match offs with [] => true | o :: r => stalled_from (co_offset o) r end.

(* Rule 5: over the lags that are present *)
Fixpoint lag_not_decreasing_from (lastlag : option Z) (l : list coff) : bool :=
  match l with
  | [] => true
  | o :: r =>
      match co_lag o with
      | None => lag_not_decreasing_from lastlag r
      | Some lg =>
          match lastlag with
          | Some ll => if lg <? ll then false else lag_not_decreasing_from (Some lg) r
          | None => lag_not_decreasing_from (Some lg) r
          end
      end
  end.
Definition lag_not_decreasing (offs : list coff) : bool := lag_not_decreasing_from None offs.

Definition recent_lag_zero (offs : list coff) (brokers : list Z) : bool :=
  match offs with
  | [] => false
  | f :: _ => let lo := co_offset (last offs f) in existsb (fun b => b <=? lo) brokers
  end.

(* the rules after REWIND *)
Definition lag_rules (offs : list coff) (allowed : Z) : status :=
  if lag_always_not_zero offs allowed then
    if offsets_stalled offs then StStall
    else if lag_not_decreasing offs then StWarn else StOK
  else StOK.

(* calculatePartitionStatus on a window without nil entries *)
Definition calc_status_some (offs : list coff) (brokers : list Z)
           (cur_lag now allowed : Z) : status :=
  if cur_lag <=? allowed then StOK
  else if offsets_stopped offs now && negb (recent_lag_zero offs brokers) then StStop
  else if rewound_unrecovered offs then StRewind
  else lag_rules offs allowed.

(* the same function BEFORE the repair (only the first backward step of the window was looked at): kept for the
   before-fix refutation in props/C03.v *)
Definition calc_status_some_v1 (offs : list coff) (brokers : list Z)
           (cur_lag now allowed : Z) : status :=
  if cur_lag <=? allowed then StOK
  else if offsets_stopped offs now && negb (recent_lag_zero offs brokers) then StStop
  else
    match rewind_index offs with
    | Some i => if negb (rewind_recovered offs i) then StRewind else lag_rules offs allowed
    | None => lag_rules offs allowed
    end.

Fixpoint all_some {A} (l : list (option A)) : option (list A) :=
  match l with
  | [] => Some []
  | None :: _ => None
  | Some a :: r => match all_some r with Some r' => Some (a :: r') | None => None end
  end.

(* calculatePartitionStatus as called: entries may be nil pointers.  With
   cur_lag <= allowed nothing is dereferenced.  Otherwise offsets[0] and
   offsets[len-1] are dereferenced first (checkIfOffsetsStopped): an empty
   window or a nil entry is a panic.  (Windows produced by storage carry nil
   entries only as a prefix, C02, and that prefix is sliced off by the caller.) *)
Definition calc_status (offs : list (option coff)) (brokers : list Z)
           (cur_lag now allowed : Z) : res status :=
  if cur_lag <=? allowed then Ok StOK
  else match offs with
       | [] => Crash
       | _ => match all_some offs with
              | Some l => Ok (calc_status_some l brokers cur_lag now allowed)
              | None => Crash
              end
       end.

(* protocol.ConsumerPartition *)
Record cpart := mkCpart {
  cp_offsets : list (option coff);
  cp_brokers : list Z;
  cp_owner : Z;            (* interned string, 0 = "" *)
  cp_client : Z;
  cp_lag : Z }.            (* uint64 *)

(* protocol.PartitionStatus *)
Record pstatus := mkPstatus {
  ps_topic : Z; ps_partition : Z; ps_owner : Z; ps_client : Z;
  ps_status : status;
  ps_start : option coff; ps_end : option coff;
  ps_lag : Z;
  ps_complete : f32 }.

(* index of the first non-nil entry; len-1 when there is none (caching.go:284-290) *)
Fixpoint first_some_idx {A} (l : list (option A)) (i : nat) : option nat :=
  match l with
  | [] => None
  | Some _ :: _ => Some i
  | None :: r => first_some_idx r (S i)
  end.

Definition eval_partition (p : cpart) (minimum : f32) (allowed now : Z)
  : res (status * option coff * option coff * f32) :=
  let n := length (cp_offsets p) in
  match n with
  | O => Ok (StOK, None, None, f32_zero)
  | _ =>
    let first := match first_some_idx (cp_offsets p) 0 with Some i => i | None => n end in
    let offs := skipn first (cp_offsets p) in
    let k := length offs in
    let complete := if (k <? n)%nat then f32_div (f32_of_int (Z.of_nat k)) (f32_of_int (Z.of_nat n))
                    else f32_one in
    match offs with
    | [] => Ok (StOK, None, None, complete)
    | st :: _ =>
        let en := last offs st in
        if f32_ge complete minimum then
          match calc_status offs (cp_brokers p) (cp_lag p) now allowed with
          | Ok s => Ok (s, st, en, complete)
          | Crash => Crash
          end
        else Ok (StOK, st, en, complete)
    end
  end.

(* protocol.ConsumerGroupStatus *)
Record gstatus := mkGstatus {
  gs_status : status;
  gs_complete : f32;
  gs_partitions : list pstatus;
  gs_total_partitions : Z;
  gs_maxlag : option pstatus;
  gs_totallag : Z }.

Definition worse (a b : status) : bool := status_num b <? status_num a.

(* one step of the second loop of evaluateConsumerStatus *)
Definition fold_part (acc : status * option pstatus * Z * list pstatus) (ps : pstatus)
  : status * option pstatus * Z * list pstatus :=
  let '(st, mx, ncomplete, lst) := acc in
  let st' := if worse (ps_status ps) st
             then (if worse (ps_status ps) StErr then StErr else ps_status ps) else st in
  let mx' := match mx with
             | None => Some ps
             | Some m => if ps_lag m <? ps_lag ps then Some ps else mx
             end in
  let nc' := if f32_eq (ps_complete ps) f32_one then ncomplete + 1 else ncomplete in
  (st', mx', nc', lst ++ [ps]).

Fixpoint eval_parts (topic : Z) (idx : Z) (ps : list cpart) (minimum : f32) (allowed now : Z)
  : res (list pstatus) :=
  match ps with
  | [] => Ok []
  | p :: r =>
      match eval_partition p minimum allowed now with
      | Crash => Crash
      | Ok (s, st, en, c) =>
          match eval_parts topic (idx + 1) r minimum allowed now with
          | Crash => Crash
          | Ok l => Ok (mkPstatus topic idx (cp_owner p) (cp_client p) s st en (cp_lag p) c :: l)
          end
      end
  end.

Fixpoint eval_topics (ts : list (Z * list cpart)) (minimum : f32) (allowed now : Z)
  : res (list pstatus) :=
  match ts with
  | [] => Ok []
  | (t, ps) :: r =>
      match eval_parts t 0 ps minimum allowed now with
      | Crash => Crash
      | Ok l => match eval_topics r minimum allowed now with
                | Crash => Crash
                | Ok l' => Ok (l ++ l')
                end
      end
  end.

Definition sum_lags (ts : list (Z * list cpart)) : Z :=
  fold_left (fun acc tp => fold_left (fun a p => addu64 a (cp_lag p)) (snd tp) acc) ts 0.

Definition count_parts (ts : list (Z * list cpart)) : Z :=
  fold_left (fun acc tp => acc + Z.of_nat (length (snd tp))) ts 0.

(* evaluateConsumerStatus: topics in the iteration order the Go map happened to give *)
Definition eval_group (ts : list (Z * list cpart)) (minimum : f32) (allowed now : Z) : res gstatus :=
  match eval_topics ts minimum allowed now with
  | Crash => Crash
  | Ok parts =>
      let '(st, mx, nc, lst) := fold_left fold_part parts (StOK, None, 0, []) in
      let total := count_parts ts in
      let complete := if 0 <? total then f32_div (f32_of_int nc) (f32_of_int total) else f32_zero in
      Ok (mkGstatus st complete lst total mx (sum_lags ts))
  end.

(* getConsumerStatus with ShowAll = false *)
Definition filter_view (g : gstatus) : gstatus :=
  mkGstatus (gs_status g) (gs_complete g)
            (filter (fun p => worse (ps_status p) StOK) (gs_partitions g))
            (gs_total_partitions g) (gs_maxlag g) (gs_totallag g).
