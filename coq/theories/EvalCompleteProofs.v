(* C04 / C03: "completeness" in mathematical terms.
   Partition: Complete == 1.0 exactly when the window has no unfilled slot; otherwise Complete is the correctly rounded
   (binary32, ties to even) fraction filled/slots, which is < 1.  Group: Complete is the correctly rounded fraction
   (partitions whose window is full)/(partitions).  Gate: Complete >= minimum is the comparison of real numbers.
   All for windows of the shape storage reports (unfilled slots only at the front) with at most 2^24 slots / partitions
   (float32 represents every integer up to 2^24 exactly; beyond that e.g. 2^24/(2^24+1) evaluates to 1.0).
   Model: Eval.v over F32.v; anchors core/internal/evaluator/caching.go evaluatePartitionStatus, evaluateConsumerStatus. *)
From Coq Require Import ZArith List Bool Reals Lia Lra.
From Flocq Require Import Core IEEE754.Binary IEEE754.Bits.
From Burrow Require Import Int64 F32 F32Proofs Eval EvalProofs EvalGroupProofs.
Import ListNotations.
Open Scope Z_scope.

(* ---------- part_complete (the value eval_partition_shape reports) in real numbers ---------- *)
Lemma part_complete_full k : part_complete 0 k = f32_one.
Proof. unfold part_complete. cbn [Nat.add]. rewrite Nat.ltb_irrefl. reflexivity. Qed.

Lemma part_complete_partial b k :
  (0 < b)%nat ->
  part_complete b k = f32_div (f32_of_int (Z.of_nat k)) (f32_of_int (Z.of_nat (b + k))).
Proof.
  intros Hb. unfold part_complete.
  replace (k <? b + k)%nat with true by (symmetry; apply Nat.ltb_lt; lia). reflexivity.
Qed.

Theorem part_complete_R b k :
  (0 < b + k)%nat -> Z.of_nat (b + k) <= 2 ^ 24 ->
  B2R 24 128 (part_complete b k) = round32 (IZR (Z.of_nat k) / IZR (Z.of_nat (b + k))) /\
  is_finite 24 128 (part_complete b k) = true.
Proof.
  intros Hpos Hn. destruct b as [|b].
  - rewrite part_complete_full. cbn [Nat.add] in *.
    destruct f32_one_R as [R1 F1]. split; [|exact F1]. rewrite R1.
    unfold Rdiv. rewrite Rinv_r by (apply not_0_IZR; lia).
    symmetry. apply (round32_int 1). lia.
  - rewrite part_complete_partial by lia. apply f32_div_correct_frac; lia.
Qed.

Theorem part_complete_eq_one_iff b k :
  (0 < b + k)%nat -> Z.of_nat (b + k) <= 2 ^ 24 ->
  (f32_eq (part_complete b k) f32_one = true <-> b = 0%nat).
Proof.
  intros Hpos Hn. destruct b as [|b].
  - rewrite part_complete_full, f32_one_eq_one. split; reflexivity.
  - rewrite part_complete_partial by lia. rewrite f32_frac_lt_one by lia.
    split; [discriminate|lia].
Qed.

(* an incomplete window is below 1 by at least one part in 2^24, also after rounding *)
Theorem part_complete_partial_below_one b k :
  (0 < b)%nat -> Z.of_nat (b + k) <= 2 ^ 24 ->
  (B2R 24 128 (part_complete b k) <= 1 - / IZR (2 ^ 24))%R.
Proof.
  intros Hb Hn. destruct (part_complete_R b k) as [HR _]; [lia|exact Hn|].
  rewrite HR. apply round32_frac_lt_one; lia.
Qed.

(* ---------- partition level ---------- *)
Theorem partition_complete_iff_full b c0 cs p minimum allowed now s st en c :
  cp_offsets p = repeat None b ++ map Some (c0 :: cs) ->
  Z.of_nat (b + S (length cs)) <= 2 ^ 24 ->
  eval_partition p minimum allowed now = Ok (s, st, en, c) ->
  (f32_eq c f32_one = true <-> b = 0%nat).
Proof.
  intros Hsh Hn Hev. rewrite (eval_partition_shape _ _ _ _ _ _ _ Hsh) in Hev.
  injection Hev as _ _ _ <-. apply part_complete_eq_one_iff; [lia|exact Hn].
Qed.

Theorem partition_complete_value b c0 cs p minimum allowed now s st en c :
  cp_offsets p = repeat None b ++ map Some (c0 :: cs) ->
  Z.of_nat (b + S (length cs)) <= 2 ^ 24 ->
  eval_partition p minimum allowed now = Ok (s, st, en, c) ->
  B2R 24 128 c = round32 (IZR (Z.of_nat (S (length cs))) / IZR (Z.of_nat (b + S (length cs)))) /\
  is_finite 24 128 c = true.
Proof.
  intros Hsh Hn Hev. rewrite (eval_partition_shape _ _ _ _ _ _ _ Hsh) in Hev.
  injection Hev as _ _ _ <-. apply part_complete_R; [lia|exact Hn].
Qed.

(* a window without any commit - whatever its length, 0 ("no ring") included - is never complete *)
Theorem partition_no_commits_not_complete b p minimum allowed now s st en c :
  cp_offsets p = repeat None b -> Z.of_nat b <= 2 ^ 24 ->
  eval_partition p minimum allowed now = Ok (s, st, en, c) ->
  f32_eq c f32_one = false /\ B2R 24 128 c = 0%R.
Proof.
  intros Hsh Hn Hev. rewrite (eval_partition_all_nil _ _ _ _ _ Hsh) in Hev.
  injection Hev as _ _ _ <-. destruct b as [|b].
  - split; [exact f32_zero_ne_one|apply f32_zero_R].
  - split; [apply f32_zero_frac; lia|].
    destruct (f32_div_correct_frac 0 (Z.of_nat (S b))) as [HR _]; [lia|lia|].
    rewrite HR. unfold Rdiv. rewrite Rmult_0_l. apply round_0. apply valid_rnd_N.
Qed.

(* "the window is full": at least one slot and no unfilled slot *)
Definition is_some {A} (o : option A) : bool := match o with Some _ => true | None => false end.
Definition window_full (p : cpart) : bool :=
  match cp_offsets p with [] => false | _ :: _ => forallb is_some (cp_offsets p) end.
(* the shape storage reports (C02): unfilled slots only at the front; at most 2^24 slots *)
Definition storage_shaped (p : cpart) : Prop :=
  (exists b cs, cp_offsets p = repeat None b ++ map Some cs) /\ Z.of_nat (length (cp_offsets p)) <= 2 ^ 24.

Lemma forallb_is_some_map {A} (l : list A) : forallb is_some (map Some l) = true.
Proof. induction l as [|a l IH]; [reflexivity|exact IH]. Qed.

Theorem partition_complete_is_window_full p minimum allowed now s st en c :
  storage_shaped p ->
  eval_partition p minimum allowed now = Ok (s, st, en, c) ->
  f32_eq c f32_one = window_full p.
Proof.
  intros [(b & cs & Hsh) Hlen] Hev.
  rewrite Hsh, app_length, repeat_length, map_length in Hlen.
  destruct cs as [|c0 cs].
  - cbn [map] in Hsh. rewrite app_nil_r in Hsh. cbn [length] in Hlen.
    destruct (partition_no_commits_not_complete b p minimum allowed now s st en c Hsh) as [H _]; [lia|exact Hev|].
    rewrite H. unfold window_full. rewrite Hsh. destruct b; reflexivity.
  - cbn [length] in Hlen.
    pose proof (partition_complete_iff_full b c0 cs p minimum allowed now s st en c Hsh Hlen Hev) as Hiff.
    unfold window_full. rewrite Hsh. destruct b as [|b].
    + cbn [repeat app]. rewrite forallb_is_some_map. cbn [map]. apply Hiff. reflexivity.
    + cbn [repeat app forallb is_some andb].
      destruct (f32_eq c f32_one); [|reflexivity]. destruct Hiff as [H _]. specialize (H eq_refl). discriminate.
Qed.

Corollary partition_complete_iff_window_full p minimum allowed now s st en c :
  storage_shaped p ->
  eval_partition p minimum allowed now = Ok (s, st, en, c) ->
  (f32_eq c f32_one = true <-> window_full p = true).
Proof. intros Hs Hev. rewrite (partition_complete_is_window_full _ _ _ _ _ _ _ _ Hs Hev). reflexivity. Qed.

(* ---------- the gate (C03) ---------- *)
Theorem gate_is_real_comparison b k minimum :
  (0 < b + k)%nat -> Z.of_nat (b + k) <= 2 ^ 24 -> is_finite 24 128 minimum = true ->
  (f32_ge (part_complete b k) minimum = true <->
   (B2R 24 128 minimum <= round32 (IZR (Z.of_nat k) / IZR (Z.of_nat (b + k))))%R).
Proof.
  intros Hpos Hn Fm. destruct (part_complete_R b k Hpos Hn) as [HR HF].
  rewrite (f32_ge_R _ _ HF Fm), HR. reflexivity.
Qed.

Theorem gate_full_window k minimum :
  is_finite 24 128 minimum = true ->
  (f32_ge (part_complete 0 k) minimum = true <-> (B2R 24 128 minimum <= 1)%R).
Proof. intros Fm. rewrite part_complete_full. apply f32_one_ge_R. exact Fm. Qed.

Theorem gate_nan_minimum b k minimum :
  is_nan 24 128 minimum = true -> f32_ge (part_complete b k) minimum = false.
Proof. apply f32_ge_nan. Qed.

(* evaluatePartitionStatus: the rules are applied exactly when minimum <= rounded(filled/slots) *)
Theorem partition_gate_real b c0 cs p minimum allowed now :
  cp_offsets p = repeat None b ++ map Some (c0 :: cs) ->
  Z.of_nat (b + S (length cs)) <= 2 ^ 24 -> is_finite 24 128 minimum = true ->
  let q := round32 (IZR (Z.of_nat (S (length cs))) / IZR (Z.of_nat (b + S (length cs)))) in
  ((B2R 24 128 minimum <= q)%R ->
     eval_partition p minimum allowed now =
     Ok (calc_status_some (c0 :: cs) (cp_brokers p) (cp_lag p) now allowed,
         Some c0, Some (last (c0 :: cs) c0), part_complete b (S (length cs)))) /\
  ((q < B2R 24 128 minimum)%R ->
     eval_partition p minimum allowed now =
     Ok (StOK, Some c0, Some (last (c0 :: cs) c0), part_complete b (S (length cs)))).
Proof.
  intros Hsh Hn Fm q. rewrite (eval_partition_shape _ _ _ _ _ _ _ Hsh).
  pose proof (gate_is_real_comparison b (S (length cs)) minimum ltac:(lia) Hn Fm) as Hg. fold q in Hg.
  split; intros H.
  - replace (f32_ge _ minimum) with true by (symmetry; apply Hg; exact H). reflexivity.
  - destruct (f32_ge _ minimum); [|reflexivity]. exfalso.
    assert (B2R 24 128 minimum <= q)%R by (apply Hg; reflexivity). lra.
Qed.

(* ---------- group level ---------- *)
Definition all_parts (ts : list (Z * list cpart)) : list cpart := flat_map snd ts.
Definition count_full (ps : list cpart) : Z := Z.of_nat (length (filter window_full ps)).

Lemma eval_topics_parts ts minimum allowed now parts :
  eval_topics ts minimum allowed now = Ok parts ->
  Forall2 (fun p s => exists st st' en, eval_partition p minimum allowed now = Ok (st, st', en, ps_complete s))
          (all_parts ts) parts.
Proof.
  revert parts; induction ts as [|[t ps] r IH]; intros parts; cbn [eval_topics].
  - intros H; injection H as <-. constructor.
  - destruct (eval_parts t 0 ps minimum allowed now) as [l1|] eqn:E1; [|discriminate].
    destruct (eval_topics r minimum allowed now) as [l2|] eqn:E2; [|discriminate].
    intros H; injection H as <-. unfold all_parts. cbn [flat_map snd].
    apply Forall2_app; [|apply IH; reflexivity].
    destruct (eval_parts_props _ _ _ _ _ _ _ E1) as (_ & _ & _ & H4).
    clear E1. induction H4 as [|p s ps' l' (st & en & c & Hev & _ & _ & Hc & _) _ IH4]; constructor; [|exact IH4].
    exists (ps_status s), st, en. rewrite Hc. exact Hev.
Qed.

Lemma count_complete_is_count_full ts minimum allowed now parts :
  Forall storage_shaped (all_parts ts) ->
  eval_topics ts minimum allowed now = Ok parts ->
  count_complete parts = count_full (all_parts ts) /\ length parts = length (all_parts ts).
Proof.
  intros Hsh Hev. pose proof (eval_topics_parts _ _ _ _ _ Hev) as HF. clear Hev.
  unfold count_complete, count_full.
  induction HF as [|p s ps l (st & st' & en & Hp) _ IH]; [split; reflexivity|].
  inversion Hsh as [|? ? Hp1 Hps]; subst. destruct (IH Hps) as [IH1 IH2].
  cbn [filter length]. split; [|f_equal; exact IH2].
  unfold is_complete at 1. rewrite (partition_complete_is_window_full _ _ _ _ _ _ _ _ Hp1 Hp).
  destruct (window_full p); cbn [length]; lia.
Qed.

Lemma filter_len_le {A} (f : A -> bool) l : (length (filter f l) <= length l)%nat.
Proof. induction l as [|a l IH]; cbn [filter length]; [lia|]. destruct (f a); cbn [length]; lia. Qed.

Lemma count_full_le ps : 0 <= count_full ps <= Z.of_nat (length ps).
Proof. unfold count_full. pose proof (filter_len_le window_full ps). lia. Qed.

Theorem group_complete_is_rounded_fraction ts minimum allowed now g :
  Forall storage_shaped (all_parts ts) ->
  Z.of_nat (length (all_parts ts)) <= 2 ^ 24 ->
  eval_group ts minimum allowed now = Ok g ->
  gs_total_partitions g = Z.of_nat (length (all_parts ts)) /\
  is_finite 24 128 (gs_complete g) = true /\
  ((0 < length (all_parts ts))%nat ->
     B2R 24 128 (gs_complete g) =
     round32 (IZR (count_full (all_parts ts)) / IZR (Z.of_nat (length (all_parts ts))))) /\
  (length (all_parts ts) = 0%nat -> B2R 24 128 (gs_complete g) = 0%R).
Proof.
  intros Hsh Hn Hg.
  destruct (eval_group_spec _ _ _ _ _ Hg) as (parts & E & _ & _ & _ & Htot & _ & _ & Hc).
  destruct (count_complete_is_count_full _ _ _ _ _ Hsh E) as [Hcc Hlen].
  rewrite Hcc, Hlen in Hc. rewrite Hlen in Htot.
  pose proof (count_full_le (all_parts ts)) as Hle.
  split; [exact Htot|].
  destruct (length (all_parts ts)) as [|n] eqn:En.
  - cbn in Hc. rewrite Hc. destruct f32_zero_R as [R0 F0]. split; [exact F0|split; [intros H; lia|intros _; exact R0]].
  - replace (0 <? Z.of_nat (S n)) with true in Hc by (symmetry; apply Z.ltb_lt; lia).
    destruct (f32_div_correct_frac (count_full (all_parts ts)) (Z.of_nat (S n))) as [HR HF]; [lia|lia|].
    rewrite Hc. split; [exact HF|split; [intros _; exact HR|discriminate]].
Qed.

(* the group is "complete" (== 1.0) exactly when every partition's window is full *)
Theorem group_complete_one_iff ts minimum allowed now g :
  Forall storage_shaped (all_parts ts) ->
  (0 < length (all_parts ts))%nat -> Z.of_nat (length (all_parts ts)) <= 2 ^ 24 ->
  eval_group ts minimum allowed now = Ok g ->
  (f32_eq (gs_complete g) f32_one = true <-> forallb window_full (all_parts ts) = true).
Proof.
  intros Hsh Hpos Hn Hg.
  destruct (eval_group_spec _ _ _ _ _ Hg) as (parts & E & _ & _ & _ & _ & _ & _ & Hc).
  destruct (count_complete_is_count_full _ _ _ _ _ Hsh E) as [Hcc Hlen].
  rewrite Hcc, Hlen in Hc.
  replace (0 <? Z.of_nat (length (all_parts ts))) with true in Hc by (symmetry; apply Z.ltb_lt; lia).
  pose proof (count_full_le (all_parts ts)) as Hle.
  rewrite Hc, f32_frac_eq_one_iff by lia.
  unfold count_full. clear. induction (all_parts ts) as [|p l IH]; cbn [filter forallb length].
  - split; reflexivity.
  - pose proof (filter_len_le window_full l) as Hl.
    destruct (window_full p); cbn [length andb].
    + rewrite <- IH. lia.
    + split; [lia|discriminate].
Qed.

(* ---------- non-vacuity ---------- *)
Definition ex_c (o : Z) : coff := mkCoff o 1 1000 (Some 0).
(* three partitions: a full window, 3 of 4 slots, and one known only through an owner update (no commit) *)
Definition ex_full := mkCpart [Some (ex_c 1); Some (ex_c 2)] [10] 0 0 0.
Definition ex_partial := mkCpart [None; Some (ex_c 1); Some (ex_c 2); Some (ex_c 3)] [10] 0 0 0.
Definition ex_nocommit := mkCpart [None; None] [10] 0 0 0.
Definition ex_noring := mkCpart [] [10] 0 0 0.

Example ex_shapes : Forall storage_shaped (all_parts [(1, [ex_full; ex_partial]); (2, [ex_nocommit; ex_noring])]).
Proof.
  repeat constructor; cbn; try lia.
  - exists 0%nat, [ex_c 1; ex_c 2]. reflexivity.
  - exists 1%nat, [ex_c 1; ex_c 2; ex_c 3]. reflexivity.
  - exists 2%nat, []. reflexivity.
  - exists 0%nat, []. reflexivity.
Qed.

Example ex_partition_bits :
  match eval_partition ex_partial f32_zero 0 3 with
  | Ok (_, _, _, c) => f32_bits c = 0x3F400000 /\ f32_eq c f32_one = false
  | Crash => False
  end /\ window_full ex_partial = false /\ window_full ex_full = true /\
  window_full ex_nocommit = false /\ window_full ex_noring = false.
Proof. vm_compute. repeat split. Qed.

(* 1 full window of 3 partitions: float32(1)/float32(3) = 0x3EAAAAAB *)
Example ex_group_bits :
  match eval_group [(1, [ex_full; ex_partial]); (2, [ex_nocommit])] f32_zero 0 3 with
  | Ok g => f32_bits (gs_complete g) = 0x3EAAAAAB /\ gs_total_partitions g = 3
  | Crash => False
  end /\ count_full (all_parts [(1, [ex_full; ex_partial]); (2, [ex_nocommit])]) = 1.
Proof. vm_compute. repeat split. Qed.

Example ex_group_all_full :
  match eval_group [(1, [ex_full; ex_full])] f32_zero 0 3 with
  | Ok g => f32_eq (gs_complete g) f32_one = true
  | Crash => False
  end.
Proof. vm_compute. reflexivity. Qed.

(* the gate at minimum-complete 0.75 (0x3F400000): 3 of 4 passes, 2 of 3 (0.6667) does not *)
Example ex_gate :
  f32_ge (part_complete 1 3) (f32_of_bits 0x3F400000) = true /\
  f32_ge (part_complete 1 2) (f32_of_bits 0x3F400000) = false /\
  is_finite 24 128 (f32_of_bits 0x3F400000) = true.
Proof. vm_compute. repeat split. Qed.

Print Assumptions partition_complete_iff_full.
Print Assumptions partition_complete_value.
Print Assumptions partition_no_commits_not_complete.
Print Assumptions partition_complete_iff_window_full.
Print Assumptions gate_is_real_comparison.
Print Assumptions gate_full_window.
Print Assumptions partition_gate_real.
Print Assumptions group_complete_is_rounded_fraction.
Print Assumptions group_complete_one_iff.
