(* Proofs about the evaluation gate model (C15). *)
From Coq Require Import ZArith List Bool Lia FMapPositive FMapFacts SetoidList.
From Burrow Require Import Int64 Int64Proofs EvalLoop.
Import ListNotations.
Open Scope Z_scope.

Module PF := FMapFacts.Facts PositiveMap.

(* ------------------------------------------------------------------------------------------------------------ *)
(* 1. Coupling between the loop and the monitor                                                                  *)
(* ------------------------------------------------------------------------------------------------------------ *)

Definition coupled (s : state) (m : mon) : bool :=
  match ph s with
  | Crashed => true
  | p =>
    Bool.eqb (conn s) (m_conn m) &&
    match p with
    | Idle => lockst_eqb (m_lock m) LFree && negb (doEval s)
    | Locking => lockst_eqb (m_lock m) LRequested && negb (doEval s)
    | GotLock | Evaluating => lockst_eqb (m_lock m) LHeld && negb (m_exp m) && doEval s
    | WaitReconnect => lockst_eqb (m_lock m) LHeld && m_exp m && negb (doEval s)
    | Unlocking => lockst_eqb (m_lock m) LReleasing && negb (doEval s)
    | Crashed => true
    end
  end.

Definition is_eval (a : action) : bool := match a with Eval _ _ => true | _ => false end.

Lemma mon_actions_evals : forall acts m,
  forallb is_eval acts = true -> m_lock m = LHeld -> m_exp m = false -> mon_actions m acts = (m, true).
Proof.
  induction acts as [|a r IH]; intros m Hall Hl He; simpl; [reflexivity|].
  simpl in Hall. apply andb_prop in Hall as [Ha Hr].
  destruct a; simpl in Ha; try discriminate.
  simpl. rewrite (IH m Hr Hl He). simpl. rewrite Hl, He. reflexivity.
Qed.

Lemma tick_evals_all_eval : forall mi now gs, forallb is_eval (tick_evals mi now gs) = true.
Proof.
  intros. unfold tick_evals. apply forallb_forall. intros a Ha.
  apply in_map_iff in Ha as [ge [<- _]]. reflexivity.
Qed.

Lemma coupled_step : forall mi s m e,
  coupled s m = true ->
  is_expired e && is_gotlock (ph s) = false ->
  let x := step_i mi s e in
  let y := mon_item m (e, snd x) in
  snd y = true /\ coupled (fst x) (fst y) = true.
Proof.
  intros mi [p d c g] [l x mc] e Hc Hg.
  unfold coupled in Hc; simpl in Hc.
  destruct p; simpl in Hc;
    try (apply andb_prop in Hc as [Hcc Hc]; apply eqb_prop in Hcc; subst mc;
         repeat (apply andb_prop in Hc as [Hc ?]);
         destruct l; simpl in *; try discriminate;
         destruct d; simpl in *; try discriminate;
         destruct x; simpl in *; try discriminate).
  all: destruct e; simpl in Hg; try discriminate; unfold mon_item, step_i, coupled; simpl;
    try (destruct c; simpl; split; reflexivity);
    try (split; reflexivity).
  (* remaining: Tick while evaluating, Refresh *)
  all: try (rewrite (mon_actions_evals _ (mkMon LHeld false c) (tick_evals_all_eval mi now g) eq_refl eq_refl); simpl;
            destruct c; split; reflexivity).
  all: try (destruct (needs_new present g && (mul64 mi 1000 <=? 0)); simpl; destruct c; split; reflexivity).
Qed.

Lemma coupled_enter_wait : forall s m, coupled s m = true -> coupled (enter_wait s) m = true.
Proof. intros [p d c g] m H. destruct p; exact H. Qed.

Lemma enter_wait_not_gotlock : forall s, is_gotlock (ph (enter_wait s)) = false.
Proof. intros [p d c g]. destruct p; reflexivity. Qed.

Lemma coupled_init : forall c0 gs, coupled (init_state c0 gs) (mon0 c0) = true.
Proof. intros [] gs; reflexivity. Qed.

(* interleaved machine, under the guard *)
Lemma run_spec_i : forall mi tr s m,
  coupled s m = true -> window_free mi s tr = true ->
  spec_ok m (snd (run (step_i mi) s tr)) = true.
Proof.
  induction tr as [|e r IH]; intros s m Hc Hw; simpl; [reflexivity|].
  simpl in Hw. apply andb_prop in Hw as [Hg Hw]. apply negb_true_iff in Hg.
  destruct (coupled_step mi s m e Hc Hg) as [Hok Hc'].
  unfold mon_item in *. simpl in *. rewrite Hok. simpl. apply IH; assumption.
Qed.

(* sequential machine: no guard needed, GotLock is never a state in which an event arrives *)
Lemma run_spec_s : forall mi tr s m,
  coupled s m = true -> is_gotlock (ph s) = false ->
  spec_ok m (snd (run (step_s mi) s tr)) = true.
Proof.
  induction tr as [|e r IH]; intros s m Hc Hn; simpl; [reflexivity|].
  assert (Hg : is_expired e && is_gotlock (ph s) = false) by (rewrite Hn; apply andb_false_r).
  destruct (coupled_step mi s m e Hc Hg) as [Hok Hc'].
  unfold mon_item in *. simpl in *. rewrite Hok. simpl.
  apply IH; [apply coupled_enter_wait; assumption | apply enter_wait_not_gotlock].
Qed.

(* C15 (i): in every trace of the sequential machine the monitor accepts every action: evaluations are emitted only
   while the lock is held and no expiry was reported since it was granted; the lock is released only once expired and
   with the connection back; a new lock is requested only after the release. *)
Theorem eval_only_with_lock : forall mi c0 gs tr,
  spec_ok (mon0 c0) (snd (run (step_s mi) (init_state c0 gs) tr)) = true.
Proof. intros. apply run_spec_s; [apply coupled_init | reflexivity]. Qed.

(* C15 (ii): the interleaved machine satisfies the same specification on every trace in which no expiry is
   delivered between the lock grant and the loop's Wait (window_free). *)
Theorem eval_only_with_lock_partial : forall mi c0 gs tr,
  window_free mi (init_state c0 gs) tr = true ->
  spec_ok (mon0 c0) (snd (run (step_i mi) (init_state c0 gs) tr)) = true.
Proof. intros. apply run_spec_i; [apply coupled_init | assumption]. Qed.

(* the sequential machine is the interleaved one whose traces put a Wake right after every lock grant *)
Definition one_group : PositiveMap.t Z := PositiveMap.add 1%positive 0 (PositiveMap.empty Z).

(* C15 (ii), refutation (DESIGN.md section 5, F8): lock granted, session expires before the loop waits; the Broadcast
   is lost, the loop goes on to wait, and every later iteration of the request loop still evaluates although the
   monitor (and every other instance) considers the lock expired. *)
Definition f8_trace : list event := [Wake; LockOk; Disconnected; Expired; Wake; Tick 5; Connected; Tick 7].

Theorem lost_wakeup_refuted :
  exists tr, spec_ok (mon0 true) (snd (run (step_i 0) (init_state true one_group) tr)) = false
             /\ window_free 0 (init_state true one_group) tr = false
             /\ exists pre g now post, tr = [Wake; LockOk] ++ pre ++ [Expired] ++ post
                                       /\ In (Tick now) post
                                       /\ In (Tick now, [Eval g now]) (snd (run (step_i 0) (init_state true one_group) tr)).
Proof.
  exists f8_trace. split; [vm_compute; reflexivity|]. split; [vm_compute; reflexivity|].
  exists [Disconnected], 1%positive, 7, [Wake; Tick 5; Connected; Tick 7].
  split; [reflexivity|]. split; [simpl; tauto|]. vm_compute. tauto.
Qed.

(* non-vacuity: the same events are accepted by the sequential machine (where the expiry is seen), which then stops *)
Example eval_only_with_lock_example :
  snd (run (step_s 0) (init_state true one_group) [Wake; LockOk; Tick 5; Disconnected; Expired; Tick 7; Connected; Wake; UnlockOk; Wake; LockOk; Tick 9])
  = [(Wake, [CallLock]); (LockOk, []); (Tick 5, [Eval 1 5]); (Disconnected, []); (Expired, []); (Tick 7, []);
     (Connected, []); (Wake, [CallUnlock]); (UnlockOk, []); (Wake, [CallLock]); (LockOk, []); (Tick 9, [Eval 1 9])].
Proof. vm_compute. reflexivity. Qed.

Example eval_only_with_lock_partial_example :
  window_free 0 (init_state true one_group) [Wake; LockOk; Wake; Tick 5; Expired; Tick 7] = true
  /\ snd (run (step_i 0) (init_state true one_group) [Wake; LockOk; Wake; Tick 5; Expired; Tick 7])
     = [(Wake, [CallLock]); (LockOk, []); (Wake, []); (Tick 5, [Eval 1 5]); (Expired, []); (Tick 7, [])].
Proof. split; vm_compute; reflexivity. Qed.

(* ------------------------------------------------------------------------------------------------------------ *)
(* 2. What the monitor's verdict means on the trace itself                                                       *)
(* ------------------------------------------------------------------------------------------------------------ *)

Definition fresh (m : mon) : Prop := m_lock m = LHeld /\ m_exp m = false.
Definition noexp (it : event * list action) : Prop := fst it <> Expired.

Lemma mon_event_fresh : forall m e, fresh (mon_event m e) -> e = LockOk \/ (fresh m /\ e <> Expired).
Proof.
  intros [l x c] e [H1 H2]. destruct e; simpl in *; auto;
    try (right; split; [split; assumption | discriminate]);
    destruct l; simpl in *; try discriminate; auto;
    try (right; split; [split; assumption | discriminate]).
Qed.

Lemma mon_action_fresh : forall m a, fresh (fst (mon_action m a)) -> fresh m.
Proof.
  intros [l x c] a [H1 H2]. destruct a; simpl in *; try (split; assumption);
    destruct l; simpl in *; try discriminate; split; assumption.
Qed.

Lemma mon_actions_fresh : forall acts m, fresh (fst (mon_actions m acts)) -> fresh m.
Proof.
  induction acts as [|a r IH]; intros m H; simpl in *; [assumption|].
  apply mon_action_fresh with a. apply IH. exact H.
Qed.

Lemma mon_actions_eval_fresh : forall acts m g t,
  In (Eval g t) acts -> snd (mon_actions m acts) = true -> fresh m.
Proof.
  induction acts as [|a r IH]; intros m g t Hin Hok; simpl in *; [contradiction|].
  apply andb_prop in Hok as [Ha Hr].
  destruct Hin as [->|Hin].
  - simpl in Ha. apply andb_prop in Ha as [Hl He]. split.
    + destruct (m_lock m); simpl in Hl; try discriminate; reflexivity.
    + apply negb_true_iff in He. exact He.
  - apply mon_action_fresh with a. eapply IH; eassumption.
Qed.

Lemma mon_run_fresh : forall lt m0,
  fresh (mon_run m0 lt) ->
  (fresh m0 /\ ~ In Expired (map fst lt)) \/
  (exists la lb, map fst lt = la ++ LockOk :: lb /\ ~ In Expired lb).
Proof.
  induction lt as [|[e acts] r IH]; intros m0 H; simpl in *.
  - left. split; [assumption | tauto].
  - destruct (IH _ H) as [[Hf Hall] | [la [lb [Heq Hall]]]].
    + unfold mon_item in Hf. simpl in Hf. apply mon_actions_fresh in Hf.
      destruct (mon_event_fresh _ _ Hf) as [-> | [Hf0 Hne]].
      * right. exists [], (map fst r). split; [reflexivity | assumption].
      * left. split; [assumption | intros [Hx | Hx]; [congruence | tauto]].
    + right. exists (e :: la), lb. rewrite Heq. split; [reflexivity | assumption].
Qed.

Lemma mon_run_app : forall l1 m l2, mon_run m (l1 ++ l2) = mon_run (mon_run m l1) l2.
Proof. induction l1; intros; simpl; [reflexivity | apply IHl1]. Qed.

Lemma spec_ok_app : forall l1 m l2,
  spec_ok m (l1 ++ l2) = true -> spec_ok m l1 = true /\ spec_ok (mon_run m l1) l2 = true.
Proof.
  induction l1 as [|it r IH]; intros m l2 H; simpl in *; [split; [reflexivity | assumption]|].
  apply andb_prop in H as [H1 H2]. destruct (IH _ _ H2) as [Ha Hb].
  rewrite H1, Ha. split; [reflexivity | assumption].
Qed.

(* "an evaluation is emitted only between a LockOk and the next Expired": in any labelled trace the monitor accepts,
   the events up to and including the emitting step contain a LockOk with no Expired after it. *)
Theorem spec_eval_between : forall c0 lt l1 e acts l2 g t,
  spec_ok (mon0 c0) lt = true ->
  lt = l1 ++ (e, acts) :: l2 -> In (Eval g t) acts ->
  exists la lb, map fst l1 ++ [e] = la ++ LockOk :: lb /\ ~ In Expired lb.
Proof.
  intros c0 lt l1 e acts l2 g t Hok -> Hin.
  apply spec_ok_app in Hok as [_ Hok]. simpl in Hok. apply andb_prop in Hok as [Hit _].
  unfold mon_item in Hit. simpl in Hit.
  pose proof (mon_actions_eval_fresh _ _ _ _ Hin Hit) as Hf.
  assert (Hf' : fresh (mon_run (mon0 c0) (l1 ++ [(e, [])]))).
  { rewrite mon_run_app. simpl. unfold mon_item. simpl. exact Hf. }
  destruct (mon_run_fresh _ _ Hf') as [[[Hl0 _] _] | [la [lb [Heq Hno]]]]; [discriminate|].
  exists la, lb. rewrite map_app in Heq. simpl in Heq. split; assumption.
Qed.

(* the sequential machine, in the words of the property *)
Corollary eval_between_lockok_and_expired : forall mi c0 gs tr l1 e acts l2 g t,
  snd (run (step_s mi) (init_state c0 gs) tr) = l1 ++ (e, acts) :: l2 -> In (Eval g t) acts ->
  exists la lb, map fst l1 ++ [e] = la ++ LockOk :: lb /\ ~ In Expired lb.
Proof.
  intros. eapply spec_eval_between; [apply (eval_only_with_lock mi c0 gs tr) | eassumption | eassumption].
Qed.

(* ------------------------------------------------------------------------------------------------------------ *)
(* 3. Pacing                                                                                                     *)
(* ------------------------------------------------------------------------------------------------------------ *)

Lemma tick_evals_in : forall mi now gs g t,
  In (Eval g t) (tick_evals mi now gs) ->
  t = now /\ exists le, PositiveMap.find g gs = Some le /\ due mi now le = true.
Proof.
  intros mi now gs g t H. unfold tick_evals in H.
  apply in_map_iff in H as [[g' le] [Heq Hin]]. simpl in Heq. inversion Heq; subst.
  apply filter_In in Hin as [Hin Hd]. simpl in Hd.
  split; [reflexivity|]. exists le. split; [apply PositiveMap.elements_complete; exact Hin | exact Hd].
Qed.

Lemma tick_evals_complete : forall mi now gs g le,
  PositiveMap.find g gs = Some le -> due mi now le = true -> In (Eval g now) (tick_evals mi now gs).
Proof.
  intros. unfold tick_evals. apply in_map_iff. exists (g, le). split; [reflexivity|].
  apply filter_In. split; [apply PositiveMap.elements_correct; assumption | assumption].
Qed.

Lemma find_tick : forall mi now gs g,
  PositiveMap.find g (fst (tick mi now gs)) = option_map (stamp mi now) (PositiveMap.find g gs).
Proof. intros. unfold tick. simpl. apply PF.map_o. Qed.

Definition refresh_f (now : Z) (gs : PositiveMap.t Z) :=
  fun (acc : PositiveMap.t Z) (gr : positive * Z) =>
    let g := fst gr in
    let v := match PositiveMap.find g acc with
             | Some le => le
             | None => match PositiveMap.find g gs with
                       | Some le => le
                       | None => now + neg_duration (snd gr) ns_per_ms
                       end
             end in
    PositiveMap.add g v acc.

Lemma refresh_groups_unfold : forall now pres gs,
  refresh_groups now pres gs = fold_left (refresh_f now gs) pres (PositiveMap.empty Z).
Proof. reflexivity. Qed.

Lemma refresh_fold_keeps : forall now gs g le pres acc,
  PositiveMap.find g gs = Some le ->
  (PositiveMap.find g acc = None \/ PositiveMap.find g acc = Some le) ->
  (In g (map fst pres) \/ PositiveMap.find g acc = Some le) ->
  PositiveMap.find g (fold_left (refresh_f now gs) pres acc) = Some le.
Proof.
  induction pres as [|[g' r] rest IH]; intros acc Hgs Hacc Hin; simpl in *.
  - destruct Hin as [[]|H]; exact H.
  - apply IH; [exact Hgs | |].
    + unfold refresh_f; simpl. rewrite PF.add_o. destruct (PositiveMap.E.eq_dec g' g) as [->|Hne].
      * right. destruct Hacc as [-> | ->]; [rewrite Hgs|]; reflexivity.
      * exact Hacc.
    + unfold refresh_f; simpl. rewrite PF.add_o. destruct (PositiveMap.E.eq_dec g' g) as [->|Hne].
      * right. destruct Hacc as [-> | ->]; [rewrite Hgs|]; reflexivity.
      * destruct Hin as [[H|H]|H]; [contradiction | left; exact H | right; exact H].
Qed.

Lemma refresh_keeps : forall now pres gs g le,
  PositiveMap.find g gs = Some le -> In g (map fst pres) ->
  PositiveMap.find g (refresh_groups now pres gs) = Some le.
Proof.
  intros. rewrite refresh_groups_unfold. apply refresh_fold_keeps; [assumption | left; apply PF.empty_o | left; assumption].
Qed.

(* the entry of g survives the event: every group-list refresh still lists it *)
Definition keeps (g : positive) (e : event) : bool :=
  match e with Refresh _ pres => existsb (fun gr => Pos.eqb (fst gr) g) pres | _ => true end.

Lemma keeps_in : forall g pres, existsb (fun gr : positive * Z => Pos.eqb (fst gr) g) pres = true -> In g (map fst pres).
Proof.
  intros g pres H. apply existsb_exists in H as [[g' r] [Hin Heq]]. simpl in Heq. apply Pos.eqb_eq in Heq. subst.
  apply in_map_iff. exists (g, r). split; [reflexivity | exact Hin].
Qed.

Definition lower (g : positive) (t1 : Z) (s : state) : Prop :=
  exists le, PositiveMap.find g (groups s) = Some le /\ t1 <= le.

(* within the bound the Duration does not wrap *)
Lemma neg_duration_exact : forall mi, 0 <= mi <= max_pace_interval -> neg_duration mi ns_per_s = - (mi * ns_per_s).
Proof.
  intros mi H. unfold neg_duration, mul64, max_pace_interval, ns_per_s in *.
  rewrite (wrap64_id (- mi)) by (unfold in_i64, two63; lia).
  rewrite wrap64_id by (unfold in_i64, two63; lia). lia.
Qed.

Lemma due_gt : forall mi now le, 0 <= mi <= max_pace_interval -> due mi now le = true -> le + mi * ns_per_s < now.
Proof. intros mi now le Hmi H. unfold due, send_before in H. rewrite neg_duration_exact in H by exact Hmi. apply Z.ltb_lt in H. lia. Qed.

Lemma pace_step_i : forall mi s e g t1,
  0 <= mi <= max_pace_interval -> lower g t1 s -> keeps g e = true ->
  lower g t1 (fst (step_i mi s e)) /\
  (forall t2, In (Eval g t2) (snd (step_i mi s e)) -> t2 - t1 > mi * ns_per_s).
Proof.
  intros mi [p d c gs] e g t1 Hmi [le [Hf Hle]] Hk. unfold lower, step_i, set_ph. simpl in *.
  assert (Hns : 0 <= mi * ns_per_s) by (unfold ns_per_s; lia).
  pose proof (due_gt mi) as Hdue.
  assert (Hkeep : exists le0, PositiveMap.find g gs = Some le0 /\ t1 <= le0) by (exists le; split; assumption).
  destruct p; simpl; try (split; [exact Hkeep | intros t2 []]);
  destruct e; simpl;
    try (split; [exact Hkeep | intros t2 Hin; simpl in Hin; exfalso; intuition discriminate]);
    try (destruct c; simpl; (split; [exact Hkeep | intros t2 Hin; simpl in Hin; exfalso; intuition discriminate])).
  all: try (destruct (needs_new present gs && (mul64 mi 1000 <=? 0)); simpl;
            (split; [first [exact Hkeep | exists le; split; [apply refresh_keeps; [assumption | apply keeps_in; assumption] | assumption]]
                    | intros t2 Hin; simpl in Hin; exfalso; intuition discriminate])).
  all: destruct d; simpl; try (split; [exact Hkeep | intros t2 []]).
  all: try (destruct c; simpl; (split; [exact Hkeep | intros t2 Hin; simpl in Hin; exfalso; intuition discriminate])).
  all: split;
    [ exists (stamp mi now le); split; [rewrite PF.map_o, Hf; reflexivity |];
      unfold stamp; destruct (due mi now le) eqn:Hd; [apply Hdue in Hd; [lia | exact Hmi] | assumption]
    | intros t2 Hin; apply tick_evals_in in Hin as [-> [le' [Hf' Hd]]]; rewrite Hf in Hf'; inversion Hf'; subst le';
      apply Hdue in Hd; [lia | exact Hmi] ].
Qed.

Lemma groups_enter_wait : forall s, groups (enter_wait s) = groups s.
Proof. intros [p d c g]; destruct p; reflexivity. Qed.

Lemma pace_step_s : forall mi s e g t1,
  0 <= mi <= max_pace_interval -> lower g t1 s -> keeps g e = true ->
  lower g t1 (fst (step_s mi s e)) /\
  (forall t2, In (Eval g t2) (snd (step_s mi s e)) -> t2 - t1 > mi * ns_per_s).
Proof.
  intros. destruct (pace_step_i mi s e g t1) as [A B]; try assumption.
  unfold step_s; simpl. split; [|exact B]. unfold lower in *. rewrite groups_enter_wait. exact A.
Qed.

(* an evaluation stamps the entry with the clock of that iteration *)
Lemma eval_stamps_i : forall mi s e g t,
  In (Eval g t) (snd (step_i mi s e)) -> lower g t (fst (step_i mi s e)).
Proof.
  intros mi [p d c gs] e g t Hin. unfold lower, step_i, set_ph in *. simpl in *.
  destruct p; simpl in *; try contradiction;
    destruct e; simpl in *; try (exfalso; intuition discriminate);
    try (destruct c; simpl in *; exfalso; intuition discriminate);
    try (destruct (needs_new present gs && (mul64 mi 1000 <=? 0)); simpl in *; exfalso; intuition discriminate).
  all: destruct d; simpl in *; try contradiction.
  all: apply tick_evals_in in Hin as [-> [le [Hf Hd]]]; exists now; split; [|lia];
       rewrite PF.map_o, Hf; simpl; unfold stamp; rewrite Hd; reflexivity.
Qed.

Lemma eval_stamps_s : forall mi s e g t,
  In (Eval g t) (snd (step_s mi s e)) -> lower g t (fst (step_s mi s e)).
Proof.
  intros. unfold step_s in *; simpl in *. unfold lower. rewrite groups_enter_wait. apply eval_stamps_i. assumption.
Qed.

Lemma eval_keeps_i : forall mi s e g t, In (Eval g t) (snd (step_i mi s e)) -> forall g', keeps g' e = true.
Proof.
  intros mi [p d c gs] e g t Hin g'. destruct e; try reflexivity. exfalso.
  unfold step_i, set_ph in Hin. simpl in Hin.
  destruct p; simpl in Hin; try contradiction;
    destruct (needs_new present gs && (mul64 mi 1000 <=? 0)); simpl in Hin; intuition discriminate.
Qed.

Section PaceRun.
  Variable mi : Z.
  Variable step : state -> event -> state * list action.
  Hypothesis Hstep : forall s e g t1, lower g t1 s -> keeps g e = true ->
    lower g t1 (fst (step s e)) /\ (forall t2, In (Eval g t2) (snd (step s e)) -> t2 - t1 > mi * ns_per_s).
  Hypothesis Hstamp : forall s e g t, In (Eval g t) (snd (step s e)) -> lower g t (fst (step s e)).
  Hypothesis Hevk : forall s e g t, In (Eval g t) (snd (step s e)) -> keeps g e = true.

  Lemma pace_run_from : forall l2 s tr e2 a2 l3 g t1 t2,
    lower g t1 s ->
    snd (run step s tr) = l2 ++ (e2, a2) :: l3 ->
    forallb (keeps g) (map fst l2) = true ->
    In (Eval g t2) a2 -> t2 - t1 > mi * ns_per_s.
  Proof.
    induction l2 as [|it r IH]; intros s tr e2 a2 l3 g t1 t2 Hl Hrun Hk Hin.
    - destruct tr as [|e tr]; simpl in Hrun; [discriminate|]. inversion Hrun; subst.
      apply (proj2 (Hstep s e2 g t1 Hl (Hevk _ _ _ _ Hin))). exact Hin.
    - destruct tr as [|e tr]; simpl in Hrun; [discriminate|]. inversion Hrun; subst. simpl in Hk.
      apply andb_prop in Hk as [Hk1 Hk2].
      eapply IH; [apply (proj1 (Hstep s e g t1 Hl Hk1)) | eassumption | exact Hk2 | exact Hin].
  Qed.

  Lemma pace_run : forall l1 s tr e1 a1 l2 e2 a2 l3 g t1 t2,
    snd (run step s tr) = l1 ++ (e1, a1) :: l2 ++ (e2, a2) :: l3 ->
    In (Eval g t1) a1 -> In (Eval g t2) a2 ->
    forallb (keeps g) (map fst l2) = true ->
    t2 - t1 > mi * ns_per_s.
  Proof.
    induction l1 as [|it r IH]; intros s tr e1 a1 l2 e2 a2 l3 g t1 t2 Hrun H1 H2 Hk.
    - destruct tr as [|e tr]; simpl in Hrun; [discriminate|]. inversion Hrun; subst.
      eapply pace_run_from; [apply Hstamp; exact H1 | eassumption | exact Hk | exact H2].
    - destruct tr as [|e tr]; simpl in Hrun; [discriminate|]. inversion Hrun; subst.
      eapply IH; eassumption.
  Qed.
End PaceRun.

(* C15 pacing: two evaluations of the same group entry (every group-list refresh in between still lists the group)
   are STRICTLY more than minInterval apart in the clock read by the request loop -- for every clock sequence
   (non-decreasing or not), every interleaving with lock / expiry events, in both machines. *)
Theorem pacing : forall mi c0 gs tr l1 e1 a1 l2 e2 a2 l3 g t1 t2,
  0 <= mi <= max_pace_interval ->
  snd (run (step_s mi) (init_state c0 gs) tr) = l1 ++ (e1, a1) :: l2 ++ (e2, a2) :: l3 ->
  In (Eval g t1) a1 -> In (Eval g t2) a2 ->
  forallb (keeps g) (map fst l2) = true ->
  t2 - t1 > mi * ns_per_s.
Proof.
  intros mi c0 gs tr l1 e1 a1 l2 e2 a2 l3 g t1 t2 Hmi. 
  apply (pace_run mi (step_s mi)); [intros; apply pace_step_s; assumption | intros; apply eval_stamps_s; assumption
    | intros s e g0 t Hin; unfold step_s in Hin; simpl in Hin; eapply eval_keeps_i; eassumption].
Qed.

Theorem pacing_interleaved : forall mi c0 gs tr l1 e1 a1 l2 e2 a2 l3 g t1 t2,
  0 <= mi <= max_pace_interval ->
  snd (run (step_i mi) (init_state c0 gs) tr) = l1 ++ (e1, a1) :: l2 ++ (e2, a2) :: l3 ->
  In (Eval g t1) a1 -> In (Eval g t2) a2 ->
  forallb (keeps g) (map fst l2) = true ->
  t2 - t1 > mi * ns_per_s.
Proof.
  intros mi c0 gs tr l1 e1 a1 l2 e2 a2 l3 g t1 t2 Hmi. 
  apply (pace_run mi (step_i mi)); [intros; apply pace_step_i; assumption | intros; apply eval_stamps_i; assumption
    | intros s e g0 t Hin; eapply eval_keeps_i; eassumption].
Qed.

(* within one iteration a group is requested at most once *)
Lemma tick_evals_nodup : forall mi now gs, NoDup (tick_evals mi now gs).
Proof.
  intros. unfold tick_evals.
  pose proof (PositiveMap.elements_3w gs) as Hnd.
  induction (PositiveMap.elements gs) as [|[g le] r IH]; simpl; [constructor|].
  inversion Hnd as [|x l Hnotin Hnd']; subst.
  destruct (due mi now le); simpl; [|apply IH; assumption].
  constructor; [|apply IH; assumption].
  intros Hin. apply in_map_iff in Hin as [[g' le'] [Heq Hin]]. simpl in Heq. inversion Heq; subst g'.
  apply filter_In in Hin as [Hin _]. apply Hnotin. apply InA_alt. exists (g, le'). split; [reflexivity | exact Hin].
Qed.

(* non-vacuity and tightness: minInterval 5 s; evaluated at 10 s, not again at exactly 15 s (Before is strict), again at
   15 s + 1 ns; the expiry / re-lock in between does not reset the pacing *)
Example pacing_example :
  snd (run (step_s 5) (init_state true one_group)
         [Wake; LockOk; Tick 10000000000; Tick 15000000000; Expired; Wake; UnlockOk; Wake; LockOk; Tick 15000000000; Tick 15000000001])
  = [(Wake, [CallLock]); (LockOk, []); (Tick 10000000000, [Eval 1 10000000000]); (Tick 15000000000, []); (Expired, []);
     (Wake, [CallUnlock]); (UnlockOk, []); (Wake, [CallLock]); (LockOk, []); (Tick 15000000000, []);
     (Tick 15000000001, [Eval 1 15000000001])].
Proof. vm_compute. reflexivity. Qed.

(* what the per-entry statement excludes: a group dropped by one refresh and re-created by the next gets a randomised
   LastEval and may be evaluated again less than minInterval after its previous evaluation *)
Example pacing_recreated_entry :
  snd (run (step_s 300) (init_state true one_group)
         [Wake; LockOk; Tick 400000000000; Refresh 401000000000 []; Refresh 461000000000 [(1%positive, 299999)]; Tick 461001000001])
  = [(Wake, [CallLock]); (LockOk, []); (Tick 400000000000, [Eval 1 400000000000]); (Refresh 401000000000 [], []);
     (Refresh 461000000000 [(1%positive, 299999)], []); (Tick 461001000001, [Eval 1 461001000001])].
Proof. vm_compute. reflexivity. Qed.

(* ------------------------------------------------------------------------------------------------------------ *)
(* 4. The configuration step: minInterval is the shortest configured interval                                    *)
(* ------------------------------------------------------------------------------------------------------------ *)
From Coq Require Import Permutation.

Lemma configure_fold_min : forall acc m, configure_fold acc m = Z.min acc (eff_interval m).
Proof.
  intros acc m. unfold configure_fold. cbv zeta.
  destruct (eff_interval m <? acc) eqn:H; [apply Z.ltb_lt in H | apply Z.ltb_ge in H]; lia.
Qed.

Lemma fold_configure_le_acc : forall mods acc, fold_left configure_fold mods acc <= acc.
Proof.
  induction mods as [|m r IH]; intros acc; simpl; [lia|].
  specialize (IH (configure_fold acc m)). rewrite configure_fold_min in *. lia.
Qed.

Lemma fold_configure_le : forall mods acc m, In m mods -> fold_left configure_fold mods acc <= eff_interval m.
Proof.
  induction mods as [|m0 r IH]; intros acc m Hin; simpl in *; [contradiction|].
  destruct Hin as [->|Hin]; [|apply IH; exact Hin].
  pose proof (fold_configure_le_acc r (configure_fold acc m)) as H. rewrite configure_fold_min in *. lia.
Qed.

Lemma fold_configure_in : forall mods acc,
  fold_left configure_fold mods acc = acc \/ In (fold_left configure_fold mods acc) (map eff_interval mods).
Proof.
  induction mods as [|m r IH]; intros acc; simpl; [left; reflexivity|].
  destruct (IH (configure_fold acc m)) as [H|H]; [|right; right; exact H].
  rewrite H. rewrite configure_fold_min.
  destruct (Z.min_spec acc (eff_interval m)) as [[_ ->]|[_ ->]]; [left; reflexivity | right; left; reflexivity].
Qed.

Lemma fold_configure_perm : forall mods mods', Permutation mods mods' ->
  forall acc, fold_left configure_fold mods acc = fold_left configure_fold mods' acc.
Proof.
  induction 1 as [|x l l' _ IH|x y l|l l' l'' _ IH1 _ IH2]; intros acc; simpl.
  - reflexivity.
  - apply IH.
  - f_equal. rewrite !configure_fold_min. lia.
  - rewrite IH1. apply IH2.
Qed.

Lemma fold_configure_ext : forall mods mods', map eff_interval mods = map eff_interval mods' ->
  forall acc, fold_left configure_fold mods acc = fold_left configure_fold mods' acc.
Proof.
  induction mods as [|m r IH]; intros [|m' r'] Heq acc; simpl in *; try discriminate; [reflexivity|].
  inversion Heq as [[Hm Hr]]. rewrite !configure_fold_min, Hm. apply IH. exact Hr.
Qed.

(* no module: the fixed large number of seconds *)
Theorem min_interval_none : configure_min [] = no_module_interval.
Proof. reflexivity. Qed.

(* at least one module (every interval a proper int64 below MaxInt64): minInterval is the shortest configured interval *)
Theorem min_interval_is_min : forall mods,
  mods <> [] -> (forall m, In m mods -> eff_interval m < max_int64) ->
  shortest mods (configure_min mods).
Proof.
  intros mods Hne Hlt. unfold configure_min, shortest. cbv zeta.
  destruct mods as [|m0 r]; [congruence|].
  assert (Hm0 : fold_left configure_fold (m0 :: r) max_int64 < max_int64).
  { pose proof (fold_configure_le (m0 :: r) max_int64 m0 (or_introl eq_refl)). specialize (Hlt m0 (or_introl eq_refl)). lia. }
  destruct (fold_left configure_fold (m0 :: r) max_int64 =? max_int64) eqn:He; [apply Z.eqb_eq in He; lia|].
  split.
  - destruct (fold_configure_in (m0 :: r) max_int64) as [H|H]; [lia | exact H].
  - intros m Hin. apply fold_configure_le. exact Hin.
Qed.

Lemma shortest_unique : forall mods i j, shortest mods i -> shortest mods j -> i = j.
Proof.
  intros mods i j [Hi1 Hi2] [Hj1 Hj2].
  apply in_map_iff in Hi1 as [mi [<- Hmi]]. apply in_map_iff in Hj1 as [mj [<- Hmj]].
  specialize (Hi2 _ Hmj). specialize (Hj2 _ Hmi). lia.
Qed.

(* ... whatever order the module map is iterated in *)
Theorem min_interval_order : forall mods mods', Permutation mods mods' -> configure_min mods = configure_min mods'.
Proof. intros mods mods' H. unfold configure_min. rewrite (fold_configure_perm _ _ H). reflexivity. Qed.

(* ... and it depends on nothing but the modules' interval keys (not on send-interval, threshold) *)
Theorem min_interval_only_interval : forall mods mods',
  map mc_interval mods = map mc_interval mods' -> configure_min mods = configure_min mods'.
Proof.
  intros mods mods' H. unfold configure_min. rewrite (fold_configure_ext mods mods'); [reflexivity|].
  assert (Hm : forall l, map eff_interval l = map (fun o => viper_get o default_interval) (map mc_interval l))
    by (intros l; rewrite map_map; reflexivity).
  rewrite !Hm, H. reflexivity.
Qed.

Lemma configure_min_nonneg : forall mods, (forall m, In m mods -> 0 <= eff_interval m) -> 0 <= configure_min mods.
Proof.
  intros mods H. unfold configure_min. cbv zeta.
  destruct (fold_left configure_fold mods max_int64 =? max_int64); [unfold no_module_interval; lia|].
  destruct (fold_configure_in mods max_int64) as [-> | Hin]; [unfold max_int64; lia|].
  apply in_map_iff in Hin as [m [<- Hm]]. apply H. exact Hm.
Qed.

(* C15, second sentence, end to end: for every configuration (non-negative int64 intervals) and every trace of the loop
   configured by it, two evaluations of one group entry are more than the shortest configured interval apart *)
Theorem pacing_configured : forall mods i c0 gs tr l1 e1 a1 l2 e2 a2 l3 g t1 t2,
  (forall m, In m mods -> 0 <= eff_interval m < max_int64) ->
  shortest mods i -> i <= max_pace_interval ->
  snd (run (step_s (configure_min mods)) (init_state c0 gs) tr) = l1 ++ (e1, a1) :: l2 ++ (e2, a2) :: l3 ->
  In (Eval g t1) a1 -> In (Eval g t2) a2 ->
  forallb (keeps g) (map fst l2) = true ->
  t2 - t1 > i * ns_per_s.
Proof.
  intros mods i c0 gs tr l1 e1 a1 l2 e2 a2 l3 g t1 t2 Hr Hs Hb Hrun H1 H2 Hk.
  assert (Hne : mods <> []) by (destruct Hs as [Hin _]; destruct mods; [contradiction | discriminate]).
  rewrite (shortest_unique mods i (configure_min mods) Hs (min_interval_is_min mods Hne (fun m Hm => proj2 (Hr m Hm)))) in *.
  eapply pacing; try eassumption. split; [|exact Hb]. apply configure_min_nonneg. intros m Hm. apply (proj1 (Hr m Hm)).
Qed.

Theorem pacing_configured_interleaved : forall mods i c0 gs tr l1 e1 a1 l2 e2 a2 l3 g t1 t2,
  (forall m, In m mods -> 0 <= eff_interval m < max_int64) ->
  shortest mods i -> i <= max_pace_interval ->
  snd (run (step_i (configure_min mods)) (init_state c0 gs) tr) = l1 ++ (e1, a1) :: l2 ++ (e2, a2) :: l3 ->
  In (Eval g t1) a1 -> In (Eval g t2) a2 ->
  forallb (keeps g) (map fst l2) = true ->
  t2 - t1 > i * ns_per_s.
Proof.
  intros mods i c0 gs tr l1 e1 a1 l2 e2 a2 l3 g t1 t2 Hr Hs Hb Hrun H1 H2 Hk.
  assert (Hne : mods <> []) by (destruct Hs as [Hin _]; destruct mods; [contradiction | discriminate]).
  rewrite (shortest_unique mods i (configure_min mods) Hs (min_interval_is_min mods Hne (fun m Hm => proj2 (Hr m Hm)))) in *.
  eapply pacing_interleaved; try eassumption. split; [|exact Hb]. apply configure_min_nonneg. intros m Hm. apply (proj1 (Hr m Hm)).
Qed.

(* the pace is the shortest interval and no slower: while the gate is open, an iteration of the request loop evaluates
   every group whose last evaluation is more than the shortest configured interval old *)
Theorem evaluated_when_due : forall mods i s now g le,
  (forall m, In m mods -> eff_interval m < max_int64) ->
  shortest mods i -> 0 <= i <= max_pace_interval ->
  doEval s = true -> ph s <> Crashed ->
  PositiveMap.find g (groups s) = Some le -> now - le > i * ns_per_s ->
  In (Eval g now) (snd (step_s (configure_min mods) s (Tick now))).
Proof.
  intros mods i [p d c gs] now g le Hr Hs Hb Hd Hp Hf Hgt. simpl in *. subst d.
  assert (Hne : mods <> []) by (destruct Hs as [Hin _]; destruct mods; [contradiction | discriminate]).
  rewrite (shortest_unique mods i (configure_min mods) Hs (min_interval_is_min mods Hne Hr)) in *.
  unfold step_s, step_i. simpl.
  destruct p; simpl; try congruence;
    (apply tick_evals_complete with le; [exact Hf | unfold due, send_before; rewrite neg_duration_exact by exact Hb; apply Z.ltb_lt; lia]).
Qed.

(* non-vacuity: two modules, intervals 30 / 60, send-intervals 300 / 5: minInterval is 30 in either order (not 5, not 60,
   not 300); the loop configured by it evaluates at 31 s, not at 36 s (send-interval 5) nor at 61 s, again at 61 s + 1 ns *)
Definition two_modules : list modcfg := [mkMod (Some 30) (Some 300) None; mkMod (Some 60) (Some 5) (Some 1)].

Example min_interval_example :
  configure_min two_modules = 30 /\ configure_min (rev two_modules) = 30 /\ shortest two_modules 30
  /\ configure_min [mkMod None (Some 5) None; mkMod (Some 61) None None] = 60
  /\ configure_min [mkMod (Some 0) None None; mkMod None None None] = 0.
Proof.
  repeat split; try (vm_compute; reflexivity).
  - vm_compute. auto.
  - intros m [<-|[<-|[]]]; vm_compute; discriminate.
Qed.

Example pacing_configured_example :
  (forall m, In m two_modules -> 0 <= eff_interval m < max_int64) /\
  snd (run (step_s (configure_min two_modules)) (init_state true one_group)
         [Wake; LockOk; Tick 31000000000; Tick 36000000000; Tick 61000000000; Tick 61000000001])
  = [(Wake, [CallLock]); (LockOk, []); (Tick 31000000000, [Eval 1 31000000000]); (Tick 36000000000, []);
     (Tick 61000000000, []); (Tick 61000000001, [Eval 1 61000000001])].
Proof.
  split; [|vm_compute; reflexivity].
  intros m [<-|[<-|[]]]; vm_compute; split; congruence.
Qed.

(* ------------------------------------------------------------------------------------------------------------ *)
(* 5. The session publisher                                                                                      *)
(* ------------------------------------------------------------------------------------------------------------ *)

(* a StateExpired session event, as the zookeeper coordinator publishes it, closes the gate of an evaluating loop and
   leaves it waiting for the reconnect (it does not touch the lock before a later StateConnected) *)
Theorem zk_expiry_stops_evaluation : forall mi s c,
  ph s = Evaluating ->
  let r := feed (step_s mi) s (zk_session true ZkExpired c) in
  ph (fst r) = WaitReconnect /\ doEval (fst r) = false /\ conn (fst r) = false /\ snd r = []
  /\ snd (step_s mi (fst r) Wake) = [].
Proof. intros mi [p d c0 gs] c Hp. simpl in Hp. subst p. cbn. repeat split; reflexivity. Qed.

(* ... and every event it publishes is an event of the traces the theorems above quantify over; events that are not
   session events, and session states other than expired / connected, publish nothing *)
Lemma zk_session_other : forall st c, zk_session false st c = [] /\ zk_session true ZkOtherState c = [].
Proof. intros; split; reflexivity. Qed.

(* ------------------------------------------------------------------------------------------------------------ *)
(* 6. Resuming after an expiry needs a successful Unlock and then a successful Lock                              *)
(* ------------------------------------------------------------------------------------------------------------ *)

(* monitor states from which evaluating again needs the release first / only the grant *)
Definition needs_release (m : mon) : Prop := m_lock m = LReleasing \/ (m_lock m = LHeld /\ m_exp m = true).
Definition needs_grant (m : mon) : Prop := m_lock m = LFree \/ m_lock m = LRequested.

Lemma mon_action_release : forall m a, needs_release m -> needs_release (fst (mon_action m a)).
Proof.
  intros [l x c] a H. unfold needs_release in *. simpl in *.
  destruct a; simpl; try exact H; destruct l; simpl; intuition congruence.
Qed.

Lemma mon_action_grant : forall m a, needs_grant m -> needs_grant (fst (mon_action m a)).
Proof.
  intros [l x c] a H. unfold needs_grant in *. simpl in *.
  destruct a; simpl; try exact H; destruct l; simpl; intuition congruence.
Qed.

Lemma mon_actions_release : forall acts m, needs_release m -> needs_release (fst (mon_actions m acts)).
Proof. induction acts as [|a r IH]; intros m H; simpl; [exact H | apply IH, mon_action_release, H]. Qed.

Lemma mon_actions_grant : forall acts m, needs_grant m -> needs_grant (fst (mon_actions m acts)).
Proof. induction acts as [|a r IH]; intros m H; simpl; [exact H | apply IH, mon_action_grant, H]. Qed.

Lemma mon_event_release : forall m e, needs_release m ->
  needs_release (mon_event m e) \/ (e = UnlockOk /\ needs_grant (mon_event m e)).
Proof.
  intros [l x c] e H. unfold needs_release, needs_grant in *. simpl in *.
  destruct e; simpl; try (left; exact H); destruct l; simpl; intuition congruence.
Qed.

Lemma mon_event_grant : forall m e, needs_grant m -> needs_grant (mon_event m e) \/ e = LockOk.
Proof.
  intros [l x c] e H. unfold needs_grant in *. simpl in *.
  destruct e; simpl; try (left; exact H); destruct l; simpl; intuition congruence.
Qed.

Lemma not_fresh_release : forall m, needs_release m -> ~ fresh m.
Proof. intros [l x c] [H | [H1 H2]] [F1 F2]; simpl in *; congruence. Qed.

Lemma not_fresh_grant : forall m, needs_grant m -> ~ fresh m.
Proof. intros [l x c] [H | H] [F1 F2]; simpl in *; congruence. Qed.

Lemma mon_run_grant : forall lt m, needs_grant m -> fresh (mon_run m lt) ->
  exists la lb, map fst lt = la ++ LockOk :: lb.
Proof.
  induction lt as [|[e acts] r IH]; intros m Hg Hf; simpl in *.
  - exfalso. exact (not_fresh_grant _ Hg Hf).
  - unfold mon_item in Hf. simpl in Hf.
    destruct (mon_event_grant m e Hg) as [Hg' | ->].
    + destruct (IH _ (mon_actions_grant acts _ Hg') Hf) as [la [lb Heq]].
      exists (e :: la), lb. rewrite Heq. reflexivity.
    + exists [], (map fst r). reflexivity.
Qed.

Lemma mon_run_release : forall lt m, needs_release m -> fresh (mon_run m lt) ->
  exists la lb lc, map fst lt = la ++ UnlockOk :: lb ++ LockOk :: lc.
Proof.
  induction lt as [|[e acts] r IH]; intros m Hr Hf; simpl in *.
  - exfalso. exact (not_fresh_release _ Hr Hf).
  - unfold mon_item in Hf. simpl in Hf.
    destruct (mon_event_release m e Hr) as [Hr' | [-> Hg]].
    + destruct (IH _ (mon_actions_release acts _ Hr') Hf) as [la [lb [lc Heq]]].
      exists (e :: la), lb, lc. rewrite Heq. reflexivity.
    + destruct (mon_run_grant r _ (mon_actions_grant acts _ Hg) Hf) as [la [lb Heq]].
      exists [], la, lb. rewrite Heq. reflexivity.
Qed.

(* in any labelled trace the monitor accepts: if the session expiry is reported while the lock is held, a later
   evaluation is preceded -- after that expiry -- by a successful Unlock and, after it, a successful Lock *)
Theorem spec_resume_needs_unlock_and_lock : forall c0 lt l1 a0 l2 e acts l3 g t,
  spec_ok (mon0 c0) lt = true ->
  lt = l1 ++ (Expired, a0) :: l2 ++ (e, acts) :: l3 ->
  m_lock (mon_run (mon0 c0) l1) = LHeld ->
  In (Eval g t) acts ->
  exists la lb lc, map fst l2 ++ [e] = la ++ UnlockOk :: lb ++ LockOk :: lc.
Proof.
  intros c0 lt l1 a0 l2 e acts l3 g t Hok -> Hheld Hin.
  apply spec_ok_app in Hok as [_ Hok]. simpl in Hok. apply andb_prop in Hok as [_ Hok].
  apply spec_ok_app in Hok as [_ Hok]. simpl in Hok. apply andb_prop in Hok as [Hit _].
  unfold mon_item in Hit. simpl in Hit.
  pose proof (mon_actions_eval_fresh _ _ _ _ Hin Hit) as Hf.
  set (m1 := fst (mon_item (mon_run (mon0 c0) l1) (Expired, a0))) in *.
  assert (Hr : needs_release m1).
  { unfold m1, mon_item. simpl. apply mon_actions_release. right.
    destruct (mon_run (mon0 c0) l1) as [l x c]. simpl in *. subst l. simpl. split; reflexivity. }
  assert (Hf' : fresh (mon_run m1 (l2 ++ [(e, [])]))).
  { rewrite mon_run_app. simpl. unfold mon_item. simpl. exact Hf. }
  destruct (mon_run_release _ _ Hr Hf') as [la [lb [lc Heq]]].
  exists la, lb, lc. rewrite map_app in Heq. simpl in Heq. exact Heq.
Qed.

(* the loop, every trace *)
Corollary resume_needs_unlock_and_lock : forall mi c0 gs tr l1 a0 l2 e acts l3 g t,
  snd (run (step_s mi) (init_state c0 gs) tr) = l1 ++ (Expired, a0) :: l2 ++ (e, acts) :: l3 ->
  m_lock (mon_run (mon0 c0) l1) = LHeld ->
  In (Eval g t) acts ->
  exists la lb lc, map fst l2 ++ [e] = la ++ UnlockOk :: lb ++ LockOk :: lc.
Proof.
  intros. eapply spec_resume_needs_unlock_and_lock; [apply (eval_only_with_lock mi c0 gs tr) | eassumption | assumption | eassumption].
Qed.

(* a failing Unlock ends everything: the loop panics and no action follows, whatever happens afterwards *)
Lemma crashed_run : forall mi tr s, ph s = Crashed -> forall it, In it (snd (run (step_s mi) s tr)) -> snd it = [].
Proof.
  induction tr as [|e r IH]; intros s Hc it Hin; [simpl in Hin; contradiction|].
  assert (Hs : step_s mi s e = (s, [])).
  { unfold step_s, step_i. rewrite Hc. simpl. unfold enter_wait. rewrite Hc. reflexivity. }
  cbn [run] in Hin. cbv zeta in Hin. rewrite Hs in Hin. simpl in Hin.
  destruct Hin as [<- | Hin]; [reflexivity | eapply IH; eassumption].
Qed.

Theorem unlock_error_stops_everything : forall mi s tr it,
  ph s = Unlocking ->
  In it (snd (run (step_s mi) s (UnlockErr :: tr))) -> it = (UnlockErr, [Panic]) \/ snd it = [].
Proof.
  intros mi [p d c gs] tr it Hp Hin. simpl in Hp. subst p. simpl in Hin.
  destruct Hin as [<- | Hin]; [left; reflexivity | right].
  eapply crashed_run; [|exact Hin]. reflexivity.
Qed.

(* non-vacuity: lock, evaluate, expiry; the release fails once (here: the model's Crashed ends it) -- and in the good
   case release, re-acquire, evaluate again *)
Example resume_example :
  snd (run (step_s 0) (init_state true one_group) [Wake; LockOk; Tick 5; Expired; Wake; UnlockErr; Wake; LockOk; Tick 9])
  = [(Wake, [CallLock]); (LockOk, []); (Tick 5, [Eval 1 5]); (Expired, []); (Wake, [CallUnlock]); (UnlockErr, [Panic]);
     (Wake, []); (LockOk, []); (Tick 9, [])]
  /\ m_lock (mon_run (mon0 true) [(Wake, [CallLock]); (LockOk, []); (Tick 5, [Eval 1 5])]) = LHeld.
Proof. split; vm_compute; reflexivity. Qed.

(* ------------------------------------------------------------------------------------------------------------ *)
(* 7. LastEval belongs to the shared group record: untouched by evaluator replies and by re-locks                *)
(* ------------------------------------------------------------------------------------------------------------ *)

(* an evaluator reply (incident opened / closed, notifications) changes nothing the gate or the pacing depend on *)
Theorem response_keeps_pacing : forall mi s g st,
  step_i mi s (Response g st) = (s, []) /\ step_s mi s (Response g st) = (enter_wait s, []).
Proof. intros mi [p d c gs] g st. unfold step_s, step_i. destruct p; split; reflexivity. Qed.

Definition touches_records (e : event) : bool := match e with Tick _ | Refresh _ _ => true | _ => false end.

(* expiry, reconnect, unlock, lock errors, re-lock, wake-ups, replies: the group records (every LastEval) stay as they
   are -- a request goroutine started by a later lock acquisition paces against the same LastEval values *)
Theorem relock_keeps_pacing : forall mi s e, touches_records e = false ->
  groups (fst (step_i mi s e)) = groups s /\ groups (fst (step_s mi s e)) = groups s.
Proof.
  intros mi [p d c gs] e He.
  assert (H : groups (fst (step_i mi (mkState p d c gs) e)) = gs).
  { unfold step_i, set_ph. destruct e; try discriminate; destruct p; simpl; try reflexivity; destruct c; reflexivity. }
  split; [exact H | unfold step_s; simpl; rewrite groups_enter_wait; exact H].
Qed.

Theorem relock_keeps_pacing_run : forall mi tr s,
  (forall e, In e tr -> touches_records e = false) -> groups (fst (run (step_s mi) s tr)) = groups s.
Proof.
  induction tr as [|e r IH]; intros s H; [reflexivity|].
  cbn [run]. cbv zeta. simpl. rewrite IH; [| intros e' He'; apply H; right; exact He'].
  apply (proj2 (relock_keeps_pacing mi s e (H e (or_introl eq_refl)))).
Qed.

(* non-vacuity: interval 30; evaluated at 100 s; the incident closes (reply OK); expiry, release, re-lock 2 ms later:
   nothing at 100.002 s, nothing at 130 s - 1 ns, again at 130 s + 1 ns *)
Example response_relock_example :
  snd (run (step_s 30) (init_state true one_group)
         [Wake; LockOk; Tick 100000000000; Response 1 3; Response 1 1; Tick 100001000000; Expired; Wake; UnlockOk; Wake; LockOk;
          Tick 100002000000; Tick 129999999999; Tick 130000000001])
  = [(Wake, [CallLock]); (LockOk, []); (Tick 100000000000, [Eval 1 100000000000]); (Response 1 3, []); (Response 1 1, []);
     (Tick 100001000000, []); (Expired, []); (Wake, [CallUnlock]); (UnlockOk, []); (Wake, [CallLock]); (LockOk, []);
     (Tick 100002000000, []); (Tick 129999999999, []); (Tick 130000000001, [Eval 1 130000000001])].
Proof. vm_compute. reflexivity. Qed.

(* ------------------------------------------------------------------------------------------------------------ *)
(* 8. Beyond the bound: the Duration wraps; rand.Int63n panics                                                   *)
(* ------------------------------------------------------------------------------------------------------------ *)

(* the bound of the pacing theorems is exact: it is the largest interval with interval * 10^9 < 2^63 *)
Lemma max_pace_interval_exact :
  max_pace_interval * ns_per_s < two63 /\ two63 <= (max_pace_interval + 1) * ns_per_s.
Proof. unfold max_pace_interval, ns_per_s, two63. lia. Qed.

(* one module, interval 9223372037 s (an int64, non-negative, below MaxInt64: everything the OLD statement of
   pacing_configured asked for): -time.Duration(interval) * time.Second wraps to +9223372036.709551616 s, sendBefore
   lies in the year 2316, every entry is due at every iteration: two evaluations 1 ms apart *)
Definition wrap_module : list modcfg := [mkMod (Some 9223372037) None None].

Theorem pacing_wrap_refuted :
  (forall m, In m wrap_module -> 0 <= eff_interval m < max_int64) /\ shortest wrap_module 9223372037 /\
  exists tr l1 e1 a1 l2 e2 a2 l3 g t1 t2,
    snd (run (step_s (configure_min wrap_module)) (init_state true one_group) tr) = l1 ++ (e1, a1) :: l2 ++ (e2, a2) :: l3
    /\ In (Eval g t1) a1 /\ In (Eval g t2) a2 /\ forallb (keeps g) (map fst l2) = true
    /\ t2 - t1 = 1000000 /\ ~ (t2 - t1 > 9223372037 * ns_per_s).
Proof.
  split; [intros m [<-|[]]; vm_compute; split; congruence|].
  split; [split; [left; reflexivity | intros m [<-|[]]; vm_compute; discriminate]|].
  exists [Wake; LockOk; Tick 1700000000000000000; Tick 1700000000001000000],
         [(Wake, [CallLock]); (LockOk, [])], (Tick 1700000000000000000), [Eval 1 1700000000000000000], [],
         (Tick 1700000000001000000), [Eval 1 1700000000001000000], [], 1%positive, 1700000000000000000, 1700000000001000000.
  split; [vm_compute; reflexivity|]. split; [left; reflexivity|]. split; [left; reflexivity|].
  split; [reflexivity|]. split; [reflexivity | vm_compute; intros H; discriminate H].
Qed.

(* ... and an interval of 18446744074 s wraps twice: the loop paces by 0.290448384 s *)
Example wrap_twice_example : send_before 18446744074 1700000000000000000 = 1700000000000000000 - 290448384.
Proof. vm_compute. reflexivity. Qed.

(* rand.Int63n(minInterval*1000): an accepted configuration whose first group-list refresh with a new group kills the
   process -- interval 0 (Int63n(0)), and every interval from 9223372036854776 on (the product wraps negative) *)
Example refresh_panics_zero_interval :
  step_s (configure_min [mkMod (Some 0) None None]) (init_state true (PositiveMap.empty Z)) (Refresh 1700000000000000000 [(1%positive, 0)])
  = (mkState Crashed false true (PositiveMap.empty Z), [Panic]).
Proof. vm_compute. reflexivity. Qed.

Example refresh_panics_product_wraps :
  configure_min [mkMod (Some 9223372036854776) None None] = 9223372036854776 /\
  snd (step_s 9223372036854776 (init_state true (PositiveMap.empty Z)) (Refresh 1700000000000000000 [(1%positive, 0)])) = [Panic] /\
  snd (step_s 9223372036854775 (init_state true (PositiveMap.empty Z)) (Refresh 1700000000000000000 [(1%positive, 0)])) = [].
Proof. repeat split; vm_compute; reflexivity. Qed.

(* ------------------------------------------------------------------------------------------------------------ *)
(* 9. "(and therefore notifications)"                                                                            *)
(* ------------------------------------------------------------------------------------------------------------ *)

(* The evaluator replies to requests only (it writes to request.Reply): in a labelled trace every Response for a group
   is preceded by an Eval action for that group.  This is a property of the ENVIRONMENT (the evaluator subsystem). *)
Definition causal (lt : list (event * list action)) : Prop :=
  forall l1 g st acts l2, lt = l1 ++ (Response g st, acts) :: l2 ->
    exists la e a lb t, l1 = la ++ (e, a) :: lb /\ In (Eval g t) a.

Lemma spec_eval_fresh : forall m la e a lb g t,
  spec_ok m (la ++ (e, a) :: lb) = true -> In (Eval g t) a -> fresh (mon_event (mon_run m la) e).
Proof.
  intros m la e a lb g t Hok Hin.
  apply spec_ok_app in Hok as [_ Hok]. simpl in Hok. apply andb_prop in Hok as [Hit _].
  unfold mon_item in Hit. simpl in Hit. eapply mon_actions_eval_fresh; eassumption.
Qed.

(* What holds: every reply that reaches responseLoop (and so every notification) answers an evaluation request that was
   ISSUED while this instance held the lock and no expiry had been reported since the grant. *)
Theorem notifications_only_from_locked_evaluations : forall mi c0 gs tr l1 g st acts l2,
  causal (snd (run (step_s mi) (init_state c0 gs) tr)) ->
  snd (run (step_s mi) (init_state c0 gs) tr) = l1 ++ (Response g st, acts) :: l2 ->
  exists la e a lb t, l1 = la ++ (e, a) :: lb /\ In (Eval g t) a /\ fresh (mon_event (mon_run (mon0 c0) la) e).
Proof.
  intros mi c0 gs tr l1 g st acts l2 Hc Heq.
  destruct (Hc _ _ _ _ _ Heq) as [la [e [a [lb [t [Hl1 Hin]]]]]].
  exists la, e, a, lb, t. split; [exact Hl1|]. split; [exact Hin|].
  pose proof (eval_only_with_lock mi c0 gs tr) as Hok. rewrite Heq, Hl1 in Hok. rewrite <- app_assoc in Hok. simpl in Hok.
  eapply spec_eval_fresh; eassumption.
Qed.

(* What does NOT hold (the stronger reading "notifies only while it holds the lock"): responseLoop is not gated by the
   lock; a reply to a request issued just before the expiry is processed -- and notified -- after it. *)
Definition late_reply_trace : list event := [Wake; LockOk; Tick 5; Expired; Response 1 3].

Theorem notifications_only_while_locked_refuted :
  exists tr l1 g st acts l2,
    causal (snd (run (step_s 0) (init_state true one_group) tr)) /\
    snd (run (step_s 0) (init_state true one_group) tr) = l1 ++ (Response g st, acts) :: l2 /\
    ~ fresh (mon_run (mon0 true) l1).
Proof.
  exists late_reply_trace, [(Wake, [CallLock]); (LockOk, []); (Tick 5, [Eval 1 5]); (Expired, [])], 1%positive, 3, [], [].
  split; [|split; [vm_compute; reflexivity | vm_compute; intros [_ H]; discriminate H]].
  intros l1 g st acts l2 Heq. vm_compute in Heq.
  destruct l1 as [|i1 [|i2 [|i3 [|i4 [|i5 r]]]]]; simpl in Heq; inversion Heq; subst.
  - exists [(Wake, [CallLock]); (LockOk, [])], (Tick 5), [Eval 1 5], [(Expired, [])], 5. split; [reflexivity | left; reflexivity].
  - destruct r; simpl in *; discriminate.
Qed.

(* ------------------------------------------------------------------------------------------------------------ *)
(* 10. The resume clause on the interleaved machine, under the guard                                             *)
(* ------------------------------------------------------------------------------------------------------------ *)
Corollary resume_needs_unlock_and_lock_interleaved : forall mi c0 gs tr l1 a0 l2 e acts l3 g t,
  window_free mi (init_state c0 gs) tr = true ->
  snd (run (step_i mi) (init_state c0 gs) tr) = l1 ++ (Expired, a0) :: l2 ++ (e, acts) :: l3 ->
  m_lock (mon_run (mon0 c0) l1) = LHeld ->
  In (Eval g t) acts ->
  exists la lb lc, map fst l2 ++ [e] = la ++ UnlockOk :: lb ++ LockOk :: lc.
Proof.
  intros mi c0 gs tr l1 a0 l2 e acts l3 g t Hw Hrun Hheld Hin.
  eapply spec_resume_needs_unlock_and_lock; [apply (eval_only_with_lock_partial mi c0 gs tr Hw) | eassumption | assumption | eassumption].
Qed.

(* ------------------------------------------------------------------------------------------------------------ *)
(* 11. Configure since /repo 38fa1ff: an accepted configuration paces within the bound                           *)
(* ------------------------------------------------------------------------------------------------------------ *)

Lemma configure_accepts : forall mods mi, configure mods = Some mi ->
  mi = configure_min mods /\ forall m, In m mods -> 1 <= eff_interval m <= max_pace_interval.
Proof.
  intros mods mi H. unfold configure in H. destruct (forallb interval_ok mods) eqn:Hf; [|discriminate].
  inversion H as [Heq]. split; [reflexivity|]. intros m Hm. rewrite forallb_forall in Hf. specialize (Hf m Hm).
  unfold interval_ok in Hf. apply andb_prop in Hf as [Ha Hb]. apply Z.leb_le in Ha. apply Z.leb_le in Hb. lia.
Qed.

(* minInterval of an accepted configuration: the shortest configured interval (or the fixed 310536000 s without any
   module), and always within the range in which the model's arithmetic is exact *)
Theorem configure_accepted_range : forall mods mi, configure mods = Some mi ->
  1 <= mi <= max_pace_interval /\ (mods <> [] -> shortest mods mi) /\ (mods = [] -> mi = no_module_interval).
Proof.
  intros mods mi H. destruct (configure_accepts mods mi H) as [-> Hr].
  assert (Hlt : forall m, In m mods -> eff_interval m < max_int64).
  { intros m Hm. specialize (Hr m Hm). unfold max_pace_interval, max_int64 in *. lia. }
  destruct mods as [|m0 r].
  - split; [vm_compute; split; discriminate|]. split; [congruence | reflexivity].
  - assert (Hs : shortest (m0 :: r) (configure_min (m0 :: r))) by (apply min_interval_is_min; [discriminate | exact Hlt]).
    split; [|split; [intros _; exact Hs | discriminate]].
    destruct Hs as [Hin _]. apply in_map_iff in Hin as [m [<- Hm]]. apply Hr. exact Hm.
Qed.

(* C15, second sentence, for everything Configure accepts: no hypothesis on the intervals *)
Theorem pacing_accepted : forall mods mi i c0 gs tr l1 e1 a1 l2 e2 a2 l3 g t1 t2,
  configure mods = Some mi ->
  shortest mods i ->
  snd (run (step_s mi) (init_state c0 gs) tr) = l1 ++ (e1, a1) :: l2 ++ (e2, a2) :: l3 ->
  In (Eval g t1) a1 -> In (Eval g t2) a2 ->
  forallb (keeps g) (map fst l2) = true ->
  t2 - t1 > i * ns_per_s.
Proof.
  intros mods mi i c0 gs tr l1 e1 a1 l2 e2 a2 l3 g t1 t2 Hc Hs Hrun Hin1 Hin2 Hk.
  destruct (configure_accepted_range mods mi Hc) as [Hr [Hsh _]].
  assert (Hne : mods <> []) by (destruct Hs as [Hin _]; destruct mods; [contradiction | discriminate]).
  rewrite (shortest_unique mods i mi Hs (Hsh Hne)).
  eapply pacing; try eassumption. lia.
Qed.

Theorem pacing_accepted_interleaved : forall mods mi i c0 gs tr l1 e1 a1 l2 e2 a2 l3 g t1 t2,
  configure mods = Some mi ->
  shortest mods i ->
  snd (run (step_i mi) (init_state c0 gs) tr) = l1 ++ (e1, a1) :: l2 ++ (e2, a2) :: l3 ->
  In (Eval g t1) a1 -> In (Eval g t2) a2 ->
  forallb (keeps g) (map fst l2) = true ->
  t2 - t1 > i * ns_per_s.
Proof.
  intros mods mi i c0 gs tr l1 e1 a1 l2 e2 a2 l3 g t1 t2 Hc Hs Hrun Hin1 Hin2 Hk.
  destruct (configure_accepted_range mods mi Hc) as [Hr [Hsh _]].
  assert (Hne : mods <> []) by (destruct Hs as [Hin _]; destruct mods; [contradiction | discriminate]).
  rewrite (shortest_unique mods i mi Hs (Hsh Hne)).
  eapply pacing_interleaved; try eassumption. lia.
Qed.

Theorem evaluated_when_due_accepted : forall mods mi i s now g le,
  configure mods = Some mi ->
  shortest mods i ->
  doEval s = true -> ph s <> Crashed ->
  PositiveMap.find g (groups s) = Some le -> now - le > i * ns_per_s ->
  In (Eval g now) (snd (step_s mi s (Tick now))).
Proof.
  intros mods mi i s now g le Hc Hs Hd Hp Hf Hgt.
  destruct (configure_accepts mods mi Hc) as [-> Hr].
  destruct (configure_accepted_range mods _ Hc) as [Hb _].
  assert (Hne : mods <> []) by (destruct Hs as [Hin _]; destruct mods; [contradiction | discriminate]).
  eapply evaluated_when_due; try eassumption.
  - intros m Hm. specialize (Hr m Hm). unfold max_pace_interval, max_int64 in *. lia.
  - rewrite (shortest_unique mods i _ Hs (min_interval_is_min mods Hne
      (fun m Hm => ltac:(specialize (Hr m Hm); unfold max_pace_interval, max_int64 in *; lia)))). lia.
Qed.

(* an accepted configuration never reaches the rand.Int63n panic: a refresh does not crash *)
Theorem refresh_never_panics_accepted : forall mods mi s now present,
  configure mods = Some mi -> ph s <> Crashed -> snd (step_s mi s (Refresh now present)) = [].
Proof.
  intros mods mi [p d c gs] now present Hc Hp. destruct (configure_accepted_range mods mi Hc) as [Hr _]. simpl in Hp.
  assert (Hpos : (mul64 mi 1000 <=? 0) = false).
  { apply Z.leb_gt. unfold mul64. rewrite wrap64_id; unfold in_i64, two63, max_pace_interval in *; lia. }
  unfold step_s, step_i. simpl. rewrite Hpos, andb_false_r. destruct p; try congruence; reflexivity.
Qed.

(* the configurations of the before-fix witnesses are refused now; the two-module example is accepted with 30 *)
Example configure_examples :
  configure wrap_module = None /\ configure [mkMod (Some 0) None None] = None
  /\ configure [mkMod (Some 9223372036854776) None None] = None /\ configure [mkMod (Some 30) None None; mkMod (Some (-5)) None None] = None
  /\ configure [mkMod (Some 9223372037) None None] = None /\ configure [mkMod (Some 9223372036) None None] = Some 9223372036
  /\ configure two_modules = Some 30 /\ configure [] = Some 310536000 /\ configure [mkMod None (Some 0) None] = Some 60.
Proof. repeat split; vm_compute; reflexivity. Qed.

Example pacing_accepted_example :
  configure two_modules = Some 30 /\ (forall m, In m two_modules -> 0 <= eff_interval m < max_int64) /\
  snd (run (step_s (configure_min two_modules)) (init_state true one_group)
         [Wake; LockOk; Tick 31000000000; Tick 36000000000; Tick 61000000000; Tick 61000000001])
  = [(Wake, [CallLock]); (LockOk, []); (Tick 31000000000, [Eval 1 31000000000]); (Tick 36000000000, []);
     (Tick 61000000000, []); (Tick 61000000001, [Eval 1 61000000001])].
Proof. split; [vm_compute; reflexivity | exact pacing_configured_example]. Qed.
