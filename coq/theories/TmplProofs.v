From Coq Require Import ZArith List Bool String Ascii Lia.
From Burrow Require Import Tmpl.
Import ListNotations.
Open Scope string_scope.
Open Scope list_scope.

Lemma ty_eqb_eq : forall a b, ty_eqb a b = true -> a = b.
Proof.
  induction a; destruct b; simpl; intros H; try discriminate; try reflexivity;
    try (apply String.eqb_eq in H; subst; reflexivity);
    try (apply IHa in H; subst; reflexivity).
Qed.

Lemma ty_eqb_refl : forall a, ty_eqb a a = true.
Proof. induction a; simpl; auto using String.eqb_refl. Qed.

Lemma pstep_eqb_eq : forall a b, pstep_eqb a b = true -> a = b.
Proof.
  destruct a, b; simpl; intros H; try discriminate; try reflexivity.
  apply String.eqb_eq in H; subst; reflexivity.
Qed.

Lemma path_eqb_eq : forall a b, path_eqb a b = true -> a = b.
Proof.
  induction a; destruct b; simpl; intros H; try discriminate; try reflexivity.
  apply andb_prop in H. destruct H as [H1 H2].
  apply pstep_eqb_eq in H1. apply IHa in H2. subst; reflexivity.
Qed.

Lemma fact_in_In : forall facts p, fact_in facts p = true -> exists q, p = Some q /\ In q facts.
Proof.
  intros facts [q|]; simpl; intros H; [|discriminate].
  apply existsb_exists in H. destruct H as [x [Hin Heq]].
  apply path_eqb_eq in Heq. subst. eauto.
Qed.

(* the facts below a path hold at a value *)
Definition sat (facts : list path) (p : path) (v : value) : Prop :=
  forall r, In (p ++ r) facts -> nonnil_at r v = true.

Definition ok_val (sch : schema) (facts : list path) (st : sty) (v : value) : Prop :=
  wt sch v = true /\ type_of v = s_ty st /\ (forall p, s_path st = Some p -> sat facts p v).

Lemma satisfies_sat : forall facts d, satisfies facts d = true -> sat facts [] d.
Proof.
  unfold satisfies, sat. intros facts d H r Hin. simpl in Hin.
  rewrite forallb_forall in H. apply H; assumption.
Qed.

Lemma assoc_fields : forall sch fs fds name ft,
  fields_ok (wt sch) fs fds = true -> assoc name fds = Some ft ->
  exists x, assoc name fs = Some x /\ wt sch x = true /\ type_of x = ft.
Proof.
  induction fs as [|[n v] fs IH]; destruct fds as [|[n' t] fds]; simpl; intros name ft H Ha; try discriminate.
  repeat (apply andb_prop in H; destruct H as [H ?]).
  apply String.eqb_eq in H. subst n'.
  destruct (String.eqb name n) eqn:E.
  - inversion Ha; subst. exists v. repeat split; auto. apply ty_eqb_eq; assumption.
  - eapply IH; eauto.
Qed.

(* a value whose type is a declared name is not a pointer *)
Lemma named_value : forall sch v tn, type_of v = TNamed tn -> wt sch v = true ->
  indirect v = Some v /\ vnamed v = Some tn.
Proof.
  intros sch v. destruct v; simpl; intros tn0 H Hw; try discriminate; try (inversion H; subst; auto).
Qed.

Lemma struct_value : forall sch v tn fds ms, type_of v = TNamed tn -> wt sch v = true ->
  tentry_of sch tn = Some (mkTentry (DStruct fds) ms) ->
  exists fs, v = VStruct tn fs /\ fields_ok (wt sch) fs fds = true.
Proof.
  intros sch v. destruct v; simpl; intros tn0 fds ms H Hw He; try discriminate.
  - subst t. unfold is_named_int in Hw. rewrite He in Hw. discriminate.
  - inversion H; subst. rewrite He in Hw. discriminate.
  - inversion H; subst. rewrite He in Hw. eauto.
Qed.

Lemma int_value : forall sch v, is_int_ty sch (type_of v) = true -> wt sch v = true -> exists t z, v = VInt t z.
Proof.
  intros sch v. destruct v; simpl; intros H Hw; try discriminate; eauto.
  - unfold is_named_int in H. destruct (tentry_of sch tn) as [[[] ?]|]; discriminate.
  - unfold is_named_int in H. destruct (tentry_of sch tn) as [[[] ?]|]; discriminate.
Qed.

(* ---- field access ------------------------------------------------------------------------- *)

Lemma base_value : forall sch facts st v tn,
  ok_val sch facts st v ->
  match s_ty st with
  | TPtr (TNamed tn) => if fact_in facts (s_path st) then Some tn else None
  | TNamed tn => Some tn
  | _ => None
  end = Some tn ->
  exists u, indirect v = Some u /\ type_of u = TNamed tn /\ wt sch u = true /\ vnamed u = Some tn /\
    (forall q f r fs tn' x, s_path st = Some q -> u = VStruct tn' fs -> assoc f fs = Some x ->
       In (q ++ PField f :: r) facts -> nonnil_at r x = true).
Proof.
  intros sch facts st v tn [Hw [Ht Hs]] Hb.
  destruct (s_ty st) eqn:Est; try discriminate.
  - (* TNamed *)
    inversion Hb; subst n.
    destruct (named_value sch v tn Ht Hw) as [Hi Hn].
    exists v. repeat split; auto.
    intros q f r fs tn' x Hq Hu Ha Hin. subst v.
    specialize (Hs q Hq (PField f :: r) Hin). simpl in Hs. rewrite Ha in Hs. exact Hs.
  - (* TPtr *)
    destruct t; try discriminate.
    destruct (fact_in facts (s_path st)) eqn:Ef; [|discriminate].
    inversion Hb; subst n.
    apply fact_in_In in Ef. destruct Ef as [q [Hq Hin]].
    pose proof (Hs q Hq [] ltac:(rewrite app_nil_r; exact Hin)) as Hnn. simpl in Hnn.
    destruct v as [| | | | | | |w| | |]; simpl in Ht; try discriminate.
    { subst t. simpl in Hw. discriminate. }
    inversion Ht as [Htw]. simpl in Hw.
    destruct (named_value sch w tn Htw Hw) as [Hi Hn].
    exists w. simpl. repeat split; auto.
    intros q' f r fs tn' x Hq' Hu Ha Hin'. subst w.
    specialize (Hs q' Hq' (PField f :: r) Hin'). simpl in Hs. rewrite Ha in Hs. exact Hs.
Qed.

Lemma method_result_ok : forall sch facts u name m,
  m_results m = [TStr] ->
  exists x, method_result sch u name m = Ok x /\ ok_val sch facts (mkSty TStr None false) x.
Proof.
  intros sch facts u name m Hr. unfold method_result. rewrite Hr.
  assert (Hs : forall s, ok_val sch facts (mkSty TStr None false) (VStr s)).
  { intros s. repeat split; simpl; auto. intros p Hp; discriminate. }
  assert (Ha : ok_val sch facts (mkSty TStr None false) (VAbsStr false)).
  { repeat split; simpl; auto. intros p Hp; discriminate. }
  destruct u; eauto.
  destruct t; eauto.
  destruct (String.eqb n (sch_status_ty sch) && String.eqb name "String"); eauto.
Qed.

Lemma field_sound : forall sch facts st v name args st' evargs noargs,
  ty_field sch facts st name args = Some st' ->
  ok_val sch facts st v ->
  (forall ps, lit_args_ok ps args = true -> exists vs, evargs ps = Ok vs) ->
  (args = [] -> noargs = true) ->
  exists x, field_step sch evargs noargs v name = Ok x /\ ok_val sch facts st' x.
Proof.
  intros sch facts st v name args st' evargs noargs Hty Hok Hev Hno.
  unfold ty_field in Hty.
  match type of Hty with match ?b with _ => _ end = _ => destruct b as [tn|] eqn:Hb end; [|discriminate].
  destruct (base_value sch facts st v tn Hok Hb) as [u [Hi [Htu [Hwu [Hnu Hpath]]]]].
  unfold field_step. rewrite Hi, Hnu.
  destruct (method_of sch tn name) as [m|] eqn:Hm.
  - destruct (m_ptr m) eqn:Hp; simpl in Hty; [discriminate|].
    destruct (lit_args_ok (m_params m) args) eqn:Hl; simpl in Hty; [|discriminate].
    destruct (m_results m) as [|[] [|]] eqn:Hr; try discriminate.
    inversion Hty; subst st'.
    destruct (Hev _ Hl) as [vs Hvs]. rewrite Hvs. simpl.
    apply method_result_ok; assumption.
  - destruct (tentry_of sch tn) as [[[fds| |] ms]|] eqn:He; try discriminate.
    destruct args; [|discriminate].
    destruct (assoc name fds) as [ft|] eqn:Ha; [|discriminate].
    inversion Hty; subst st'.
    destruct (struct_value sch u tn fds ms Htu Hwu He) as [fs [Hu Hf]].
    destruct (assoc_fields sch fs fds name ft Hf Ha) as [x [Hax [Hwx Htx]]].
    subst u. rewrite (Hno eq_refl), Hax.
    exists x. split; [reflexivity|].
    repeat split; simpl; auto.
    intros p Hp. unfold path_app in Hp. destruct (s_path st) as [q|] eqn:Hq; [|discriminate].
    inversion Hp; subst p. intros r Hin. rewrite <- app_assoc in Hin. simpl in Hin.
    eapply Hpath; eauto.
Qed.

Lemma no_args_lit : forall ps, lit_args_ok ps [] = true -> exists vs, no_args ps = Ok vs.
Proof. destruct ps as [|[] ?]; simpl; intros; try discriminate; eauto. Qed.

Lemma chain0_sound : forall sch facts chain st v st',
  ty_chain0 sch facts st chain = Some st' -> ok_val sch facts st v ->
  exists x, eval_chain0 sch v chain = Ok x /\ ok_val sch facts st' x.
Proof.
  induction chain as [|f r IH]; simpl; intros st v st' Hty Hok.
  - inversion Hty; subst. eauto.
  - destruct (ty_field sch facts st f []) as [st1|] eqn:Hf; [|discriminate].
    destruct (field_sound sch facts st v f [] st1 no_args true Hf Hok no_args_lit (fun _ => eq_refl)) as [x [Hx Hokx]].
    rewrite Hx. simpl. eauto.
Qed.

Lemma lit_args_eval : forall sch dot args ps,
  lit_args_ok ps args = true -> exists vs, eval_args sch dot (map PTy ps) None args None = Ok vs.
Proof.
  induction args as [|a r IH]; intros ps H.
  - destruct ps as [|[] ?]; simpl in *; try discriminate. eauto.
  - destruct ps as [|p ps]; simpl in H; [discriminate|].
    destruct p; try discriminate; destruct a; try discriminate;
      destruct (IH ps H) as [vs Hvs]; simpl; rewrite Hvs; simpl; eauto.
Qed.

Lemma chain_sound : forall sch facts dot chain st v args st',
  ty_chain sch facts st chain args = Some st' -> ok_val sch facts st v ->
  exists x, eval_chain sch dot v chain args None = Ok x /\ ok_val sch facts st' x.
Proof.
  induction chain as [|f r IH]; intros st v args st' Hty Hok.
  - simpl in *. destruct args; [|discriminate]. inversion Hty; subst. eauto.
  - destruct r as [|g r'].
    + simpl in Hty. simpl.
      eapply field_sound; eauto.
      * intros ps Hl. apply lit_args_eval; assumption.
      * intros ->. reflexivity.
    + change (ty_chain sch facts st (f :: g :: r') args)
        with (match ty_field sch facts st f [] with Some st1 => ty_chain sch facts st1 (g :: r') args | None => None end) in Hty.
      change (eval_chain sch dot v (f :: g :: r') args None)
        with (bind (field_step sch no_args true v f) (fun x => eval_chain sch dot x (g :: r') args None)).
      destruct (ty_field sch facts st f []) as [st1|] eqn:Hf; [|discriminate].
      destruct (field_sound sch facts st v f [] st1 no_args true Hf Hok no_args_lit (fun _ => eq_refl)) as [x [Hx Hokx]].
      rewrite Hx. simpl bind. eapply IH; eauto.
Qed.

(* ---- operands, calls, pipelines ------------------------------------------------------------ *)

Lemma ok_scalar : forall sch facts t v, wt sch v = true -> type_of v = t -> ok_val sch facts (mkSty t None false) v.
Proof. intros. repeat split; simpl; auto. intros p Hp; discriminate. Qed.

Lemma ok_scalar_j : forall sch facts t v j, wt sch v = true -> type_of v = t -> ok_val sch facts (mkSty t None j) v.
Proof. intros. repeat split; simpl; auto. intros p Hp; discriminate. Qed.

Lemma operand_sound : forall sch facts dst dot a st,
  ty_operand sch facts dst a = Some st -> ok_val sch facts dst dot ->
  exists v, eval_arg sch dot PAny a = Ok v /\ ok_val sch facts st v.
Proof.
  intros sch facts dst dot a st Hty Hok. destruct a; simpl in *.
  - inversion Hty; subst. eauto.
  - destruct (chain0_sound sch facts chain dst dot st Hty Hok) as [x [Hx Hokx]].
    rewrite Hx. simpl. eauto.
  - inversion Hty; subst. eexists; split; [reflexivity|]. apply ok_scalar; reflexivity.
  - inversion Hty; subst. eexists; split; [reflexivity|]. apply ok_scalar; reflexivity.
  - discriminate.
Qed.

Lemma zero_of_ok : forall sch t z, zero_of sch t = Some z -> wt sch z = true /\ type_of z = t.
Proof.
  intros sch t z H. destruct t; simpl in H; try discriminate; try (inversion H; subst; simpl; auto; fail).
  destruct (is_named_int sch n) eqn:E; [|discriminate]. inversion H; subst. simpl. auto.
Qed.

Lemma assoc_forallb : forall {A} (f : string * A -> bool) k (l : list (string * A)) x,
  forallb f l = true -> assoc k l = Some x -> f (k, x) = true.
Proof.
  induction l as [|[k' a] l IH]; simpl; intros x H Ha; [discriminate|].
  apply andb_prop in H. destruct H as [H1 H2].
  destruct (String.eqb k k') eqn:E.
  - apply String.eqb_eq in E. subst. inversion Ha; subst. exact H1.
  - auto.
Qed.

Lemma compare_ints : forall sch va vb,
  is_int_ty sch (type_of va) = true -> is_int_ty sch (type_of vb) = true ->
  wt sch va = true -> wt sch vb = true ->
  exists c, compare_vals va vb = Ok c.
Proof.
  intros sch va vb Ha Hb Hwa Hwb.
  destruct (int_value sch va Ha Hwa) as [t1 [z1 ->]].
  destruct (int_value sch vb Hb Hwb) as [t2 [z2 ->]].
  simpl. eauto.
Qed.

Lemma eq_ints : forall sch va vb,
  is_int_ty sch (type_of va) = true -> is_int_ty sch (type_of vb) = true ->
  wt sch va = true -> wt sch vb = true ->
  exists c, eq_vals va vb = Ok c.
Proof.
  intros sch va vb Ha Hb Hwa Hwb.
  destruct (int_value sch va Ha Hwa) as [t1 [z1 ->]].
  destruct (int_value sch vb Hb Hwb) as [t2 [z2 ->]].
  simpl. eauto.
Qed.

Definition fed_ok (sch : schema) (facts : list path) (fed : option sty) (final : option value) : Prop :=
  match fed, final with
  | None, None => True
  | Some fs, Some fv => ok_val sch facts fs fv
  | _, _ => False
  end.

Ltac two_operands sch facts dst a b Hty Hok :=
      let sa := fresh "sa" in let sb := fresh "sb" in
      let Ha := fresh "Ha" in let Hb := fresh "Hb" in
      destruct (ty_operand sch facts dst a) as [sa|] eqn:Ha; [|discriminate];
      destruct (ty_operand sch facts dst b) as [sb|] eqn:Hb; [|discriminate];
      let va := fresh "va" in let vb := fresh "vb" in
      let Hva := fresh "Hva" in let Hvb := fresh "Hvb" in
      let Hoa := fresh "Hoa" in let Hob := fresh "Hob" in
      destruct (operand_sound _ _ _ _ _ _ Ha Hok) as [va [Hva Hoa]];
      destruct (operand_sound _ _ _ _ _ _ Hb Hok) as [vb [Hvb Hob]];
      let Hi := fresh "Hi" in
      destruct (is_int_ty sch (s_ty sa) && is_int_ty sch (s_ty sb)) eqn:Hi; [|discriminate];
      apply andb_prop in Hi; destruct Hi as [Hia Hib];
      destruct Hoa as [Hwa [Hta _]]; destruct Hob as [Hwb [Htb _]];
      rewrite <- Hta in Hia; rewrite <- Htb in Hib;
      inversion Hty; subst; simpl; rewrite Hva; simpl; rewrite Hvb; simpl.

Lemma call_sound : forall sch facts dst dot name args fed final st,
  ty_call sch facts dst name args fed = Some st -> ok_val sch facts dst dot -> fed_ok sch facts fed final ->
  exists v, call_fn sch dot name args final = Ok v /\ ok_val sch facts st v.
Proof.
  intros sch facts dst dot name args fed final st Hty Hok Hfed.
  unfold ty_call in Hty. unfold call_fn.
  destruct (resolve_fn sch name) as [f|] eqn:Hr; [|discriminate].
  destruct f; try discriminate.
  - (* len *)
    destruct args as [|a [|]]; try discriminate. destruct fed; [discriminate|].
    destruct final; [contradiction|].
    destruct (ty_operand sch facts dst a) as [sa|] eqn:Ha; [|discriminate].
    destruct (operand_sound _ _ _ _ _ _ Ha Hok) as [va [Hva Hoa]]. destruct Hoa as [Hwa [Hta _]].
    simpl. rewrite Hva. simpl.
    destruct sa as [ta pa ja]. simpl in Hta.
    destruct ta; try discriminate; inversion Hty; subst;
      destruct va; simpl in Hta; try discriminate; try (subst; simpl in Hwa; discriminate); simpl;
      (eexists; split; [reflexivity| apply ok_scalar; reflexivity]).
  - (* index *)
    destruct args as [|m [|k [|]]]; try discriminate; destruct k; try discriminate.
    destruct fed; [discriminate|]. destruct final; [contradiction|].
    destruct (ty_operand sch facts dst m) as [sm|] eqn:Hm; [|discriminate].
    destruct (operand_sound _ _ _ _ _ _ Hm Hok) as [vm [Hvm Hom]]. destruct Hom as [Hwm [Htm _]].
    destruct sm as [tm pm jm]. simpl in Htm.
    destruct tm; try discriminate.
    destruct (scalar_zero sch tm) eqn:Hz; [|discriminate]. inversion Hty; subst st.
    simpl. rewrite Hvm. simpl.
    destruct vm; simpl in Htm; try discriminate; try (subst; simpl in Hwm; discriminate). inversion Htm; subst vt.
    simpl. simpl in Hwm. unfold index_one. simpl.
    destruct (assoc s kv) as [x|] eqn:Hx.
    + pose proof (assoc_forallb _ s kv x Hwm Hx) as Hfx. simpl in Hfx.
      apply andb_prop in Hfx. destruct Hfx as [Hfx1 Hfx2].
      simpl. eexists; split; [reflexivity|]. apply ok_scalar; auto. apply ty_eqb_eq; assumption.
    + unfold scalar_zero in Hz. destruct (zero_of sch tm) as [z|] eqn:Hzz; [|discriminate].
      destruct (zero_of_ok _ _ _ Hzz). simpl. eexists; split; [reflexivity|]. apply ok_scalar; auto.
  - (* eq *)
    destruct args as [|a [|b [|]]]; try discriminate.
    destruct fed; [discriminate|]. destruct final; [contradiction|].
    two_operands sch facts dst a b Hty Hok.
    destruct (eq_ints sch va vb Hia Hib Hwa Hwb) as [c Hc]. rewrite Hc. simpl.
    destruct c; simpl; (eexists; split; [reflexivity| apply ok_scalar; reflexivity]).
  - (* ne *)
    destruct args as [|a [|b [|]]]; try discriminate.
    destruct fed; [discriminate|]. destruct final; [contradiction|].
    two_operands sch facts dst a b Hty Hok.
    destruct (eq_ints sch va vb Hia Hib Hwa Hwb) as [c Hc]. rewrite Hc. simpl.
    eexists; split; [reflexivity| apply ok_scalar; reflexivity].
  - destruct args as [|a [|b [|]]]; try discriminate.
    destruct fed; [discriminate|]. destruct final; [contradiction|].
    two_operands sch facts dst a b Hty Hok.
    destruct (compare_ints sch va vb Hia Hib Hwa Hwb) as [c Hc]. rewrite Hc. simpl.
    eexists; split; [reflexivity| apply ok_scalar; reflexivity].
  - destruct args as [|a [|b [|]]]; try discriminate.
    destruct fed; [discriminate|]. destruct final; [contradiction|].
    two_operands sch facts dst a b Hty Hok.
    destruct (compare_ints sch va vb Hia Hib Hwa Hwb) as [c Hc]. rewrite Hc. simpl.
    eexists; split; [reflexivity| apply ok_scalar; reflexivity].
  - destruct args as [|a [|b [|]]]; try discriminate.
    destruct fed; [discriminate|]. destruct final; [contradiction|].
    two_operands sch facts dst a b Hty Hok.
    destruct (compare_ints sch va vb Hia Hib Hwa Hwb) as [c Hc]. rewrite Hc. simpl.
    eexists; split; [reflexivity| apply ok_scalar; reflexivity].
  - destruct args as [|a [|b [|]]]; try discriminate.
    destruct fed; [discriminate|]. destruct final; [contradiction|].
    two_operands sch facts dst a b Hty Hok.
    destruct (compare_ints sch va vb Hia Hib Hwa Hwb) as [c Hc]. rewrite Hc. simpl.
    eexists; split; [reflexivity| apply ok_scalar; reflexivity].
  - (* jsonencoder *)
    destruct args as [|a [|]]; try discriminate.
    + destruct fed as [fs|]; [|discriminate]. destruct final as [fv|]; [|contradiction].
      inversion Hty; subst st. simpl.
      destruct (contains_nonfinite fv); (eexists; split; [reflexivity| apply ok_scalar_j; reflexivity]).
    + destruct fed; [discriminate|]. destruct final; [contradiction|].
      destruct (ty_operand sch facts dst a) as [sa|] eqn:Ha; [|discriminate].
      destruct (operand_sound _ _ _ _ _ _ Ha Hok) as [va [Hva _]].
      inversion Hty; subst st. simpl. rewrite Hva. simpl.
      destruct (contains_nonfinite va); (eexists; split; [reflexivity| apply ok_scalar_j; reflexivity]).
Qed.

Lemma cmd_sound : forall sch facts dst dot c fed final st,
  ty_cmd sch facts dst c fed = Some st -> ok_val sch facts dst dot -> fed_ok sch facts fed final ->
  exists v, eval_cmd sch dot c final = Ok v /\ ok_val sch facts st v.
Proof.
  intros sch facts dst dot c fed final st Hty Hok Hfed.
  destruct c as [first rest|fn args].
  - destruct first; simpl in Hty |- *.
    + destruct rest; [|discriminate]. destruct fed; [discriminate|]. destruct final; [contradiction|].
      inversion Hty; subst. eauto.
    + destruct fed; [discriminate|]. destruct final; [contradiction|].
      eapply chain_sound; eauto.
    + destruct rest; [|discriminate]. destruct fed; [discriminate|]. destruct final; [contradiction|].
      inversion Hty; subst. eexists; split; [reflexivity| apply ok_scalar; reflexivity].
    + destruct rest; [|discriminate]. destruct fed; [discriminate|]. destruct final; [contradiction|].
      inversion Hty; subst. eexists; split; [reflexivity| apply ok_scalar; reflexivity].
    + discriminate.
  - simpl in *. eapply call_sound; eauto.
Qed.

Lemma cmds_sound : forall sch facts dst dot p fed final st,
  ty_cmds sch facts dst p fed = Some st -> ok_val sch facts dst dot -> fed_ok sch facts fed final ->
  exists v, eval_cmds sch dot p final = Ok v /\ ok_val sch facts st v.
Proof.
  induction p as [|c r IH]; simpl; intros fed final st Hty Hok Hfed.
  - subst fed. destruct final; [|contradiction]. simpl in Hfed. eauto.
  - destruct (ty_cmd sch facts dst c fed) as [st1|] eqn:Hc; [|discriminate].
    destruct (cmd_sound _ _ _ _ _ _ _ _ Hc Hok Hfed) as [v [Hv Hokv]].
    rewrite Hv. simpl. eapply IH; eauto.
Qed.

Lemma pipe_sound : forall sch facts dst dot p st,
  ty_pipe sch facts dst p = Some st -> ok_val sch facts dst dot ->
  exists v, eval_pipe sch dot p = Ok v /\ ok_val sch facts st v.
Proof. intros. eapply cmds_sound; eauto. exact I. Qed.

(* ---- nodes --------------------------------------------------------------------------------- *)

Section NodeInd.
  Variable P : node -> Prop.
  Hypothesis Htext : forall s, P (NText s).
  Hypothesis Haction : forall p, P (NAction p).
  Hypothesis Hif : forall p th el, Forall P th -> Forall P el -> P (NIf p th el).
  Hypothesis Hrange : forall p body el, Forall P body -> Forall P el -> P (NRange p body el).
  Hypothesis Hother : forall w, P (NOther w).

  Fixpoint node_ind' (n : node) : P n :=
    match n with
    | NText s => Htext s
    | NAction p => Haction p
    | NIf p th el =>
        Hif p th el
          ((fix go (l : list node) : Forall P l :=
              match l with [] => Forall_nil P | x :: r => Forall_cons x (node_ind' x) (go r) end) th)
          ((fix go (l : list node) : Forall P l :=
              match l with [] => Forall_nil P | x :: r => Forall_cons x (node_ind' x) (go r) end) el)
    | NRange p body el =>
        Hrange p body el
          ((fix go (l : list node) : Forall P l :=
              match l with [] => Forall_nil P | x :: r => Forall_cons x (node_ind' x) (go r) end) body)
          ((fix go (l : list node) : Forall P l :=
              match l with [] => Forall_nil P | x :: r => Forall_cons x (node_ind' x) (go r) end) el)
    | NOther w => Hother w
    end.
End NodeInd.

Definition node_ok (sch : schema) (facts : list path) (n : node) : Prop :=
  forall dst dot, check_node sch facts dst n = true -> ok_val sch facts dst dot ->
  exists out, exec_node sch n dot = Ok out.

Lemma seq_sound : forall sch facts ns, Forall (node_ok sch facts) ns ->
  forall dst dot, forallb (check_node sch facts dst) ns = true -> ok_val sch facts dst dot ->
  exists out, seq_exec (exec_node sch) ns dot = Ok out.
Proof.
  induction 1 as [|n r Hn Hr IH]; simpl; intros dst dot Hc Hok.
  - eauto.
  - apply andb_prop in Hc. destruct Hc as [Hc1 Hc2].
    destruct (Hn dst dot Hc1 Hok) as [o1 Ho1]. rewrite Ho1. simpl.
    destruct (IH dst dot Hc2 Hok) as [o2 Ho2]. rewrite Ho2. simpl. eauto.
Qed.

Lemma truth_sound : forall sch v t, truth_ok sch t = true -> type_of v = t -> wt sch v = true ->
  exists b, truth v = Ok b.
Proof.
  intros sch v t Ht Htv Hw. subst t.
  destruct v; simpl in *; try discriminate; eauto.
Qed.

Lemma elem_sat : forall facts q l et x, sat facts q (VSlice et l) -> In x l -> sat facts (q ++ [PElem]) x.
Proof.
  intros facts q l et x Hs Hin r Hf. rewrite <- app_assoc in Hf. simpl in Hf.
  specialize (Hs (PElem :: r) Hf). simpl in Hs. rewrite forallb_forall in Hs. auto.
Qed.

Lemma loop_exec_cons : forall f x r,
  loop_exec f (x :: r) = bind (f x) (fun o1 => bind (loop_exec f r) (fun o2 => Ok (o1 ++ o2))).
Proof. reflexivity. Qed.

Lemma loop_sound : forall sch facts body dst l,
  Forall (node_ok sch facts) body -> forallb (check_node sch facts dst) body = true ->
  (forall x, In x l -> ok_val sch facts dst x) ->
  exists out, loop_exec (seq_exec (exec_node sch) body) l = Ok out.
Proof.
  intros sch facts body dst l Hbody Hc. induction l as [|x r IH]; intros Hall; [simpl; eauto|].
  rewrite loop_exec_cons.
  destruct (seq_sound sch facts body Hbody dst x Hc (Hall x (or_introl eq_refl))) as [o1 Ho1].
  rewrite Ho1. simpl.
  destruct IH as [o2 Ho2]; [intros y Hy; apply Hall; right; assumption|].
  rewrite Ho2. simpl. eauto.
Qed.

Lemma node_sound : forall sch facts n, node_ok sch facts n.
Proof.
  intros sch facts. apply node_ind'; unfold node_ok.
  - simpl. eauto.
  - intros p dst dot Hc Hok. simpl in *.
    destruct (ty_pipe sch facts dst p) as [st|] eqn:Hp; [|discriminate].
    destruct (pipe_sound _ _ _ _ _ _ Hp Hok) as [v [Hv _]]. rewrite Hv. simpl. eauto.
  - intros p th el Hth Hel dst dot Hc Hok. simpl in *.
    destruct (ty_pipe sch facts dst p) as [st|] eqn:Hp; [|discriminate].
    destruct (pipe_sound _ _ _ _ _ _ Hp Hok) as [v [Hv Hokv]]. rewrite Hv. simpl.
    apply andb_prop in Hc. destruct Hc as [Hc Hc3]. apply andb_prop in Hc. destruct Hc as [Hc1 Hc2].
    destruct Hokv as [Hwv [Htv _]].
    destruct (truth_sound sch v (s_ty st) Hc1 Htv Hwv) as [b Hb]. rewrite Hb. simpl.
    destruct b; eapply seq_sound; eauto.
  - intros p body el Hbody Hel dst dot Hc Hok. simpl in *.
    destruct (ty_pipe sch facts dst p) as [st|] eqn:Hp; [|discriminate].
    destruct (pipe_sound _ _ _ _ _ _ Hp Hok) as [v [Hv Hokv]]. rewrite Hv. simpl.
    destruct st as [t pa j]. destruct t; try discriminate.
    apply andb_prop in Hc. destruct Hc as [Hc1 Hc2].
    destruct Hokv as [Hwv [Htv Hsv]]. simpl in Htv, Hsv.
    destruct v; simpl in Htv; try discriminate; try (subst; simpl in Hwv; discriminate).
    inversion Htv; subst et. simpl.
    assert (Hall : forall x, In x l ->
                   ok_val sch facts {| s_ty := t; s_path := path_app pa PElem; s_json := false |} x).
    { intros x Hin. simpl in Hwv. rewrite forallb_forall in Hwv. specialize (Hwv x Hin).
      apply andb_prop in Hwv. destruct Hwv as [Hw1 Hw2].
      repeat split; simpl; auto.
      - apply ty_eqb_eq; assumption.
      - intros q Hq. destruct pa as [q0|]; simpl in Hq; [|discriminate]. inversion Hq; subst q.
        eapply elem_sat; eauto. }
    destruct l as [|x0 l0]; [eapply seq_sound; eauto|].
    eapply loop_sound; eauto.
  - intros w dst dot Hc. simpl in Hc. discriminate.
Qed.

(* ---- the theorem --------------------------------------------------------------------------- *)

Theorem typecheck_sound : forall sch t facts,
  typecheck sch t facts = true ->
  forall d, has_schema sch d -> satisfies facts d = true -> exists out, exec sch t d = Ok out.
Proof.
  intros sch t facts Htc d [Hw Ht] Hs.
  unfold exec, exec_list. unfold typecheck, check_list in Htc.
  eapply seq_sound; eauto.
  - apply Forall_forall. intros n _. apply node_sound.
  - repeat split; simpl; auto.
    intros p Hp. inversion Hp; subst p. apply satisfies_sat; assumption.
Qed.
