From Coq Require Import ZArith List Bool String Ascii Lia.
From Burrow Require Import Tmpl.
Import ListNotations.
Open Scope string_scope.
Open Scope list_scope.

Lemma ty_eqb_eq : forall a b, ty_eqb a b = true -> a = b.
Proof.
  induction a; destruct b; simpl; intros H; try discriminate; try reflexivity;
    try (apply String.eqb_eq in H; subst; reflexivity);
    try (apply IHa in H; subst; reflexivity).
Qed.

Lemma ty_eqb_refl : forall a, ty_eqb a a = true.
Proof. induction a; simpl; auto using String.eqb_refl. Qed.

Lemma pstep_eqb_eq : forall a b, pstep_eqb a b = true -> a = b.
Proof.
  destruct a, b; simpl; intros H; try discriminate; try reflexivity.
  apply String.eqb_eq in H; subst; reflexivity.
Qed.

Lemma path_eqb_eq : forall a b, path_eqb a b = true -> a = b.
Proof.
  induction a; destruct b; simpl; intros H; try discriminate; try reflexivity.
  apply andb_prop in H. destruct H as [H1 H2].
  apply pstep_eqb_eq in H1. apply IHa in H2. subst; reflexivity.
Qed.

Lemma fact_in_In : forall facts p, fact_in facts p = true -> exists q, p = Some q /\ In q facts.
Proof.
  intros facts [q|]; simpl; intros H; [|discriminate].
  apply existsb_exists in H. destruct H as [x [Hin Heq]].
  apply path_eqb_eq in Heq. subst. eauto.
Qed.

(* the facts below a path hold at a value *)
Definition sat (facts : list path) (p : path) (v : value) : Prop :=
  forall r, In (p ++ r) facts -> nonnil_at r v = true.

Definition ok_val (sch : schema) (facts : list path) (st : sty) (v : value) : Prop :=
  wt sch v = true /\ type_of v = s_ty st /\ (forall p, s_path st = Some p -> sat facts p v).

Lemma satisfies_sat : forall facts d, satisfies facts d = true -> sat facts [] d.
Proof.
  unfold satisfies, sat. intros facts d H r Hin. simpl in Hin.
  rewrite forallb_forall in H. apply H; assumption.
Qed.

Lemma assoc_fields : forall sch fs fds name ft,
  fields_ok (wt sch) fs fds = true -> assoc name fds = Some ft ->
  exists x, assoc name fs = Some x /\ wt sch x = true /\ type_of x = ft.
Proof.
  induction fs as [|[n v] fs IH]; destruct fds as [|[n' t] fds]; simpl; intros name ft H Ha; try discriminate.
  repeat (apply andb_prop in H; destruct H as [H ?]).
  apply String.eqb_eq in H. subst n'.
  destruct (String.eqb name n) eqn:E.
  - inversion Ha; subst. exists v. repeat split; auto. apply ty_eqb_eq; assumption.
  - eapply IH; eauto.
Qed.

(* a value whose type is a declared name is not a pointer *)
Lemma named_value : forall sch v tn, type_of v = TNamed tn -> wt sch v = true ->
  indirect v = Some v /\ vnamed v = Some tn.
Proof.
  intros sch v. destruct v; simpl; intros tn0 H Hw; try discriminate; try (inversion H; subst; auto).
Qed.

Lemma struct_value : forall sch v tn fds ms, type_of v = TNamed tn -> wt sch v = true ->
  tentry_of sch tn = Some (mkTentry (DStruct fds) ms) ->
  exists fs, v = VStruct tn fs /\ fields_ok (wt sch) fs fds = true.
Proof.
  intros sch v. destruct v; simpl; intros tn0 fds ms H Hw He; try discriminate.
  - subst t. unfold is_named_int in Hw. rewrite He in Hw. discriminate.
  - inversion H; subst. rewrite He in Hw. discriminate.
  - inversion H; subst. rewrite He in Hw. eauto.
Qed.

Lemma int_value : forall sch v, is_int_ty sch (type_of v) = true -> wt sch v = true -> exists t z, v = VInt t z.
Proof.
  intros sch v. destruct v; simpl; intros H Hw; try discriminate; eauto.
  - unfold is_named_int in H. destruct (tentry_of sch tn) as [[[] ?]|]; discriminate.
  - unfold is_named_int in H. destruct (tentry_of sch tn) as [[[] ?]|]; discriminate.
Qed.

(* ---- field access ------------------------------------------------------------------------- *)

Lemma base_value : forall sch facts st v tn,
  ok_val sch facts st v ->
  match s_ty st with
  | TPtr (TNamed tn) => if fact_in facts (s_path st) then Some tn else None
  | TNamed tn => Some tn
  | _ => None
  end = Some tn ->
  exists u, indirect v = Some u /\ type_of u = TNamed tn /\ wt sch u = true /\ vnamed u = Some tn /\
    (forall q f r fs tn' x, s_path st = Some q -> u = VStruct tn' fs -> assoc f fs = Some x ->
       In (q ++ PField f :: r) facts -> nonnil_at r x = true).
Proof.
  intros sch facts st v tn [Hw [Ht Hs]] Hb.
  destruct (s_ty st) eqn:Est; try discriminate.
  - (* TNamed *)
    inversion Hb; subst n.
    destruct (named_value sch v tn Ht Hw) as [Hi Hn].
    exists v. repeat split; auto.
    intros q f r fs tn' x Hq Hu Ha Hin. subst v.
    specialize (Hs q Hq (PField f :: r) Hin). simpl in Hs. rewrite Ha in Hs. exact Hs.
  - (* TPtr *)
    destruct t; try discriminate.
    destruct (fact_in facts (s_path st)) eqn:Ef; [|discriminate].
    inversion Hb; subst n.
    apply fact_in_In in Ef. destruct Ef as [q [Hq Hin]].
    pose proof (Hs q Hq [] ltac:(rewrite app_nil_r; exact Hin)) as Hnn. simpl in Hnn.
    destruct v as [| | | | | | |w| | |]; simpl in Ht; try discriminate.
    { subst t. simpl in Hw. discriminate. }
    inversion Ht as [Htw]. simpl in Hw.
    destruct (named_value sch w tn Htw Hw) as [Hi Hn].
    exists w. simpl. repeat split; auto.
    intros q' f r fs tn' x Hq' Hu Ha Hin'. subst w.
    specialize (Hs q' Hq' (PField f :: r) Hin'). simpl in Hs. rewrite Ha in Hs. exact Hs.
Qed.

Lemma method_result_ok : forall sch facts u name m,
  m_results m = [TStr] ->
  exists x, method_result sch u name m = Ok x /\ ok_val sch facts (mkSty TStr None false) x.
Proof.
  intros sch facts u name m Hr. unfold method_result. rewrite Hr.
  assert (Hs : forall s, ok_val sch facts (mkSty TStr None false) (VStr s)).
  { intros s. repeat split; simpl; auto. intros p Hp; discriminate. }
  assert (Ha : ok_val sch facts (mkSty TStr None false) (VAbsStr false)).
  { repeat split; simpl; auto. intros p Hp; discriminate. }
  destruct u; eauto.
  destruct t; eauto.
  destruct (String.eqb n (sch_status_ty sch) && String.eqb name "String"); eauto.
Qed.

Lemma field_sound : forall sch facts st v name args st' evargs noargs,
  ty_field sch facts st name args = Some st' ->
  ok_val sch facts st v ->
  (forall ps, lit_args_ok ps args = true -> exists vs, evargs ps = Ok vs) ->
  (args = [] -> noargs = true) ->
  exists x, field_step sch evargs noargs v name = Ok x /\ ok_val sch facts st' x.
Proof.
  intros sch facts st v name args st' evargs noargs Hty Hok Hev Hno.
  unfold ty_field in Hty.
  match type of Hty with match ?b with _ => _ end = _ => destruct b as [tn|] eqn:Hb end; [|discriminate].
  destruct (base_value sch facts st v tn Hok Hb) as [u [Hi [Htu [Hwu [Hnu Hpath]]]]].
  unfold field_step. rewrite Hi, Hnu.
  destruct (method_of sch tn name) as [m|] eqn:Hm.
  - destruct (m_ptr m) eqn:Hp; simpl in Hty; [discriminate|].
    destruct (lit_args_ok (m_params m) args) eqn:Hl; simpl in Hty; [|discriminate].
    destruct (m_results m) as [|[] [|]] eqn:Hr; try discriminate.
    inversion Hty; subst st'.
    destruct (Hev _ Hl) as [vs Hvs]. rewrite Hvs. simpl.
    apply method_result_ok; assumption.
  - destruct (tentry_of sch tn) as [[[fds| |] ms]|] eqn:He; try discriminate.
    destruct args; [|discriminate].
    destruct (assoc name fds) as [ft|] eqn:Ha; [|discriminate].
    inversion Hty; subst st'.
    destruct (struct_value sch u tn fds ms Htu Hwu He) as [fs [Hu Hf]].
    destruct (assoc_fields sch fs fds name ft Hf Ha) as [x [Hax [Hwx Htx]]].
    subst u. rewrite (Hno eq_refl), Hax.
    exists x. split; [reflexivity|].
    repeat split; simpl; auto.
    intros p Hp. unfold path_app in Hp. destruct (s_path st) as [q|] eqn:Hq; [|discriminate].
    inversion Hp; subst p. intros r Hin. rewrite <- app_assoc in Hin. simpl in Hin.
    eapply Hpath; eauto.
Qed.

Lemma no_args_lit : forall ps, lit_args_ok ps [] = true -> exists vs, no_args ps = Ok vs.
Proof. destruct ps as [|[] ?]; simpl; intros; try discriminate; eauto. Qed.

Lemma chain0_sound : forall sch facts chain st v st',
  ty_chain0 sch facts st chain = Some st' -> ok_val sch facts st v ->
  exists x, eval_chain0 sch v chain = Ok x /\ ok_val sch facts st' x.
Proof.
  induction chain as [|f r IH]; simpl; intros st v st' Hty Hok.
  - inversion Hty; subst. eauto.
  - destruct (ty_field sch facts st f []) as [st1|] eqn:Hf; [|discriminate].
    destruct (field_sound sch facts st v f [] st1 no_args true Hf Hok no_args_lit (fun _ => eq_refl)) as [x [Hx Hokx]].
    rewrite Hx. simpl. eauto.
Qed.

Lemma lit_args_eval : forall sch dot args ps,
  lit_args_ok ps args = true -> exists vs, eval_args sch dot (map PTy ps) None args None = Ok vs.
Proof.
  induction args as [|a r IH]; intros ps H.
  - destruct ps as [|[] ?]; simpl in *; try discriminate. eauto.
  - destruct ps as [|p ps]; simpl in H; [discriminate|].
    destruct p; try discriminate; destruct a; try discriminate;
      destruct (IH ps H) as [vs Hvs]; simpl; rewrite Hvs; simpl; eauto.
Qed.

Lemma chain_sound : forall sch facts dot chain st v args st',
  ty_chain sch facts st chain args = Some st' -> ok_val sch facts st v ->
  exists x, eval_chain sch dot v chain args None = Ok x /\ ok_val sch facts st' x.
Proof.
  induction chain as [|f r IH]; intros st v args st' Hty Hok.
  - simpl in *. destruct args; [|discriminate]. inversion Hty; subst. eauto.
  - destruct r as [|g r'].
    + simpl in Hty. simpl.
      eapply field_sound; eauto.
      * intros ps Hl. apply lit_args_eval; assumption.
      * intros ->. reflexivity.
    + change (ty_chain sch facts st (f :: g :: r') args)
        with (match ty_field sch facts st f [] with Some st1 => ty_chain sch facts st1 (g :: r') args | None => None end) in Hty.
      change (eval_chain sch dot v (f :: g :: r') args None)
        with (bind (field_step sch no_args true v f) (fun x => eval_chain sch dot x (g :: r') args None)).
      destruct (ty_field sch facts st f []) as [st1|] eqn:Hf; [|discriminate].
      destruct (field_sound sch facts st v f [] st1 no_args true Hf Hok no_args_lit (fun _ => eq_refl)) as [x [Hx Hokx]].
      rewrite Hx. simpl bind. eapply IH; eauto.
Qed.

(* ---- operands, calls, pipelines ------------------------------------------------------------ *)

Lemma ok_scalar : forall sch facts t v, wt sch v = true -> type_of v = t -> ok_val sch facts (mkSty t None false) v.
Proof. intros. repeat split; simpl; auto. intros p Hp; discriminate. Qed.

Lemma ok_scalar_j : forall sch facts t v j, wt sch v = true -> type_of v = t -> ok_val sch facts (mkSty t None j) v.
Proof. intros. repeat split; simpl; auto. intros p Hp; discriminate. Qed.

Lemma operand_sound : forall sch facts dst dot a st,
  ty_operand sch facts dst a = Some st -> ok_val sch facts dst dot ->
  exists v, eval_arg sch dot PAny a = Ok v /\ ok_val sch facts st v.
Proof.
  intros sch facts dst dot a st Hty Hok. destruct a; simpl in *.
  - inversion Hty; subst. eauto.
  - destruct (chain0_sound sch facts chain dst dot st Hty Hok) as [x [Hx Hokx]].
    rewrite Hx. simpl. eauto.
  - inversion Hty; subst. eexists; split; [reflexivity|]. apply ok_scalar; reflexivity.
  - inversion Hty; subst. eexists; split; [reflexivity|]. apply ok_scalar; reflexivity.
  - discriminate.
Qed.

(* the operand evaluated against a parameter of exactly its static type *)
Lemma operand_sound_ty : forall sch facts dst dot a st,
  ty_operand sch facts dst a = Some st -> ok_val sch facts dst dot ->
  exists v, eval_arg sch dot (PTy (s_ty st)) a = Ok v /\ ok_val sch facts st v.
Proof.
  intros sch facts dst dot a st Hty Hok. destruct a; simpl in *.
  - inversion Hty; subst. destruct Hok as [Hw [Ht Hs]]. rewrite Ht, ty_eqb_refl. exists dot. repeat split; auto.
  - destruct (chain0_sound sch facts chain dst dot st Hty Hok) as [x [Hx Hokx]].
    rewrite Hx. simpl. destruct Hokx as [Hw [Ht Hs]]. rewrite Ht, ty_eqb_refl. exists x. repeat split; auto.
  - inversion Hty; subst. simpl. eexists; split; [reflexivity|]. apply ok_scalar; reflexivity.
  - inversion Hty; subst. simpl. eexists; split; [reflexivity|]. apply ok_scalar; reflexivity.
  - discriminate.
Qed.

Lemma is_t_int_operand : forall sch facts dst dot a,
  is_t_int (ty_operand sch facts dst a) = true -> ok_val sch facts dst dot ->
  exists z, eval_arg sch dot (PTy t_int) a = Ok (VInt t_int z).
Proof.
  intros sch facts dst dot a H Hok. unfold is_t_int in H.
  destruct (ty_operand sch facts dst a) as [sa|] eqn:Ha; [|discriminate].
  apply ty_eqb_eq in H.
  destruct (operand_sound_ty _ _ _ _ _ _ Ha Hok) as [v [Hv [Hw [Ht _]]]]. rewrite H in Hv, Ht.
  destruct v; simpl in Ht; try discriminate. subst t. eauto.
Qed.

Lemma maxlag_sound : forall sch facts sa v st,
  ty_maxlag sch (Some sa) = Some st -> ok_val sch facts sa v ->
  exists x, coerce (PTy t_partp) v = Ok v /\ apply_fn sch FMaxlag [v] = Ok x /\ ok_val sch facts st x.
Proof.
  intros sch facts sa v st Hty [Hw [Ht _]]. unfold ty_maxlag in Hty.
  destruct (field_ty sch "PartitionStatus" "CurrentLag") as [ft|] eqn:Hf; [|discriminate].
  destruct (ty_eqb (s_ty sa) t_partp) eqn:E1; [|discriminate]. destruct (ty_eqb ft t_u64) eqn:E2; [|discriminate].
  apply ty_eqb_eq in E1. apply ty_eqb_eq in E2. subst ft. simpl in Hty. inversion Hty; subst st. rewrite E1 in Ht.
  assert (Hc : coerce (PTy t_partp) v = Ok v) by (unfold coerce; rewrite Ht, ty_eqb_refl; reflexivity).
  unfold field_ty in Hf. destruct (tentry_of sch "PartitionStatus") as [[[fds| |] ms]|] eqn:He; try discriminate.
  destruct v; simpl in Ht; try discriminate; try (subst; simpl in Hw; discriminate).
  - exists (VInt t_u64 0). repeat split; auto. intros p Hp; discriminate.
  - inversion Ht as [Htv]. simpl in Hw.
    destruct (struct_value sch v "PartitionStatus" fds ms Htv Hw He) as [fs [-> Hfs]].
    destruct (assoc_fields sch fs fds "CurrentLag" t_u64 Hfs Hf) as [x [Hax [Hwx Htx]]].
    exists x. simpl. rewrite Hax. repeat split; auto. intros p Hp; discriminate.
Qed.

Lemma zero_of_ok : forall sch t z, zero_of sch t = Some z -> wt sch z = true /\ type_of z = t.
Proof.
  intros sch t z H. destruct t; simpl in H; try discriminate; try (inversion H; subst; simpl; auto; fail).
  destruct (is_named_int sch n) eqn:E; [|discriminate]. inversion H; subst. simpl. auto.
Qed.

Lemma assoc_forallb : forall {A} (f : string * A -> bool) k (l : list (string * A)) x,
  forallb f l = true -> assoc k l = Some x -> f (k, x) = true.
Proof.
  induction l as [|[k' a] l IH]; simpl; intros x H Ha; [discriminate|].
  apply andb_prop in H. destruct H as [H1 H2].
  destruct (String.eqb k k') eqn:E.
  - apply String.eqb_eq in E. subst. inversion Ha; subst. exact H1.
  - auto.
Qed.

Lemma compare_ints : forall sch va vb,
  is_int_ty sch (type_of va) = true -> is_int_ty sch (type_of vb) = true ->
  wt sch va = true -> wt sch vb = true ->
  exists c, compare_vals va vb = Ok c.
Proof.
  intros sch va vb Ha Hb Hwa Hwb.
  destruct (int_value sch va Ha Hwa) as [t1 [z1 ->]].
  destruct (int_value sch vb Hb Hwb) as [t2 [z2 ->]].
  simpl. eauto.
Qed.

Lemma eq_ints : forall sch va vb,
  is_int_ty sch (type_of va) = true -> is_int_ty sch (type_of vb) = true ->
  wt sch va = true -> wt sch vb = true ->
  exists c, eq_vals va vb = Ok c.
Proof.
  intros sch va vb Ha Hb Hwa Hwb.
  destruct (int_value sch va Ha Hwa) as [t1 [z1 ->]].
  destruct (int_value sch vb Hb Hwb) as [t2 [z2 ->]].
  simpl. eauto.
Qed.

Definition fed_ok (sch : schema) (facts : list path) (fed : option sty) (final : option value) : Prop :=
  match fed, final with
  | None, None => True
  | Some fs, Some fv => ok_val sch facts fs fv
  | _, _ => False
  end.

Ltac two_operands sch facts dst a b Hty Hok :=
      let sa := fresh "sa" in let sb := fresh "sb" in
      let Ha := fresh "Ha" in let Hb := fresh "Hb" in
      destruct (ty_operand sch facts dst a) as [sa|] eqn:Ha; [|discriminate];
      destruct (ty_operand sch facts dst b) as [sb|] eqn:Hb; [|discriminate];
      let va := fresh "va" in let vb := fresh "vb" in
      let Hva := fresh "Hva" in let Hvb := fresh "Hvb" in
      let Hoa := fresh "Hoa" in let Hob := fresh "Hob" in
      destruct (operand_sound _ _ _ _ _ _ Ha Hok) as [va [Hva Hoa]];
      destruct (operand_sound _ _ _ _ _ _ Hb Hok) as [vb [Hvb Hob]];
      let Hi := fresh "Hi" in
      destruct (is_int_ty sch (s_ty sa) && is_int_ty sch (s_ty sb)) eqn:Hi; [|discriminate];
      apply andb_prop in Hi; destruct Hi as [Hia Hib];
      destruct Hoa as [Hwa [Hta _]]; destruct Hob as [Hwb [Htb _]];
      rewrite <- Hta in Hia; rewrite <- Htb in Hib;
      inversion Hty; subst; simpl; rewrite Hva; simpl; rewrite Hvb; simpl.

Lemma call_sound : forall sch facts dst dot name args fed final st,
  ty_call sch facts dst name args fed = Some st -> ok_val sch facts dst dot -> fed_ok sch facts fed final ->
  exists v, call_fn sch dot name args final = Ok v /\ ok_val sch facts st v.
Proof.
  intros sch facts dst dot name args fed final st Hty Hok Hfed.
  unfold ty_call in Hty. unfold call_fn.
  destruct (resolve_fn sch name) as [f|] eqn:Hr; [|discriminate].
  destruct f; try discriminate.
  - (* len *)
    destruct args as [|a [|]]; try discriminate. destruct fed; [discriminate|].
    destruct final; [contradiction|].
    destruct (ty_operand sch facts dst a) as [sa|] eqn:Ha; [|discriminate].
    destruct (operand_sound _ _ _ _ _ _ Ha Hok) as [va [Hva Hoa]]. destruct Hoa as [Hwa [Hta _]].
    simpl. rewrite Hva. simpl.
    destruct sa as [ta pa ja]. simpl in Hta.
    destruct ta; try discriminate; inversion Hty; subst;
      destruct va; simpl in Hta; try discriminate; try (subst; simpl in Hwa; discriminate); simpl;
      (eexists; split; [reflexivity| apply ok_scalar; reflexivity]).
  - (* index *)
    destruct args as [|m [|k [|]]]; try discriminate; destruct k; try discriminate.
    destruct fed; [discriminate|]. destruct final; [contradiction|].
    destruct (ty_operand sch facts dst m) as [sm|] eqn:Hm; [|discriminate].
    destruct (operand_sound _ _ _ _ _ _ Hm Hok) as [vm [Hvm Hom]]. destruct Hom as [Hwm [Htm _]].
    destruct sm as [tm pm jm]. simpl in Htm.
    destruct tm; try discriminate.
    destruct (scalar_zero sch tm) eqn:Hz; [|discriminate]. inversion Hty; subst st.
    simpl. rewrite Hvm. simpl.
    destruct vm; simpl in Htm; try discriminate; try (subst; simpl in Hwm; discriminate). inversion Htm; subst vt.
    simpl. simpl in Hwm. unfold index_one. simpl.
    destruct (assoc s kv) as [x|] eqn:Hx.
    + pose proof (assoc_forallb _ s kv x Hwm Hx) as Hfx. simpl in Hfx.
      apply andb_prop in Hfx. destruct Hfx as [Hfx1 Hfx2].
      simpl. eexists; split; [reflexivity|]. apply ok_scalar; auto. apply ty_eqb_eq; assumption.
    + unfold scalar_zero in Hz. destruct (zero_of sch tm) as [z|] eqn:Hzz; [|discriminate].
      destruct (zero_of_ok _ _ _ Hzz). simpl. eexists; split; [reflexivity|]. apply ok_scalar; auto.
  - (* eq *)
    destruct args as [|a [|b [|]]]; try discriminate.
    destruct fed; [discriminate|]. destruct final; [contradiction|].
    two_operands sch facts dst a b Hty Hok.
    destruct (eq_ints sch va vb Hia Hib Hwa Hwb) as [c Hc]. rewrite Hc. simpl.
    destruct c; simpl; (eexists; split; [reflexivity| apply ok_scalar; reflexivity]).
  - (* ne *)
    destruct args as [|a [|b [|]]]; try discriminate.
    destruct fed; [discriminate|]. destruct final; [contradiction|].
    two_operands sch facts dst a b Hty Hok.
    destruct (eq_ints sch va vb Hia Hib Hwa Hwb) as [c Hc]. rewrite Hc. simpl.
    eexists; split; [reflexivity| apply ok_scalar; reflexivity].
  - destruct args as [|a [|b [|]]]; try discriminate.
    destruct fed; [discriminate|]. destruct final; [contradiction|].
    two_operands sch facts dst a b Hty Hok.
    destruct (compare_ints sch va vb Hia Hib Hwa Hwb) as [c Hc]. rewrite Hc. simpl.
    eexists; split; [reflexivity| apply ok_scalar; reflexivity].
  - destruct args as [|a [|b [|]]]; try discriminate.
    destruct fed; [discriminate|]. destruct final; [contradiction|].
    two_operands sch facts dst a b Hty Hok.
    destruct (compare_ints sch va vb Hia Hib Hwa Hwb) as [c Hc]. rewrite Hc. simpl.
    eexists; split; [reflexivity| apply ok_scalar; reflexivity].
  - destruct args as [|a [|b [|]]]; try discriminate.
    destruct fed; [discriminate|]. destruct final; [contradiction|].
    two_operands sch facts dst a b Hty Hok.
    destruct (compare_ints sch va vb Hia Hib Hwa Hwb) as [c Hc]. rewrite Hc. simpl.
    eexists; split; [reflexivity| apply ok_scalar; reflexivity].
  - destruct args as [|a [|b [|]]]; try discriminate.
    destruct fed; [discriminate|]. destruct final; [contradiction|].
    two_operands sch facts dst a b Hty Hok.
    destruct (compare_ints sch va vb Hia Hib Hwa Hwb) as [c Hc]. rewrite Hc. simpl.
    eexists; split; [reflexivity| apply ok_scalar; reflexivity].
  - (* jsonencoder *)
    destruct args as [|a [|]]; try discriminate.
    + destruct fed as [fs|]; [|discriminate]. destruct final as [fv|]; [|contradiction].
      inversion Hty; subst st. simpl.
      destruct (contains_nonfinite fv); (eexists; split; [reflexivity| apply ok_scalar_j; reflexivity]).
    + destruct fed; [discriminate|]. destruct final; [contradiction|].
      destruct (ty_operand sch facts dst a) as [sa|] eqn:Ha; [|discriminate].
      destruct (operand_sound _ _ _ _ _ _ Ha Hok) as [va [Hva _]].
      inversion Hty; subst st. simpl. rewrite Hva. simpl.
      destruct (contains_nonfinite va); (eexists; split; [reflexivity| apply ok_scalar_j; reflexivity]).
  - (* add *)
    destruct args as [|a [|b [|]]]; try discriminate. destruct fed; [discriminate|]. destruct final; [contradiction|].
    destruct (is_t_int (ty_operand sch facts dst a)) eqn:Ea; [|discriminate].
    destruct (is_t_int (ty_operand sch facts dst b)) eqn:Eb; [|discriminate]. inversion Hty; subst st.
    destruct (is_t_int_operand _ _ _ _ _ Ea Hok) as [za Hza]. destruct (is_t_int_operand _ _ _ _ _ Eb Hok) as [zb Hzb].
    simpl. change (PTy (TInt "int")) with (PTy t_int). rewrite Hza. simpl. rewrite Hzb. simpl.
    eexists; split; [reflexivity| apply ok_scalar; reflexivity].
  - (* minus *)
    destruct args as [|a [|b [|]]]; try discriminate. destruct fed; [discriminate|]. destruct final; [contradiction|].
    destruct (is_t_int (ty_operand sch facts dst a)) eqn:Ea; [|discriminate].
    destruct (is_t_int (ty_operand sch facts dst b)) eqn:Eb; [|discriminate]. inversion Hty; subst st.
    destruct (is_t_int_operand _ _ _ _ _ Ea Hok) as [za Hza]. destruct (is_t_int_operand _ _ _ _ _ Eb Hok) as [zb Hzb].
    simpl. change (PTy (TInt "int")) with (PTy t_int). rewrite Hza. simpl. rewrite Hzb. simpl.
    eexists; split; [reflexivity| apply ok_scalar; reflexivity].
  - (* multiply *)
    destruct args as [|a [|b [|]]]; try discriminate. destruct fed; [discriminate|]. destruct final; [contradiction|].
    destruct (is_t_int (ty_operand sch facts dst a)) eqn:Ea; [|discriminate].
    destruct (is_t_int (ty_operand sch facts dst b)) eqn:Eb; [|discriminate]. inversion Hty; subst st.
    destruct (is_t_int_operand _ _ _ _ _ Ea Hok) as [za Hza]. destruct (is_t_int_operand _ _ _ _ _ Eb Hok) as [zb Hzb].
    simpl. change (PTy (TInt "int")) with (PTy t_int). rewrite Hza. simpl. rewrite Hzb. simpl.
    eexists; split; [reflexivity| apply ok_scalar; reflexivity].
  - (* divide by a non-zero literal *)
    destruct args as [|a [|b [|]]]; try discriminate; try (destruct b; discriminate).
    destruct fed; [destruct b; discriminate|]. destruct final; [contradiction|]. destruct b; try discriminate.
    destruct (is_t_int (ty_operand sch facts dst a)) eqn:Ea; [|discriminate].
    destruct (z =? 0)%Z eqn:Ez; [discriminate|]. inversion Hty; subst st.
    destruct (is_t_int_operand _ _ _ _ _ Ea Hok) as [za Hza].
    simpl. change (PTy (TInt "int")) with (PTy t_int). rewrite Hza. simpl. rewrite Ez.
    eexists; split; [reflexivity| apply ok_scalar; reflexivity].
  - (* maxlag *)
    destruct args as [|a [|]]; try discriminate.
    + destruct fed as [fs|]; [|discriminate]. destruct final as [fv|]; [|contradiction]. simpl in Hfed.
      destruct (maxlag_sound _ _ _ _ _ Hty Hfed) as [x [Hc [Hx Hokx]]].
      cbv [fn_specs helper_sig f_params map pspec_of]. cbn [eval_args]. unfold t_partp in Hc. rewrite Hc. cbn [bind]. eauto.
    + destruct fed; [discriminate|]. destruct final; [contradiction|].
      destruct (ty_operand sch facts dst a) as [sa|] eqn:Ha; [|discriminate].
      destruct (operand_sound_ty _ _ _ _ _ _ Ha Hok) as [va [Hva Hoa]].
      destruct (maxlag_sound _ _ _ _ _ Hty Hoa) as [x [Hc [Hx Hokx]]].
      assert (Est : s_ty sa = t_partp).
      { unfold ty_maxlag in Hty. destruct (field_ty sch "PartitionStatus" "CurrentLag"); [|discriminate].
        destruct (ty_eqb (s_ty sa) t_partp) eqn:E; [apply ty_eqb_eq in E; exact E|discriminate]. }
      rewrite Est in Hva. cbv [fn_specs helper_sig f_params map pspec_of]. cbn [eval_args]. unfold t_partp in Hva. rewrite Hva. cbn [bind].
      eauto.
  - (* formattimestamp *)
    destruct args as [|a [|b [|]]]; try discriminate; try (destruct b; discriminate).
    destruct fed; [destruct b; discriminate|]. destruct final; [contradiction|]. destruct b; try discriminate.
    assert (Hs : ok_val sch facts (mkSty TStr None false) (VAbsStr false)) by (apply ok_scalar; reflexivity).
    destruct a.
    + simpl in Hty. destruct (ty_eqb (s_ty dst) t_i64) eqn:E; [|discriminate]. inversion Hty; subst st.
      apply ty_eqb_eq in E.
      destruct (operand_sound_ty sch facts dst dot ADot dst eq_refl Hok) as [va [Hva _]]. rewrite E in Hva.
      unfold t_i64 in Hva. cbv [fn_specs helper_sig f_params map pspec_of]. cbn [eval_args]. rewrite Hva. simpl. eauto.
    + destruct (ty_operand sch facts dst (AField chain)) as [sa|] eqn:Ha; [|discriminate].
      destruct (ty_eqb (s_ty sa) t_i64) eqn:E; [|discriminate]. apply ty_eqb_eq in E. inversion Hty; subst st.
      destruct (operand_sound_ty _ _ _ _ _ _ Ha Hok) as [va [Hva _]]. rewrite E in Hva.
      unfold t_i64 in Hva. cbv [fn_specs helper_sig f_params map pspec_of]. cbn [eval_args]. rewrite Hva. simpl. eauto.
    + simpl in Hty. discriminate.
    + inversion Hty; subst st. simpl. eauto.
    + simpl in Hty. discriminate.
Qed.

Lemma cmd_sound : forall sch facts dst dot c fed final st,
  ty_cmd sch facts dst c fed = Some st -> ok_val sch facts dst dot -> fed_ok sch facts fed final ->
  exists v, eval_cmd sch dot c final = Ok v /\ ok_val sch facts st v.
Proof.
  intros sch facts dst dot c fed final st Hty Hok Hfed.
  destruct c as [first rest|fn args].
  - destruct first; simpl in Hty |- *.
    + destruct rest; [|discriminate]. destruct fed; [discriminate|]. destruct final; [contradiction|].
      inversion Hty; subst. eauto.
    + destruct fed; [discriminate|]. destruct final; [contradiction|].
      eapply chain_sound; eauto.
    + destruct rest; [|discriminate]. destruct fed; [discriminate|]. destruct final; [contradiction|].
      inversion Hty; subst. eexists; split; [reflexivity| apply ok_scalar; reflexivity].
    + destruct rest; [|discriminate]. destruct fed; [discriminate|]. destruct final; [contradiction|].
      inversion Hty; subst. eexists; split; [reflexivity| apply ok_scalar; reflexivity].
    + discriminate.
  - simpl in *. eapply call_sound; eauto.
Qed.

Lemma cmds_sound : forall sch facts dst dot p fed final st,
  ty_cmds sch facts dst p fed = Some st -> ok_val sch facts dst dot -> fed_ok sch facts fed final ->
  exists v, eval_cmds sch dot p final = Ok v /\ ok_val sch facts st v.
Proof.
  induction p as [|c r IH]; simpl; intros fed final st Hty Hok Hfed.
  - subst fed. destruct final; [|contradiction]. simpl in Hfed. eauto.
  - destruct (ty_cmd sch facts dst c fed) as [st1|] eqn:Hc; [|discriminate].
    destruct (cmd_sound _ _ _ _ _ _ _ _ Hc Hok Hfed) as [v [Hv Hokv]].
    rewrite Hv. simpl. eapply IH; eauto.
Qed.

Lemma pipe_sound : forall sch facts dst dot p st,
  ty_pipe sch facts dst p = Some st -> ok_val sch facts dst dot ->
  exists v, eval_pipe sch dot p = Ok v /\ ok_val sch facts st v.
Proof. intros. eapply cmds_sound; eauto. exact I. Qed.

(* ---- nodes --------------------------------------------------------------------------------- *)

Section NodeInd.
  Variable P : node -> Prop.
  Hypothesis Htext : forall s, P (NText s).
  Hypothesis Haction : forall p, P (NAction p).
  Hypothesis Hif : forall p th el, Forall P th -> Forall P el -> P (NIf p th el).
  Hypothesis Hrange : forall p body el, Forall P body -> Forall P el -> P (NRange p body el).
  Hypothesis Hwith : forall p body el, Forall P body -> Forall P el -> P (NWith p body el).
  Hypothesis Hother : forall w, P (NOther w).

  Fixpoint node_ind' (n : node) : P n :=
    match n with
    | NText s => Htext s
    | NAction p => Haction p
    | NIf p th el =>
        Hif p th el
          ((fix go (l : list node) : Forall P l :=
              match l with [] => Forall_nil P | x :: r => Forall_cons x (node_ind' x) (go r) end) th)
          ((fix go (l : list node) : Forall P l :=
              match l with [] => Forall_nil P | x :: r => Forall_cons x (node_ind' x) (go r) end) el)
    | NRange p body el =>
        Hrange p body el
          ((fix go (l : list node) : Forall P l :=
              match l with [] => Forall_nil P | x :: r => Forall_cons x (node_ind' x) (go r) end) body)
          ((fix go (l : list node) : Forall P l :=
              match l with [] => Forall_nil P | x :: r => Forall_cons x (node_ind' x) (go r) end) el)
    | NWith p body el =>
        Hwith p body el
          ((fix go (l : list node) : Forall P l :=
              match l with [] => Forall_nil P | x :: r => Forall_cons x (node_ind' x) (go r) end) body)
          ((fix go (l : list node) : Forall P l :=
              match l with [] => Forall_nil P | x :: r => Forall_cons x (node_ind' x) (go r) end) el)
    | NOther w => Hother w
    end.
End NodeInd.

(* ---- guards --------------------------------------------------------------------------------- *)

(* a step of a chain whose static path is known is a plain struct field access *)
Lemma field_path : forall sch facts st f st1 q1 v0 evargs x,
  ty_field sch facts st f [] = Some st1 -> s_path st1 = Some q1 -> ok_val sch facts st v0 ->
  field_step sch evargs true v0 f = Ok x ->
  exists tn fs p0, indirect v0 = Some (VStruct tn fs) /\ assoc f fs = Some x /\ s_path st = Some p0 /\ q1 = p0 ++ [PField f].
Proof.
  intros sch facts st f st1 q1 v0 evargs x Hty Hq Hok Hstep.
  unfold ty_field in Hty.
  match type of Hty with match ?b with _ => _ end = _ => destruct b as [tn|] eqn:Hb end; [|discriminate].
  destruct (base_value sch facts st v0 tn Hok Hb) as [u [Hi [Htu [Hwu [Hnu _]]]]].
  unfold field_step in Hstep. rewrite Hi, Hnu in Hstep.
  destruct (method_of sch tn f) as [m|] eqn:Hm.
  - match type of Hty with (if ?b then _ else _) = _ => destruct b end; [|discriminate].
    inversion Hty; subst st1. discriminate.
  - destruct (tentry_of sch tn) as [[[fds| |] ms]|] eqn:He; try discriminate.
    destruct (assoc f fds) as [ft|] eqn:Ha; [|discriminate]. inversion Hty; subst st1. simpl in Hq.
    destruct (struct_value sch u tn fds ms Htu Hwu He) as [fs [Hu _]]. subst u.
    destruct (assoc f fs) as [y|] eqn:Hy; [|discriminate]. inversion Hstep; subst y.
    destruct (s_path st) as [p0|]; [|discriminate]. simpl in Hq. inversion Hq; subst q1.
    exists tn, fs, p0. auto.
Qed.

Definition not_nil (v : value) : Prop := match v with VNil _ => False | _ => True end.

Lemma nonnil_here : forall v, not_nil v -> nonnil_at [] v = true.
Proof. intros v H. destruct v; simpl in *; auto; contradiction. Qed.

(* the value a field chain evaluates to is the one the static path of the chain leads to *)
Lemma chain_nonnil : forall sch facts dot ch st v0 st' q v,
  ty_chain sch facts st ch [] = Some st' -> s_path st' = Some q -> ok_val sch facts st v0 ->
  eval_chain sch dot v0 ch [] None = Ok v -> not_nil v ->
  exists p0, s_path st = Some p0 /\ q = p0 ++ map PField ch /\ nonnil_at (map PField ch) v0 = true.
Proof.
  intros sch facts dot. induction ch as [|f r IH]; intros st v0 st' q v Hty Hq Hok Hev Hnn.
  - simpl in Hty, Hev. inversion Hty; inversion Hev; subst. exists q. rewrite app_nil_r. auto using nonnil_here.
  - destruct r as [|g r'].
    + simpl in Hty, Hev.
      destruct (field_path _ _ _ _ _ _ _ _ _ Hty Hq Hok Hev) as [tn [fs [p0 [Hi [Ha [Hp Hq1]]]]]].
      exists p0. repeat split; auto. simpl. rewrite Hi, Ha. apply nonnil_here; assumption.
    + change (ty_chain sch facts st (f :: g :: r') [])
        with (match ty_field sch facts st f [] with Some st1 => ty_chain sch facts st1 (g :: r') [] | None => None end) in Hty.
      change (eval_chain sch dot v0 (f :: g :: r') [] None)
        with (bind (field_step sch no_args true v0 f) (fun x => eval_chain sch dot x (g :: r') [] None)) in Hev.
      destruct (ty_field sch facts st f []) as [st1|] eqn:Hf; [|discriminate].
      destruct (field_sound sch facts st v0 f [] st1 no_args true Hf Hok no_args_lit (fun _ => eq_refl)) as [x [Hx Hokx]].
      rewrite Hx in Hev. simpl in Hev.
      destruct (IH _ _ _ _ _ Hty Hq Hokx Hev Hnn) as [p1 [Hp1 [Hq1 Hn1]]].
      destruct (field_path _ _ _ _ _ _ _ _ _ Hf Hp1 Hok Hx) as [tn [fs [p0 [Hi [Ha [Hp Hpp]]]]]].
      exists p0. split; [assumption|]. split.
      * rewrite Hq1, Hpp, <- app_assoc. reflexivity.
      * change (map PField (f :: g :: r')) with (PField f :: map PField (g :: r')).
        simpl. rewrite Hi, Ha. exact Hn1.
Qed.

Lemma truth_not_nil : forall v, truth v = Ok true -> not_nil v.
Proof. intros v H. destruct v; simpl in *; auto. discriminate. Qed.

Lemma sat_more : forall facts q p v, sat facts p v ->
  (forall r, p ++ r = q -> nonnil_at r v = true) -> sat (q :: facts) p v.
Proof.
  intros facts q p v Hs Hq r [Heq|Hin]; [apply Hq; symmetry; assumption|apply Hs; assumption].
Qed.

(* the guard of an if: in the branch taken when the pipeline is true, the guarded path is a fact *)
Lemma guard_ok : forall sch facts dst dot p v,
  ok_val sch facts dst dot -> eval_pipe sch dot p = Ok v -> truth v = Ok true ->
  ok_val sch (guard_fact sch facts dst p ++ facts) dst dot.
Proof.
  intros sch facts dst dot p v Hok Hev Ht. unfold guard_fact.
  destruct (guard_of p) as [ch|] eqn:Hg; [|exact Hok].
  destruct (ty_chain sch facts dst ch []) as [st|] eqn:Hty; [|exact Hok].
  unfold path_fact. destruct (s_path st) as [q|] eqn:Hq; [|exact Hok].
  destruct p as [|[[] [|]|] [|]]; try discriminate. simpl in Hg. inversion Hg; subst chain. clear Hg.
  unfold eval_pipe in Hev. simpl in Hev.
  destruct (eval_chain sch dot dot ch [] None) as [v'|] eqn:Hc; [|discriminate]. simpl in Hev. inversion Hev; subst v'.
  destruct (chain_nonnil _ _ _ _ _ _ _ _ _ Hty Hq Hok Hc (truth_not_nil _ Ht)) as [p0 [Hp0 [Hqq Hnn]]].
  destruct Hok as [Hw [Htd Hs]]. repeat split; auto.
  intros p1 Hp1. rewrite Hp0 in Hp1. inversion Hp1; subst p1. simpl.
  apply sat_more; [auto|]. intros r Hr. rewrite Hqq in Hr. apply app_inv_head in Hr. subst r. exact Hnn.
Qed.

(* the guard of a with: the value dot is set to is not empty *)
Lemma with_ok : forall sch facts st v,
  ok_val sch facts st v -> truth v = Ok true -> ok_val sch (path_fact st ++ facts) st v.
Proof.
  intros sch facts st v [Hw [Ht Hs]] Htr. unfold path_fact.
  destruct (s_path st) as [q|] eqn:Hq; [|repeat split; auto; intros p Hp; rewrite Hq in Hp; discriminate].
  repeat split; auto. intros p Hp. rewrite Hq in Hp. inversion Hp; subst p. simpl.
  apply sat_more; [auto|]. intros r Hr.
  assert (r = []) as ->.
  { rewrite <- (app_nil_r q) in Hr at 2. apply app_inv_head in Hr. exact Hr. }
  apply nonnil_here, truth_not_nil; assumption.
Qed.

(* ---- nodes --------------------------------------------------------------------------------- *)

Definition node_ok (sch : schema) (n : node) : Prop :=
  forall facts dst dot, check_node sch facts dst n = true -> ok_val sch facts dst dot ->
  exists out, exec_node sch n dot = Ok out.

Lemma seq_sound : forall sch ns, Forall (node_ok sch) ns ->
  forall facts dst dot, forallb (check_node sch facts dst) ns = true -> ok_val sch facts dst dot ->
  exists out, seq_exec (exec_node sch) ns dot = Ok out.
Proof.
  induction 1 as [|n r Hn Hr IH]; simpl; intros facts dst dot Hc Hok.
  - eauto.
  - apply andb_prop in Hc. destruct Hc as [Hc1 Hc2].
    destruct (Hn facts dst dot Hc1 Hok) as [o1 Ho1]. rewrite Ho1. simpl.
    destruct (IH facts dst dot Hc2 Hok) as [o2 Ho2]. rewrite Ho2. simpl. eauto.
Qed.

Lemma truth_sound : forall sch v t, truth_ok sch t = true -> type_of v = t -> wt sch v = true ->
  exists b, truth v = Ok b.
Proof.
  intros sch v t Ht Htv Hw. subst t.
  destruct v; simpl in *; try discriminate; eauto.
Qed.

Lemma elem_sat : forall facts q l et x, sat facts q (VSlice et l) -> In x l -> sat facts (q ++ [PElem]) x.
Proof.
  intros facts q l et x Hs Hin r Hf. rewrite <- app_assoc in Hf. simpl in Hf.
  specialize (Hs (PElem :: r) Hf). simpl in Hs. rewrite forallb_forall in Hs. auto.
Qed.

Lemma loop_exec_cons : forall f x r,
  loop_exec f (x :: r) = bind (f x) (fun o1 => bind (loop_exec f r) (fun o2 => Ok (o1 ++ o2))).
Proof. reflexivity. Qed.

Lemma loop_sound : forall sch facts body dst l,
  Forall (node_ok sch) body -> forallb (check_node sch facts dst) body = true ->
  (forall x, In x l -> ok_val sch facts dst x) ->
  exists out, loop_exec (seq_exec (exec_node sch) body) l = Ok out.
Proof.
  intros sch facts body dst l Hbody Hc. induction l as [|x r IH]; intros Hall; [simpl; eauto|].
  rewrite loop_exec_cons.
  destruct (seq_sound sch body Hbody facts dst x Hc (Hall x (or_introl eq_refl))) as [o1 Ho1].
  rewrite Ho1. simpl.
  destruct IH as [o2 Ho2]; [intros y Hy; apply Hall; right; assumption|].
  rewrite Ho2. simpl. eauto.
Qed.

Lemma node_sound : forall sch n, node_ok sch n.
Proof.
  intros sch. apply node_ind'; unfold node_ok.
  - simpl. eauto.
  - intros p facts dst dot Hc Hok. simpl in *.
    destruct (ty_pipe sch facts dst p) as [st|] eqn:Hp; [|discriminate].
    destruct (pipe_sound _ _ _ _ _ _ Hp Hok) as [v [Hv _]]. rewrite Hv. simpl. eauto.
  - intros p th el Hth Hel facts dst dot Hc Hok. simpl in *.
    destruct (ty_pipe sch facts dst p) as [st|] eqn:Hp; [|discriminate].
    destruct (pipe_sound _ _ _ _ _ _ Hp Hok) as [v [Hv Hokv]]. rewrite Hv. simpl.
    apply andb_prop in Hc. destruct Hc as [Hc Hc3]. apply andb_prop in Hc. destruct Hc as [Hc1 Hc2].
    destruct Hokv as [Hwv [Htv _]].
    destruct (truth_sound sch v (s_ty st) Hc1 Htv Hwv) as [b Hb]. rewrite Hb. simpl.
    destruct b; [|eapply seq_sound; eauto].
    eapply seq_sound; [exact Hth|exact Hc2|]. eapply guard_ok; eauto.
  - intros p body el Hbody Hel facts dst dot Hc Hok. simpl in *.
    destruct (ty_pipe sch facts dst p) as [st|] eqn:Hp; [|discriminate].
    destruct (pipe_sound _ _ _ _ _ _ Hp Hok) as [v [Hv Hokv]]. rewrite Hv. simpl.
    destruct st as [t pa j]. destruct t; try discriminate.
    apply andb_prop in Hc. destruct Hc as [Hc1 Hc2].
    destruct Hokv as [Hwv [Htv Hsv]]. simpl in Htv, Hsv.
    destruct v; simpl in Htv; try discriminate; try (subst; simpl in Hwv; discriminate).
    inversion Htv; subst et. simpl.
    assert (Hall : forall x, In x l ->
                   ok_val sch facts {| s_ty := t; s_path := path_app pa PElem; s_json := false |} x).
    { intros x Hin. simpl in Hwv. rewrite forallb_forall in Hwv. specialize (Hwv x Hin).
      apply andb_prop in Hwv. destruct Hwv as [Hw1 Hw2].
      repeat split; simpl; auto.
      - apply ty_eqb_eq; assumption.
      - intros q Hq. destruct pa as [q0|]; simpl in Hq; [|discriminate]. inversion Hq; subst q.
        eapply elem_sat; eauto. }
    destruct l as [|x0 l0]; [eapply seq_sound; eauto|].
    eapply loop_sound; eauto.
  - intros p body el Hbody Hel facts dst dot Hc Hok. simpl in *.
    destruct (ty_pipe sch facts dst p) as [st|] eqn:Hp; [|discriminate].
    destruct (pipe_sound _ _ _ _ _ _ Hp Hok) as [v [Hv Hokv]]. rewrite Hv. simpl.
    apply andb_prop in Hc. destruct Hc as [Hc Hc3]. apply andb_prop in Hc. destruct Hc as [Hc1 Hc2].
    destruct (truth_sound sch v (s_ty st) Hc1 (proj1 (proj2 Hokv)) (proj1 Hokv)) as [b Hb]. rewrite Hb. simpl.
    destruct b; [|eapply seq_sound; eauto].
    eapply seq_sound; [exact Hbody|exact Hc2|]. apply with_ok; assumption.
  - intros w facts dst dot Hc. simpl in Hc. discriminate.
Qed.

(* ---- the theorem --------------------------------------------------------------------------- *)

Theorem typecheck_sound : forall sch t facts,
  typecheck sch t facts = true ->
  forall d, has_schema sch d -> satisfies facts d = true -> exists out, exec sch t d = Ok out.
Proof.
  intros sch t facts Htc d [Hw Ht] Hs.
  unfold exec, exec_list. unfold typecheck, check_list in Htc.
  eapply seq_sound; [|exact Htc|].
  - apply Forall_forall. intros n _. apply node_sound.
  - repeat split; simpl; auto.
    intros p Hp. inversion Hp; subst p. apply satisfies_sat; assumption.
Qed.

(* ---- what the data offers (C20, first sentence) -------------------------------------------- *)

Lemma root_ok : forall sch facts d, has_schema sch d -> satisfies facts d = true -> ok_val sch facts (root_sty sch) d.
Proof.
  intros sch facts d [Hw Ht] Hs. repeat split; simpl; auto.
  intros p Hp. inversion Hp; subst p. apply satisfies_sat; assumption.
Qed.

Theorem data_offers : forall sch, offers sch = true ->
  (forall f t, In (f, t) documented_fields ->
     forall d, has_schema sch d -> exists x, eval_chain0 sch d [f] = Ok x /\ type_of x = t /\ wt sch x = true) /\
  (forall h, In h documented_helpers ->
     exists fn sg, assoc h (sch_funcs sch) = Some sg /\ helper_of h = Some fn /\
                   fsig_eqb sg (helper_sig fn) = true /\ resolve_fn sch h = Some fn).
Proof.
  intros sch H. unfold offers in H. apply andb_prop in H. destruct H as [Hr Hh]. split.
  - intros f t Hin d Hd. unfold root_offers in Hr. rewrite forallb_forall in Hr. specialize (Hr _ Hin). simpl in Hr.
    destruct (ty_field sch [] (root_sty sch) f []) as [st|] eqn:E; [|discriminate].
    assert (Hc : ty_chain0 sch [] (root_sty sch) [f] = Some st) by (simpl; rewrite E; reflexivity).
    destruct (chain0_sound sch [] [f] (root_sty sch) d st Hc (root_ok sch [] d Hd eq_refl)) as [x [Hx [Hw [Ht _]]]].
    exists x. repeat split; auto. rewrite Ht. apply ty_eqb_eq in Hr. exact Hr.
  - intros h Hin. unfold helpers_offered in Hh. rewrite forallb_forall in Hh. specialize (Hh _ Hin).
    destruct (resolve_fn sch h) as [f|] eqn:Er; [|discriminate].
    destruct (helper_of h) as [g|] eqn:Eg; [|discriminate].
    unfold resolve_fn in Er. destruct (assoc h (sch_funcs sch)) as [sg|] eqn:Ea.
    + rewrite Eg in Er. destruct (fsig_eqb sg (helper_sig g)) eqn:Es; [|discriminate].
      inversion Er; subst f. exists g, sg. repeat split; auto.
    + apply andb_prop in Hh. destruct Hh as [_ Hh]. discriminate.
Qed.

(* ---- values built against a schema ---------------------------------------------------------- *)

Lemma kbuild_ok : forall sch k t v, kbuild sch k t = Some v ->
  (forall u, k = KVal u -> wt sch u = true) -> wt sch v = true /\ type_of v = t.
Proof.
  intros sch k t v H Hk. destruct k; simpl in H.
  - destruct (ty_eqb t TStr) eqn:E; [|discriminate]. apply ty_eqb_eq in E. inversion H; subst. auto.
  - destruct (is_int_ty sch t) eqn:E; [|discriminate]. inversion H; subst. simpl.
    destruct t; try discriminate; auto.
  - destruct (ty_eqb t TFloat) eqn:E; [|discriminate]. apply ty_eqb_eq in E. inversion H; subst. auto.
  - destruct (ty_eqb (type_of v0) t) eqn:E; [|discriminate]. apply ty_eqb_eq in E. inversion H; subst. auto.
Qed.

Lemma kind_ok_build : forall sch k t, kind_ok sch (kind_of k) t = true -> exists v, kbuild sch k t = Some v.
Proof. intros sch k t H. destruct k; simpl in *; rewrite H; eauto. Qed.

Definition kinds_of (known : list (string * kval)) : list (string * kkind) :=
  map (fun p => (fst p, kind_of (snd p))) known.

Lemma assoc_kinds : forall n known,
  assoc n (kinds_of known) = match assoc n known with Some k => Some (kind_of k) | None => None end.
Proof.
  induction known as [|[n' k] r IH]; simpl; [reflexivity|].
  destruct (String.eqb n n'); [reflexivity|exact IH].
Qed.

Lemma build_fields_ok : forall sch known fds,
  (forall n u, assoc n known = Some (KVal u) -> wt sch u = true) ->
  forallb (fun nt => match assoc (fst nt) (kinds_of known) with
                     | Some kk => kind_ok sch kk (snd nt)
                     | None => scalar_zero sch (snd nt)
                     end) fds = true ->
  fields_ok (wt sch) (map (build_field sch known) fds) fds = true.
Proof.
  intros sch known fds Hk. induction fds as [|[n t] r IH]; simpl; intros H; [reflexivity|].
  apply andb_prop in H. destruct H as [H1 H2]. rewrite String.eqb_refl. simpl.
  rewrite assoc_kinds in H1. rewrite (IH H2), andb_true_r.
  destruct (assoc n known) as [k|] eqn:Ea.
  - destruct (kind_ok_build _ _ _ H1) as [v Hv]. rewrite Hv.
    destruct (kbuild_ok _ _ _ _ Hv) as [Hw Ht].
    { intros u ->. eapply Hk; eauto. }
    rewrite Ht, ty_eqb_refl, Hw. reflexivity.
  - unfold scalar_zero in H1. destruct (zero_of sch t) as [z|] eqn:Ez; [|discriminate].
    destruct (zero_of_ok _ _ _ Ez) as [Hw Ht]. rewrite Ht, ty_eqb_refl, Hw. reflexivity.
Qed.

Lemma build_struct_wt : forall sch tn known,
  struct_ok sch tn (kinds_of known) = true ->
  (forall n u, assoc n known = Some (KVal u) -> wt sch u = true) ->
  wt sch (build_struct sch tn known) = true.
Proof.
  unfold struct_ok, build_struct, fields_of. intros sch tn known H Hk. simpl.
  destruct (tentry_of sch tn) as [[[fds| |] ms]|]; try discriminate.
  apply build_fields_ok; assumption.
Qed.

Lemma assoc_build : forall sch known f fds,
  assoc f (map (build_field sch known) fds) =
  match assoc f fds with Some t => Some (snd (build_field sch known (f, t))) | None => None end.
Proof.
  induction fds as [|[n t] r IH]; simpl; [reflexivity|].
  destruct (String.eqb f n) eqn:E; [|exact IH]. apply String.eqb_eq in E. subst. reflexivity.
Qed.

Lemma nonnil_scalar : forall r v,
  match v with VNil _ | VPtr _ | VStruct _ _ | VSlice _ _ => False | _ => True end -> nonnil_at r v = true.
Proof. intros [|[] r] v H; destruct v; simpl in *; try contradiction; reflexivity. Qed.

(* a fact below a known field of a built struct holds if it holds of the value supplied for that field *)
Lemma nonnil_build : forall sch tn known f r k,
  assoc f known = Some k ->
  (forall v, k = KVal v -> nonnil_at r v = true) ->
  nonnil_at (PField f :: r) (build_struct sch tn known) = true.
Proof.
  intros sch tn known f r k Ha Hv. unfold build_struct. simpl. rewrite assoc_build.
  destruct (assoc f (fields_of sch tn)) as [t|]; [|reflexivity].
  unfold build_field. simpl. rewrite Ha.
  destruct (kbuild sch k t) as [v|] eqn:Eb; [|apply nonnil_scalar; exact I].
  destruct k; simpl in Eb.
  - destruct (ty_eqb t TStr); inversion Eb; subst. apply nonnil_scalar. exact I.
  - destruct (is_int_ty sch t); inversion Eb; subst. apply nonnil_scalar. exact I.
  - destruct (ty_eqb t TFloat); inversion Eb; subst. apply nonnil_scalar. exact I.
  - destruct (ty_eqb (type_of v0) t); inversion Eb; subst. apply Hv. reflexivity.
Qed.

(* ---- the data a notifier hands to executeTemplate, built from the evaluator's reply ---------- *)
(* coordinator.go:374-379 sends an EvaluatorRequest without ShowAll, so the reply is the problems-only view
   (Eval.filter_view) of evaluateConsumerStatus' result (Eval.eval_group); Notify passes it on unchanged, for
   open and for close notifications (coordinator.go:553-572), and executeTemplate wraps it (helpers.go:27-48). *)
From Burrow Require F32 Eval EvalGroupProofs.

Definition f32_finite (c : F32.f32) : bool := Flocq.IEEE754.Binary.is_finite 24 128 c.

Section EvalData.
  Variable sch : schema.
  Variable nm : Z -> string.     (* Eval.v interns topic / owner / client names as integers *)

  Definition lag_val (l : option Z) : value :=
    match l with
    | None => VNil (TNamed "Lag")
    | Some z => VPtr (build_struct sch "Lag" [("Value", KInt z)])
    end.

  Definition offset_known (c : Eval.coff) : list (string * kval) :=
    [("Offset", KInt (Eval.co_offset c)); ("Order", KInt (Eval.co_order c));
     ("Timestamp", KInt (Eval.co_ts c)); ("Lag", KVal (lag_val (Eval.co_lag c)))].

  Definition offset_val (o : option Eval.coff) : value :=
    match o with
    | None => VNil (TNamed "ConsumerOffset")
    | Some c => VPtr (build_struct sch "ConsumerOffset" (offset_known c))
    end.

  Definition part_known (p : Eval.pstatus) : list (string * kval) :=
    [("Topic", KStr (nm (Eval.ps_topic p))); ("Partition", KInt (Eval.ps_partition p));
     ("Owner", KStr (nm (Eval.ps_owner p))); ("ClientID", KStr (nm (Eval.ps_client p)));
     ("Status", KInt (Eval.status_num (Eval.ps_status p)));
     ("Start", KVal (offset_val (Eval.ps_start p))); ("End", KVal (offset_val (Eval.ps_end p)));
     ("CurrentLag", KInt (Eval.ps_lag p)); ("Complete", KFloat (f32_finite (Eval.ps_complete p)))].

  Definition part_val (p : Eval.pstatus) : value := VPtr (build_struct sch "PartitionStatus" (part_known p)).

  Definition group_known (cluster group : string) (g : Eval.gstatus) : list (string * kval) :=
    [("Cluster", KStr cluster); ("Group", KStr group);
     ("Status", KInt (Eval.status_num (Eval.gs_status g)));
     ("Complete", KFloat (f32_finite (Eval.gs_complete g)));
     ("Partitions", KVal (VSlice t_partp (map part_val (Eval.gs_partitions g))));
     ("TotalPartitions", KInt (Eval.gs_total_partitions g));
     ("Maxlag", KVal (match Eval.gs_maxlag g with Some p => part_val p | None => VNil (TNamed "PartitionStatus") end));
     ("TotalLag", KInt (Eval.gs_totallag g))].

  Definition group_val cluster group g : value := build_struct sch "ConsumerGroupStatus" (group_known cluster group g).

  Definition data_known (cluster group id : string) (extras : list (string * string)) (g : Eval.gstatus)
    : list (string * kval) :=
    [("Cluster", KStr cluster); ("Group", KStr group); ("ID", KStr id);
     ("Start", KVal (VOpaque "time.Time"));
     ("Extras", KVal (VMap TStr (map (fun kv => (fst kv, VStr (snd kv))) extras)));
     ("Result", KVal (group_val cluster group g))].

  (* the anonymous struct of executeTemplate *)
  Definition data_of cluster group id extras g : value :=
    build_struct sch (sch_root sch) (data_known cluster group id extras g).

  (* the kinds of those field values do not depend on the status *)
  Definition lag_kinds : list (string * kkind) := [("Value", KKInt)].
  Definition offset_kinds : list (string * kkind) :=
    [("Offset", KKInt); ("Order", KKInt); ("Timestamp", KKInt); ("Lag", KKTy (TPtr (TNamed "Lag")))].
  Definition part_kinds : list (string * kkind) :=
    [("Topic", KKStr); ("Partition", KKInt); ("Owner", KKStr); ("ClientID", KKStr); ("Status", KKInt);
     ("Start", KKTy (TPtr (TNamed "ConsumerOffset"))); ("End", KKTy (TPtr (TNamed "ConsumerOffset")));
     ("CurrentLag", KKInt); ("Complete", KKFloat)].
  Definition group_kinds : list (string * kkind) :=
    [("Cluster", KKStr); ("Group", KKStr); ("Status", KKInt); ("Complete", KKFloat);
     ("Partitions", KKTy (TSlice t_partp)); ("TotalPartitions", KKInt); ("Maxlag", KKTy t_partp); ("TotalLag", KKInt)].
  Definition data_kinds : list (string * kkind) :=
    [("Cluster", KKStr); ("Group", KKStr); ("ID", KKStr); ("Start", KKTy (TNamed "time.Time"));
     ("Extras", KKTy (TMap TStr)); ("Result", KKTy (TNamed "ConsumerGroupStatus"))].

  (* per-run obligation on the regenerated schema: the Go structs can hold what the evaluator produces *)
  Definition embed_ok : bool :=
    struct_ok sch "Lag" lag_kinds && struct_ok sch "ConsumerOffset" offset_kinds &&
    struct_ok sch "PartitionStatus" part_kinds && struct_ok sch "ConsumerGroupStatus" group_kinds &&
    struct_ok sch (sch_root sch) data_kinds &&
    match tentry_of sch "time.Time" with Some (mkTentry DOpaque _) => true | _ => false end.

  Lemma lag_kinds_eq : forall z, kinds_of [("Value", KInt z)] = lag_kinds.
  Proof. reflexivity. Qed.
  Lemma offset_kinds_eq : forall c, kinds_of (offset_known c) = offset_kinds.
  Proof. intros c. unfold offset_known, kinds_of, lag_val. simpl. destruct (Eval.co_lag c); reflexivity. Qed.
  Lemma part_kinds_eq : forall p, kinds_of (part_known p) = part_kinds.
  Proof.
    intros p. unfold part_known, kinds_of, offset_val. simpl.
    destruct (Eval.ps_start p), (Eval.ps_end p); reflexivity.
  Qed.
  Lemma group_kinds_eq : forall cl gr g, kinds_of (group_known cl gr g) = group_kinds.
  Proof. intros cl gr g. unfold group_known, kinds_of, part_val. simpl. destruct (Eval.gs_maxlag g); reflexivity. Qed.
  Lemma data_kinds_eq : forall cl gr id ex g, kinds_of (data_known cl gr id ex g) = data_kinds.
  Proof. reflexivity. Qed.

  Hypothesis Hok : embed_ok = true.

  Lemma embed_parts : struct_ok sch "Lag" lag_kinds = true /\ struct_ok sch "ConsumerOffset" offset_kinds = true /\
    struct_ok sch "PartitionStatus" part_kinds = true /\ struct_ok sch "ConsumerGroupStatus" group_kinds = true /\
    struct_ok sch (sch_root sch) data_kinds = true /\
    wt sch (VOpaque "time.Time") = true.
  Proof.
    pose proof Hok as H0. unfold embed_ok in H0.
    destruct (tentry_of sch "time.Time") as [[[] ?]|] eqn:Et; try (rewrite !andb_false_r in H0; discriminate).
    repeat (apply andb_prop in H0; destruct H0 as [H0 ?]).
    repeat split; auto. simpl. rewrite Et. reflexivity.
  Qed.

  (* known-value lists are short: look a KVal up by cases *)
  Ltac kval_cases H :=
    simpl in H;
    repeat match type of H with
           | (if ?b then _ else _) = _ => destruct b; [try discriminate; inversion H; subst; clear H|]
           end; try discriminate.

  Lemma lag_wt : forall l, wt sch (lag_val l) = true.
  Proof.
    destruct embed_parts as [H1 _]. intros [z|]; [|reflexivity]. simpl.
    apply build_struct_wt; [rewrite lag_kinds_eq; exact H1|].
    intros n u H. kval_cases H.
  Qed.

  Lemma offset_wt : forall o, wt sch (offset_val o) = true.
  Proof.
    destruct embed_parts as [_ [H2 _]]. intros [c|]; [|reflexivity]. simpl.
    apply build_struct_wt; [rewrite offset_kinds_eq; exact H2|].
    intros n u H. kval_cases H. apply lag_wt.
  Qed.

  Lemma part_wt : forall p, wt sch (part_val p) = true.
  Proof.
    destruct embed_parts as [_ [_ [H3 _]]]. intros p. simpl.
    apply build_struct_wt; [rewrite part_kinds_eq; exact H3|].
    intros n u H. kval_cases H; apply offset_wt.
  Qed.

  Lemma group_wt : forall cl gr g, wt sch (group_val cl gr g) = true.
  Proof.
    destruct embed_parts as [_ [_ [_ [H4 _]]]]. intros cl gr g.
    apply build_struct_wt; [rewrite group_kinds_eq; exact H4|].
    intros n u H. kval_cases H.
    - simpl. apply forallb_forall. intros x Hx. apply in_map_iff in Hx. destruct Hx as [p [<- _]].
      rewrite part_wt. reflexivity.
    - destruct (Eval.gs_maxlag g); [apply part_wt|reflexivity].
  Qed.

  Theorem data_has_schema : forall cl gr id ex g, has_schema sch (data_of cl gr id ex g).
  Proof.
    destruct embed_parts as [_ [_ [_ [_ [H5 H6]]]]]. intros cl gr id ex g. split; [|reflexivity].
    apply build_struct_wt; [rewrite data_kinds_eq; exact H5|].
    intros n u H. kval_cases H.
    - apply H6.
    - simpl. apply forallb_forall. intros x Hx. apply in_map_iff in Hx. destruct Hx as [kv [<- _]]. reflexivity.
    - apply group_wt.
  Qed.
End EvalData.

(* every partition the evaluator reports as worse than OK went through the branch that sets Start and End *)
Lemma all_some_ends : forall (o : option Eval.coff) r l,
  Eval.all_some (o :: r) = Some l -> o <> None /\ last (o :: r) o <> None.
Proof.
  intros o r. revert o. induction r as [|x r IH]; intros o l H.
  - simpl in H. destruct o; [|discriminate]. split; discriminate.
  - assert (Ho : o <> None) by (simpl in H; destruct o; [discriminate|discriminate]).
    split; [exact Ho|].
    simpl in H. destruct o as [c|]; [|discriminate].
    destruct x as [cx|]; [|discriminate].
    change (last (Some c :: Some cx :: r) (Some c)) with (last (Some cx :: r) (Some c)).
    destruct (Eval.all_some r) as [lr|] eqn:Er; [|discriminate].
    assert (Hx : Eval.all_some (Some cx :: r) = Some (cx :: lr)) by (simpl; rewrite Er; reflexivity).
    destruct (IH (Some cx) _ Hx) as [_ Hl].
    assert (Hd : forall d1 d2 : option Eval.coff, last (Some cx :: r) d1 = last (Some cx :: r) d2).
    { clear. generalize (Some cx). induction r as [|y r IHr]; intros z d1 d2; [reflexivity|].
      change (last (z :: y :: r) d1) with (last (y :: r) d1). change (last (z :: y :: r) d2) with (last (y :: r) d2).
      apply IHr. }
    rewrite (Hd (Some c) (Some cx)). exact Hl.
Qed.

Lemma eval_partition_problem_has_ends : forall p minimum allowed now s st en c,
  Eval.eval_partition p minimum allowed now = Eval.Ok (s, st, en, c) ->
  Eval.worse s Eval.StOK = true -> st <> None /\ en <> None.
Proof.
  unfold Eval.eval_partition. intros p minimum allowed now s st en c.
  destruct (Datatypes.length (Eval.cp_offsets p)); [intros H; injection H as <- _ _ _; discriminate|].
  destruct (skipn _ _) as [|o r]; [intros H; injection H as <- _ _ _; discriminate|].
  destruct (F32.f32_ge _ _); [|intros H; injection H as <- _ _ _; discriminate].
  unfold Eval.calc_status. destruct (_ <=? _)%Z; [intros H; injection H as <- _ _ _; discriminate|].
  destruct (Eval.all_some (o :: r)) as [l|] eqn:E; [|discriminate].
  intros H _. injection H as _ <- <- _. eapply all_some_ends; eauto.
Qed.

Lemma eval_parts_ends : forall t i ps minimum allowed now l,
  Eval.eval_parts t i ps minimum allowed now = Eval.Ok l ->
  Forall (fun s => Eval.worse (Eval.ps_status s) Eval.StOK = true -> Eval.ps_start s <> None /\ Eval.ps_end s <> None) l.
Proof.
  intros t i ps minimum allowed now l H.
  destruct (EvalGroupProofs.eval_parts_props _ _ _ _ _ _ _ H) as (_ & _ & _ & H4).
  clear H. induction H4 as [|p s ps' l' (st & en & c & Hev & Hst & Hen & _) _ IH]; constructor; [|exact IH].
  intros Hw. subst. eapply eval_partition_problem_has_ends; eauto.
Qed.

Lemma eval_topics_ends : forall ts minimum allowed now l,
  Eval.eval_topics ts minimum allowed now = Eval.Ok l ->
  Forall (fun s => Eval.worse (Eval.ps_status s) Eval.StOK = true -> Eval.ps_start s <> None /\ Eval.ps_end s <> None) l.
Proof.
  induction ts as [|[t ps] r IH]; intros minimum allowed now l; cbn [Eval.eval_topics].
  - intros H; injection H as <-. constructor.
  - destruct (Eval.eval_parts t 0 ps minimum allowed now) as [l1|] eqn:E1; [|discriminate].
    destruct (Eval.eval_topics r minimum allowed now) as [l2|] eqn:E2; [|discriminate].
    intros H; injection H as <-. apply Forall_app. split; [eapply eval_parts_ends; eauto|eapply IH; eauto].
Qed.

(* what the notifier receives: every listed partition carries its first and last commit *)
Theorem listed_partitions_have_ends : forall ts minimum allowed now g,
  Eval.eval_group ts minimum allowed now = Eval.Ok g ->
  Forall (fun s => Eval.ps_start s <> None /\ Eval.ps_end s <> None) (Eval.gs_partitions (Eval.filter_view g)).
Proof.
  intros ts minimum allowed now g H.
  destruct (EvalGroupProofs.eval_group_spec _ _ _ _ _ H) as [parts [Hp [Hg _]]].
  pose proof (eval_topics_ends _ _ _ _ _ Hp) as Hall. simpl. rewrite Hg.
  apply Forall_forall. intros s Hs. apply filter_In in Hs. destruct Hs as [Hin Hw].
  rewrite Forall_forall in Hall. apply Hall; assumption.
Qed.

Lemma nonnil_ptr : forall r v, nonnil_at (PField r :: nil) (VPtr v) = nonnil_at (PField r :: nil) v.
Proof. intros r v. destruct v; reflexivity. Qed.

(* the non-nil facts the typechecker uses hold of the data built from any status whose listed partitions carry their
   first and last commit *)
Lemma facts_of_ends : forall fv,
  Forall (fun s => Eval.ps_start s <> None /\ Eval.ps_end s <> None) (Eval.gs_partitions fv) ->
  forall sch nm cl gr id ex, satisfies burrow_facts (data_of sch nm cl gr id ex fv) = true.
Proof.
  intros fv Hends sch nm cl gr id ex.
  assert (Hgen : forall tail, (forall p, In p (Eval.gs_partitions fv) -> nonnil_at tail (part_val sch nm p) = true) ->
            nonnil_at (p_parts ++ tail) (data_of sch nm cl gr id ex fv) = true).
  { intros tail Ht. unfold p_parts, data_of. cbn [app].
    eapply nonnil_build; [reflexivity|]. intros v Hv. inversion Hv; subst v. clear Hv.
    unfold group_val. eapply nonnil_build; [reflexivity|]. intros v Hv. inversion Hv; subst v. clear Hv.
    simpl. apply forallb_forall. intros x Hx. apply in_map_iff in Hx. destruct Hx as [p [<- Hp]]. auto. }
  unfold satisfies, burrow_facts. cbn [forallb]. rewrite Forall_forall in Hends.
  rewrite <- (app_nil_r p_parts) at 1.
  rewrite !Hgen; [reflexivity| | |].
  - intros p Hp. destruct (Hends p Hp) as [_ He]. unfold part_val. rewrite nonnil_ptr.
    eapply nonnil_build; [reflexivity|]. intros v Hv. inversion Hv; subst v.
    destruct (Eval.ps_end p); [reflexivity|contradiction].
  - intros p Hp. destruct (Hends p Hp) as [Hs _]. unfold part_val. rewrite nonnil_ptr.
    eapply nonnil_build; [reflexivity|]. intros v Hv. inversion Hv; subst v.
    destruct (Eval.ps_start p); [reflexivity|contradiction].
  - intros p Hp. reflexivity.
Qed.

(* facts_hold: ... in particular of the data built from every evaluator reply *)
Theorem facts_hold : forall ts minimum allowed now g,
  Eval.eval_group ts minimum allowed now = Eval.Ok g ->
  forall sch nm cl gr id ex,
    satisfies burrow_facts (data_of sch nm cl gr id ex (Eval.filter_view g)) = true.
Proof.
  intros ts minimum allowed now g H. apply facts_of_ends. eapply listed_partitions_have_ends; eauto.
Qed.

(* The reply the evaluator sends for a group it does not know (caching.go:137-147): NOTFOUND, complete 1.0, no
   partitions, no max-lag partition.  The notifier drops it before any template runs (coordinator.go:400-404;
   Notifier.v live_resp / on_response); templates would render on it all the same. *)
Definition notfound_reply : Eval.gstatus :=
  (Eval.mkGstatus Eval.StNotFound F32.f32_one [] 0%Z None 0%Z).

Theorem renders_with_ends : forall sch t,
  embed_ok sch = true -> typecheck sch t burrow_facts = true ->
  forall fv, Forall (fun s => Eval.ps_start s <> None /\ Eval.ps_end s <> None) (Eval.gs_partitions fv) ->
  forall nm cl gr id ex, exists out, exec sch t (data_of sch nm cl gr id ex fv) = Ok out.
Proof.
  intros sch t He Ht fv Hends nm cl gr id ex.
  eapply typecheck_sound; eauto.
  - apply data_has_schema; assumption.
  - apply facts_of_ends; assumption.
Qed.

(* C20, second clause, end to end: a template accepted by the typechecker renders without error for every
   status the evaluator can hand to a notifier (open and close notifications carry the same kind of reply) *)
Theorem renders_every_status : forall sch t,
  embed_ok sch = true -> typecheck sch t burrow_facts = true ->
  forall ts minimum allowed now g, Eval.eval_group ts minimum allowed now = Eval.Ok g ->
  forall nm cl gr id ex, exists out, exec sch t (data_of sch nm cl gr id ex (Eval.filter_view g)) = Ok out.
Proof.
  intros sch t He Ht ts minimum allowed now g Hg nm cl gr id ex.
  eapply typecheck_sound; eauto.
  - apply data_has_schema; assumption.
  - eapply facts_hold; eauto.
Qed.

(* ---- which template a module executes --------------------------------------------------------- *)

Lemma assoc_load : forall tbl cfg m,
  NoDup (map mc_name cfg) -> In m cfg ->
  assoc (mc_name m) (load_templates tbl cfg) =
  Some (lookup_tmpl tbl (mc_open m), if mc_send_close m then Some (lookup_tmpl tbl (mc_close m)) else None).
Proof.
  intros tbl cfg m. induction cfg as [|c r IH]; simpl; intros Hnd Hin; [contradiction|].
  inversion Hnd as [|? ? Hnotin Hnd']; subst.
  destruct Hin as [->|Hin].
  - rewrite String.eqb_refl. reflexivity.
  - destruct (String.eqb (mc_name m) (mc_name c)) eqn:E.
    + apply String.eqb_eq in E. exfalso. apply Hnotin. rewrite <- E. apply in_map. assumption.
    + apply IH; assumption.
Qed.

(* What a configured module renders for an open (close) notification is exec of the template named by its
   template-open (template-close) key; module names are the keys of the "notifier" configuration map, hence distinct. *)
Theorem module_renders_configured_template : forall sch tbl cfg m d,
  NoDup (map mc_name cfg) -> In m cfg ->
  module_renders sch tbl cfg (mc_name m) false d = exec sch (lookup_tmpl tbl (mc_open m)) d /\
  (mc_send_close m = true ->
   module_renders sch tbl cfg (mc_name m) true d = exec sch (lookup_tmpl tbl (mc_close m)) d).
Proof.
  intros sch tbl cfg m d Hnd Hin. unfold module_renders. rewrite (assoc_load tbl cfg m Hnd Hin).
  split; [reflexivity|]. intros ->. reflexivity.
Qed.

Lemma assoc_In : forall {A} n (l : list (string * A)) x, assoc n l = Some x -> In (n, x) l.
Proof.
  induction l as [|[k a] r IH]; simpl; intros x H; [discriminate|].
  destruct (String.eqb n k) eqn:E.
  - apply String.eqb_eq in E. inversion H; subst. left; reflexivity.
  - right. auto.
Qed.

(* ---- the data a module hands to its templates ------------------------------------------------- *)

(* Whatever was notified before, the record built for a notification carries exactly the configured extras and the
   values of that notification: cluster, group, the incident's id and start time, the reply. *)
Theorem module_data_offers_configured : forall {R} extras sent (l : list (notification R)),
  run_notifications (mkMstate extras sent) l = map (notify_data extras) l.
Proof.
  intros R extras sent l. revert sent. induction l as [|n r IH]; intros sent; simpl; [reflexivity|].
  rewrite IH. reflexivity.
Qed.

Corollary module_data_fields : forall {R} extras sent (l : list (notification R)) k n d,
  nth_error l k = Some n -> nth_error (run_notifications (mkMstate extras sent) l) k = Some d ->
  td_cluster d = nt_cluster n /\ td_group d = nt_group n /\ td_id d = inc_id (nt_incident n) /\
  td_start d = inc_start (nt_incident n) /\ td_extras d = extras /\ td_result d = nt_status n.
Proof.
  intros R extras sent l k n d Hn Hd. rewrite module_data_offers_configured in Hd.
  rewrite nth_error_map, Hn in Hd. simpl in Hd. inversion Hd; subst d. unfold notify_data. simpl. auto 10.
Qed.

(* ---- the documented meaning of topicsbystatus / partitioncounts -------------------------------- *)

Lemma topics_in_insert : forall st tp m s t,
  In t (topics_in (insert_topic st tp m) s) <-> In t (topics_in m s) \/ (s = st /\ t = tp).
Proof.
  intros st tp m s t. unfold topics_in. induction m as [|[k ts] r IH]; simpl.
  - destruct (String.eqb s st) eqn:E.
    + apply String.eqb_eq in E. subst. simpl. intuition.
    + apply String.eqb_neq in E. simpl. intuition.
  - destruct (String.eqb k st) eqn:Ek.
    + apply String.eqb_eq in Ek. subst k. simpl. destruct (String.eqb s st) eqn:E.
      * apply String.eqb_eq in E. subst s.
        destruct (existsb (String.eqb tp) ts) eqn:Ex.
        -- apply existsb_exists in Ex. destruct Ex as [x [Hx Hq]]. apply String.eqb_eq in Hq. subst x.
           split; [auto|]. intros [H|[_ ->]]; auto.
        -- rewrite in_app_iff. simpl. intuition.
      * apply String.eqb_neq in E. intuition.
    + simpl. destruct (String.eqb s k) eqn:E.
      * apply String.eqb_eq in E. subst s. apply String.eqb_neq in Ek. intuition.
      * exact IH.
Qed.

Lemma NoDup_app_intro_single : forall (l : list string) x, NoDup l -> ~ In x l -> NoDup (l ++ [x]).
Proof.
  induction l as [|a r IH]; simpl; intros x Hn Hx; [repeat constructor; auto|].
  inversion Hn; subst. constructor.
  - rewrite in_app_iff. simpl. intros [H|[H|[]]]; [auto|]. subst. apply Hx. left; reflexivity.
  - apply IH; auto.
Qed.

Lemma nodup_insert : forall st tp m s, NoDup (topics_in m s) -> NoDup (topics_in (insert_topic st tp m) s).
Proof.
  intros st tp m s. unfold topics_in. induction m as [|[k ts] r IH]; simpl; intros H.
  - destruct (String.eqb s st); [repeat constructor; auto|constructor].
  - destruct (String.eqb k st) eqn:Ek; simpl.
    + destruct (String.eqb s k); [|exact H].
      destruct (existsb (String.eqb tp) ts) eqn:Ex; [exact H|].
      apply NoDup_app_intro_single; [exact H|].
      intros Hin. assert (existsb (String.eqb tp) ts = true); [|congruence].
      apply existsb_exists. exists tp. split; [exact Hin|apply String.eqb_refl].
    + destruct (String.eqb s k); [exact H|apply IH; exact H].
Qed.

(* topicsbystatus: a topic is listed under a status exactly when some listed partition of that topic is in that status,
   and it is listed there once - whatever other states partitions of the same topic are in *)
Theorem topics_by_status_spec : forall name l s t,
  In t (topics_in (topics_by_status name l) s) <-> exists p, In p l /\ name (fst p) = s /\ snd p = t.
Proof.
  intros name l s t. unfold topics_by_status.
  assert (G : forall m, In t (topics_in (fold_left (fun m p => insert_topic (name (fst p)) (snd p) m) l m) s) <->
                        In t (topics_in m s) \/ exists p, In p l /\ name (fst p) = s /\ snd p = t).
  { induction l as [|p r IH]; intros m; simpl.
    - split; [auto|]. intros [H|[p [[] _]]]; exact H.
    - rewrite IH, topics_in_insert. split.
      + intros [[H|[Hs Ht]]|[q [Hq Hr]]]; [auto | right; exists p; auto | right; exists q; auto].
      + intros [H|[q [[Hq|Hq] [Hs Ht]]]]; [auto | subst q; left; right; auto | right; exists q; auto]. }
  rewrite G. unfold topics_in at 1. simpl. split; [intros [[]|H]; exact H|auto].
Qed.

Theorem topics_by_status_nodup : forall name l s, NoDup (topics_in (topics_by_status name l) s).
Proof.
  intros name l s. unfold topics_by_status.
  assert (G : forall m, NoDup (topics_in m s) ->
            NoDup (topics_in (fold_left (fun m p => insert_topic (name (fst p)) (snd p) m) l m) s)).
  { induction l as [|p r IH]; intros m H; simpl; [exact H|]. apply IH, nodup_insert, H. }
  apply G. unfold topics_in. simpl. constructor.
Qed.

(* the model's helper is that function of the Status / Topic fields *)
Lemma classify_is_fold : forall sch l m,
  classify sch (map (fun p => VInt (TNamed (sch_status_ty sch)) (fst p)) l) (map (fun p => VStr (snd p)) l) m =
  fold_left (fun m p => insert_topic (status_name sch (fst p)) (snd p) m) l m.
Proof. induction l as [|p r IH]; intros m; simpl; [reflexivity|apply IH]. Qed.

(* partitioncounts: every listed partition adds one to exactly the counter of its state (none for OK) *)
Theorem partition_count_step : forall z l key,
  partition_count (z :: l) key =
  (partition_count l key + match count_key z with Some k => if String.eqb k key then 1 else 0 | None => 0 end)%Z.
Proof.
  intros z l key. unfold partition_count. cbn [filter].
  destruct (count_key z) as [k|]; [destruct (String.eqb k key)|]; cbn [List.length]; lia.
Qed.

Theorem partition_count_nil : forall key, partition_count [] key = 0%Z.
Proof. reflexivity. Qed.
