(* C02 lifted from one ring to storage: every offsets ring of every reachable state is Ring.ring_run over exactly the
   commits that reached it since it was last removed; hence it has the C02 shape (RingProofs.wf) and every theorem of
   props/C02.v about [ring_run] speaks about the windows of FetchConsumer replies.
   Kept apart from StorageProofs.v so that C01 does not depend on RingProofs.v. *)
From Coq Require Import ZArith List Bool Lia ZifyBool Sorted.
From Burrow Require Import Int64 Int64Proofs Eval AMap AMapProofs Ring RingProofs Storage StorageProofs.
Import ListNotations.
Open Scope Z_scope.

(* ---- the spec side: which arrivals make up the ring of (c,g,t,p) ---- *)
Definition is_commit_for (c g t p : Z) (r : req) : option (Z * Z * Z) :=
  match r with
  | SetConsumerOffset c' g' t' p' off order ts =>
      if (c' =? c) && (g' =? g) && (t' =? t) && (p' =? p) then Some (off, order, ts) else None
  | _ => None
  end.

(* one request: a commit for (c,g,t,p) that storage does not drop on arrival (StorageProofs.reaches_ring: known cluster,
   not too old, accepted group, broker offset known for the partition) is appended together with the lag value the
   handler attaches; a request that removes the ring (StorageProofs.resets: DeleteTopic c t, DeleteGroup c g [t], the
   expiry purge of group g in FetchConsumer) empties the list; anything else leaves it alone *)
Definition next_arrivals (cf : config) (now : Z) (st : state) (c g t p : Z) (r : req) (acc : list (commit * Z))
  : list (commit * Z) :=
  match is_commit_for c g t p r with
  | Some (off, order, ts) =>
      match reaches_ring cf now st c g t p ts with
      | Some boff => acc ++ [(mkCommit off order ts, commit_lag boff off)]
      | None => acc
      end
  | None => if resets cf now st c g t r then [] else acc
  end.

Fixpoint arrivals_from (cf : config) (st : state) (h : hist) (c g t p : Z) (acc : list (commit * Z)) : list (commit * Z) :=
  match h with
  | [] => acc
  | (now, r) :: rest =>
      match step cf now st r with
      | Done st' _ => arrivals_from cf st' rest c g t p (next_arrivals cf now st c g t p r acc)
      | Crashed => acc
      end
  end.

Definition arrivals (cf : config) (cls : list Z) (h : hist) (c g t p : Z) : list (commit * Z) :=
  arrivals_from cf (init_state cls) h c g t p [].

Lemma arrivals_from_snoc cf h now r c g t p : forall st acc,
  arrivals_from cf st (h ++ [(now, r)]) c g t p acc =
  match run cf st h with
  | Some (st1, _) =>
      match step cf now st1 r with
      | Done _ _ => next_arrivals cf now st1 c g t p r (arrivals_from cf st h c g t p acc)
      | Crashed => arrivals_from cf st h c g t p acc
      end
  | None => arrivals_from cf st h c g t p acc
  end.
Proof.
  induction h as [|[now0 r0] h IH]; intros st acc; cbn [app arrivals_from run].
  - destruct (step cf now st r); reflexivity.
  - destruct (step cf now0 st r0) as [st' rep|]; [|reflexivity]. rewrite IH.
    destruct (run cf st' h) as [[st1 r1]|]; reflexivity.
Qed.

Lemma is_commit_for_some c g t p r off order ts :
  is_commit_for c g t p r = Some (off, order, ts) -> r = SetConsumerOffset c g t p off order ts.
Proof.
  destruct r; cbn; try discriminate.
  destruct ((c0 =? c) && (g0 =? g) && (t0 =? t) && (p0 =? p)) eqn:E; [|discriminate].
  intros H. injection H as -> -> ->. apply andb_true_iff in E. destruct E as [E E4]. apply andb_true_iff in E.
  destruct E as [E E3]. apply andb_true_iff in E. destruct E as [E1 E2].
  apply Z.eqb_eq in E1, E2, E3, E4. subst. reflexivity.
Qed.

Lemma is_commit_for_none c g t p r :
  is_commit_for c g t p r = None -> forall off order ts, r <> SetConsumerOffset c g t p off order ts.
Proof.
  intros H off order ts ->. cbn in H. rewrite !Z.eqb_refl in H. discriminate.
Qed.

(* ---- provenance: the ring is ring_run over those arrivals ---- *)
Theorem storage_ring_provenance cf cls h st reps c g t p :
  (1 <= cf_intervals cf)%nat -> wf_hist h -> 0 <= p ->
  run cf (init_state cls) h = Some (st, reps) ->
  ring_of cf st c g t p = ring_run (cf_min_distance cf) (cf_intervals cf) (arrivals cf cls h c g t p).
Proof.
  intros HN Hwf Hp0. revert st reps. induction h as [|[now r] h IH] using rev_ind; intros st reps Hrun.
  - cbn in Hrun. injection Hrun as <- _. unfold arrivals. cbn [arrivals_from]. unfold ring_run. cbn [fold_left].
    unfold ring_of. destruct (get (init_state cls) c) as [cl|] eqn:Hc; [|reflexivity].
    assert (cl = mkCluster [] []).
    { unfold init_state in Hc. induction cls as [|c0 cls IHc]; cbn in Hc; [discriminate|]. destruct (c0 =? c); [congruence|auto]. }
    subst cl. unfold cons_topic. cbn. apply ring_at_nil.
  - apply wf_hist_snoc in Hwf. destruct Hwf as [Hwf Hr]. cbn [snd] in Hr.
    rewrite run_snoc in Hrun. destruct (run cf (init_state cls) h) as [[st1 r1]|] eqn:Hrun1; [|discriminate].
    destruct (step cf now st1 r) as [st2 rep|] eqn:Hstep; [|discriminate]. injection Hrun as <- _.
    specialize (IH Hwf st1 r1 eq_refl).
    unfold arrivals. rewrite arrivals_from_snoc, Hrun1, Hstep. fold (arrivals cf cls h c g t p).
    unfold next_arrivals. destruct (is_commit_for c g t p r) as [[[off order] ts]|] eqn:Eic.
    + apply is_commit_for_some in Eic. subst r.
      pose proof (commit_ring_step cf cls h st1 r1 now c g t p off order ts st2 rep HN Hwf Hrun1 Hstep) as Hc.
      destruct (reaches_ring cf now st1 c g t p ts) as [boff|].
      * destruct Hc as (_ & _ & Hring). rewrite Hring, ring_run_snoc, IH. reflexivity.
      * subst st2. exact IH.
    + pose proof (is_commit_for_none _ _ _ _ _ Eic) as Hnot.
      rewrite (ring_frame_exact cf cls h st1 r1 now r c g t p st2 rep HN Hwf Hr Hp0 Hrun1 Hstep Hnot).
      destruct (resets cf now st1 c g t r); [reflexivity|exact IH].
Qed.

Lemma wf_ring_run md n l : wf n (ring_run md n l).
Proof.
  induction l as [|cl l IH] using rev_ind; [apply wf_new_ring|]. rewrite ring_run_snoc. apply wf_ring_step. exact IH.
Qed.

Lemma stored_ring_is_ring_of cf st c cl g t i pr w :
  get st c = Some cl -> nth_error (cons_topic cl g t) i = Some pr -> pr_ring pr = Some w ->
  ring_of cf st c g t (Z.of_nat i) = w.
Proof. intros Hc Hi Hw. unfold ring_of, ring_at. rewrite Hc, Nat2Z.id, Hi, Hw. reflexivity. Qed.

(* ---- every stored ring, in every reachable state, has the C02 shape ---- *)
Theorem storage_windows_wf cf cls h st reps c cl g t i pr w :
  (1 <= cf_intervals cf)%nat -> wf_hist h ->
  run cf (init_state cls) h = Some (st, reps) ->
  get st c = Some cl -> nth_error (cons_topic cl g t) i = Some pr -> pr_ring pr = Some w ->
  wf (cf_intervals cf) w /\
  w = ring_run (cf_min_distance cf) (cf_intervals cf) (arrivals cf cls h c g t (Z.of_nat i)).
Proof.
  intros HN Hwf Hrun Hc Hi Hw.
  pose proof (storage_ring_provenance cf cls h st reps c g t (Z.of_nat i) HN Hwf ltac:(lia) Hrun) as Hp.
  rewrite (stored_ring_is_ring_of cf st c cl g t i pr w Hc Hi Hw) in Hp. split; [|exact Hp].
  rewrite Hp. apply wf_ring_run.
Qed.

(* ---- the same on what a query sees: every window of every FetchConsumer reply ---- *)
Theorem storage_reply_windows cf cls h st reps now c g st' l t cps i cp :
  (1 <= cf_intervals cf)%nat -> wf_hist h ->
  run cf (init_state cls) h = Some (st, reps) ->
  fetch_consumer cf now st c g = Done st' (RConsumer l) ->
  In (t, cps) l -> nth_error cps i = Some cp ->
  cp_offsets cp = [] \/
  (cp_offsets cp = readout (ring_run (cf_min_distance cf) (cf_intervals cf) (arrivals cf cls h c g t (Z.of_nat i))) /\
   exists b cs, cp_offsets cp = window b cs /\ (b + length cs = cf_intervals cf)%nat /\ asc cs).
Proof.
  intros HN Hwf Hrun Hf Hin Hi.
  destruct (fetch_reply_hist _ _ _ _ _ _ _ _ _ _ _ _ _ _ HN Hwf Hrun Hf Hin Hi) as (cl & pr & Hc & Hpr & Hm).
  destruct (pr_ring pr) as [w|] eqn:Ew.
  - right. destruct Hm as (b & _ & _ & Ho & _).
    destruct (storage_windows_wf cf cls h st reps c cl g t i pr w HN Hwf Hrun Hc Hpr Ew) as [Hwfw Hprov].
    split; [rewrite Ho, <- Hprov; reflexivity|].
    destruct (wf_readout _ _ Hwfw) as (b0 & cs & Hro & Hlen & Hasc). exists b0, cs. rewrite Ho. auto.
  - left. destruct Hm as [Ho _]. exact Ho.
Qed.

(* ---- non-vacuity: the arrival list of concrete histories ---- *)
(* out-of-order history of props/C01.v: both commits reach the ring, each with the lag value the handler attaches *)
Lemma ex_arrivals_ooo :
  arrivals ex_cfg [1] ex_ooo 1 1 1 0 = [(mkCommit 50 5 100000, 50); (mkCommit 40 3 99000, 60)].
Proof. vm_compute. reflexivity. Qed.

(* a commit before any broker offset is dropped; a DeleteGroup empties the list; a too-old commit is dropped *)
Definition ex_reset : hist :=
  [(100, SetConsumerOffset 1 1 1 0 5 1 100000);
   (100, SetBrokerOffset 1 1 0 1 100); (100, SetConsumerOffset 1 1 1 0 50 5 100000);
   (100, DeleteGroup 1 1 0); (100, SetConsumerOffset 1 1 1 0 60 2 100000);
   (5000, SetConsumerOffset 1 1 1 0 70 9 100000)].
Lemma ex_arrivals_reset :
  wf_hist ex_reset /\ arrivals ex_cfg [1] ex_reset 1 1 1 0 = [(mkCommit 60 2 100000, 40)].
Proof.
  split; [|vm_compute; reflexivity].
  unfold wf_hist, ex_reset. repeat (apply Forall_cons || apply Forall_nil); cbn [snd wf_req]; unfold in_i64, two63; lia.
Qed.

(* ================================================================================================ *)
(* state-free reading: arrivals, lastCommit and topic keys of a group as a recursion over the history alone *)
(* ================================================================================================ *)

(* reaches_ring without the state (StorageProofs.reaches_ring_history) *)
Definition reach_h (cf : config) (cls : list Z) (h : hist) (now c g t p ts : Z) : option Z :=
  if in_cls c cls && negb (too_old cf now ts) && cf_accept cf g && (0 <=? p) && broker_known h c t p
  then last_broker h c t p else None.

Definition ceff_h (cf : config) (cls : list Z) (h : hist) (A : Z -> Z -> list (commit * Z)) (now c g t p off order ts : Z)
  : option bool :=
  match reach_h cf cls h now c g t p ts with
  | Some boff => Some (commit_stored (ring_run (cf_min_distance cf) (cf_intervals cf) (A t p)) order)
  | None => None
  end.

Definition oeff_h (cf : config) (cls : list Z) (h : hist) (c g t p : Z) : option bool :=
  if in_cls c cls && cf_accept cf g then Some ((0 <=? p) && broker_known h c t p) else None.

Definition resets_h (cf : config) (now : Z) (G : option (Z * list Z)) (c g t : Z) (r : req) : bool :=
  match r with
  | DeleteTopic c' t' => (c' =? c) && (t' =? t)
  | DeleteGroup c' g' t' => (c' =? c) && (g' =? g) && ((t' =? 0) || (t =? t'))
  | FetchConsumer c' g' => (c' =? c) && (g' =? g) && match G with Some (L, _) => expired cf now L | None => false end
  | _ => false
  end.

Definition next_arrivals_h (cf : config) (cls : list Z) (h : hist) (now c g t p : Z) (r : req) (G : option (Z * list Z))
           (acc : list (commit * Z)) : list (commit * Z) :=
  match is_commit_for c g t p r with
  | Some (off, order, ts) =>
      match reach_h cf cls h now c g t p ts with
      | Some boff => acc ++ [(mkCommit off order ts, commit_lag boff off)]
      | None => acc
      end
  | None => if resets_h cf now G c g t r then [] else acc
  end.

(* recursion over the reversed history (newest request first): for the group (c,g), its (lastCommit, topic keys)
   (None = the group does not exist) and, per topic and partition, the commits that make up the ring *)
Fixpoint hsim (cf : config) (cls : list Z) (c g : Z) (rh : hist)
  : option (Z * list Z) * (Z -> Z -> list (commit * Z)) :=
  match rh with
  | [] => (None, fun _ _ => [])
  | (now, r) :: rest =>
      let GA := hsim cf cls c g rest in
      let h := rev rest in
      (ginfo_next cf now c g (ceff_h cf cls h (snd GA) now c g) (oeff_h cf cls h c g) r (fst GA),
       fun t p => next_arrivals_h cf cls h now c g t p r (fst GA) (snd GA t p))
  end.

Definition h_ginfo (cf : config) (cls : list Z) (h : hist) (c g : Z) : option (Z * list Z) := fst (hsim cf cls c g (rev h)).
Definition h_arrivals (cf : config) (cls : list Z) (h : hist) (c g t p : Z) : list (commit * Z) :=
  snd (hsim cf cls c g (rev h)) t p.

Lemma ginfo_next_ext cf now c g ceff ceff' oeff oeff' r G :
  (forall t p off order ts, ceff t p off order ts = ceff' t p off order ts) ->
  (forall t p, oeff t p = oeff' t p) ->
  ginfo_next cf now c g ceff oeff r G = ginfo_next cf now c g ceff' oeff' r G.
Proof. intros H1 H2. destruct r; cbn [ginfo_next]; rewrite ?H1, ?H2; reflexivity. Qed.

Lemma oeff_history cf cls h st reps c g t p :
  run cf (init_state cls) h = Some (st, reps) -> oeff_st cf st c g t p = oeff_h cf cls h c g t p.
Proof.
  intros Hrun. destruct (broker_known_iff_history cf cls h st reps c t p Hrun) as [Hiff _].
  destruct (run_bk_inv cf cls h st reps Hrun) as [Hcl _]. unfold oeff_st, oeff_h.
  destruct (get st c) as [cl|] eqn:Hg.
  - assert (Hin : in_cls c cls = true) by (apply in_cls_spec, Hcl; congruence). rewrite Hin. cbn [andb].
    destruct (cf_accept cf g); [|reflexivity]. f_equal.
    destruct (snd (get_broker_offset cl t p) =? 0) eqn:E0; cbn [negb].
    + destruct ((0 <=? p) && broker_known h c t p) eqn:Ec; [|reflexivity]. exfalso.
      apply andb_true_iff in Ec. destruct Ec as [Ep Ek].
      destruct (proj2 Hiff) as (cl' & Hg' & Hs); [split; [apply in_cls_spec; exact Hin|split; [lia|exact Ek]]|].
      assert (cl' = cl) by congruence. subst cl'. lia.
    + assert (Hs : snd (get_broker_offset cl t p) <> 0) by lia.
      destruct (proj1 Hiff (ex_intro _ cl (conj eq_refl Hs))) as (_ & Hp & Hk).
      assert (Ep : (0 <=? p) = true) by lia. rewrite Ep, Hk. reflexivity.
  - assert (Hin : in_cls c cls = false).
    { destruct (in_cls c cls) eqn:E; [|reflexivity]. apply in_cls_spec, Hcl in E. congruence. }
    rewrite Hin. reflexivity.
Qed.

Lemma resets_history cf now st c g t r : resets cf now st c g t r = resets_h cf now (ginfo st c g) c g t r.
Proof. destruct r; cbn [resets resets_h]; try reflexivity. rewrite group_expired_ginfo. reflexivity. Qed.

(* The state-free recursion computes exactly what storage holds: for every well-formed history, the group's
   (lastCommit, topic keys) and, for every topic and partition >= 0, the arrival list of StorageWindows.arrivals
   (hence, by storage_ring_provenance, the ring itself: ring_of = ring_run (h_arrivals ...)). *)
Theorem hist_sim_correct cf cls h st reps c g :
  (1 <= cf_intervals cf)%nat -> wf_hist h ->
  run cf (init_state cls) h = Some (st, reps) ->
  ginfo st c g = h_ginfo cf cls h c g /\
  forall t p, 0 <= p -> arrivals cf cls h c g t p = h_arrivals cf cls h c g t p.
Proof.
  intros HN Hwf. revert st reps. unfold h_ginfo, h_arrivals.
  induction h as [|[now r] h IH] using rev_ind; intros st reps Hrun.
  - cbn in Hrun. injection Hrun as <- _. cbn. split; [|intros; reflexivity].
    unfold ginfo. destruct (get (init_state cls) c) as [cl|] eqn:Hc; [|reflexivity].
    assert (cl = mkCluster [] []).
    { unfold init_state in Hc. induction cls as [|c0 cls IHc]; cbn in Hc; [discriminate|]. destruct (c0 =? c); [congruence|auto]. }
    subst cl. reflexivity.
  - apply wf_hist_snoc in Hwf. destruct Hwf as [Hwf Hr]. cbn [snd] in Hr.
    rewrite run_snoc in Hrun. destruct (run cf (init_state cls) h) as [[st1 r1]|] eqn:Hrun1; [|discriminate].
    destruct (step cf now st1 r) as [st2 rep|] eqn:Hstep; [|discriminate]. injection Hrun as <- _.
    destruct (IH Hwf st1 r1 eq_refl) as [IHg IHa]. clear IH.
    rewrite rev_app_distr. cbn [rev app hsim]. rewrite rev_involutive. cbn [fst snd].
    set (GA := hsim cf cls c g (rev h)) in *.
    split.
    + rewrite (ginfo_step cf cls h st1 r1 now r st2 rep c g HN Hwf Hr Hrun1 Hstep), IHg.
      apply ginfo_next_ext; [|intros t p; eapply oeff_history; exact Hrun1].
      intros t p off order ts. unfold ceff_st, ceff_h.
      rewrite (reaches_ring_history cf cls h st1 r1 now c g t p ts Hrun1). fold (reach_h cf cls h now c g t p ts).
      destruct (reach_h cf cls h now c g t p ts) as [boff|] eqn:Ere; [|reflexivity].
      assert (Hp : 0 <= p).
      { unfold reach_h in Ere. destruct (0 <=? p) eqn:E; [lia|]. rewrite !andb_false_r in Ere. cbn in Ere. discriminate. }
      rewrite (storage_ring_provenance cf cls h st1 r1 c g t p HN Hwf Hp Hrun1), (IHa t p Hp). reflexivity.
    + intros t p Hp. unfold arrivals. rewrite arrivals_from_snoc, Hrun1, Hstep. fold (arrivals cf cls h c g t p).
      rewrite (IHa t p Hp). unfold next_arrivals, next_arrivals_h.
      destruct (is_commit_for c g t p r) as [[[off order] ts]|].
      * rewrite (reaches_ring_history cf cls h st1 r1 now c g t p ts Hrun1). reflexivity.
      * rewrite resets_history, IHg. reflexivity.
Qed.

(* corollaries in the shape the composed layer needs *)
Corollary ring_of_history cf cls h st reps c g t p :
  (1 <= cf_intervals cf)%nat -> wf_hist h -> 0 <= p ->
  run cf (init_state cls) h = Some (st, reps) ->
  ring_of cf st c g t p = ring_run (cf_min_distance cf) (cf_intervals cf) (h_arrivals cf cls h c g t p).
Proof.
  intros HN Hwf Hp Hrun. rewrite (storage_ring_provenance cf cls h st reps c g t p HN Hwf Hp Hrun).
  destruct (hist_sim_correct cf cls h st reps c g HN Hwf Hrun) as [_ Ha]. rewrite (Ha t p Hp). reflexivity.
Qed.

Corollary group_expired_history cf cls h st reps now c g :
  (1 <= cf_intervals cf)%nat -> wf_hist h ->
  run cf (init_state cls) h = Some (st, reps) ->
  group_expired cf now st c g = match h_ginfo cf cls h c g with Some (L, _) => expired cf now L | None => false end.
Proof.
  intros HN Hwf Hrun. rewrite group_expired_ginfo.
  destruct (hist_sim_correct cf cls h st reps c g HN Hwf Hrun) as [-> _]. reflexivity.
Qed.

(* non-vacuity: the state-free recursion on the reset example *)
Lemma ex_h_arrivals_reset :
  h_arrivals ex_cfg [1] ex_reset 1 1 1 0 = [(mkCommit 60 2 100000, 40)] /\
  h_ginfo ex_cfg [1] ex_reset 1 1 = Some (100000, [1]).
Proof. split; vm_compute; reflexivity. Qed.
