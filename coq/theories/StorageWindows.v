(* C02 lifted from one ring to storage: every offsets ring of every reachable state is Ring.ring_run over exactly the
   commits that reached it since it was last removed; hence it has the C02 shape (RingProofs.wf) and every theorem of
   props/C02.v about [ring_run] speaks about the windows of FetchConsumer replies.
   Kept apart from StorageProofs.v so that C01 does not depend on RingProofs.v. *)
From Coq Require Import ZArith List Bool Lia ZifyBool Sorted.
From Burrow Require Import Int64 Int64Proofs Eval AMap AMapProofs Ring RingProofs Storage StorageProofs.
Import ListNotations.
Open Scope Z_scope.

(* ---- the spec side: which arrivals make up the ring of (c,g,t,p) ---- *)
Definition is_commit_for (c g t p : Z) (r : req) : option (Z * Z * Z) :=
  match r with
  | SetConsumerOffset c' g' t' p' off order ts =>
      if (c' =? c) && (g' =? g) && (t' =? t) && (p' =? p) then Some (off, order, ts) else None
  | _ => None
  end.

(* one request: a commit for (c,g,t,p) that storage does not drop on arrival (StorageProofs.reaches_ring: known cluster,
   not too old, accepted group, broker offset known for the partition) is appended together with the lag value the
   handler attaches; a request that removes the ring (StorageProofs.resets: DeleteTopic c t, DeleteGroup c g [t], the
   expiry purge of group g in FetchConsumer) empties the list; anything else leaves it alone *)
Definition next_arrivals (cf : config) (now : Z) (st : state) (c g t p : Z) (r : req) (acc : list (commit * Z))
  : list (commit * Z) :=
  match is_commit_for c g t p r with
  | Some (off, order, ts) =>
      match reaches_ring cf now st c g t p ts with
      | Some boff => acc ++ [(mkCommit off order ts, commit_lag boff off)]
      | None => acc
      end
  | None => if resets cf now st c g t r then [] else acc
  end.

Fixpoint arrivals_from (cf : config) (st : state) (h : hist) (c g t p : Z) (acc : list (commit * Z)) : list (commit * Z) :=
  match h with
  | [] => acc
  | (now, r) :: rest =>
      match step cf now st r with
      | Done st' _ => arrivals_from cf st' rest c g t p (next_arrivals cf now st c g t p r acc)
      | Crashed => acc
      end
  end.

Definition arrivals (cf : config) (cls : list Z) (h : hist) (c g t p : Z) : list (commit * Z) :=
  arrivals_from cf (init_state cls) h c g t p [].

Lemma arrivals_from_snoc cf h now r c g t p : forall st acc,
  arrivals_from cf st (h ++ [(now, r)]) c g t p acc =
  match run cf st h with
  | Some (st1, _) =>
      match step cf now st1 r with
      | Done _ _ => next_arrivals cf now st1 c g t p r (arrivals_from cf st h c g t p acc)
      | Crashed => arrivals_from cf st h c g t p acc
      end
  | None => arrivals_from cf st h c g t p acc
  end.
Proof.
  induction h as [|[now0 r0] h IH]; intros st acc; cbn [app arrivals_from run].
  - destruct (step cf now st r); reflexivity.
  - destruct (step cf now0 st r0) as [st' rep|]; [|reflexivity]. rewrite IH.
    destruct (run cf st' h) as [[st1 r1]|]; reflexivity.
Qed.

Lemma is_commit_for_some c g t p r off order ts :
  is_commit_for c g t p r = Some (off, order, ts) -> r = SetConsumerOffset c g t p off order ts.
Proof.
  destruct r; cbn; try discriminate.
  destruct ((c0 =? c) && (g0 =? g) && (t0 =? t) && (p0 =? p)) eqn:E; [|discriminate].
  intros H. injection H as -> -> ->. apply andb_true_iff in E. destruct E as [E E4]. apply andb_true_iff in E.
  destruct E as [E E3]. apply andb_true_iff in E. destruct E as [E1 E2].
  apply Z.eqb_eq in E1, E2, E3, E4. subst. reflexivity.
Qed.

Lemma is_commit_for_none c g t p r :
  is_commit_for c g t p r = None -> forall off order ts, r <> SetConsumerOffset c g t p off order ts.
Proof.
  intros H off order ts ->. cbn in H. rewrite !Z.eqb_refl in H. discriminate.
Qed.

(* ---- provenance: the ring is ring_run over those arrivals ---- *)
Theorem storage_ring_provenance cf cls h st reps c g t p :
  (1 <= cf_intervals cf)%nat -> wf_hist h -> 0 <= p ->
  run cf (init_state cls) h = Some (st, reps) ->
  ring_of cf st c g t p = ring_run (cf_min_distance cf) (cf_intervals cf) (arrivals cf cls h c g t p).
Proof.
  intros HN Hwf Hp0. revert st reps. induction h as [|[now r] h IH] using rev_ind; intros st reps Hrun.
  - cbn in Hrun. injection Hrun as <- _. unfold arrivals. cbn [arrivals_from]. unfold ring_run. cbn [fold_left].
    unfold ring_of. destruct (get (init_state cls) c) as [cl|] eqn:Hc; [|reflexivity].
    assert (cl = mkCluster [] []).
    { unfold init_state in Hc. induction cls as [|c0 cls IHc]; cbn in Hc; [discriminate|]. destruct (c0 =? c); [congruence|auto]. }
    subst cl. unfold cons_topic. cbn. apply ring_at_nil.
  - apply wf_hist_snoc in Hwf. destruct Hwf as [Hwf Hr]. cbn [snd] in Hr.
    rewrite run_snoc in Hrun. destruct (run cf (init_state cls) h) as [[st1 r1]|] eqn:Hrun1; [|discriminate].
    destruct (step cf now st1 r) as [st2 rep|] eqn:Hstep; [|discriminate]. injection Hrun as <- _.
    specialize (IH Hwf st1 r1 eq_refl).
    unfold arrivals. rewrite arrivals_from_snoc, Hrun1, Hstep. fold (arrivals cf cls h c g t p).
    unfold next_arrivals. destruct (is_commit_for c g t p r) as [[[off order] ts]|] eqn:Eic.
    + apply is_commit_for_some in Eic. subst r.
      pose proof (commit_ring_step cf cls h st1 r1 now c g t p off order ts st2 rep HN Hwf Hrun1 Hstep) as Hc.
      destruct (reaches_ring cf now st1 c g t p ts) as [boff|].
      * destruct Hc as (_ & _ & Hring). rewrite Hring, ring_run_snoc, IH. reflexivity.
      * subst st2. exact IH.
    + pose proof (is_commit_for_none _ _ _ _ _ Eic) as Hnot.
      rewrite (ring_frame_exact cf cls h st1 r1 now r c g t p st2 rep HN Hwf Hr Hp0 Hrun1 Hstep Hnot).
      destruct (resets cf now st1 c g t r); [reflexivity|exact IH].
Qed.

Lemma wf_ring_run md n l : wf n (ring_run md n l).
Proof.
  induction l as [|cl l IH] using rev_ind; [apply wf_new_ring|]. rewrite ring_run_snoc. apply wf_ring_step. exact IH.
Qed.

Lemma stored_ring_is_ring_of cf st c cl g t i pr w :
  get st c = Some cl -> nth_error (cons_topic cl g t) i = Some pr -> pr_ring pr = Some w ->
  ring_of cf st c g t (Z.of_nat i) = w.
Proof. intros Hc Hi Hw. unfold ring_of, ring_at. rewrite Hc, Nat2Z.id, Hi, Hw. reflexivity. Qed.

(* ---- every stored ring, in every reachable state, has the C02 shape ---- *)
Theorem storage_windows_wf cf cls h st reps c cl g t i pr w :
  (1 <= cf_intervals cf)%nat -> wf_hist h ->
  run cf (init_state cls) h = Some (st, reps) ->
  get st c = Some cl -> nth_error (cons_topic cl g t) i = Some pr -> pr_ring pr = Some w ->
  wf (cf_intervals cf) w /\
  w = ring_run (cf_min_distance cf) (cf_intervals cf) (arrivals cf cls h c g t (Z.of_nat i)).
Proof.
  intros HN Hwf Hrun Hc Hi Hw.
  pose proof (storage_ring_provenance cf cls h st reps c g t (Z.of_nat i) HN Hwf ltac:(lia) Hrun) as Hp.
  rewrite (stored_ring_is_ring_of cf st c cl g t i pr w Hc Hi Hw) in Hp. split; [|exact Hp].
  rewrite Hp. apply wf_ring_run.
Qed.

(* ---- the same on what a query sees: every window of every FetchConsumer reply ---- *)
Theorem storage_reply_windows cf cls h st reps now c g st' l t cps i cp :
  (1 <= cf_intervals cf)%nat -> wf_hist h ->
  run cf (init_state cls) h = Some (st, reps) ->
  fetch_consumer cf now st c g = Done st' (RConsumer l) ->
  In (t, cps) l -> nth_error cps i = Some cp ->
  cp_offsets cp = [] \/
  (cp_offsets cp = readout (ring_run (cf_min_distance cf) (cf_intervals cf) (arrivals cf cls h c g t (Z.of_nat i))) /\
   exists b cs, cp_offsets cp = window b cs /\ (b + length cs = cf_intervals cf)%nat /\ asc cs).
Proof.
  intros HN Hwf Hrun Hf Hin Hi.
  destruct (fetch_reply_hist _ _ _ _ _ _ _ _ _ _ _ _ _ _ HN Hwf Hrun Hf Hin Hi) as (cl & pr & Hc & Hpr & Hm).
  destruct (pr_ring pr) as [w|] eqn:Ew.
  - right. destruct Hm as (b & _ & _ & Ho & _).
    destruct (storage_windows_wf cf cls h st reps c cl g t i pr w HN Hwf Hrun Hc Hpr Ew) as [Hwfw Hprov].
    split; [rewrite Ho, <- Hprov; reflexivity|].
    destruct (wf_readout _ _ Hwfw) as (b0 & cs & Hro & Hlen & Hasc). exists b0, cs. rewrite Ho. auto.
  - left. destruct Hm as [Ho _]. exact Ho.
Qed.

(* ---- non-vacuity: the arrival list of concrete histories ---- *)
(* out-of-order history of props/C01.v: both commits reach the ring, each with the lag value the handler attaches *)
Lemma ex_arrivals_ooo :
  arrivals ex_cfg [1] ex_ooo 1 1 1 0 = [(mkCommit 50 5 100000, 50); (mkCommit 40 3 99000, 60)].
Proof. vm_compute. reflexivity. Qed.

(* a commit before any broker offset is dropped; a DeleteGroup empties the list; a too-old commit is dropped *)
Definition ex_reset : hist :=
  [(100, SetConsumerOffset 1 1 1 0 5 1 100000);
   (100, SetBrokerOffset 1 1 0 1 100); (100, SetConsumerOffset 1 1 1 0 50 5 100000);
   (100, DeleteGroup 1 1 0); (100, SetConsumerOffset 1 1 1 0 60 2 100000);
   (5000, SetConsumerOffset 1 1 1 0 70 9 100000)].
Lemma ex_arrivals_reset :
  wf_hist ex_reset /\ arrivals ex_cfg [1] ex_reset 1 1 1 0 = [(mkCommit 60 2 100000, 40)].
Proof.
  split; [|vm_compute; reflexivity].
  unfold wf_hist, ex_reset. repeat (apply Forall_cons || apply Forall_nil); cbn [snd wf_req]; unfold in_i64, two63; lia.
Qed.

(* ================================================================================================ *)
(* state-free reading: arrivals, lastCommit and topic keys of a group as a recursion over the history alone *)
(* ================================================================================================ *)

(* reaches_ring without the state (StorageProofs.reaches_ring_history) *)
Definition reach_h (cf : config) (cls : list Z) (h : hist) (now c g t p ts : Z) : option Z :=
  if in_cls c cls && negb (too_old cf now ts) && cf_accept cf g && (0 <=? p) && broker_known h c t p
  then last_broker h c t p else None.

Definition ceff_h (cf : config) (cls : list Z) (h : hist) (A : Z -> Z -> list (commit * Z)) (now c g t p off order ts : Z)
  : option bool :=
  match reach_h cf cls h now c g t p ts with
  | Some boff => Some (commit_stored (ring_run (cf_min_distance cf) (cf_intervals cf) (A t p)) order)
  | None => None
  end.

Definition oeff_h (cf : config) (cls : list Z) (h : hist) (c g t p : Z) : option bool :=
  if in_cls c cls && cf_accept cf g then Some ((0 <=? p) && broker_known h c t p) else None.

Definition resets_h (cf : config) (now : Z) (G : option (Z * list Z)) (c g t : Z) (r : req) : bool :=
  match r with
  | DeleteTopic c' t' => (c' =? c) && (t' =? t)
  | DeleteGroup c' g' t' => (c' =? c) && (g' =? g) && ((t' =? 0) || (t =? t'))
  | FetchConsumer c' g' => (c' =? c) && (g' =? g) && match G with Some (L, _) => expired cf now L | None => false end
  | _ => false
  end.

Definition next_arrivals_h (cf : config) (cls : list Z) (h : hist) (now c g t p : Z) (r : req) (G : option (Z * list Z))
           (acc : list (commit * Z)) : list (commit * Z) :=
  match is_commit_for c g t p r with
  | Some (off, order, ts) =>
      match reach_h cf cls h now c g t p ts with
      | Some boff => acc ++ [(mkCommit off order ts, commit_lag boff off)]
      | None => acc
      end
  | None => if resets_h cf now G c g t r then [] else acc
  end.

(* recursion over the reversed history (newest request first): for the group (c,g), its (lastCommit, topic keys)
   (None = the group does not exist) and, per topic and partition, the commits that make up the ring *)
Fixpoint hsim (cf : config) (cls : list Z) (c g : Z) (rh : hist)
  : option (Z * list Z) * (Z -> Z -> list (commit * Z)) :=
  match rh with
  | [] => (None, fun _ _ => [])
  | (now, r) :: rest =>
      let GA := hsim cf cls c g rest in
      let h := rev rest in
      (ginfo_next cf now c g (ceff_h cf cls h (snd GA) now c g) (oeff_h cf cls h c g) r (fst GA),
       fun t p => next_arrivals_h cf cls h now c g t p r (fst GA) (snd GA t p))
  end.

Definition h_ginfo (cf : config) (cls : list Z) (h : hist) (c g : Z) : option (Z * list Z) := fst (hsim cf cls c g (rev h)).
Definition h_arrivals (cf : config) (cls : list Z) (h : hist) (c g t p : Z) : list (commit * Z) :=
  snd (hsim cf cls c g (rev h)) t p.

Lemma ginfo_next_ext cf now c g ceff ceff' oeff oeff' r G :
  (forall t p off order ts, ceff t p off order ts = ceff' t p off order ts) ->
  (forall t p, oeff t p = oeff' t p) ->
  ginfo_next cf now c g ceff oeff r G = ginfo_next cf now c g ceff' oeff' r G.
Proof. intros H1 H2. destruct r; cbn [ginfo_next]; rewrite ?H1, ?H2; reflexivity. Qed.

Lemma oeff_history cf cls h st reps c g t p :
  run cf (init_state cls) h = Some (st, reps) -> oeff_st cf st c g t p = oeff_h cf cls h c g t p.
Proof.
  intros Hrun. destruct (broker_known_iff_history cf cls h st reps c t p Hrun) as [Hiff _].
  destruct (run_bk_inv cf cls h st reps Hrun) as [Hcl _]. unfold oeff_st, oeff_h.
  destruct (get st c) as [cl|] eqn:Hg.
  - assert (Hin : in_cls c cls = true) by (apply in_cls_spec, Hcl; congruence). rewrite Hin. cbn [andb].
    destruct (cf_accept cf g); [|reflexivity]. f_equal.
    destruct (snd (get_broker_offset cl t p) =? 0) eqn:E0; cbn [negb].
    + destruct ((0 <=? p) && broker_known h c t p) eqn:Ec; [|reflexivity]. exfalso.
      apply andb_true_iff in Ec. destruct Ec as [Ep Ek].
      destruct (proj2 Hiff) as (cl' & Hg' & Hs); [split; [apply in_cls_spec; exact Hin|split; [lia|exact Ek]]|].
      assert (cl' = cl) by congruence. subst cl'. lia.
    + assert (Hs : snd (get_broker_offset cl t p) <> 0) by lia.
      destruct (proj1 Hiff (ex_intro _ cl (conj eq_refl Hs))) as (_ & Hp & Hk).
      assert (Ep : (0 <=? p) = true) by lia. rewrite Ep, Hk. reflexivity.
  - assert (Hin : in_cls c cls = false).
    { destruct (in_cls c cls) eqn:E; [|reflexivity]. apply in_cls_spec, Hcl in E. congruence. }
    rewrite Hin. reflexivity.
Qed.

Lemma resets_history cf now st c g t r : resets cf now st c g t r = resets_h cf now (ginfo st c g) c g t r.
Proof. destruct r; cbn [resets resets_h]; try reflexivity. rewrite group_expired_ginfo. reflexivity. Qed.

(* The state-free recursion computes exactly what storage holds: for every well-formed history, the group's
   (lastCommit, topic keys) and, for every topic and partition >= 0, the arrival list of StorageWindows.arrivals
   (hence, by storage_ring_provenance, the ring itself: ring_of = ring_run (h_arrivals ...)). *)
Theorem hist_sim_correct cf cls h st reps c g :
  (1 <= cf_intervals cf)%nat -> wf_hist h ->
  run cf (init_state cls) h = Some (st, reps) ->
  ginfo st c g = h_ginfo cf cls h c g /\
  forall t p, 0 <= p -> arrivals cf cls h c g t p = h_arrivals cf cls h c g t p.
Proof.
  intros HN Hwf. revert st reps. unfold h_ginfo, h_arrivals.
  induction h as [|[now r] h IH] using rev_ind; intros st reps Hrun.
  - cbn in Hrun. injection Hrun as <- _. cbn. split; [|intros; reflexivity].
    unfold ginfo. destruct (get (init_state cls) c) as [cl|] eqn:Hc; [|reflexivity].
    assert (cl = mkCluster [] []).
    { unfold init_state in Hc. induction cls as [|c0 cls IHc]; cbn in Hc; [discriminate|]. destruct (c0 =? c); [congruence|auto]. }
    subst cl. reflexivity.
  - apply wf_hist_snoc in Hwf. destruct Hwf as [Hwf Hr]. cbn [snd] in Hr.
    rewrite run_snoc in Hrun. destruct (run cf (init_state cls) h) as [[st1 r1]|] eqn:Hrun1; [|discriminate].
    destruct (step cf now st1 r) as [st2 rep|] eqn:Hstep; [|discriminate]. injection Hrun as <- _.
    destruct (IH Hwf st1 r1 eq_refl) as [IHg IHa]. clear IH.
    rewrite rev_app_distr. cbn [rev app hsim]. rewrite rev_involutive. cbn [fst snd].
    set (GA := hsim cf cls c g (rev h)) in *.
    split.
    + rewrite (ginfo_step cf cls h st1 r1 now r st2 rep c g HN Hwf Hr Hrun1 Hstep), IHg.
      apply ginfo_next_ext; [|intros t p; eapply oeff_history; exact Hrun1].
      intros t p off order ts. unfold ceff_st, ceff_h.
      rewrite (reaches_ring_history cf cls h st1 r1 now c g t p ts Hrun1). fold (reach_h cf cls h now c g t p ts).
      destruct (reach_h cf cls h now c g t p ts) as [boff|] eqn:Ere; [|reflexivity].
      assert (Hp : 0 <= p).
      { unfold reach_h in Ere. destruct (0 <=? p) eqn:E; [lia|]. rewrite !andb_false_r in Ere. cbn in Ere. discriminate. }
      rewrite (storage_ring_provenance cf cls h st1 r1 c g t p HN Hwf Hp Hrun1), (IHa t p Hp). reflexivity.
    + intros t p Hp. unfold arrivals. rewrite arrivals_from_snoc, Hrun1, Hstep. fold (arrivals cf cls h c g t p).
      rewrite (IHa t p Hp). unfold next_arrivals, next_arrivals_h.
      destruct (is_commit_for c g t p r) as [[[off order] ts]|].
      * rewrite (reaches_ring_history cf cls h st1 r1 now c g t p ts Hrun1). reflexivity.
      * rewrite resets_history, IHg. reflexivity.
Qed.

(* corollaries in the shape the composed layer needs *)
Corollary ring_of_history cf cls h st reps c g t p :
  (1 <= cf_intervals cf)%nat -> wf_hist h -> 0 <= p ->
  run cf (init_state cls) h = Some (st, reps) ->
  ring_of cf st c g t p = ring_run (cf_min_distance cf) (cf_intervals cf) (h_arrivals cf cls h c g t p).
Proof.
  intros HN Hwf Hp Hrun. rewrite (storage_ring_provenance cf cls h st reps c g t p HN Hwf Hp Hrun).
  destruct (hist_sim_correct cf cls h st reps c g HN Hwf Hrun) as [_ Ha]. rewrite (Ha t p Hp). reflexivity.
Qed.

Corollary group_expired_history cf cls h st reps now c g :
  (1 <= cf_intervals cf)%nat -> wf_hist h ->
  run cf (init_state cls) h = Some (st, reps) ->
  group_expired cf now st c g = match h_ginfo cf cls h c g with Some (L, _) => expired cf now L | None => false end.
Proof.
  intros HN Hwf Hrun. rewrite group_expired_ginfo.
  destruct (hist_sim_correct cf cls h st reps c g HN Hwf Hrun) as [-> _]. reflexivity.
Qed.

(* non-vacuity: the state-free recursion on the reset example *)
Lemma ex_h_arrivals_reset :
  h_arrivals ex_cfg [1] ex_reset 1 1 1 0 = [(mkCommit 60 2 100000, 40)] /\
  h_ginfo ex_cfg [1] ex_reset 1 1 = Some (100000, [1]).
Proof. split; vm_compute; reflexivity. Qed.

(* ================================================================================================ *)
(* audit A (C01) strengthening: latest in the log; provenance of every stored entry; in-order commits are stored *)
(* ================================================================================================ *)

Lemma last_readout_new_ring n : last (readout (new_ring n)) (@None coff) = None.
Proof. unfold readout, new_ring. rewrite last_rev_hd. destruct n; reflexivity. Qed.

Lemma ring_run_nil md n : ring_run md n [] = new_ring n.
Proof. reflexivity. Qed.

(* ---- (1) the newest slot of a reported window is the commit latest in the log ---- *)
(* For every partition of every FetchConsumer reply: if the newest slot holds k, then k's log position is the greatest
   among the commits of that partition that reached the ring since it was last removed ([arrivals]) and is the position
   of one of them; if the newest slot is empty, no commit has reached the ring. *)
Theorem reply_newest_is_latest cf cls h st reps now c g st' l t cps i cp :
  (1 <= cf_intervals cf)%nat -> wf_hist h ->
  run cf (init_state cls) h = Some (st, reps) ->
  fetch_consumer cf now st c g = Done st' (RConsumer l) ->
  In (t, cps) l -> nth_error cps i = Some cp ->
  let arr := arrivals cf cls h c g t (Z.of_nat i) in
  match last (cp_offsets cp) None with
  | Some k => (exists cl, In cl arr /\ cm_order (fst cl) = co_order k) /\
              (forall cl, In cl arr -> cm_order (fst cl) <= co_order k)
  | None => arr = []
  end.
Proof.
  intros HN Hwf Hrun Hf Hin Hi arr.
  destruct (fetch_reply_hist _ _ _ _ _ _ _ _ _ _ _ _ _ _ HN Hwf Hrun Hf Hin Hi) as (cl & pr & Hc & Hpr & Hm).
  assert (Hro : cp_offsets cp = [] \/ cp_offsets cp = readout (ring_run (cf_min_distance cf) (cf_intervals cf) arr)).
  { destruct (storage_reply_windows cf cls h st reps now c g st' l t cps i cp HN Hwf Hrun Hf Hin Hi) as [H|[H _]]; auto. }
  assert (Hnoring : cp_offsets cp = [] -> arr = []).
  { intros He. destruct (pr_ring pr) as [w|] eqn:Ew.
    - destruct Hm as (b & _ & _ & Ho & _). rewrite He in Ho.
      destruct (storage_windows_wf cf cls h st reps c cl g t i pr w HN Hwf Hrun Hc Hpr Ew) as [(cs & bb & Hs & _ & Hlen) _].
      unfold shape in Hs. subst w. symmetry in Ho. apply (f_equal (@length _)) in Ho.
      rewrite rev_length, app_length, map_length, repeat_length in Ho. cbn in Ho. lia.
    - pose proof (storage_ring_provenance cf cls h st reps c g t (Z.of_nat i) HN Hwf ltac:(lia) Hrun) as Hp.
      fold arr in Hp. unfold ring_of, ring_at in Hp. rewrite Hc, Nat2Z.id, Hpr, Ew in Hp.
      destruct arr as [|a arr'] eqn:Earr; [reflexivity|]. exfalso.
      destruct (run_newest_last (cf_min_distance cf) (cf_intervals cf) (a :: arr') HN ltac:(discriminate)) as (k & Hk & _).
      rewrite <- Hp, last_readout_new_ring in Hk. discriminate. }
  destruct (last (cp_offsets cp) None) as [k|] eqn:Elast.
  - destruct Hro as [He|Hro]; [rewrite He in Elast; discriminate|].
    destruct arr as [|a arr'] eqn:Earr.
    + rewrite Hro, ring_run_nil, last_readout_new_ring in Elast. discriminate.
    + destruct (run_newest_last (cf_min_distance cf) (cf_intervals cf) (a :: arr') HN ltac:(discriminate)) as (k' & Hk' & Hex & Hmax).
      rewrite <- Hro, Elast in Hk'. injection Hk' as <-. split; assumption.
  - destruct Hro as [He|Hro]; [apply Hnoring; exact He|].
    destruct arr as [|a arr'] eqn:Earr; [reflexivity|]. exfalso.
    destruct (run_newest_last (cf_min_distance cf) (cf_intervals cf) (a :: arr') HN ltac:(discriminate)) as (k' & Hk' & _).
    rewrite <- Hro, Elast in Hk'. discriminate.
Qed.

(* ---- (2) provenance of every stored entry inside its ring epoch ---- *)
(* what is known of an entry e of a ring that is ring_run over the arrival list l: it was written by one arrival y of l
   (same offset and log position); if it carries a lag it is the one attached to y; if it carries none, an arrival
   before y had a log position at least as high (y arrived out of order) *)
Definition entry_prov (l : list (commit * Z)) (e : coff) : Prop :=
  exists l1 y l3, l = l1 ++ y :: l3 /\
    cm_offset (fst y) = co_offset e /\ cm_order (fst y) = co_order e /\
    match co_lag e with
    | Some v => v = snd y
    | None => exists l1a x l1b, l1 = l1a ++ x :: l1b /\ co_order e <= cm_order (fst x)
    end.

Lemma entry_prov_snoc l e z : entry_prov l e -> entry_prov (l ++ [z]) e.
Proof.
  intros (l1 & y & l3 & -> & H). exists l1, y, (l3 ++ [z]). split; [|exact H]. rewrite <- app_assoc. reflexivity.
Qed.

Theorem ring_entry_prov md n l : forall e, In (Some e) (ring_run md n l) -> entry_prov l e.
Proof.
  induction l as [|[cm lag] l IH] using rev_ind; intros e Hin.
  - rewrite ring_run_nil in Hin. unfold new_ring in Hin. apply repeat_spec in Hin. discriminate.
  - rewrite ring_run_snoc in Hin. cbn [fst snd] in Hin.
    destruct (ring_step md (ring_run md n l) cm lag) as [r' app] eqn:Ers. cbn [fst] in Hin.
    pose proof (ring_step_cases _ _ _ _ _ _ Ers) as Hc. destruct app.
    + destruct Hc as (_ & e0 & rest & a' & x & b' & -> & (He1 & He2 & He3) & Er & ->).
      destruct Hin as [E|Hin].
      * injection E as <-. exists l, (cm, lag), []. split; [reflexivity|]. cbn [fst snd].
        rewrite He1, He2, He3. auto.
      * apply entry_prov_snoc. apply IH. rewrite Er. apply in_app_or in Hin. apply in_or_app. cbn. tauto.
    + destruct Hc as [->|((nw & Hnw & Hle) & e0 & (He1 & He2 & He3) & How)]; [apply entry_prov_snoc, IH; exact Hin|].
      destruct (overwrite_In _ _ _ _ How Hin) as [E|Hold]; [|apply entry_prov_snoc, IH; exact Hold].
      injection E as <-.
      assert (Hnwin : In (Some nw) (ring_run md n l)).
      { destruct (ring_run md n l) as [|s r0]; cbn in Hnw; [discriminate|]. subst s. left; reflexivity. }
      destruct (IH nw Hnwin) as (l1 & y & l3 & El & _ & Hyo & _).
      exists l, (cm, lag), []. split; [reflexivity|]. cbn [fst snd]. rewrite He1, He2, He3. split; [reflexivity|]. split; [reflexivity|].
      exists l1, y, l3. split; [exact El|]. rewrite Hyo. lia.
Qed.

(* every arrival carries the lag the handler attaches: the clamped distance to the last broker offset recorded before it *)
Lemma last_broker_in_i64 h c t p b : wf_hist h -> last_broker h c t p = Some b -> in_i64 b.
Proof.
  induction h as [|[now r] h IH] using rev_ind; [discriminate|]. intros Hwf. apply wf_hist_snoc in Hwf. destruct Hwf as [Hwf Hr].
  rewrite last_broker_snoc. destruct (is_broker c t p r) as [b0|] eqn:E; [|apply IH; exact Hwf].
  intros H. injection H as <-. destruct r; cbn in E; try discriminate. cbn in Hr.
  destruct ((c0 =? c) && (t0 =? t) && (p0 =? p)); [|discriminate]. injection E as <-. tauto.
Qed.

Theorem arrivals_lag_spec cf cls h c g t p : forall st reps,
  wf_hist h -> run cf (init_state cls) h = Some (st, reps) ->
  forall y, In y (arrivals cf cls h c g t p) ->
  exists h1 now rest b,
    h = h1 ++ (now, SetConsumerOffset c g t p (cm_offset (fst y)) (cm_order (fst y)) (cm_ts (fst y))) :: rest /\
    last_broker h1 c t p = Some b /\
    snd y = Z.max 0 (b - cm_offset (fst y)) /\ 0 <= snd y < two64.
Proof.
  induction h as [|[now r] h IH] using rev_ind; intros st reps Hwf Hrun y Hin.
  - unfold arrivals in Hin. cbn in Hin. contradiction.
  - apply wf_hist_snoc in Hwf. destruct Hwf as [Hwf Hr]. cbn [snd] in Hr.
    rewrite run_snoc in Hrun. destruct (run cf (init_state cls) h) as [[st1 r1]|] eqn:Hrun1; [|discriminate].
    destruct (step cf now st1 r) as [st2 rep|] eqn:Hstep; [|discriminate].
    assert (Hold : In y (arrivals cf cls h c g t p) -> exists h1 now0 rest b,
              h ++ [(now, r)] = h1 ++ (now0, SetConsumerOffset c g t p (cm_offset (fst y)) (cm_order (fst y)) (cm_ts (fst y))) :: rest /\
              last_broker h1 c t p = Some b /\ snd y = Z.max 0 (b - cm_offset (fst y)) /\ 0 <= snd y < two64).
    { intros H. destruct (IH st1 r1 Hwf eq_refl y H) as (h1 & now0 & rest & b & -> & Hrest).
      exists h1, now0, (rest ++ [(now, r)]), b. split; [rewrite <- app_assoc; reflexivity|exact Hrest]. }
    unfold arrivals in Hin. rewrite arrivals_from_snoc, Hrun1, Hstep in Hin. fold (arrivals cf cls h c g t p) in Hin.
    unfold next_arrivals in Hin. destruct (is_commit_for c g t p r) as [[[off order] ts]|] eqn:Eic.
    + apply is_commit_for_some in Eic. subst r. cbn in Hr.
      rewrite (reaches_ring_history cf cls h st1 r1 now c g t p ts Hrun1) in Hin.
      destruct (in_cls c cls && negb (too_old cf now ts) && cf_accept cf g && (0 <=? p) && broker_known h c t p); [|auto].
      destruct (last_broker h c t p) as [boff|] eqn:Elb; [|auto].
      apply in_app_or in Hin. destruct Hin as [Hin|[<-|[]]]; [auto|]. cbn [fst snd cm_offset cm_order cm_ts].
      exists h, now, [], boff. split; [reflexivity|]. split; [exact Elb|].
      apply commit_lag_spec; [eapply last_broker_in_i64; eauto|exact Hr].
    + destruct (resets cf now st1 c g t r); [contradiction|auto].
Qed.

(* C01, second sentence, at full strength on the reply: every reported commit e was written by an arrival y of its ring
   epoch with the same offset and log position; y is a SetConsumerOffset of the history whose attached lag is the clamped
   distance to the broker offset known at that arrival; e's lag, when present, is exactly that value; when absent, an
   arrival of the same epoch before y had a log position at least as high (so y did arrive out of order). *)
Theorem stored_lag_exact_strong cf cls h st reps now c g st' l t cps i cp e :
  (1 <= cf_intervals cf)%nat -> wf_hist h ->
  run cf (init_state cls) h = Some (st, reps) ->
  fetch_consumer cf now st c g = Done st' (RConsumer l) ->
  In (t, cps) l -> nth_error cps i = Some cp -> In (Some e) (cp_offsets cp) ->
  exists l1 y l3,
    arrivals cf cls h c g t (Z.of_nat i) = l1 ++ y :: l3 /\
    cm_offset (fst y) = co_offset e /\ cm_order (fst y) = co_order e /\
    (exists h1 now' rest b,
       h = h1 ++ (now', SetConsumerOffset c g t (Z.of_nat i) (co_offset e) (co_order e) (cm_ts (fst y))) :: rest /\
       last_broker h1 c t (Z.of_nat i) = Some b /\
       snd y = Z.max 0 (b - co_offset e) /\ 0 <= snd y < two64) /\
    match co_lag e with
    | Some v => v = snd y
    | None => exists l1a x l1b, l1 = l1a ++ x :: l1b /\ co_order e <= cm_order (fst x)
    end.
Proof.
  intros HN Hwf Hrun Hf Hin Hi He.
  destruct (storage_reply_windows cf cls h st reps now c g st' l t cps i cp HN Hwf Hrun Hf Hin Hi) as [H0|[Hro _]];
    [rewrite H0 in He; contradiction|].
  rewrite Hro in He. unfold readout in He. apply in_rev in He.
  destruct (ring_entry_prov _ _ _ e He) as (l1 & y & l3 & El & Ho & Hord & Hlag).
  exists l1, y, l3. split; [exact El|]. split; [exact Ho|]. split; [exact Hord|]. split; [|exact Hlag].
  assert (Hy : In y (arrivals cf cls h c g t (Z.of_nat i))) by (rewrite El; apply in_or_app; right; left; reflexivity).
  destruct (arrivals_lag_spec cf cls h c g t (Z.of_nat i) st reps Hwf Hrun y Hy) as (h1 & now' & rest & b & Eh & Hb & Hs & Hr).
  exists h1, now', rest, b. rewrite <- Ho, <- Hord. auto.
Qed.

(* ---- (3) an in-order commit IS stored, with its lag ---- *)
Lemma wf_find_place_append n r order :
  wf n r -> (hd None r = None -> (1 <= n)%nat) ->
  (forall nw, hd None r = Some nw -> co_order nw < order) ->
  find_place r order = PAppend.
Proof.
  intros (cs & b & Hs & Hd & Hlen) Hn Hnew. unfold shape in Hs. subst r. destruct cs as [|nw cs1].
  - cbn [map app] in *. destruct b as [|b]; [cbn in Hlen; specialize (Hn eq_refl); lia|]. reflexivity.
  - rewrite find_place_cons. specialize (Hnew nw eq_refl).
    pose proof (desc_last_le nw cs1 Hd) as Hl. fold d0 in Hl.
    destruct b; [destruct (order <=? co_order (last (nw :: cs1) d0)) eqn:E1; [lia|]|];
      (destruct (order <=? co_order nw) eqn:E2; [lia|reflexivity]).
Qed.

(* A commit for (c,g,t,p) that is not dropped on arrival (reaches_ring = Some b: configured cluster, not too old, accepted
   group, broker offset b known) and whose log position is above the newest stored one (or the ring is empty) IS stored:
   after the step the newest slot holds it, with lag = max 0 (b - offset), b = the last recorded broker offset. *)
Theorem commit_in_order_stored cf cls h st reps now c g t p off order ts st' rep b :
  (1 <= cf_intervals cf)%nat -> wf_hist h -> in_i64 off ->
  run cf (init_state cls) h = Some (st, reps) ->
  step cf now st (SetConsumerOffset c g t p off order ts) = Done st' rep ->
  reaches_ring cf now st c g t p ts = Some b ->
  (forall nw, hd None (ring_of cf st c g t p) = Some nw -> co_order nw < order) ->
  last_broker h c t p = Some b /\
  exists e, hd None (ring_of cf st' c g t p) = Some e /\
            co_offset e = off /\ co_order e = order /\
            co_lag e = Some (Z.max 0 (b - off)) /\ 0 <= Z.max 0 (b - off) < two64.
Proof.
  intros HN Hwf Hoff Hrun Hstep Hre Hnew.
  pose proof (commit_ring_step cf cls h st reps now c g t p off order ts st' rep HN Hwf Hrun Hstep) as Hc.
  rewrite Hre in Hc. destruct Hc as (Hp0 & Hlb & Hring). split; [exact Hlb|].
  assert (Hwfr : wf (cf_intervals cf) (ring_of cf st c g t p)).
  { rewrite (storage_ring_provenance cf cls h st reps c g t p HN Hwf Hp0 Hrun). apply wf_ring_run. }
  assert (Hfp : find_place (ring_of cf st c g t p) order = PAppend).
  { eapply wf_find_place_append; [exact Hwfr|intros _; exact HN|exact Hnew]. }
  unfold ring_step in Hring. cbn [cm_order] in Hring. rewrite Hfp in Hring. cbn [fst] in Hring.
  assert (Hne : ring_of cf st c g t p <> []).
  { destruct Hwfr as (cs & bb & Hs & _ & Hlen). unfold shape in Hs. intros E. rewrite E in Hs.
    symmetry in Hs. apply app_eq_nil in Hs. destruct Hs as [Hm Hrp]. apply map_eq_nil in Hm. subst cs.
    destruct bb; [cbn in Hlen; lia|discriminate]. }
  destruct (store_append (cf_min_distance cf) (ring_of cf st c g t p) (mkCommit off order ts) (Some (commit_lag b off)) Hne)
    as (e & rest & a' & x & b' & Es & (He1 & He2 & He3) & _).
  rewrite Es in Hring. exists e. rewrite Hring. cbn [hd]. cbn in He1, He2.
  destruct (commit_lag_spec b off (last_broker_in_i64 h c t p b Hwf Hlb) Hoff) as [E Hr].
  split; [reflexivity|]. split; [exact He1|]. split; [exact He2|]. rewrite He3, E. split; [reflexivity|]. rewrite <- E. exact Hr.
Qed.

(* non-vacuity of (2): in the out-of-order history the entry at log position 3 has no lag and the arrival at position 5 precedes it *)
Lemma ex_entry_prov_ooo :
  entry_prov (arrivals ex_cfg [1] ex_ooo 1 1 1 0) (mkCoff 40 3 99000 None) /\
  entry_prov (arrivals ex_cfg [1] ex_ooo 1 1 1 0) (mkCoff 50 5 100000 (Some 50)).
Proof.
  rewrite ex_arrivals_ooo. split.
  - exists [(mkCommit 50 5 100000, 50)], (mkCommit 40 3 99000, 60), []. cbn. repeat split.
    exists [], (mkCommit 50 5 100000, 50), []. cbn. split; [reflexivity|lia].
  - exists [], (mkCommit 50 5 100000, 50), [(mkCommit 40 3 99000, 60)]. cbn. repeat split.
Qed.

(* (1) composed with C01's current lag: the commit the current lag is computed from is the latest in the offsets log *)
Theorem current_lag_latest_in_log cf cls h st reps now c g st' l t cps i cp :
  (1 <= cf_intervals cf)%nat -> wf_hist h ->
  run cf (init_state cls) h = Some (st, reps) ->
  fetch_consumer cf now st c g = Done st' (RConsumer l) ->
  In (t, cps) l -> nth_error cps i = Some cp ->
  let arr := arrivals cf cls h c g t (Z.of_nat i) in
  match last (cp_offsets cp) None with
  | Some k => (exists b, last_broker h c t (Z.of_nat i) = Some b /\
                         cp_lag cp = Z.max 0 (b - co_offset k) /\ 0 <= cp_lag cp < two64) /\
              (exists cl, In cl arr /\ cm_order (fst cl) = co_order k) /\
              (forall cl, In cl arr -> cm_order (fst cl) <= co_order k)
  | None => cp_lag cp = 0 /\ arr = []
  end.
Proof.
  intros HN Hwf Hrun Hf Hin Hi arr.
  pose proof (current_lag_exact cf cls h st reps now c g st' l t cps i cp HN Hwf Hrun Hf Hin Hi) as H1.
  pose proof (reply_newest_is_latest cf cls h st reps now c g st' l t cps i cp HN Hwf Hrun Hf Hin Hi) as H2.
  cbv zeta in H2. fold arr in H2.
  destruct (last (cp_offsets cp) None) as [k|].
  - destruct H1 as (b & Hb & _ & Hl & Hr). destruct H2 as [Hex Hmax]. split; [exists b; auto|]. split; assumption.
  - split; assumption.
Qed.
