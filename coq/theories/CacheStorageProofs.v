(* C05 composed once with the storage layer: the [lookup] parameter of the cache model instantiated with the storage
   model's FetchConsumer handler, so that "storage held no live data for that group" reads, in a C05 statement, as
   "unknown cluster, unknown or expired group" of Storage.v.

   Read-only import of Storage.v (owned by the storage builders).  Interface used -- one line each to change on a
   rename: Storage.step, Storage.FetchConsumer, Storage.fetch_consumer, Storage.Done / Crashed, Storage.RConsumer,
   Storage.expired, Storage.g_last, Storage.cl_consumer, AMap.get.  (StorageDelProofs.fetch_consumer_state describes
   the state change of an expiring fetch; the storage state is a parameter here, so it is not needed.) *)
From Coq Require Import ZArith List Bool Lia.
From Burrow Require Import Int64 Eval AMap Ring Storage Cache CacheProofs.
Import ListNotations.
Open Scope Z_scope.

Section Compose.
  Variable cf : Storage.config.
  Variable sst : Z -> Storage.state.    (* the storage module's state at a wall-clock time: ANY history of the module *)
  Variable now_s : Z -> Z.              (* wall clock -> the storage module's clock (time.Now().Unix()) *)
  Variables idc idg : name -> Z.        (* interning of cluster and group names (Storage.v names are ids) *)
  Variable value : Type.
  Variable evalf : Z -> list (Z * list cpart) -> value.
  Variable filt : value -> value.
  Variable L : Z.
  Variable fixed0 : bool.

  Definition fetch (t : Z) (c g : name) : Storage.outcome :=
    Storage.step cf (now_s t) (sst t) (FetchConsumer (idc c) (idg g)).

  (* what evaluateConsumerStatus receives on the reply channel of its StorageFetchConsumer request *)
  Definition storage_lookup (t : Z) (c g : name) : option (list (Z * list cpart)) :=
    match fetch t c g with
    | Done _ (RConsumer l) => Some l
    | _ => None
    end.

  Definition unknown_cluster (t : Z) (c : name) : Prop := get (sst t) (idc c) = None.
  Definition unknown_group (t : Z) (c g : name) : Prop :=
    exists cl, get (sst t) (idc c) = Some cl /\ get (cl_consumer cl) (idg g) = None.
  Definition expired_group (t : Z) (c g : name) : Prop :=
    exists cl grp, get (sst t) (idc c) = Some cl /\ get (cl_consumer cl) (idg g) = Some grp
                   /\ Storage.expired cf (now_s t) (g_last grp) = true.

  Lemma storage_lookup_none_iff : forall t c g,
    fetch t c g <> Crashed ->
    (storage_lookup t c g = None <-> unknown_cluster t c \/ unknown_group t c g \/ expired_group t c g).
  Proof.
    intros t c g Hnc. unfold storage_lookup, unknown_cluster, unknown_group, expired_group in *.
    unfold fetch in *. cbn [Storage.step] in *. unfold fetch_consumer in *.
    destruct (get (sst t) (idc c)) as [cl|] eqn:Hc.
    2: { split; [intros _; left; reflexivity|reflexivity]. }
    destruct (get (cl_consumer cl) (idg g)) as [grp|] eqn:Hg.
    2: { split; [intros _; right; left; exists cl; split; [reflexivity|exact Hg]|reflexivity]. }
    destruct (Storage.expired cf (now_s t) (g_last grp)) eqn:He.
    - split; [|reflexivity]. intros _. right. right. exists cl, grp. repeat split; assumption.
    - cbv zeta in *.
      match goal with |- context [fetch_topics_lags ?a ?b] => destruct (fetch_topics_lags a b) eqn:Ef end;
        [|exfalso; apply Hnc; reflexivity].
      split; [discriminate|].
      intros [H|[(cl' & H1 & H2)|(cl' & grp' & H1 & H2 & H3)]]; try discriminate;
        inversion H1; subst cl'; rewrite Hg in H2; try discriminate.
      inversion H2; subst grp'. rewrite He in H3. discriminate.
  Qed.

  (* NOTFOUND exactly when, at the moment s of the storage fetch the reply was computed from -- a moment within the
     cache lifetime in the sense of staleness_bound, repeated in the statement -- storage had no live data for the
     group: unknown cluster, unknown group, or a group past expire-group (which that fetch then removes).  Hypothesis:
     the storage handler does not crash on the fetches of the run (C08/C17: fetch_topics_lags on a well-formed state). *)
  Theorem C05_notfound_means_absent :
    forall (reqs : list (name * name * bool)) (sched : list (nat * Z)) i t rc rg c g v s cr r start,
      cfg_ok L fixed0 ->
      (forall t c g, fetch t c g <> Crashed) ->
      In (EvReply i t rc rg c g v s cr r start)
         (trace (run (list (Z * list cpart)) value evalf (pure_op filt) storage_lookup mk_key split_key L fixed0 reqs sched)) ->
      (v = None <-> unknown_cluster s rc \/ unknown_group s rc rg \/ expired_group s rc rg)
      /\ s <= cr /\ cr <= t /\ start <= r /\ r <= t /\ r - s <= L + (cr - s).
  Proof.
    intros reqs sched i t rc rg c g v s cr r start Hcfg Hnc Hin.
    pose proof (notfound_iff _ _ evalf filt storage_lookup L fixed0 _ _ _ _ _ _ _ _ _ _ _ _ _ Hcfg Hin) as Hnf.
    destruct (staleness_bound _ _ evalf filt storage_lookup L fixed0 _ _ _ _ _ _ _ _ _ _ _ _ _ Hcfg Hin)
      as (_ & _ & H1 & H2 & H3 & H4 & H5).
    split; [|repeat split; assumption].
    rewrite Hnf. apply storage_lookup_none_iff. apply Hnc.
  Qed.
End Compose.
