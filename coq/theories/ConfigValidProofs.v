(* C19 — theorems about the configuration model (ConfigValid.v), for ALL configurations and all map iteration orders. *)
From Coq Require Import List ZArith Bool Permutation Lia.
From Burrow Require Import ConfigValid.
Import ListNotations.
Open Scope Z_scope.

(* The iteration order of every Go map range is some permutation of the configured modules. *)
Definition order_ok (o : order) (c : config) : Prop :=
  Permutation (ord_storage o) (cfg_storage c) /\
  Permutation (ord_evaluator o) (cfg_evaluator c) /\
  Permutation (ord_http o) (cfg_http c) /\
  Permutation (ord_notifier o) (cfg_notifier c) /\
  Permutation (ord_cluster o) (cfg_cluster c) /\
  Permutation (ord_consumer o) (cfg_consumer c).

Lemma canonical_order_ok : forall c, order_ok (canonical_order c) c.
Proof. intro c. unfold order_ok, canonical_order; simpl. repeat split; apply Permutation_refl. Qed.

Lemma reverse_order_ok : forall c, order_ok (reverse_order c) c.
Proof.
  intro c. unfold order_ok, reverse_order; simpl.
  repeat split; apply Permutation_sym, Permutation_rev.
Qed.

(* ------------------------------------------------------------------------------------------------------------------ *)
(* Generic facts about first-failure scans and violation lists                                                         *)
(* ------------------------------------------------------------------------------------------------------------------ *)
Lemma scan_none_iff : forall A (f : A -> option panic) l,
  scan f l = None <-> (forall x, In x l -> f x = None).
Proof.
  induction l as [|a l IH]; simpl.
  - split; [intros _ x []|reflexivity].
  - destruct (f a) eqn:E.
    + split; [discriminate|]. intro H. rewrite (H a (or_introl eq_refl)) in E. discriminate.
    + rewrite IH. split.
      * intros H x [<-|Hx]; auto.
      * intros H x Hx. apply H. now right.
Qed.

Lemma scan_some_in : forall A (f : A -> option panic) l p,
  scan f l = Some p -> exists x, In x l /\ f x = Some p.
Proof.
  induction l as [|a l IH]; simpl; intros p H; [discriminate|].
  destruct (f a) eqn:E.
  - inversion H; subst. exists a. auto.
  - destruct (IH _ H) as [x [Hx Hf]]. exists x. auto.
Qed.

Lemma flat_map_nil_iff : forall A B (g : A -> list B) l,
  flat_map g l = [] <-> (forall x, In x l -> g x = []).
Proof.
  induction l as [|a l IH]; simpl.
  - split; [intros _ x []|reflexivity].
  - split.
    + intros H. apply app_eq_nil in H. destruct H as [Ha Hl]. intros x [<-|Hx]; auto. now apply IH.
    + intros H. rewrite (H a (or_introl eq_refl)). simpl. apply IH. intros x Hx. apply H. now right.
Qed.

Lemma scan_vs_reqs : forall A (f : A -> option panic) (g : A -> list violation) l l',
  Permutation l l' ->
  (forall x, f x = None <-> g x = []) ->
  (scan f l = None <-> flat_map g l' = []).
Proof.
  intros A f g l l' HP Hfg. rewrite scan_none_iff, flat_map_nil_iff. split; intros H x Hx.
  - apply Hfg, H. eapply Permutation_in; [apply Permutation_sym, HP|exact Hx].
  - apply Hfg, H. eapply Permutation_in; [exact HP|exact Hx].
Qed.

Lemma forallb_perm : forall A (f : A -> bool) l l', Permutation l l' -> forallb f l = forallb f l'.
Proof.
  induction 1; simpl; auto.
  - now rewrite IHPermutation.
  - destruct (f x), (f y); reflexivity.
  - congruence.
Qed.

Lemma app_nil_iff : forall A (a b : list A), a ++ b = [] <-> a = [] /\ b = [].
Proof. intros. split; [apply app_eq_nil|]. intros [-> ->]. reflexivity. Qed.

(* ------------------------------------------------------------------------------------------------------------------ *)
(* Per-module: the first-failure scan finds nothing  <->  no requirement of the catalogue is violated                  *)
(* ------------------------------------------------------------------------------------------------------------------ *)
Ltac datom b :=
  match b with
  | negb ?x => datom x
  | andb ?x ?y => first [datom x | datom y]
  | orb ?x ?y => first [datom x | datom y]
  | (match ?x with _ => _ end) => datom x
  | _ => destruct b eqn:?
  end.

Ltac fin :=
  split; (let HH := fresh "HH" in intro HH; first [reflexivity | discriminate HH]).

Ltac step :=
  match goal with
  | |- context [if ?b then _ else _] => datom b
  | |- context [match ?x with _ => _ end] => datom x
  end; cbn [negb andb orb app] in *.

Ltac crush := cbn [negb andb orb app] in *; repeat first [solve [fin] | step].

Lemma zookeeper_iff : forall c, configure_zookeeper c = None <-> zookeeper_reqs c = [].
Proof. intro c. unfold configure_zookeeper, zookeeper_reqs, guard, viol. crush. Qed.

Lemma storage_mod_iff : forall c m, configure_storage_mod c m = None <-> storage_mod_reqs c m = [].
Proof. intros c m. unfold configure_storage_mod, storage_mod_reqs, guard, viol. crush. Qed.

Lemma evaluator_mod_iff : forall c m, configure_evaluator_mod c m = None <-> evaluator_mod_reqs c m = [].
Proof. intros c m. unfold configure_evaluator_mod, evaluator_mod_reqs, guard, viol. crush. Qed.

Lemma listener_iff : forall c l, configure_listener c l = None <-> listener_reqs c l = [].
Proof. intros c l. unfold configure_listener, listener_reqs, guard, viol. crush. Qed.

Lemma notifier_mod_iff : forall c m, configure_notifier_mod c m = None <-> notifier_mod_reqs c m = [].
Proof.
  intros c m.
  unfold configure_notifier_mod, notifier_mod_reqs, configure_http_notifier, configure_email_notifier,
    is_http, is_email, extra_ca_ok, guard, viol.
  destruct (nt_class m); crush.
Qed.

Lemma profile_iff : forall c who n, configure_profile c who n = None <-> profile_reqs c who n = [].
Proof. intros c who n. unfold configure_profile, profile_reqs, guard, viol. crush. Qed.

Lemma cluster_mod_iff : forall c m, configure_cluster_mod c m = None <-> cluster_mod_reqs c m = [].
Proof.
  intros c m. unfold configure_cluster_mod, cluster_mod_reqs.
  pose proof (profile_iff c (cl_name m) (cl_profile m)) as HP.
  destruct (configure_profile c (cl_name m) (cl_profile m)) eqn:E;
    destruct (profile_reqs c (cl_name m) (cl_profile m)) eqn:R.
  - destruct HP as [_ HP]. specialize (HP eq_refl). discriminate.
  - unfold guard, viol. destruct (cl_class m); cbn [app]; fin.
  - unfold guard, viol. crush.
  - destruct HP as [HP _]. specialize (HP eq_refl). discriminate.
Qed.

Lemma consumer_mod_iff : forall c m, configure_consumer_mod c m = None <-> consumer_mod_reqs c m = [].
Proof.
  intros c m.
  unfold configure_consumer_mod, consumer_mod_reqs, configure_consumer_servers, configure_consumer_lists, is_kafka, is_kafka_zk.
  pose proof (profile_iff c (cn_name m) (cn_profile m)) as HP.
  destruct (cn_class m); try solve [unfold guard, viol; crush].
  (* kafka: the client profile is looked at *)
  destruct (configure_profile c (cn_name m) (cn_profile m)) eqn:E;
    destruct (profile_reqs c (cn_name m) (cn_profile m)) eqn:R.
  - destruct HP as [_ HP]. specialize (HP eq_refl). discriminate.
  - unfold guard, viol. destruct (cluster_known c (cn_cluster m)); cbn [negb andb orb app]; fin.
  - unfold guard, viol. crush.
  - destruct HP as [HP _]. specialize (HP eq_refl). discriminate.
Qed.

(* ------------------------------------------------------------------------------------------------------------------ *)
(* Per-coordinator                                                                                                     *)
(* ------------------------------------------------------------------------------------------------------------------ *)
Definition coord_reqs (c : config) (k : coord) : list violation :=
  match k with
  | CZookeeper => zookeeper_reqs c
  | CStorage => storage_reqs c
  | CEvaluator => evaluator_reqs c
  | CHttpserver => httpserver_reqs c
  | CNotifier => notifier_reqs c
  | CCluster => cluster_reqs c
  | CConsumer => consumer_reqs c
  end.

Lemma coord_iff : forall o c k, order_ok o c -> (configure_coord o c k = None <-> coord_reqs c k = []).
Proof.
  intros o c k (Hs & He & Hh & Hn & Hcl & Hcn).
  destruct k; simpl.
  - apply zookeeper_iff.
  - unfold configure_storage, storage_reqs, guard, viol.
    destruct (Nat.leb (length (cfg_storage c)) 1); cbn [app]; [|fin].
    apply scan_vs_reqs; [exact Hs|apply storage_mod_iff].
  - unfold configure_evaluator, evaluator_reqs, guard, viol.
    destruct (Nat.leb (length (cfg_evaluator c)) 1); cbn [app]; [|fin].
    apply scan_vs_reqs; [exact He|apply evaluator_mod_iff].
  - apply scan_vs_reqs; [exact Hh|apply listener_iff].
  - apply scan_vs_reqs; [exact Hn|apply notifier_mod_iff].
  - apply scan_vs_reqs; [exact Hcl|apply cluster_mod_iff].
  - apply scan_vs_reqs; [exact Hcn|apply consumer_mod_iff].
Qed.

Lemma requirements_by_coordinator : forall c,
  requirements c = [] <-> (forall k, In k (coordinators c) -> coord_reqs c k = []).
Proof.
  intro c. unfold requirements, coordinators.
  destruct (have_notifiers c); cbn [app]; repeat rewrite app_nil_iff; split.
  - intros (Hz & Hs & He & Hh & Hn & Hcl & Hcn) k Hk. simpl in Hk.
    repeat (destruct Hk as [<-|Hk]; [assumption|]). destruct Hk.
  - intro H. repeat split; (apply (H CZookeeper) || apply (H CStorage) || apply (H CEvaluator) || apply (H CHttpserver)
                          || apply (H CNotifier) || apply (H CCluster) || apply (H CConsumer)); simpl; tauto.
  - intros (Hs & He & Hh & Hcl & Hcn) k Hk. simpl in Hk.
    repeat (destruct Hk as [<-|Hk]; [assumption|]). destruct Hk.
  - intro H. repeat split; try reflexivity;
      (apply (H CStorage) || apply (H CEvaluator) || apply (H CHttpserver) || apply (H CCluster) || apply (H CConsumer));
      simpl; tauto.
Qed.

(* Configure succeeds everywhere exactly when no documented requirement is violated. *)
Theorem configure_iff_valid : forall o c, order_ok o c -> (configure_all o c = None <-> requirements c = []).
Proof.
  intros o c Hok. unfold configure_all. rewrite scan_none_iff, requirements_by_coordinator.
  split; intros H k Hk; apply (coord_iff o c k Hok), H, Hk.
Qed.

(* ------------------------------------------------------------------------------------------------------------------ *)
(* Start                                                                                                               *)
(* ------------------------------------------------------------------------------------------------------------------ *)
Lemma coordinators_storage : forall c, In CStorage (coordinators c).
Proof. intro c. unfold coordinators. destruct (have_notifiers c); simpl; tauto. Qed.

Lemma coord_eqb_refl : forall k, coord_eqb k k = true.
Proof. destruct k; reflexivity. Qed.

Lemma filter_stopped : forall (l stopped : list coord), (forall k, In k l -> In k stopped) ->
  filter (fun k => negb (existsb (coord_eqb k) stopped)) l = [].
Proof.
  induction l as [|x l IH]; intros stopped H; simpl; [reflexivity|].
  assert (existsb (coord_eqb x) stopped = true) as ->.
  { apply existsb_exists. exists x. split; [apply H; now left|apply coord_eqb_refl]. }
  simpl. apply IH. intros k Hk. apply H. now right.
Qed.

(* no Configure binds a socket, and every started coordinator that has been stopped holds none: nothing is listening *)
Lemma still_listening_all_stopped : forall c cfgd l, still_listening c cfgd l l = no_listener.
Proof.
  intros c cfgd l. unfold still_listening, no_listener.
  rewrite (filter_stopped l l (fun k H => H)). simpl. rewrite app_nil_r.
  induction cfgd as [|k r IH]; simpl; [reflexivity|exact IH].
Qed.

Lemma coordinators_cluster : forall c, In CCluster (coordinators c).
Proof. intro c. unfold coordinators. destruct (have_notifiers c); simpl; tauto. Qed.

(* What a start loop that RETURNS has done (no hypothesis: a panicking one does not return). *)
Lemma start_list_returned : forall o c todo st rc st' ls,
  start_list o c todo st = Returned rc st' ls ->
  ls = no_listener /\ (rc = 0 \/ rc = 1) /\
  (exists mid, st' = st ++ mid /\ (todo <> [] -> mid <> []) /\ (rc = 0 -> mid = todo) /\
               (forall k, In k mid -> In k todo)).
Proof.
  intros o c todo. induction todo as [|k r IH]; intros st rc st' ls H; simpl in H.
  - rewrite still_listening_all_stopped in H. inversion H; subst. split; [reflexivity|]. split; [now left|].
    exists []. rewrite app_nil_r. repeat split; auto; try (intros ? []).
  - destruct (start_coord o c k).
    + destruct (IH _ _ _ _ H) as (Hls & Hrc & mid & -> & Hne & Hall & Hin).
      split; [exact Hls|]. split; [exact Hrc|].
      exists (k :: mid). rewrite <- app_assoc. simpl. repeat split; auto; try discriminate.
      * intro H0. now rewrite (Hall H0).
      * intros x [<-|Hx]; [now left|right; now apply Hin].
    + rewrite still_listening_all_stopped in H. inversion H; subst. split; [reflexivity|]. split; [now right|].
      exists [k]. repeat split; auto; try discriminate. intros x [<-|[]]. now left.
    + discriminate H.
Qed.

(* no coordinator of the list panics in its Start *)
Definition no_start_panic (o : order) (c : config) (todo : list coord) : Prop :=
  forall k p, In k todo -> start_coord o c k <> StartPanic p.

Lemma start_list_total : forall o c todo st, no_start_panic o c todo ->
  exists rc st' ls, start_list o c todo st = Returned rc st' ls.
Proof.
  intros o c todo. induction todo as [|k r IH]; intros st Hnp; simpl.
  - eauto.
  - destruct (start_coord o c k) eqn:E.
    + apply IH. intros k' p Hk'. apply Hnp. now right.
    + eauto.
    + exfalso. exact (Hnp k p (or_introl eq_refl) E).
Qed.

(* The checks of Configure cover what Start would trip over: a configuration that every Configure accepted makes no
   coordinator's Start panic (storage: workers >= 1; cluster: ticker periods positive). *)
Lemma storage_mod_workers : forall c m, configure_storage_mod c m = None -> start_storage_mod m = None.
Proof.
  intros c m H. unfold configure_storage_mod, guard in H. unfold start_storage_mod.
  destruct (st_class m); try discriminate H.
  destruct (1 <=? st_workers m) eqn:E; [|discriminate H].
  apply Z.leb_le in E. destruct (st_workers m <? 0) eqn:F; [|reflexivity]. apply Z.ltb_lt in F. lia.
Qed.

Lemma cluster_mod_tickers : forall c m, configure_cluster_mod c m = None -> cluster_tickers_ok m = true.
Proof.
  intros c m H. unfold configure_cluster_mod, guard in H. unfold cluster_tickers_ok.
  destruct (cl_class m); try discriminate H.
  destruct (configure_profile c (cl_name m) (cl_profile m)); [discriminate H|].
  destruct (nonempty (cl_servers m)); [|discriminate H].
  destruct (servers_ok c (cl_servers m)); [|discriminate H].
  destruct ((1 <=? cl_offset_refresh m) && (1 <=? cl_topic_refresh m)); [|discriminate H].
  destruct (0 <=? cl_reaper_refresh m); [reflexivity|discriminate H].
Qed.

Lemma accepted_storage_scan : forall o c, configure_all o c = None -> scan start_storage_mod (ord_storage o) = None.
Proof.
  intros o c H. unfold configure_all in H. rewrite scan_none_iff in H.
  specialize (H CStorage (coordinators_storage c)). simpl in H. unfold configure_storage, guard in H.
  destruct (Nat.leb (length (cfg_storage c)) 1); [|discriminate H].
  rewrite scan_none_iff in H. apply scan_none_iff. intros m Hm. eapply storage_mod_workers. apply H, Hm.
Qed.

Lemma accepted_cluster_tickers : forall o c, configure_all o c = None ->
  forall m, In m (ord_cluster o) -> cluster_tickers_ok m = true.
Proof.
  intros o c H m Hm. unfold configure_all in H. rewrite scan_none_iff in H.
  specialize (H CCluster (coordinators_cluster c)). simpl in H. unfold configure_cluster in H.
  rewrite scan_none_iff in H. eapply cluster_mod_tickers. apply H, Hm.
Qed.

Lemma start_clusters_form : forall c l, (forall m, In m l -> cluster_tickers_ok m = true) ->
  start_clusters c l = if forallb (fun m => reachable c (cl_servers m)) l then StartOk else StartError.
Proof.
  induction l as [|m r IH]; intro H; simpl; [reflexivity|].
  destruct (reachable c (cl_servers m)); simpl; [|reflexivity].
  rewrite (H m (or_introl eq_refl)). apply IH. intros x Hx. apply H. now right.
Qed.

Theorem start_accepted_no_panic : forall o c, configure_all o c = None -> no_start_panic o c (coordinators c).
Proof.
  intros o c H k p _ E. destruct k; simpl in E; try discriminate E.
  - destruct (zookeeper_tls_ok c && zookeeper_root_ok c); discriminate E.
  - rewrite (accepted_storage_scan o c H) in E. discriminate E.
  - rewrite (start_clusters_form c _ (accepted_cluster_tickers o c H)) in E.
    destruct (forallb _ _); discriminate E.
  - destruct (forallb _ _); discriminate E.
Qed.

Lemma start_list_not_refusal : forall o c ls, start_list o c (coordinators c) [] <> Returned 1 nothing_started ls.
Proof.
  intros o c ls H.
  destruct (start_list_returned _ _ _ _ _ _ _ H) as (_ & _ & mid & Hst & Hne & _).
  simpl in Hst. unfold nothing_started in Hst. subst mid.
  apply Hne; [|reflexivity]. pose proof (coordinators_storage c) as Hs. intro E0. rewrite E0 in Hs. destruct Hs.
Qed.

Lemma start_unfold : forall o c a,
  start o c a = match configure_all o c with
                | None => start_list o c (coordinators c) []
                | Some _ => Returned 1 nothing_started no_listener
                end.
Proof.
  intros. unfold start, start_with, configure_coordinators, handler_fixed.
  destruct (configure_all o c); [rewrite still_listening_all_stopped|]; reflexivity.
Qed.

Lemma config_valid_unfold : forall o c a,
  config_valid o c a = match configure_all o c with None => true | Some _ => false end.
Proof.
  intros. unfold config_valid, config_valid_with, configure_coordinators, handler_fixed.
  destruct (configure_all o c); reflexivity.
Qed.

(* C19, the caller's context: neither the outcome of Start nor the flag it leaves behind depends on the state of the
   ApplicationContext it is handed (fresh, constructed with ConfigurationValid = true, or re-used). *)
Theorem context_independent : forall o c a1 a2,
  start o c a1 = start o c a2 /\ config_valid o c a1 = config_valid o c a2.
Proof. intros. rewrite !start_unfold, !config_valid_unfold. split; reflexivity. Qed.

(* ... in particular after any history of earlier Start calls on the same context, whatever their configurations. *)
Theorem reuse_independent : forall hist o c a,
  start o c (app_after_history hist a) = start o c fresh_app /\
  config_valid o c (app_after_history hist a) = config_valid o c fresh_app.
Proof. intros. apply context_independent. Qed.

(* C19, refusal: a configuration violates a documented requirement exactly when Start returns 1 with nothing started —
   in particular without a panic leaving Start — from EVERY initial state of the application context. *)
Theorem refuse_iff_invalid : forall o c a, order_ok o c ->
  (requirements c <> [] <-> start o c a = Returned 1 nothing_started no_listener).
Proof.
  intros o c a Hok. rewrite start_unfold. pose proof (configure_iff_valid o c Hok) as Hiff.
  destruct (configure_all o c) eqn:E.
  - split; [reflexivity|]. intros _ Hreq. apply Hiff in Hreq. discriminate.
  - split.
    + intro Hne. exfalso. apply Hne, Hiff. reflexivity.
    + intro H. exfalso. exact (start_list_not_refusal o c _ H).
Qed.

(* C19, listeners: whatever the configuration, the order and the initial context, no listener is open when Start returns
   (refused: none was ever bound; accepted: the exit channel was closed / a subsystem failed to start, and everything
   started has been stopped).  For a refused configuration this is part of refuse_iff_invalid; stated on its own: *)
Theorem refused_opens_no_listener : forall o c a rc started ls, order_ok o c -> requirements c <> [] ->
  start o c a = Returned rc started ls -> ls = no_listener /\ started = nothing_started /\ rc = 1.
Proof.
  intros o c a rc started ls Hok Hne H. apply (refuse_iff_invalid o c a Hok) in Hne. rewrite Hne in H.
  inversion H. repeat split; reflexivity.
Qed.

Theorem no_listener_left_open : forall o c a rc started ls, start o c a = Returned rc started ls -> ls = no_listener.
Proof.
  intros o c a rc started ls H. rewrite start_unfold in H. destruct (configure_all o c).
  - inversion H. reflexivity.
  - destruct (start_list_returned _ _ _ _ _ _ _ H) as (Hls & _). exact Hls.
Qed.

Theorem start_never_panics : forall o c a p, start o c a <> Panicked p.
Proof.
  intros o c a p. rewrite start_unfold. destruct (configure_all o c) eqn:E0.
  - discriminate.
  - destruct (start_list_total o c (coordinators c) [] (start_accepted_no_panic o c E0)) as (rc & st' & ls & E).
    rewrite E. discriminate.
Qed.

(* C19, acceptance: the configuration satisfies every requirement exactly when ConfigurationValid is set afterwards;
   Start then enters the Start of the storage subsystem (and of every coordinator in order until one fails to start),
   and returns 0 exactly when every coordinator was started. *)
Theorem accept_iff_valid : forall o c a, order_ok o c ->
  (requirements c = [] <-> config_valid o c a = true).
Proof.
  intros o c a Hok. rewrite config_valid_unfold.
  pose proof (configure_iff_valid o c Hok) as Hiff.
  destruct (configure_all o c); split; intro H; try reflexivity; try discriminate.
  - apply Hiff in H. discriminate.
  - apply Hiff. reflexivity.
Qed.

(* the flag and the result agree: an invalid configuration never leaves a set flag behind (a later Start, or any other
   reader of the context, cannot mistake it for an accepted one) *)
Theorem refused_flag_cleared : forall o c a, order_ok o c -> requirements c <> [] -> config_valid o c a = false.
Proof.
  intros o c a Hok Hne. destruct (config_valid o c a) eqn:E; [|reflexivity].
  exfalso. apply Hne. apply (accept_iff_valid o c a Hok). exact E.
Qed.

Theorem valid_is_started : forall o c a, order_ok o c -> requirements c = [] ->
  exists rc started, start o c a = Returned rc started no_listener /\ (rc = 0 \/ rc = 1) /\ started <> [] /\
                     (forall k, In k started -> In k (coordinators c)) /\ (rc = 0 -> started = coordinators c).
Proof.
  intros o c a Hok Hreq. rewrite start_unfold. apply (configure_iff_valid o c Hok) in Hreq. rewrite Hreq.
  destruct (start_list_total o c (coordinators c) [] (start_accepted_no_panic o c Hreq)) as (rc & st' & ls & E).
  destruct (start_list_returned _ _ _ _ _ _ _ E) as (-> & Hrc & mid & -> & Hne & Hall & Hin).
  exists rc, ([] ++ mid). rewrite E. simpl. repeat split; auto.
  apply Hne. pose proof (coordinators_storage c) as Hs. intro E0. rewrite E0 in Hs. destruct Hs.
Qed.

(* C19, map order: the whole observable outcome of Start is the same for every iteration order of the Go maps. *)
Lemma start_coord_order : forall o1 o2 c k, order_ok o1 c -> order_ok o2 c ->
  configure_all o1 c = None -> configure_all o2 c = None -> start_coord o1 c k = start_coord o2 c k.
Proof.
  intros o1 o2 c k (_ & _ & _ & _ & Hcl1 & Hcn1) (_ & _ & _ & _ & Hcl2 & Hcn2) A1 A2.
  destruct k; simpl; try reflexivity.
  - rewrite (accepted_storage_scan o1 c A1), (accepted_storage_scan o2 c A2). reflexivity.
  - rewrite (start_clusters_form c _ (accepted_cluster_tickers o1 c A1)),
            (start_clusters_form c _ (accepted_cluster_tickers o2 c A2)).
    rewrite (forallb_perm _ _ (ord_cluster o1) (ord_cluster o2)); [reflexivity|].
    eapply Permutation_trans; [exact Hcl1|apply Permutation_sym, Hcl2].
  - rewrite (forallb_perm _ _ (ord_consumer o1) (ord_consumer o2)); [reflexivity|].
    eapply Permutation_trans; [exact Hcn1|apply Permutation_sym, Hcn2].
Qed.

Lemma start_list_order : forall o1 o2 c todo st, order_ok o1 c -> order_ok o2 c ->
  configure_all o1 c = None -> configure_all o2 c = None ->
  start_list o1 c todo st = start_list o2 c todo st.
Proof.
  intros o1 o2 c todo. induction todo as [|k r IH]; intros st H1 H2 A1 A2; simpl; [reflexivity|].
  rewrite (start_coord_order o1 o2 c k H1 H2 A1 A2). destruct (start_coord o2 c k); auto.
Qed.

Theorem order_independent : forall o1 o2 c a, order_ok o1 c -> order_ok o2 c ->
  start o1 c a = start o2 c a /\ config_valid o1 c a = config_valid o2 c a.
Proof.
  intros o1 o2 c a H1 H2.
  pose proof (configure_iff_valid o1 c H1) as I1. pose proof (configure_iff_valid o2 c H2) as I2.
  rewrite !config_valid_unfold, !start_unfold.
  destruct (configure_all o1 c) eqn:E1; destruct (configure_all o2 c) eqn:E2; try (split; reflexivity).
  - exfalso. assert (requirements c = []) as R by (apply I2; reflexivity). apply I1 in R. discriminate.
  - exfalso. assert (requirements c = []) as R by (apply I1; reflexivity). apply I2 in R. discriminate.
  - split; [apply start_list_order; assumption|reflexivity].
Qed.

(* ------------------------------------------------------------------------------------------------------------------ *)
(* The panic that ends configuration names a requirement of the catalogue that the configuration really violates.      *)
(* ------------------------------------------------------------------------------------------------------------------ *)
Ltac find_in :=
  match goal with
  | |- In ?x (?x :: _) => left; reflexivity
  | |- In _ (_ :: _) => right; find_in
  | |- In _ (_ ++ _) => apply in_or_app; first [left; find_in | right; find_in]
  end.

Ltac hstep H :=
  match type of H with
  | Some _ = Some _ => inversion H; subst; cbn [panic_violation negb andb orb app]; find_in
  | None = Some _ => discriminate H
  | context [if ?b then _ else _] => datom b; cbn [negb andb orb app] in *
  | context [match ?x with _ => _ end] => datom x; cbn [negb andb orb app] in *
  end.

Ltac hcrush H := cbn [negb andb orb app] in *; repeat hstep H.

Lemma zookeeper_in : forall c p, configure_zookeeper c = Some p -> In (panic_violation p) (zookeeper_reqs c).
Proof. intros c p H. unfold configure_zookeeper, zookeeper_reqs, guard, viol in *. hcrush H. Qed.

Lemma storage_mod_in : forall c m p, configure_storage_mod c m = Some p -> In (panic_violation p) (storage_mod_reqs c m).
Proof. intros c m p H. unfold configure_storage_mod, storage_mod_reqs, guard, viol in *. hcrush H. Qed.

Lemma evaluator_mod_in : forall c m p, configure_evaluator_mod c m = Some p -> In (panic_violation p) (evaluator_mod_reqs c m).
Proof. intros c m p H. unfold configure_evaluator_mod, evaluator_mod_reqs, guard, viol in *. hcrush H. Qed.

Lemma listener_in : forall c l p, configure_listener c l = Some p -> In (panic_violation p) (listener_reqs c l).
Proof. intros c l p H. unfold configure_listener, listener_reqs, guard, viol in *. hcrush H. Qed.

Lemma notifier_mod_in : forall c m p, configure_notifier_mod c m = Some p -> In (panic_violation p) (notifier_mod_reqs c m).
Proof.
  intros c m p H.
  unfold configure_notifier_mod, notifier_mod_reqs, configure_http_notifier, configure_email_notifier,
    is_http, is_email, extra_ca_ok, guard, viol in *.
  destruct (nt_class m); hcrush H.
Qed.

Lemma profile_in : forall c who n p, configure_profile c who n = Some p -> In (panic_violation p) (profile_reqs c who n).
Proof. intros c who n p H. unfold configure_profile, profile_reqs, guard, viol in *. hcrush H. Qed.

Lemma cluster_mod_in : forall c m p, configure_cluster_mod c m = Some p -> In (panic_violation p) (cluster_mod_reqs c m).
Proof.
  intros c m p H. unfold configure_cluster_mod, cluster_mod_reqs in *.
  pose proof (profile_in c (cl_name m) (cl_profile m)) as HP.
  destruct (configure_profile c (cl_name m) (cl_profile m)) eqn:E.
  - unfold guard, viol in *. destruct (cl_class m); cbn [app] in *;
      try (inversion H; subst; cbn [panic_violation]; left; reflexivity).
    inversion H; subst. apply in_or_app. left. apply HP. reflexivity.
  - clear HP. unfold guard, viol in *. hcrush H.
Qed.

Lemma consumer_mod_in : forall c m p, configure_consumer_mod c m = Some p -> In (panic_violation p) (consumer_mod_reqs c m).
Proof.
  intros c m p H.
  unfold configure_consumer_mod, consumer_mod_reqs, configure_consumer_servers, configure_consumer_lists, is_kafka, is_kafka_zk in *.
  pose proof (profile_in c (cn_name m) (cn_profile m)) as HP.
  destruct (cn_class m); try solve [clear HP; unfold guard, viol in *; hcrush H].
  destruct (configure_profile c (cn_name m) (cn_profile m)) eqn:E.
  - unfold guard, viol in *. destruct (cluster_known c (cn_cluster m)); cbn [negb andb orb app] in *.
    + inversion H; subst. apply in_or_app. left. apply HP. reflexivity.
    + inversion H; subst. cbn [panic_violation]. left; reflexivity.
  - clear HP. unfold guard, viol in *. hcrush H.
Qed.

Lemma scan_in_reqs : forall A (f : A -> option panic) (g : A -> list violation) l l' p,
  Permutation l l' ->
  (forall x q, f x = Some q -> In (panic_violation q) (g x)) ->
  scan f l = Some p -> In (panic_violation p) (flat_map g l').
Proof.
  intros A f g l l' p HP Hfg H. destruct (scan_some_in _ f l p H) as [x [Hx Hf]].
  apply in_flat_map. exists x. split; [eapply Permutation_in; eauto|]. now apply Hfg.
Qed.

Lemma coord_in : forall o c k p, order_ok o c -> configure_coord o c k = Some p -> In (panic_violation p) (coord_reqs c k).
Proof.
  intros o c k p (Hs & He & Hh & Hn & Hcl & Hcn) H.
  destruct k; simpl in *.
  - now apply zookeeper_in.
  - unfold configure_storage, storage_reqs, guard, viol in *.
    destruct (Nat.leb (length (cfg_storage c)) 1); cbn [app].
    + eapply scan_in_reqs; [exact Hs|apply storage_mod_in|exact H].
    + inversion H; subst. left; reflexivity.
  - unfold configure_evaluator, evaluator_reqs, guard, viol in *.
    destruct (Nat.leb (length (cfg_evaluator c)) 1); cbn [app].
    + eapply scan_in_reqs; [exact He|apply evaluator_mod_in|exact H].
    + inversion H; subst. left; reflexivity.
  - eapply scan_in_reqs; [exact Hh|apply listener_in|exact H].
  - eapply scan_in_reqs; [exact Hn|apply notifier_mod_in|exact H].
  - eapply scan_in_reqs; [exact Hcl|apply cluster_mod_in|exact H].
  - eapply scan_in_reqs; [exact Hcn|apply consumer_mod_in|exact H].
Qed.

Lemma coord_reqs_in_requirements : forall c k v, In k (coordinators c) -> In v (coord_reqs c k) -> In v (requirements c).
Proof.
  intros c k v Hk Hv. unfold requirements, coordinators in *.
  destruct (have_notifiers c); simpl in Hk;
    repeat (destruct Hk as [<-|Hk]; [simpl in Hv; repeat (apply in_or_app; first [left; exact Hv | right]); try exact Hv|]);
    destruct Hk.
Qed.

Theorem first_failure_is_violation : forall o c p, order_ok o c ->
  configure_all o c = Some p -> In (panic_violation p) (requirements c).
Proof.
  intros o c p Hok H. unfold configure_all in H.
  destruct (scan_some_in _ _ _ _ H) as [k [Hk Hf]].
  eapply coord_reqs_in_requirements; [exact Hk|]. eapply coord_in; eauto.
Qed.

(* ------------------------------------------------------------------------------------------------------------------ *)
(* The unchanged tree (F10): the old recover handler panics again, so Start never returns 1 for an invalid configuration *)
(* ------------------------------------------------------------------------------------------------------------------ *)
Theorem old_handler_never_refuses : forall o c a, order_ok o c -> requirements c <> [] ->
  exists p, start_old o c a = Panicked p.
Proof.
  intros o c a Hok Hne. unfold start_old, start_with, configure_coordinators.
  pose proof (configure_iff_valid o c Hok) as Hiff.
  destruct (configure_all o c) as [p|] eqn:E.
  - destruct p; simpl; eauto.
  - exfalso. apply Hne, Hiff. reflexivity.
Qed.

(* Concrete configurations -------------------------------------------------------------------------------------------- *)
Definition all_ok : str -> bool := fun _ => true.

(* storage s1 (inmemory, allowlist 7), evaluator, one listener, a null notifier with a template, zookeeper servers *)
Definition ex_valid : config := {|
  cfg_notifier_table := false;
  cfg_zk_servers := [11]; cfg_zk_root := Some 12; cfg_zk_tls := None;
  cfg_storage := [ {| st_name := 1; st_class := ClsInmemory; st_workers := 20; st_intervals := 10; st_queue_depth := 1; st_legacy := false; st_allow := 7; st_deny := 0 |} ];
  cfg_evaluator := [ {| ev_name := 2; ev_class := ClsCaching; ev_expire := 10 |} ];
  cfg_http := [ {| hs_name := 3; hs_addr := 13; hs_tls := None |} ];
  cfg_notifier := [ {| nt_name := 4; nt_class := ClsNull; nt_interval := 60; nt_legacy := false; nt_allow := 0; nt_deny := 0;
                       nt_template_open := 14; nt_send_close := false; nt_template_close := 0;
                       nt_url_open := 0; nt_url_close := 0; nt_extra_ca := 0; nt_noverify := false;
                       nt_server := 0; nt_port := 0; nt_from := 0; nt_to := 0; nt_auth := AuthNone |} ];
  cfg_cluster := []; cfg_consumer := []; cfg_profiles := []; cfg_sasl := []; cfg_tls := []; cfg_files := [14];
  regex_ok := all_ok; template_ok := fun s => s =? 14; hostport_ok := all_ok; listen_ok := all_ok; zkpath_ok := all_ok;
  zkroot_trivial := fun s => s =? 12; zkcons_ok := all_ok; kversion_ok := all_ok; mail_ok := fun _ _ => true; keypair_ok := fun _ _ => true; ca_pem_ok := all_ok;
  reachable := fun _ => false |}.

(* the same with an allowlist that does not compile (a PanicZap) *)
Definition ex_bad_regex : config := {|
  cfg_notifier_table := cfg_notifier_table ex_valid;
  cfg_zk_servers := cfg_zk_servers ex_valid; cfg_zk_root := cfg_zk_root ex_valid; cfg_zk_tls := None;
  cfg_storage := cfg_storage ex_valid; cfg_evaluator := cfg_evaluator ex_valid; cfg_http := cfg_http ex_valid;
  cfg_notifier := cfg_notifier ex_valid; cfg_cluster := []; cfg_consumer := []; cfg_profiles := []; cfg_sasl := [];
  cfg_tls := []; cfg_files := [14];
  regex_ok := fun s => negb (s =? 7); template_ok := template_ok ex_valid; hostport_ok := all_ok; listen_ok := all_ok;
  zkpath_ok := all_ok; zkroot_trivial := fun s => s =? 12; zkcons_ok := all_ok; kversion_ok := all_ok; mail_ok := fun _ _ => true;
  keypair_ok := fun _ _ => true; ca_pem_ok := all_ok; reachable := fun _ => false |}.

(* the same with a negative queue depth (an `error` panic value: the old handler's type assertion fails) *)
Definition ex_bad_depth : config := {|
  cfg_notifier_table := false;
  cfg_zk_servers := cfg_zk_servers ex_valid; cfg_zk_root := cfg_zk_root ex_valid; cfg_zk_tls := None;
  cfg_storage := [ {| st_name := 1; st_class := ClsInmemory; st_workers := 20; st_intervals := 10; st_queue_depth := -1; st_legacy := false; st_allow := 7; st_deny := 0 |} ];
  cfg_evaluator := cfg_evaluator ex_valid; cfg_http := cfg_http ex_valid;
  cfg_notifier := cfg_notifier ex_valid; cfg_cluster := []; cfg_consumer := []; cfg_profiles := []; cfg_sasl := [];
  cfg_tls := []; cfg_files := [14];
  regex_ok := all_ok; template_ok := template_ok ex_valid; hostport_ok := all_ok; listen_ok := all_ok;
  zkpath_ok := all_ok; zkroot_trivial := fun s => s =? 12; zkcons_ok := all_ok; kversion_ok := all_ok; mail_ok := fun _ _ => true;
  keypair_ok := fun _ _ => true; ca_pem_ok := all_ok; reachable := fun _ => false |}.

(* ex_valid with workers = -1 (the audit's witness; core.Start was left by "makeslice: len out of range" before 746d605) *)
Definition ex_bad_workers : config := {|
  cfg_notifier_table := false;
  cfg_zk_servers := cfg_zk_servers ex_valid; cfg_zk_root := cfg_zk_root ex_valid; cfg_zk_tls := None;
  cfg_storage := [ {| st_name := 1; st_class := ClsInmemory; st_workers := -1; st_intervals := 10; st_queue_depth := 1; st_legacy := false; st_allow := 7; st_deny := 0 |} ];
  cfg_evaluator := cfg_evaluator ex_valid; cfg_http := cfg_http ex_valid;
  cfg_notifier := cfg_notifier ex_valid; cfg_cluster := []; cfg_consumer := []; cfg_profiles := []; cfg_sasl := [];
  cfg_tls := []; cfg_files := [14];
  regex_ok := all_ok; template_ok := template_ok ex_valid; hostport_ok := all_ok; listen_ok := all_ok;
  zkpath_ok := all_ok; zkroot_trivial := fun s => s =? 12; zkcons_ok := all_ok; kversion_ok := all_ok; mail_ok := fun _ _ => true;
  keypair_ok := fun _ _ => true; ca_pem_ok := all_ok; reachable := fun _ => false |}.

(* a cluster on REACHABLE brokers with offset-refresh = 0 (time.NewTicker(0) panicked in KafkaCluster.Start before 4350030) *)
Definition ex_bad_refresh : config := {|
  cfg_notifier_table := false;
  cfg_zk_servers := cfg_zk_servers ex_valid; cfg_zk_root := cfg_zk_root ex_valid; cfg_zk_tls := None;
  cfg_storage := cfg_storage ex_valid; cfg_evaluator := cfg_evaluator ex_valid; cfg_http := cfg_http ex_valid;
  cfg_notifier := cfg_notifier ex_valid;
  cfg_cluster := [ {| cl_name := 5; cl_class := ClsKafka; cl_profile := 0; cl_servers := [15];
                      cl_offset_refresh := 0; cl_topic_refresh := 60; cl_reaper_refresh := 0 |} ];
  cfg_consumer := []; cfg_profiles := []; cfg_sasl := []; cfg_tls := []; cfg_files := [14];
  regex_ok := all_ok; template_ok := template_ok ex_valid; hostport_ok := all_ok; listen_ok := all_ok;
  zkpath_ok := all_ok; zkroot_trivial := fun s => s =? 12; zkcons_ok := all_ok; kversion_ok := all_ok; mail_ok := fun _ _ => true;
  keypair_ok := fun _ _ => true; ca_pem_ok := all_ok; reachable := fun _ => true |}.

(* Now refused in Configure.  The last conjunct of each is the start loop on its own — what core.Start ran into while
   Configure still accepted these values (the only violated requirement is the new one): a panic that leaves Start. *)
Example ex_bad_workers_refused :
  requirements ex_bad_workers = [(StorageWorkers, 1)] /\
  start (canonical_order ex_bad_workers) ex_bad_workers fresh_app = Returned 1 nothing_started no_listener /\
  start_list (canonical_order ex_bad_workers) ex_bad_workers (coordinators ex_bad_workers) []
    = Panicked (PanicError StorageWorkers 1).
Proof. vm_compute. repeat split. Qed.

Example ex_bad_refresh_refused :
  requirements ex_bad_refresh = [(ClusterRefresh, 5)] /\
  start (canonical_order ex_bad_refresh) ex_bad_refresh fresh_app = Returned 1 nothing_started no_listener /\
  start_list (canonical_order ex_bad_refresh) ex_bad_refresh (coordinators ex_bad_refresh) []
    = Panicked (PanicString ClusterRefresh 5).
Proof. vm_compute. repeat split. Qed.

(* ex_valid with a notifier interval just above what fits a time.Duration in seconds, and with intervals = 0 in storage
   (both accepted before 38fa1ff / c110ef6; the process then crashed, or evaluated continuously, after start-up) *)
Definition ex_bad_sizes : config := {|
  cfg_notifier_table := false;
  cfg_zk_servers := cfg_zk_servers ex_valid; cfg_zk_root := cfg_zk_root ex_valid; cfg_zk_tls := None;
  cfg_storage := [ {| st_name := 1; st_class := ClsInmemory; st_workers := 20; st_intervals := 0; st_queue_depth := 1; st_legacy := false; st_allow := 7; st_deny := 0 |} ];
  cfg_evaluator := cfg_evaluator ex_valid; cfg_http := cfg_http ex_valid;
  cfg_notifier := [ {| nt_name := 4; nt_class := ClsNull; nt_interval := 9223372037; nt_legacy := false; nt_allow := 0; nt_deny := 0;
                       nt_template_open := 14; nt_send_close := false; nt_template_close := 0;
                       nt_url_open := 0; nt_url_close := 0; nt_extra_ca := 0; nt_noverify := false;
                       nt_server := 0; nt_port := 0; nt_from := 0; nt_to := 0; nt_auth := AuthNone |} ];
  cfg_cluster := []; cfg_consumer := []; cfg_profiles := []; cfg_sasl := [];
  cfg_tls := []; cfg_files := [14];
  regex_ok := all_ok; template_ok := template_ok ex_valid; hostport_ok := all_ok; listen_ok := all_ok;
  zkpath_ok := all_ok; zkroot_trivial := fun s => s =? 12; zkcons_ok := all_ok; kversion_ok := all_ok; mail_ok := fun _ _ => true;
  keypair_ok := fun _ _ => true; ca_pem_ok := all_ok; reachable := fun _ => false |}.

Example ex_bad_sizes_refused :
  requirements ex_bad_sizes = [(StorageIntervals, 1); (NotifierInterval, 4)] /\
  start (canonical_order ex_bad_sizes) ex_bad_sizes used_app = Returned 1 nothing_started no_listener /\
  configured (canonical_order ex_bad_sizes) ex_bad_sizes = [CZookeeper; CStorage].
Proof. vm_compute. repeat split. Qed.

(* ex_valid without zookeeper.root-path: the default "/burrow" has to be created on the (unreachable) ensemble *)
Definition ex_default_root : config := {|
  cfg_notifier_table := cfg_notifier_table ex_valid;
  cfg_zk_servers := cfg_zk_servers ex_valid; cfg_zk_root := None; cfg_zk_tls := None;
  cfg_storage := cfg_storage ex_valid; cfg_evaluator := cfg_evaluator ex_valid; cfg_http := cfg_http ex_valid;
  cfg_notifier := cfg_notifier ex_valid; cfg_cluster := []; cfg_consumer := []; cfg_profiles := []; cfg_sasl := [];
  cfg_tls := []; cfg_files := [14];
  regex_ok := all_ok; template_ok := template_ok ex_valid; hostport_ok := all_ok; listen_ok := all_ok;
  zkpath_ok := all_ok; zkroot_trivial := fun s => s =? 12; zkcons_ok := all_ok; kversion_ok := all_ok; mail_ok := fun _ _ => true;
  keypair_ok := fun _ _ => true; ca_pem_ok := all_ok; reachable := fun _ => false |}.

(* a valid configuration whose first subsystem fails at START time: accepted (flag set), Start returns 1, and only the
   zookeeper coordinator's Start was entered *)
Example ex_default_root_start_failure :
  requirements ex_default_root = [] /\
  start (canonical_order ex_default_root) ex_default_root fresh_app = Returned 1 [CZookeeper] no_listener /\
  config_valid (canonical_order ex_default_root) ex_default_root fresh_app = true.
Proof. vm_compute. repeat split. Qed.

Example ex_valid_accepted :
  requirements ex_valid = [] /\
  start (canonical_order ex_valid) ex_valid fresh_app
    = Returned 0 [CZookeeper; CStorage; CEvaluator; CHttpserver; CNotifier; CCluster; CConsumer] no_listener /\
  config_valid (canonical_order ex_valid) ex_valid fresh_app = true /\
  app_after_history [(canonical_order ex_valid, ex_valid)] fresh_app = used_app.
Proof. vm_compute. repeat split. Qed.

(* refused from a fresh context AND from the context the valid example left behind *)
Example ex_bad_regex_refused :
  requirements ex_bad_regex = [(StorageAllow, 1)] /\
  start (canonical_order ex_bad_regex) ex_bad_regex fresh_app = Returned 1 nothing_started no_listener /\
  start (canonical_order ex_bad_regex) ex_bad_regex
        (app_after_history [(canonical_order ex_valid, ex_valid)] fresh_app) = Returned 1 nothing_started no_listener /\
  config_valid (canonical_order ex_bad_regex) ex_bad_regex used_app = false /\
  configured (canonical_order ex_bad_regex) ex_bad_regex = [CZookeeper; CStorage].
Proof. vm_compute. repeat split. Qed.

(* F10 witnesses: on the unchanged handler both kinds of invalid configuration leave Start by a panic. *)
Theorem refuse_refuted :
  exists o c, order_ok o c /\ requirements c <> [] /\
              forall a, start_old o c a <> Returned 1 nothing_started no_listener /\ exists p, start_old o c a = Panicked p.
Proof.
  exists (canonical_order ex_bad_regex), ex_bad_regex. split; [apply canonical_order_ok|].
  split; [vm_compute; discriminate|]. intro a. split; [vm_compute; discriminate|].
  exists (PanicZap StorageAllow 1). vm_compute. reflexivity.
Qed.

Example refuse_refuted_error_value :
  start_old (canonical_order ex_bad_depth) ex_bad_depth fresh_app = Panicked (PanicError HandlerAssertion 1) /\
  start (canonical_order ex_bad_depth) ex_bad_depth fresh_app = Returned 1 nothing_started no_listener.
Proof. vm_compute. split; reflexivity. Qed.

(* ------------------------------------------------------------------------------------------------------------------ *)
(* Why the initial context is an input: a recover handler that forgets `app.ConfigurationValid = false`                 *)
(* ------------------------------------------------------------------------------------------------------------------ *)
(* From a fresh context it behaves exactly like the real handler ... *)
Theorem noreset_handler_same_on_fresh : forall o c,
  start_with handler_noreset o c fresh_app = start o c fresh_app /\
  config_valid_with handler_noreset o c fresh_app = config_valid o c fresh_app.
Proof.
  intros o c. unfold start, config_valid, config_valid_with, start_with, configure_coordinators, handler_noreset, handler_fixed, fresh_app.
  cbn [app_valid]. destruct (configure_all o c); split; reflexivity.
Qed.

(* ... and from a context whose flag is set it refuses NO configuration at all: subsystems are started. *)
Theorem noreset_handler_never_refuses_used : forall o c,
  start_with handler_noreset o c used_app <> Returned 1 nothing_started no_listener /\
  config_valid_with handler_noreset o c used_app = true.
Proof.
  intros o c. unfold config_valid_with, start_with, configure_coordinators, handler_noreset, used_app. cbn [app_valid].
  destruct (configure_all o c); split; try reflexivity; apply start_list_not_refusal.
Qed.

Example noreset_handler_accepts_invalid :
  requirements ex_bad_regex <> [] /\
  start_with handler_noreset (canonical_order ex_bad_regex) ex_bad_regex used_app
    = Returned 0 [CZookeeper; CStorage; CEvaluator; CHttpserver; CNotifier; CCluster; CConsumer] no_listener.
Proof. split; [vm_compute; discriminate | vm_compute; reflexivity]. Qed.

(* the listening observable is not constantly empty: while the httpserver coordinator is started and not yet stopped its
   listener (module 3 of ex_valid) is open; a Start that returned with it would be caught by no_listener_left_open *)
Example listening_while_running :
  still_listening ex_valid (coordinators ex_valid) [CZookeeper; CStorage; CEvaluator; CHttpserver] [CZookeeper; CStorage; CEvaluator]
    = [3] /\
  still_listening ex_valid (coordinators ex_valid) [CZookeeper; CStorage; CEvaluator; CHttpserver] [CZookeeper; CStorage; CEvaluator; CHttpserver]
    = no_listener /\
  listener_names ex_bad_depth = [3].
Proof. vm_compute. repeat split. Qed.
