(* C17 with the evaluator's result cache and the pruning scrape (the tree after cc5e0f6): what /metrics shows for a group
   is exactly what the status it was served calls for, and that status is the evaluation of a storage state no older than
   the cache lifetime; with a cold cache it is the evaluation of the present state. *)
From Coq Require Import ZArith List Bool Lia.
From Burrow Require Import Int64 F32 Eval EvalProofs EvalGroupProofs AMap AMapProofs Ring Storage StorageProofs StorageDelProofs
     Metrics MetricsProofs MetricsFullProofs.
Import ListNotations.
Open Scope Z_scope.

(* ---------- the registry after one group has been written ---------- *)
Lemma written_none_other c g gs k : names_group c g k = false -> written c g gs k = None.
Proof.
  intros Hn. destruct (written c g gs k) as [v|] eqn:E; [|reflexivity].
  apply written_names in E. congruence.
Qed.

Lemma is_part_of_names c g k : is_part_of c g k = true -> names_group c g k = true.
Proof.
  destruct k as [f c' g'|f c' g' t p|c' t p]; cbn [is_part_of]; try discriminate.
  unfold names_group. cbn [key_cluster key_group]. auto.
Qed.

Lemma set_group_p_get c g reg gs k :
  reg_get (prune_group c g gs (set_group c g reg gs)) k = if names_group c g k then written c g gs k else reg_get reg k.
Proof.
  unfold prune_group. rewrite reg_get_del, set_group_get.
  destruct (names_group c g k) eqn:Hn.
  - destruct (written c g gs k) as [v|] eqn:Ew; [rewrite andb_false_r; reflexivity|].
    destruct (is_part_of c g k) eqn:Ep; cbn [andb]; [reflexivity|]. exfalso.
    (* a group-level key of (c, g) is always written *)
    destruct (names_group_inv _ _ _ Hn) as [(f & ->)|(f & t & p & ->)].
    + cbn [written] in Ew. rewrite !Z.eqb_refl in Ew. discriminate.
    + cbn [is_part_of] in Ep. rewrite !Z.eqb_refl in Ep. discriminate.
  - rewrite (written_none_other _ _ _ _ Hn).
    destruct (is_part_of c g k) eqn:Ep; [apply is_part_of_names in Ep; congruence|reflexivity].
Qed.

Lemma names_group_other c g c0 g0 k :
  names_group c g k = true -> names_group c0 g0 k = (c =? c0) && (g =? g0).
Proof.
  intros H. destruct (names_group_inv _ _ _ H) as [(f & ->)|(f & t & p & ->)]; unfold names_group; cbn [key_cluster key_group]; reflexivity.
Qed.

(* ---------- the cache ---------- *)
Lemma cache_get_cons c g e ca c0 g0 :
  cache_get ((c, g, e) :: ca) c0 g0 = if (c =? c0) && (g =? g0) then Some e else cache_get ca c0 g0.
Proof. reflexivity. Qed.

Lemma cache_get_in ca c g e : cache_get ca c g = Some e -> In (c, g, e) ca.
Proof.
  induction ca as [|[[c' g'] e'] r IH]; cbn [cache_get]; [discriminate|].
  destruct ((c' =? c) && (g' =? g)) eqn:E.
  - intros H. injection H as ->. apply andb_true_iff in E. destruct E as [E1 E2]. apply Z.eqb_eq in E1, E2. subst. left. reflexivity.
  - intros H. right. apply IH. exact H.
Qed.

(* what an entry holds: the evaluation, at the entry's clock, of the storage state of the fetch it came from
   (None: the group was absent, or expired and purged by that fetch) *)
Definition entry_sound (sc : sconfig) (c g : Z) (e : centry) : Prop :=
  ce_res e = if Metrics.group_expired (sc_st sc) (ce_now e) (ce_st e) c g then None
             else group_view sc (ce_now e) (ce_st e) c g.

Definition cache_sound (sc : sconfig) (ca : cache) : Prop := forall c g e, In (c, g, e) ca -> entry_sound sc c g e.

Lemma group_view_absent sc now st c g : find_group st c g = None -> group_view sc now st c g = None.
Proof. unfold find_group, group_view. destruct (get st c) as [cl|]; [intros ->; reflexivity|reflexivity]. Qed.

Lemma status_sound sc now sy c g sy' o :
  sys_status sc now sy c g = Some (sy', o) -> entry_sound sc c g (mkCentry o 0 now (s_st sy)) .
Proof.
  intros Hs. unfold entry_sound. cbn [ce_res ce_now ce_st].
  destruct (status_cases _ _ _ _ _ _ _ Hs) as [(Hf & _ & ->)|[(cl & _ & He & _ & ->)|(He & _ & gs & -> & Hv)]].
  - unfold Metrics.group_expired. rewrite Hf. symmetry. apply group_view_absent. exact Hf.
  - rewrite He. reflexivity.
  - rewrite He. symmetry. exact Hv.
Qed.

Definition fresh_enough (L rt : Z) (e : centry) : Prop := ce_created e = rt \/ ce_valid L rt e = true.

Lemma cstatus_cases sc L rt now cs c g cs' o :
  cstatus sc L rt now cs c g = Some (cs', o) ->
  (exists e, cache_get (cs_cache cs) c g = Some e /\ ce_valid L rt e = true /\ cs' = cs /\ o = ce_res e) \/
  ((forall e, cache_get (cs_cache cs) c g = Some e -> ce_valid L rt e = false) /\
   exists sy', sys_status sc now (cs_sys cs) c g = Some (sy', o) /\
               cs' = mkCsys sy' ((c, g, mkCentry o rt now (s_st (cs_sys cs))) :: cs_cache cs)).
Proof.
  unfold cstatus.
  assert (Hmiss : match sys_status sc now (cs_sys cs) c g with
                  | Some (sy', o0) => Some (mkCsys sy' ((c, g, mkCentry o0 rt now (s_st (cs_sys cs))) :: cs_cache cs), o0)
                  | None => None
                  end = Some (cs', o) ->
                  exists sy', sys_status sc now (cs_sys cs) c g = Some (sy', o) /\
                              cs' = mkCsys sy' ((c, g, mkCentry o rt now (s_st (cs_sys cs))) :: cs_cache cs)).
  { destruct (sys_status sc now (cs_sys cs) c g) as [[sy' o0]|]; [|discriminate]. intros H. injection H as <- <-. eauto. }
  destruct (cache_get (cs_cache cs) c g) as [e|] eqn:Eg.
  - destruct (ce_valid L rt e) eqn:Ev.
    + intros H. injection H as <- <-. left. exists e. auto.
    + intros H. right. split; [intros e0 H0; injection H0 as <-; exact Ev|apply Hmiss; exact H].
  - intros H. right. split; [intros e0 H0; discriminate|apply Hmiss; exact H].
Qed.

(* ---------- what a status request can do to the storage state: nothing, or purge (c, g) ---------- *)
Record Purged (sc : sconfig) (now c : Z) (gs : list Z) (st st' : state) : Prop := mkPurged {
  pu_other : forall c0 g0, ~ (c0 = c /\ In g0 gs) -> find_group st' c0 g0 = find_group st c0 g0;
  pu_mono : forall c0 g0, find_group st' c0 g0 = find_group st c0 g0 \/ find_group st' c0 g0 = None;
  pu_topics : forall c0 t, Metrics.topic_offsets st' c0 t = Metrics.topic_offsets st c0 t;
  pu_tlist : forall c0, cluster_topics st' c0 = cluster_topics st c0;
  pu_view : forall c0 g0, find_group st' c0 g0 <> None -> group_view sc now st' c0 g0 = group_view sc now st c0 g0;
  pu_keys : forall c0, In c0 (keys st') <-> In c0 (keys st) }.

Lemma Purged_refl sc now c gs st : Purged sc now c gs st st.
Proof. constructor; intros; auto; reflexivity. Qed.

Lemma Purged_weaken sc now c gs gs' st st' : (forall g, In g gs -> In g gs') -> Purged sc now c gs st st' -> Purged sc now c gs' st st'.
Proof. intros Hsub [a b d e f h]. constructor; auto. intros c0 g0 Hn. apply a. intros [-> Hi]. apply Hn. split; [reflexivity|auto]. Qed.

Lemma Purged_trans sc now c gs st1 st2 st3 :
  Purged sc now c gs st1 st2 -> Purged sc now c gs st2 st3 -> Purged sc now c gs st1 st3.
Proof.
  intros [a1 b1 d1 e1 f1 h1] [a2 b2 d2 e2 f2 h2]. constructor.
  - intros c0 g0 Hn. rewrite a2, a1; auto.
  - intros c0 g0. destruct (b2 c0 g0) as [H2|H2]; [|right; exact H2]. destruct (b1 c0 g0) as [H1|H1]; [left|right]; congruence.
  - intros. rewrite d2, d1. reflexivity.
  - intros. rewrite e2, e1. reflexivity.
  - intros c0 g0 Hp. rewrite f2 by exact Hp. apply f1. destruct (b2 c0 g0) as [H2|H2]; congruence.
  - intros c0. rewrite h2. apply h1.
Qed.

Lemma cluster_topics_purge st c cl g c0 :
  get st c = Some cl -> cluster_topics (set st c (mkCluster (cl_broker cl) (remove (cl_consumer cl) g))) c0 = cluster_topics st c0.
Proof.
  intros Hc. unfold cluster_topics. destruct (Z.eq_dec c0 c) as [->|Hn].
  - rewrite get_set_eq, Hc. reflexivity.
  - rewrite get_set_neq by congruence. reflexivity.
Qed.

Lemma keys_set_present st c (cl cl' : cluster) c0 : get st c = Some cl -> (In c0 (keys (set st c cl')) <-> In c0 (keys st)).
Proof.
  intros Hc. rewrite <- !get_in_keys. destruct (Z.eq_dec c0 c) as [->|Hn].
  - rewrite get_set_eq, Hc. split; discriminate.
  - rewrite get_set_neq by congruence. reflexivity.
Qed.

Lemma status_purged sc now sy c g sy' o :
  sys_status sc now sy c g = Some (sy', o) -> Purged sc now c [g] (s_st sy) (s_st sy').
Proof.
  intros Hs. destruct (status_cases _ _ _ _ _ _ _ Hs) as [(_ & -> & _)|[(cl & Hc & _ & -> & _)|(_ & -> & _)]];
    try apply Purged_refl. cbn [s_st]. constructor.
  - intros c0 g0 Hn. rewrite (find_group_purge _ _ _ _ _ _ Hc).
    destruct (Z.eqb_spec c0 c) as [->|]; [|reflexivity]. destruct (Z.eqb_spec g0 g) as [->|]; [|reflexivity].
    exfalso. apply Hn. split; [reflexivity|left; reflexivity].
  - intros c0 g0. rewrite (find_group_purge _ _ _ _ _ _ Hc). destruct ((c0 =? c) && (g0 =? g)); [right|left]; reflexivity.
  - intros. apply (topic_offsets_purge _ _ _ _ _ _ Hc).
  - intros. apply (cluster_topics_purge _ _ _ _ _ Hc).
  - intros c0 g0 Hp. rewrite (group_view_purge _ _ _ _ _ _ _ _ Hc). rewrite (find_group_purge _ _ _ _ _ _ Hc) in Hp.
    destruct ((c0 =? c) && (g0 =? g)); [congruence|reflexivity].
  - intros c0. apply (keys_set_present _ _ cl). exact Hc.
Qed.

Lemma status_ok2 sc now cls sy c g sy' o : sys_status sc now sy c g = Some (sy', o) -> StepOK2 sc now cls sy sy'.
Proof.
  intros Hs.
  destruct (group_step_gen true true sc now c sy g) as [sy2|] eqn:Hg.
  - destruct (group_step_ok2 _ _ cls _ _ _ _ Hg) as [S _].
    eapply StepOK2_trans; [exact S|]. apply StepOK2_same.
    unfold group_step_gen in Hg. fold (sys_status sc now sy c g) in Hg. rewrite Hs in Hg.
    destruct o; cbn [negb andb] in Hg; injection Hg as <-; reflexivity.
  - unfold group_step_gen in Hg. fold (sys_status sc now sy c g) in Hg. rewrite Hs in Hg. destruct o; discriminate.
Qed.

Lemma group_expired_same cf now st st' c g :
  find_group st' c g = find_group st c g -> Metrics.group_expired cf now st' c g = Metrics.group_expired cf now st c g.
Proof. unfold Metrics.group_expired. intros ->. reflexivity. Qed.

(* ---------- the consumer loop of one cluster, through the cache ---------- *)
Definition served (sc : sconfig) (L rt now : Z) (cs cs' : csys) (c g : Z) : Prop :=
  exists e, cache_get (cs_cache cs') c g = Some e /\
    ((cache_get (cs_cache cs) c g = Some e /\ ce_valid L rt e = true) \/
     (ce_created e = rt /\ Metrics.group_expired (sc_st sc) now (s_st (cs_sys cs')) c g = false /\
      exists gs0, ce_res e = Some gs0 /\ group_view sc now (s_st (cs_sys cs')) c g = Some gs0)) /\
    forall k, names_group c g k = true ->
      reg_get (s_reg (cs_sys cs')) k =
      match ce_res e with Some gs0 => written c g gs0 k | None => reg_get (s_reg (cs_sys cs)) k end.

Record GRel (sc : sconfig) (cls : list Z) (L rt now c : Z) (gs : list Z) (cs cs' : csys) : Prop := mkGRel {
  gr_reg : forall k, (forall g, In g gs -> names_group c g k = false) ->
                     reg_get (s_reg (cs_sys cs')) k = reg_get (s_reg (cs_sys cs)) k;
  gr_cache : forall c0 g0, ~ (c0 = c /\ In g0 gs) -> cache_get (cs_cache cs') c0 g0 = cache_get (cs_cache cs) c0 g0;
  gr_sound : cache_sound sc (cs_cache cs) -> cache_sound sc (cs_cache cs');
  gr_ok2 : StepOK2 sc now cls (cs_sys cs) (cs_sys cs');
  gr_pu : Purged sc now c gs (s_st (cs_sys cs)) (s_st (cs_sys cs'));
  gr_gone : forall g, In g gs -> find_group (s_st (cs_sys cs)) c g <> None -> find_group (s_st (cs_sys cs')) c g = None ->
                      forall k, names_group c g k = true -> reg_get (s_reg (cs_sys cs')) k = None;
  gr_served : forall g, In g gs -> find_group (s_st (cs_sys cs')) c g <> None -> served sc L rt now cs cs' c g }.

Lemma names_group_diff c g g0 k : names_group c g k = true -> g0 <> g -> names_group c g0 k = false.
Proof.
  intros H Hn. rewrite (names_group_other _ _ c g0 _ H), Z.eqb_refl. cbn [andb]. apply Z.eqb_neq. congruence.
Qed.

Lemma cgroup_step_rel sc cls L rt now c cs g cs' :
  cgroup_step true sc L rt now c cs g = Some cs' -> GRel sc cls L rt now c [g] cs cs'.
Proof.
  unfold cgroup_step. destruct (cstatus sc L rt now cs c g) as [[cs1 o]|] eqn:Hc; [|discriminate].
  destruct (cstatus_cases _ _ _ _ _ _ _ _ _ Hc) as [(e & He & Hv & -> & ->)|(Hinv & sy' & Hs & ->)].
  - (* answered from the cache: storage is not touched *)
    assert (Hst : forall r, s_st (cs_sys (mkCsys (mkSys (s_st (cs_sys cs)) r) (cs_cache cs))) = s_st (cs_sys cs)) by reflexivity.
    destruct (ce_res e) as [gst|] eqn:Er; intros H; injection H as <-.
    + constructor; cbn [cs_sys cs_cache s_st s_reg].
      * intros k Hk. rewrite set_group_p_get, (Hk g (or_introl eq_refl)). reflexivity.
      * reflexivity.
      * auto.
      * apply StepOK2_same. reflexivity.
      * apply Purged_refl.
      * intros g0 _ Hp Ha. congruence.
      * intros g0 [<-|[]] Hp. unfold served. cbn [cs_sys cs_cache s_st s_reg]. exists e. split; [exact He|]. split; [left; split; [exact He|exact Hv]|].
        intros k Hk. rewrite set_group_p_get, Hk, Er. reflexivity.
    + constructor; auto using Purged_refl.
      * apply StepOK2_same. reflexivity.
      * intros g0 _ Hp Ha. congruence.
      * intros g0 [<-|[]] Hp. unfold served. cbn [cs_sys cs_cache s_st s_reg]. exists e. split; [exact He|]. split; [left; split; [exact He|exact Hv]|].
        intros k Hk. rewrite Er. reflexivity.
  - (* not (validly) cached: fetch, evaluate, store *)
    pose proof (status_purged _ _ _ _ _ _ _ Hs) as Hpu. pose proof (status_ok2 _ _ cls _ _ _ _ _ Hs) as Hok2.
    pose proof (status_sound _ _ _ _ _ _ _ Hs) as Hsound.
    assert (Hca : forall c0 g0, ~ (c0 = c /\ In g0 [g]) ->
                    cache_get ((c, g, mkCentry o rt now (s_st (cs_sys cs))) :: cs_cache cs) c0 g0 = cache_get (cs_cache cs) c0 g0).
    { intros c0 g0 Hn. rewrite cache_get_cons. destruct (Z.eqb_spec c c0) as [<-|]; [|reflexivity].
      destruct (Z.eqb_spec g g0) as [<-|]; [|reflexivity]. exfalso. apply Hn. split; [reflexivity|left; reflexivity]. }
    assert (Hsnd : cache_sound sc (cs_cache cs) -> cache_sound sc ((c, g, mkCentry o rt now (s_st (cs_sys cs))) :: cs_cache cs)).
    { intros H0 c0 g0 e0 [E|Hin]; [|apply H0; exact Hin]. injection E as <- <- <-. exact Hsound. }
    destruct (status_cases _ _ _ _ _ _ _ Hs) as [(Hf & -> & ->)|[(cl & Hcl & Hex & -> & ->)|(Hex & -> & gst & -> & Hview)]];
      intros H; injection H as <-; constructor; cbn [cs_sys cs_cache s_st s_reg] in *; try assumption; auto.
    + intros g0 _ Hp Ha. congruence.
    + intros g0 [<-|[]] Hp. congruence.
    + intros k Hk. rewrite delete_consumer_metrics_spec, (Hk g (or_introl eq_refl)). reflexivity.
    + intros g0 [<-|[]] _ _ k Hk. rewrite delete_consumer_metrics_spec, Hk. reflexivity.
    + intros g0 [<-|[]] Hp. exfalso. apply Hp. rewrite (find_group_purge _ _ _ _ _ _ Hcl), !Z.eqb_refl. reflexivity.
    + intros k Hk. rewrite set_group_p_get, (Hk g (or_introl eq_refl)). reflexivity.
    + apply StepOK2_same. reflexivity.
    + intros g0 _ Hp Ha. congruence.
    + intros g0 [<-|[]] Hp. unfold served. cbn [cs_sys cs_cache s_st s_reg]. eexists. split; [rewrite cache_get_cons, !Z.eqb_refl; reflexivity|].
      split; [right; split; [reflexivity|split; [exact Hex|exists gst; split; [reflexivity|exact Hview]]]|].
      intros k Hk. cbn [ce_res]. rewrite set_group_p_get, Hk. reflexivity.
Qed.

Lemma GRel_nil sc cls L rt now c cs : GRel sc cls L rt now c [] cs cs.
Proof.
  constructor; auto using Purged_refl.
  - apply StepOK2_same. reflexivity.
  - intros g [].
  - intros g [].
Qed.

Lemma cscrape_groups_rel sc cls L rt now c gs : forall cs cs',
  NoDup gs -> cscrape_groups true sc L rt now c gs cs = Some cs' -> GRel sc cls L rt now c gs cs cs'.
Proof.
  induction gs as [|g0 rest IH]; intros cs cs' Hnd; cbn [cscrape_groups].
  { intros H. injection H as <-. apply GRel_nil. }
  destruct (cgroup_step true sc L rt now c cs g0) as [cs1|] eqn:H1; [|discriminate]. intros H2.
    inversion Hnd as [|x l Hnotin Hnd']; subst.
    pose proof (cgroup_step_rel _ cls _ _ _ _ _ _ _ H1) as R1. pose proof (IH _ _ Hnd' H2) as R2.
    assert (Hdiff : forall g k, In g rest -> names_group c g0 k = true -> names_group c g k = false).
    { intros g k Hin Hk. eapply names_group_diff; [exact Hk|]. intros ->. contradiction. }
    constructor.
    - intros k Hk. rewrite (gr_reg _ _ _ _ _ _ _ _ _ R2), (gr_reg _ _ _ _ _ _ _ _ _ R1); [reflexivity| |].
      + intros g [<-|[]]. apply Hk. left. reflexivity.
      + intros g Hin. apply Hk. right. exact Hin.
    - intros c0 g1 Hn. rewrite (gr_cache _ _ _ _ _ _ _ _ _ R2), (gr_cache _ _ _ _ _ _ _ _ _ R1); [reflexivity| |].
      + intros [-> [<-|[]]]. apply Hn. split; [reflexivity|left; reflexivity].
      + intros [-> Hin]. apply Hn. split; [reflexivity|right; exact Hin].
    - intros H. apply (gr_sound _ _ _ _ _ _ _ _ _ R2), (gr_sound _ _ _ _ _ _ _ _ _ R1), H.
    - eapply StepOK2_trans; [apply (gr_ok2 _ _ _ _ _ _ _ _ _ R1)|apply (gr_ok2 _ _ _ _ _ _ _ _ _ R2)].
    - eapply Purged_trans.
      + eapply Purged_weaken; [|apply (gr_pu _ _ _ _ _ _ _ _ _ R1)]. intros g [<-|[]]. left. reflexivity.
      + eapply Purged_weaken; [|apply (gr_pu _ _ _ _ _ _ _ _ _ R2)]. intros g Hin. right. exact Hin.
    - intros g [<-|Hin] Hp Ha k Hk.
      + destruct (find_group (s_st (cs_sys cs1)) c g0) as [grp|] eqn:E1.
        * exfalso. rewrite (pu_other _ _ _ _ _ _ (gr_pu _ _ _ _ _ _ _ _ _ R2) c g0) in Ha by (intros [_ Hi]; contradiction). congruence.
        * rewrite (gr_reg _ _ _ _ _ _ _ _ _ R2) by (intros g Hi; apply (Hdiff g k Hi Hk)).
          apply (gr_gone _ _ _ _ _ _ _ _ _ R1 g0 (or_introl eq_refl) Hp E1 k Hk).
      + apply (gr_gone _ _ _ _ _ _ _ _ _ R2 g Hin); [|exact Ha|exact Hk].
        rewrite (pu_other _ _ _ _ _ _ (gr_pu _ _ _ _ _ _ _ _ _ R1) c g); [exact Hp|].
        intros [_ [<-|[]]]. contradiction.
    - intros g [<-|Hin] Hp.
      + assert (Hp1 : find_group (s_st (cs_sys cs1)) c g0 <> None).
        { destruct (pu_mono _ _ _ _ _ _ (gr_pu _ _ _ _ _ _ _ _ _ R2) c g0) as [Hm|Hm]; congruence. }
        destruct (gr_served _ _ _ _ _ _ _ _ _ R1 g0 (or_introl eq_refl) Hp1) as (e & Hget & Hsrc & Hreg).
        exists e. split; [rewrite (gr_cache _ _ _ _ _ _ _ _ _ R2) by (intros [_ Hi]; contradiction); exact Hget|]. split.
        * destruct Hsrc as [Hl|(Hcr & Hne & gs0 & Hres & Hview)]; [left; exact Hl|right]. split; [exact Hcr|]. split.
          -- rewrite <- Hne. apply group_expired_same.
             destruct (pu_mono _ _ _ _ _ _ (gr_pu _ _ _ _ _ _ _ _ _ R2) c g0) as [Hm|Hm]; [exact Hm|congruence].
          -- exists gs0. split; [exact Hres|].
             rewrite (pu_view _ _ _ _ _ _ (gr_pu _ _ _ _ _ _ _ _ _ R2) c g0 Hp). exact Hview.
        * intros k Hk. rewrite (gr_reg _ _ _ _ _ _ _ _ _ R2) by (intros g Hi; apply (Hdiff g k Hi Hk)). apply Hreg. exact Hk.
      + destruct (gr_served _ _ _ _ _ _ _ _ _ R2 g Hin Hp) as (e & Hget & Hsrc & Hreg).
        assert (Hne : g <> g0) by (intros ->; contradiction).
        exists e. split; [exact Hget|]. split.
        * destruct Hsrc as [[Hl Hv]|Hr]; [left|right; exact Hr]. split; [|exact Hv].
          rewrite <- (gr_cache _ _ _ _ _ _ _ _ _ R1 c g); [exact Hl|]. intros [_ [E|[]]]. congruence.
        * intros k Hk. rewrite (Hreg k Hk). destruct (ce_res e); [reflexivity|].
          apply (gr_reg _ _ _ _ _ _ _ _ _ R1). intros g1 [<-|[]]. eapply names_group_diff; [exact Hk|congruence].
Qed.

(* ---------- one cluster, all clusters ---------- *)
Lemma cluster_groups_nodup st c : wf_state st -> NoDup (cluster_groups st c).
Proof.
  intros [_ Hw]. unfold cluster_groups. destruct (get st c) as [cl|] eqn:Hc; [|constructor].
  destruct (Hw c cl Hc) as (_ & H2 & _). exact H2.
Qed.

Lemma topic_step_frame c sy t k : is_topic_key c t k = false -> reg_get (s_reg (topic_step c sy t)) k = reg_get (s_reg sy) k.
Proof.
  intros Hk. destruct (Metrics.topic_offsets (s_st sy) c t) as [l|] eqn:Ht.
  - rewrite (topic_step_get (mkSconfig (mkConfig 1 0 0 (fun _ => true)) f32_zero 0) 0 c sy t l k Ht), Hk. reflexivity.
  - unfold topic_step. rewrite Ht. reflexivity.
Qed.

Lemma fold_topic_frame c ts : forall sy k, (forall t, is_topic_key c t k = false) ->
  reg_get (s_reg (fold_left (topic_step c) ts sy)) k = reg_get (s_reg sy) k.
Proof.
  induction ts as [|t r IH]; intros sy k Hk; cbn [fold_left]; [reflexivity|].
  rewrite IH by exact Hk. apply topic_step_frame. apply Hk.
Qed.

Lemma not_topic_key_of c k : key_cluster k <> c \/ (exists g, names_group (key_cluster k) g k = true) -> forall t, is_topic_key c t k = false.
Proof.
  intros H t. destruct k as [f c' g'|f c' g' t' p|c' t' p]; cbn [is_topic_key]; try reflexivity.
  cbn [key_cluster] in H. destruct H as [Hn|(g & Hg)].
  - apply Z.eqb_neq in Hn. rewrite Hn. reflexivity.
  - unfold names_group in Hg. cbn [key_group] in Hg. rewrite andb_false_r in Hg. discriminate.
Qed.

Lemma find_group_listed_inv st c g : In g (cluster_groups st c) -> find_group st c g <> None.
Proof.
  unfold cluster_groups, find_group. destruct (get st c) as [cl|]; [|intros []]. intros H. apply get_in_keys. exact H.
Qed.

Record ClRel (sc : sconfig) (cls : list Z) (L rt now : Z) (cl : list Z) (cs cs' : csys) : Prop := mkClRel {
  cl_reg : forall k, ~ In (key_cluster k) cl -> reg_get (s_reg (cs_sys cs')) k = reg_get (s_reg (cs_sys cs)) k;
  cl_cache : forall c0 g0, ~ In c0 cl -> cache_get (cs_cache cs') c0 g0 = cache_get (cs_cache cs) c0 g0;
  cl_sound : cache_sound sc (cs_cache cs) -> cache_sound sc (cs_cache cs');
  cl_ok2 : StepOK2 sc now cls (cs_sys cs) (cs_sys cs');
  cl_topics : forall c0 t, Metrics.topic_offsets (s_st (cs_sys cs')) c0 t = Metrics.topic_offsets (s_st (cs_sys cs)) c0 t;
  cl_keys : forall c0, In c0 (keys (s_st (cs_sys cs'))) <-> In c0 (keys (s_st (cs_sys cs)));
  cl_view : forall c0 g0, find_group (s_st (cs_sys cs')) c0 g0 <> None ->
                          group_view sc now (s_st (cs_sys cs')) c0 g0 = group_view sc now (s_st (cs_sys cs)) c0 g0;
  cl_gone : forall c g, find_group (s_st (cs_sys cs)) c g <> None -> find_group (s_st (cs_sys cs')) c g = None ->
                        forall k, names_group c g k = true -> reg_get (s_reg (cs_sys cs')) k = None;
  cl_absent : forall c g k, names_group c g k = true -> find_group (s_st (cs_sys cs)) c g = None ->
                            reg_get (s_reg (cs_sys cs')) k = reg_get (s_reg (cs_sys cs)) k;
  cl_served : forall c g, In c cl -> find_group (s_st (cs_sys cs')) c g <> None -> served sc L rt now cs cs' c g;
  cl_topic : forall c t p, In c cl ->
               reg_get (s_reg (cs_sys cs')) (KTopic c t p) = expected sc now (s_st (cs_sys cs')) (KTopic c t p) \/
               (expected sc now (s_st (cs_sys cs')) (KTopic c t p) = None /\
                reg_get (s_reg (cs_sys cs')) (KTopic c t p) = reg_get (s_reg (cs_sys cs)) (KTopic c t p)) }.

Lemma names_group_cluster c g k : names_group c g k = true -> key_cluster k = c.
Proof. unfold names_group. intros H. apply andb_true_iff in H. destruct H as [H _]. apply Z.eqb_eq. exact H. Qed.

Lemma ccluster_step_rel sc cls L rt now cs c cs' :
  wf_state (s_st (cs_sys cs)) ->
  ccluster_step true sc L rt now cs c = Some cs' -> ClRel sc cls L rt now [c] cs cs'.
Proof.
  intros Hwf. unfold ccluster_step.
  destruct (cscrape_groups true sc L rt now c (cluster_groups (s_st (cs_sys cs)) c) cs) as [cs1|] eqn:Hg; [|discriminate].
  intros H. injection H as <-.
  pose proof (cscrape_groups_rel sc cls L rt now c _ _ _ (cluster_groups_nodup _ c Hwf) Hg) as R.
  pose proof (gr_pu _ _ _ _ _ _ _ _ _ R) as Pu.
  set (sy1 := cs_sys cs1) in *.
  assert (Esy1 : mkSys (s_st sy1) (s_reg sy1) = sy1) by (destruct sy1; reflexivity).
  pose proof (scrape_topics_fold (s_st sy1) c (cluster_topics (s_st sy1) c) (s_reg sy1)) as Ef. rewrite Esy1 in Ef.
  destruct (scrape_topics_ok sc now c (cluster_topics (s_st sy1) c) sy1) as [S2 E2].
  set (sy2 := fold_left (topic_step c) (cluster_topics (s_st sy1) c) sy1) in *.
  assert (Est2 : s_st sy2 = s_st sy1) by apply fold_topic_st.
  assert (Ereg2 : scrape_topics (s_st sy1) c (cluster_topics (s_st sy1) c) (s_reg sy1) = s_reg sy2).
  { change (s_reg (mkSys (s_st sy1) (scrape_topics (s_st sy1) c (cluster_topics (s_st sy1) c) (s_reg sy1))) = s_reg sy2). rewrite Ef. reflexivity. }
  assert (Hframe2 : forall k, (forall t, is_topic_key c t k = false) -> reg_get (s_reg sy2) k = reg_get (s_reg sy1) k)
    by (intros k Hk; apply fold_topic_frame; exact Hk).
  assert (Hgk : forall g k, names_group c g k = true -> reg_get (s_reg sy2) k = reg_get (s_reg sy1) k).
  { intros g k Hk. apply Hframe2. apply not_topic_key_of. right. exists g. rewrite (names_group_cluster _ _ _ Hk). exact Hk. }
  constructor; cbn [cs_sys cs_cache s_st s_reg]; rewrite ?Ereg2.
  - intros k Hk. assert (Hc : key_cluster k <> c) by (intros E; apply Hk; left; symmetry; exact E).
    rewrite Hframe2 by (apply not_topic_key_of; left; exact Hc).
    apply (gr_reg _ _ _ _ _ _ _ _ _ R). intros g _. destruct (names_group c g k) eqn:E; [|reflexivity].
    apply names_group_cluster in E. congruence.
  - intros c0 g0 Hn. apply (gr_cache _ _ _ _ _ _ _ _ _ R). intros [-> _]. apply Hn. left. reflexivity.
  - apply (gr_sound _ _ _ _ _ _ _ _ _ R).
  - eapply StepOK2_trans; [apply (gr_ok2 _ _ _ _ _ _ _ _ _ R)|apply StepOK2_same; reflexivity].
  - apply (pu_topics _ _ _ _ _ _ Pu).
  - apply (pu_keys _ _ _ _ _ _ Pu).
  - apply (pu_view _ _ _ _ _ _ Pu).
  - intros c0 g Hp Ha k Hk.
    destruct (Z.eq_dec c0 c) as [->|Hn].
    + rewrite (Hgk g k Hk). apply (gr_gone _ _ _ _ _ _ _ _ _ R g); try assumption. apply find_group_listed. exact Hp.
    + exfalso. rewrite (pu_other _ _ _ _ _ _ Pu c0 g) in Ha by (intros [E _]; congruence). congruence.
  - intros c0 g k Hk Ha. destruct (Z.eq_dec c0 c) as [->|Hn].
    + rewrite (Hgk g k Hk). apply (gr_reg _ _ _ _ _ _ _ _ _ R). intros g1 Hin.
      eapply names_group_diff; [exact Hk|]. intros ->. apply find_group_listed_inv in Hin. congruence.
    + assert (Hc : key_cluster k <> c) by (rewrite (names_group_cluster _ _ _ Hk); exact Hn).
      rewrite Hframe2 by (apply not_topic_key_of; left; exact Hc).
      apply (gr_reg _ _ _ _ _ _ _ _ _ R). intros g1 _. destruct (names_group c g1 k) eqn:E; [|reflexivity].
      apply names_group_cluster in E. congruence.
  - intros c0 g [<-|[]] Hp.
    assert (Hin : In g (cluster_groups (s_st (cs_sys cs)) c)).
    { apply find_group_listed. destruct (pu_mono _ _ _ _ _ _ Pu c g) as [Hm|Hm]; congruence. }
    destruct (gr_served _ _ _ _ _ _ _ _ _ R g Hin Hp) as (e & Hget & Hsrc & Hreg).
    exists e. cbn [cs_sys cs_cache s_st s_reg]. rewrite ?Ereg2. split; [exact Hget|]. split; [exact Hsrc|].
    intros k Hk. rewrite (Hgk g k Hk). apply Hreg. exact Hk.
  - intros c0 t p [<-|[]].
    assert (Hex : expected sc now (s_st sy2) (KTopic c t p) = expected sc now (s_st sy1) (KTopic c t p)) by (rewrite Est2; reflexivity).
    assert (Hr1 : reg_get (s_reg sy1) (KTopic c t p) = reg_get (s_reg (cs_sys cs)) (KTopic c t p)).
    { apply (gr_reg _ _ _ _ _ _ _ _ _ R). intros g _. unfold names_group. cbn. apply andb_false_r. }
    destruct (expected sc now (s_st sy1) (KTopic c t p)) as [v|] eqn:Ex.
    + left. assert (Hne : expected sc now (s_st sy1) (KTopic c t p) <> None) by congruence.
      pose proof (E2 t p (expected_topic_listed _ _ _ _ _ _ Hne) Hne) as Hc. unfold Correct in Hc. rewrite Hc, Hex. reflexivity.
    + destruct (so_chg _ _ _ _ S2 (KTopic c t p)) as [Hu|Hc]; [right; split; [reflexivity|congruence]|left].
      unfold Correct in Hc. rewrite Hc. exact Hex.
Qed.

Lemma ClRel_nil sc cls L rt now cs : ClRel sc cls L rt now [] cs cs.
Proof.
  constructor; auto; try reflexivity.
  - apply StepOK2_same. reflexivity.
  - intros c g Hp Ha. congruence.
  - intros c g [].
  - intros c t p [].
Qed.

Lemma expected_topic_eq sc now st st' c t p :
  (forall c0 t0, Metrics.topic_offsets st' c0 t0 = Metrics.topic_offsets st c0 t0) ->
  expected sc now st' (KTopic c t p) = expected sc now st (KTopic c t p).
Proof. intros H. cbn [expected]. rewrite H. reflexivity. Qed.

Lemma cscrape_clusters_rel sc cls L rt now cl : forall cs cs',
  (1 <= cf_intervals (sc_st sc))%nat -> NoDup cls -> NoDup cl -> good (sc_st sc) cls (s_st (cs_sys cs)) ->
  cscrape_clusters true sc L rt now cl cs = Some cs' -> ClRel sc cls L rt now cl cs cs'.
Proof.
  induction cl as [|c0 rest IH]; intros cs cs' HN Hndc Hnd Hgood; cbn [cscrape_clusters].
  { intros H. injection H as <-. apply ClRel_nil. }
  destruct (ccluster_step true sc L rt now cs c0) as [cs1|] eqn:H1; [|discriminate]. intros H2.
  inversion Hnd as [|x l Hnotin Hnd']; subst.
  pose proof (ccluster_step_rel sc cls L rt now cs c0 cs1 (proj1 (good_facts _ _ _ HN Hndc Hgood)) H1) as R1.
  pose proof (IH cs1 cs' HN Hndc Hnd' (s2_good _ _ _ _ _ (cl_ok2 _ _ _ _ _ _ _ _ R1) Hgood) H2) as R2.
  pose proof (cl_ok2 _ _ _ _ _ _ _ _ R1) as O1. pose proof (cl_ok2 _ _ _ _ _ _ _ _ R2) as O2.
  constructor.
  - intros k Hk. rewrite (cl_reg _ _ _ _ _ _ _ _ R2), (cl_reg _ _ _ _ _ _ _ _ R1); [reflexivity| |].
    + intros [E|[]]. apply Hk. left. exact E.
    + intros Hin. apply Hk. right. exact Hin.
  - intros c g Hn. rewrite (cl_cache _ _ _ _ _ _ _ _ R2), (cl_cache _ _ _ _ _ _ _ _ R1); [reflexivity| |].
    + intros [E|[]]. apply Hn. left. exact E.
    + intros Hin. apply Hn. right. exact Hin.
  - intros H. apply (cl_sound _ _ _ _ _ _ _ _ R2), (cl_sound _ _ _ _ _ _ _ _ R1), H.
  - eapply StepOK2_trans; eassumption.
  - intros c t. rewrite (cl_topics _ _ _ _ _ _ _ _ R2), (cl_topics _ _ _ _ _ _ _ _ R1). reflexivity.
  - intros c. rewrite (cl_keys _ _ _ _ _ _ _ _ R2). apply (cl_keys _ _ _ _ _ _ _ _ R1).
  - intros c g Hp. rewrite (cl_view _ _ _ _ _ _ _ _ R2 c g Hp). apply (cl_view _ _ _ _ _ _ _ _ R1).
    destruct (s2_gmono _ _ _ _ _ O2 c g) as [Hm|Hm]; congruence.
  - intros c g Hp Ha k Hk. destruct (find_group (s_st (cs_sys cs1)) c g) as [grp|] eqn:E1.
    + apply (cl_gone _ _ _ _ _ _ _ _ R2 c g); [congruence|exact Ha|exact Hk].
    + rewrite (cl_absent _ _ _ _ _ _ _ _ R2 c g k Hk E1). apply (cl_gone _ _ _ _ _ _ _ _ R1 c g Hp E1 k Hk).
  - intros c g k Hk Ha.
    assert (E1 : find_group (s_st (cs_sys cs1)) c g = None) by (destruct (s2_gmono _ _ _ _ _ O1 c g) as [Hm|Hm]; congruence).
    rewrite (cl_absent _ _ _ _ _ _ _ _ R2 c g k Hk E1). apply (cl_absent _ _ _ _ _ _ _ _ R1 c g k Hk Ha).
  - intros c g [<-|Hin] Hp.
    + assert (Hp1 : find_group (s_st (cs_sys cs1)) c0 g <> None) by (destruct (s2_gmono _ _ _ _ _ O2 c0 g) as [Hm|Hm]; congruence).
      destruct (cl_served _ _ _ _ _ _ _ _ R1 c0 g (or_introl eq_refl) Hp1) as (e & Hget & Hsrc & Hreg).
      exists e. split; [rewrite (cl_cache _ _ _ _ _ _ _ _ R2) by exact Hnotin; exact Hget|]. split.
      * destruct Hsrc as [Hl|(Hcr & Hne & gs0 & Hres & Hview)]; [left; exact Hl|right]. split; [exact Hcr|]. split.
        -- rewrite <- Hne. apply group_expired_same. destruct (s2_gmono _ _ _ _ _ O2 c0 g) as [Hm|Hm]; [exact Hm|congruence].
        -- exists gs0. split; [exact Hres|]. rewrite (cl_view _ _ _ _ _ _ _ _ R2 c0 g Hp). exact Hview.
      * intros k Hk. rewrite (cl_reg _ _ _ _ _ _ _ _ R2) by (rewrite (names_group_cluster _ _ _ Hk); exact Hnotin). apply Hreg. exact Hk.
    + assert (Hne : c <> c0) by (intros ->; contradiction).
      destruct (cl_served _ _ _ _ _ _ _ _ R2 c g Hin Hp) as (e & Hget & Hsrc & Hreg).
      exists e. split; [exact Hget|]. split.
      * destruct Hsrc as [[Hl Hv]|Hr]; [left|right; exact Hr]. split; [|exact Hv].
        rewrite <- (cl_cache _ _ _ _ _ _ _ _ R1 c g); [exact Hl|]. intros [E|[]]. congruence.
      * intros k Hk. rewrite (Hreg k Hk). destruct (ce_res e); [reflexivity|].
        apply (cl_reg _ _ _ _ _ _ _ _ R1). rewrite (names_group_cluster _ _ _ Hk). intros [E|[]]. congruence.
  - intros c t p [<-|Hin].
    + rewrite (cl_reg _ _ _ _ _ _ _ _ R2) by exact Hnotin.
      rewrite (expected_topic_eq sc now _ _ c0 t p (cl_topics _ _ _ _ _ _ _ _ R2)).
      apply (cl_topic _ _ _ _ _ _ _ _ R1 c0 t p (or_introl eq_refl)).
    + assert (Hne : c <> c0) by (intros ->; contradiction).
      destruct (cl_topic _ _ _ _ _ _ _ _ R2 c t p Hin) as [Hc|[Hx Hr]]; [left; exact Hc|right]. split; [exact Hx|].
      rewrite Hr. apply (cl_reg _ _ _ _ _ _ _ _ R1). cbn [key_cluster]. intros [E|[]]. congruence.
Qed.

(* ====================================================================================================
   The invariant of the cached system, and the theorems
   ==================================================================================================== *)
Definition live_c (st : state) (k : key) : Prop :=
  match key_group k with
  | Some g => find_group st (key_cluster k) g <> None
  | None => live st k
  end.

Record cInv (sc : sconfig) (cls : list Z) (cs : csys) : Prop := mkCInv {
  ci_good : good (sc_st sc) cls (s_st (cs_sys cs));
  ci_sound : cache_sound sc (cs_cache cs);
  ci_live : forall k, reg_get (s_reg (cs_sys cs)) k <> None -> live_c (s_st (cs_sys cs)) k;
  ci_none : forall c g e k, cache_get (cs_cache cs) c g = Some e -> ce_res e = None -> names_group c g k = true ->
                            reg_get (s_reg (cs_sys cs)) k = None }.

Lemma key_group_names k g : key_group k = Some g -> names_group (key_cluster k) g k = true.
Proof. intros H. unfold names_group. rewrite H, !Z.eqb_refl. reflexivity. Qed.

Lemma names_key_group c g k : names_group c g k = true -> key_group k = Some g /\ key_cluster k = c.
Proof. intros H. destruct (names_group_inv _ _ _ H) as [(f & ->)|(f & t & p & ->)]; split; reflexivity. Qed.

Lemma live_c_group st c g k : names_group c g k = true -> (live_c st k <-> find_group st c g <> None).
Proof. intros H. destruct (names_key_group _ _ _ H) as [Hg Hc]. unfold live_c. rewrite Hg, Hc. reflexivity. Qed.

Lemma topic_called_live sc now st c t p : expected sc now st (KTopic c t p) <> None -> live st (KTopic c t p).
Proof.
  cbn [expected live]. destruct (Metrics.topic_offsets st c t) as [l|]; [|congruence].
  destruct (Z.ltb_spec p 0) as [|Hp]; [congruence|]. intros Hx. split; [exact Hp|]. exists l. split; [reflexivity|].
  apply nth_error_Some. exact Hx.
Qed.

Lemma topic_live_called sc now st c t p : live st (KTopic c t p) -> expected sc now st (KTopic c t p) <> None.
Proof.
  cbn [expected live]. intros (Hp & l & -> & Hlen). destruct (Z.ltb_spec p 0) as [|_]; [lia|]. apply nth_error_Some. exact Hlen.
Qed.

Lemma not_in_keys_get {V} (m : amap V) k : ~ In k (keys m) -> get m k = None.
Proof. intros Hn. destruct (get m k) eqn:E; [|reflexivity]. exfalso. apply Hn. apply get_in_keys. congruence. Qed.

(* ---- GET /metrics ---- *)
Theorem cscrape_spec sc cls L rt now cs cs' :
  (1 <= cf_intervals (sc_st sc))%nat -> NoDup cls ->
  cInv sc cls cs -> cscrape sc L rt now cs = Some cs' ->
  cInv sc cls cs' /\
  (forall c t p, reg_get (s_reg (cs_sys cs')) (KTopic c t p) = expected sc now (s_st (cs_sys cs')) (KTopic c t p)) /\
  (forall c g k, names_group c g k = true ->
     (find_group (s_st (cs_sys cs')) c g = None -> reg_get (s_reg (cs_sys cs')) k = None) /\
     (find_group (s_st (cs_sys cs')) c g <> None ->
        exists e, cache_get (cs_cache cs') c g = Some e /\ entry_sound sc c g e /\
          ((cache_get (cs_cache cs) c g = Some e /\ ce_valid L rt e = true) \/
           (ce_created e = rt /\ Metrics.group_expired (sc_st sc) now (s_st (cs_sys cs')) c g = false /\
            exists gs0, ce_res e = Some gs0 /\ group_view sc now (s_st (cs_sys cs')) c g = Some gs0)) /\
          reg_get (s_reg (cs_sys cs')) k = match ce_res e with Some gs0 => written c g gs0 k | None => None end)).
Proof.
  intros HN Hndc [Hgood Hsound Hlive Hnone] Hs. unfold cscrape, cscrape_gen in Hs.
  assert (Hndk : NoDup (keys (s_st (cs_sys cs)))) by (destruct (proj1 (good_facts _ _ _ HN Hndc Hgood)) as [H _]; exact H).
  pose proof (cscrape_clusters_rel sc cls L rt now _ _ _ HN Hndc Hndk Hgood Hs) as R.
  pose proof (cl_ok2 _ _ _ _ _ _ _ _ R) as O2.
  (* groups that are not there after the scrape have no series *)
  assert (Habs : forall c g k, names_group c g k = true -> find_group (s_st (cs_sys cs')) c g = None ->
                               reg_get (s_reg (cs_sys cs')) k = None).
  { intros c g k Hk Ha. destruct (find_group (s_st (cs_sys cs)) c g) as [grp|] eqn:E0.
    - apply (cl_gone _ _ _ _ _ _ _ _ R c g); [congruence|exact Ha|exact Hk].
    - rewrite (cl_absent _ _ _ _ _ _ _ _ R c g k Hk E0).
      destruct (reg_get (s_reg (cs_sys cs)) k) eqn:Er; [|reflexivity].
      exfalso. assert (Hl : live_c (s_st (cs_sys cs)) k) by (apply Hlive; congruence).
      apply (live_c_group _ _ _ _ Hk) in Hl. congruence. }
  (* groups that are: served *)
  assert (Hsrv : forall c g, find_group (s_st (cs_sys cs')) c g <> None -> served sc L rt now cs cs' c g).
  { intros c g Hp. apply (cl_served _ _ _ _ _ _ _ _ R c g); [|exact Hp].
    apply (find_group_cluster _ c g). destruct (s2_gmono _ _ _ _ _ O2 c g) as [Hm|Hm]; congruence. }
  assert (Htop : forall c t p, reg_get (s_reg (cs_sys cs')) (KTopic c t p) = expected sc now (s_st (cs_sys cs')) (KTopic c t p)).
  { intros c t p.
    assert (Hold : reg_get (s_reg (cs_sys cs)) (KTopic c t p) <> None -> expected sc now (s_st (cs_sys cs')) (KTopic c t p) <> None).
    { intros Hk. specialize (Hlive _ Hk). cbn [live_c key_group] in Hlive.
      rewrite (expected_topic_eq sc now _ _ c t p (cl_topics _ _ _ _ _ _ _ _ R)). apply topic_live_called. exact Hlive. }
    destruct (in_dec Z.eq_dec c (keys (s_st (cs_sys cs)))) as [Hin|Hnin].
    - destruct (cl_topic _ _ _ _ _ _ _ _ R c t p Hin) as [Hc|[Hx Hr]]; [exact Hc|]. rewrite Hr, Hx.
      destruct (reg_get (s_reg (cs_sys cs)) (KTopic c t p)) eqn:Er; [|reflexivity]. exfalso. apply Hold; [congruence|exact Hx].
    - rewrite (cl_reg _ _ _ _ _ _ _ _ R) by exact Hnin.
      destruct (reg_get (s_reg (cs_sys cs)) (KTopic c t p)) eqn:Er.
      + exfalso. assert (Hl : live (s_st (cs_sys cs)) (KTopic c t p)) by (apply (Hlive (KTopic c t p)); congruence).
        apply (live_unknown_cluster _ (KTopic c t p)) in Hl; [exact Hl|]. apply not_in_keys_get. exact Hnin.
      + symmetry. destruct (expected sc now (s_st (cs_sys cs')) (KTopic c t p)) eqn:Ex; [|reflexivity].
        exfalso. assert (Hl : live (s_st (cs_sys cs')) (KTopic c t p)) by (apply (topic_called_live sc now); congruence).
        apply (live_unknown_cluster _ (KTopic c t p)) in Hl; [exact Hl|]. cbn [key_cluster].
        destruct (get (s_st (cs_sys cs')) c) eqn:Eg; [|reflexivity]. exfalso. apply Hnin.
        apply (cl_keys _ _ _ _ _ _ _ _ R). apply get_in_keys. congruence. }
  split; [|split; [exact Htop|]].
  - constructor.
    + apply (s2_good _ _ _ _ _ O2 Hgood).
    + apply (cl_sound _ _ _ _ _ _ _ _ R Hsound).
    + intros k Hk. destruct (key_group k) as [g|] eqn:Eg.
      * pose proof (key_group_names _ _ Eg) as Hn. apply (live_c_group _ _ _ _ Hn). intros Ha. apply Hk. apply (Habs _ _ _ Hn Ha).
      * unfold live_c. rewrite Eg. destruct k as [f c g|f c g t p|c t p]; try discriminate.
        apply (topic_called_live sc now). rewrite <- Htop. exact Hk.
    + intros c g e k Hget Hres Hk. destruct (find_group (s_st (cs_sys cs')) c g) as [grp|] eqn:Ep; [|apply (Habs _ _ _ Hk Ep)].
      destruct (Hsrv c g) as (e' & Hget' & Hsrc & Hreg); [congruence|]. rewrite Hget in Hget'. injection Hget' as <-.
      rewrite (Hreg k Hk), Hres. destruct Hsrc as [[Hl _]|(_ & _ & gs0 & Hr & _)]; [|congruence].
      apply (Hnone c g e k Hl Hres Hk).
  - intros c g k Hk. split; [apply Habs; exact Hk|]. intros Hp.
    destruct (Hsrv c g Hp) as (e & Hget & Hsrc & Hreg). exists e. split; [exact Hget|]. split.
    + apply (cl_sound _ _ _ _ _ _ _ _ R Hsound c g e). apply cache_get_in. exact Hget.
    + split; [exact Hsrc|]. rewrite (Hreg k Hk). destruct (ce_res e) eqn:Er; [reflexivity|].
      destruct Hsrc as [[Hl _]|(_ & _ & gs0 & Hr & _)]; [|congruence]. apply (Hnone c g e k Hl Er Hk).
Qed.

(* with no valid entry in the cache (expire-cache = 0, or nothing was evaluated within the last L): exactly the present state *)
Definition cold (L rt : Z) (ca : cache) : Prop := forall c g e, cache_get ca c g = Some e -> ce_valid L rt e = false.

Theorem cscrape_cold sc cls L rt now cs cs' k :
  (1 <= cf_intervals (sc_st sc))%nat -> NoDup cls ->
  cInv sc cls cs -> cold L rt (cs_cache cs) -> cscrape sc L rt now cs = Some cs' ->
  reg_get (s_reg (cs_sys cs')) k = expected sc now (s_st (cs_sys cs')) k.
Proof.
  intros HN Hndc Hinv Hcold Hs. destruct (cscrape_spec _ _ _ _ _ _ _ HN Hndc Hinv Hs) as (_ & Htop & Hgrp).
  destruct (key_cases k) as [(g & Hn)|(t & p & ->)]; [|apply Htop].
  destruct (Hgrp _ _ _ Hn) as [Ha Hp]. rewrite (expected_group_key _ _ _ _ _ _ Hn).
  destruct (find_group (s_st (cs_sys cs')) (key_cluster k) g) as [grp|] eqn:Ef.
  - destruct Hp as (e & _ & _ & Hsrc & Hreg); [congruence|].
    destruct Hsrc as [[Hl Hv]|(_ & _ & gs0 & Hr & Hview)]; [rewrite (Hcold _ _ _ Hl) in Hv; discriminate|].
    rewrite Hreg, Hr, Hview. reflexivity.
  - rewrite (Ha eq_refl), (group_view_absent _ _ _ _ _ Ef). reflexivity.
Qed.

(* what is shown for a topic a group no longer consumes: nothing, as soon as the status served was evaluated on a state that
   no longer had it - i.e. at the latest at the first scrape later than the cache lifetime after the deletion *)
Theorem cscrape_no_deleted_topic sc cls L rt now cs cs' c g t f p :
  (1 <= cf_intervals (sc_st sc))%nat -> NoDup cls ->
  cInv sc cls cs -> cscrape sc L rt now cs = Some cs' ->
  (forall e, cache_get (cs_cache cs') c g = Some e -> group_has_topic (ce_st e) c g t = false) ->
  reg_get (s_reg (cs_sys cs')) (KPart f c g t p) = None.
Proof.
  intros HN Hndc Hinv Hs Hsnap. destruct (cscrape_spec _ _ _ _ _ _ _ HN Hndc Hinv Hs) as (_ & _ & Hgrp).
  assert (Hn : names_group c g (KPart f c g t p) = true) by (unfold names_group; cbn; rewrite !Z.eqb_refl; reflexivity).
  destruct (Hgrp _ _ _ Hn) as [Ha Hp].
  destruct (find_group (s_st (cs_sys cs')) c g) as [grp|] eqn:Ef; [|apply Ha; reflexivity].
  destruct Hp as (e & Hget & Hsound & _ & Hreg); [congruence|]. rewrite Hreg.
  destruct (ce_res e) as [gs0|] eqn:Er; [|reflexivity].
  destruct (written c g gs0 (KPart f c g t p)) eqn:Ew; [|reflexivity]. exfalso.
  unfold entry_sound in Hsound. rewrite Er in Hsound.
  destruct (Metrics.group_expired (sc_st sc) (ce_now e) (ce_st e) c g); [discriminate|].
  assert (Hx : expected sc (ce_now e) (ce_st e) (KPart f c g t p) <> None).
  { cbn [expected]. rewrite <- Hsound, Ew. discriminate. }
  apply expected_part_topic in Hx. rewrite (Hsnap e Hget) in Hx. discriminate.
Qed.

(* ---------- the invariant along a history ---------- *)
Lemma removed_group_key cf now st st' r c g k :
  names_group c g k = true -> removed cf now st st' r k = false -> removed cf now st st' r (KGroup GStatus c g) = false.
Proof.
  intros Hk Hr. destruct r; cbn [removed] in *; try reflexivity.
  - unfold names_topic. cbn [key_topic]. apply andb_false_r.
  - destruct (find_group st' c0 g0).
    + unfold names_group_topic, names_topic. cbn [key_topic]. rewrite andb_false_r. apply andb_false_r.
    + rewrite (names_group_other _ _ c0 g0 _ Hk) in Hr. unfold names_group. cbn [key_cluster key_group]. exact Hr.
  - rewrite (names_group_other _ _ c0 g0 _ Hk) in Hr. unfold names_group. cbn [key_cluster key_group]. exact Hr.
Qed.

Lemma live_c_step cf now st r st' rep k :
  step cf now st r = Done st' rep -> live_c st k -> removed cf now st st' r k = false -> live_c st' k.
Proof.
  intros Hs Hl Hr. unfold live_c in *. destruct (key_group k) as [g|] eqn:Eg.
  - pose proof (key_group_names _ _ Eg) as Hn.
    apply (step_live cf now st r st' rep (KGroup GStatus (key_cluster k) g) Hs Hl).
    eapply removed_group_key; eassumption.
  - eapply step_live; eassumption.
Qed.

Lemma sys_storage_removed sc now sy r sy' rep k :
  sys_storage sc now sy r = Some (sy', rep) -> not_delete_topic r ->
  reg_get (s_reg sy') k <> None ->
  reg_get (s_reg sy) k <> None /\ (s_st sy' = s_st sy \/ removed (sc_st sc) now (s_st sy) (s_st sy') r k = false).
Proof.
  intros Hs Hnd Hr. unfold sys_storage, sys_storage_gen in Hs.
  destruct (step (sc_st sc) now (s_st sy) r) as [st' rep'|] eqn:Hstep; [|discriminate].
  injection Hs as <- <-. cbn [s_reg s_st] in *.
  destruct r; try contradiction; try (split; [exact Hr|right; reflexivity]).
  - destruct (get (s_st sy) c) as [cl|] eqn:Hc.
    + cbn [removed]. destruct (find_group st' c g).
      * rewrite delete_consumer_topic_metrics_spec in Hr. destruct (names_group_topic c g t k); [congruence|auto].
      * rewrite delete_consumer_metrics_spec in Hr. destruct (names_group c g k); [congruence|auto].
    + split; [exact Hr|left]. cbn [step] in Hstep. unfold delete_group in Hstep. rewrite Hc in Hstep. injection Hstep as <- _. reflexivity.
  - cbn [andb removed] in *. destruct (Metrics.group_expired (sc_st sc) now (s_st sy) c g) eqn:He.
    + rewrite delete_consumer_metrics_spec in Hr. destruct (names_group c g k) eqn:Hn; [congruence|auto].
    + auto.
Qed.

(* a step that only acts on storage + registry and never adds a series *)
Lemma cInv_shrink sc cls cs sy' :
  cInv sc cls cs -> good (sc_st sc) cls (s_st sy') ->
  (forall k, reg_get (s_reg sy') k <> None -> reg_get (s_reg (cs_sys cs)) k <> None /\ live_c (s_st sy') k) ->
  cInv sc cls (mkCsys sy' (cs_cache cs)).
Proof.
  intros [Hg Hsnd Hl Hn] Hg' Hk. constructor; cbn [cs_sys cs_cache]; try assumption.
  - intros k H. apply (Hk k H).
  - intros c g e k Hget Hres Hnm. destruct (reg_get (s_reg sy') k) eqn:E; [|reflexivity].
    exfalso. destruct (Hk k) as [H0 _]; [congruence|]. apply H0. eapply Hn; eassumption.
Qed.

Lemma cInv_storage sc cls now cs r sy' rep :
  cInv sc cls cs -> wf_req r -> not_delete_topic r -> sys_storage sc now (cs_sys cs) r = Some (sy', rep) ->
  cInv sc cls (mkCsys sy' (cs_cache cs)).
Proof.
  intros Hinv Hwr Hnd Hs. pose proof (sys_storage_step _ _ _ _ _ _ _ Hs) as Hstep.
  apply (cInv_shrink _ _ _ _ Hinv).
  - eapply good_step; [apply (ci_good _ _ _ Hinv)|exact Hwr|exact Hstep].
  - intros k Hk. destruct (sys_storage_removed _ _ _ _ _ _ k Hs Hnd Hk) as [H0 Hrm]. split; [exact H0|].
    pose proof (ci_live _ _ _ Hinv k H0) as Hl. destruct Hrm as [E|Hrm]; [rewrite E; exact Hl|].
    eapply live_c_step; eassumption.
Qed.

Lemma cInv_cstatus sc cls L rt now cs c g cs' o :
  cInv sc cls cs -> cstatus sc L rt now cs c g = Some (cs', o) -> cInv sc cls cs'.
Proof.
  intros Hinv Hc. destruct (cstatus_cases _ _ _ _ _ _ _ _ _ Hc) as [(e & _ & _ & -> & _)|(_ & sy' & Hs & ->)]; [exact Hinv|].
  unfold sys_status, sys_status_gen in Hs. fold (sys_storage sc now (cs_sys cs) (FetchConsumer c g)) in Hs.
  destruct (sys_storage sc now (cs_sys cs) (FetchConsumer c g)) as [[sy1 rep]|] eqn:Hst; [|discriminate].
  assert (Hsy : sy1 = sy') by (destruct rep; try (injection Hs as <- _; reflexivity);
                               destruct (eval_group l _ _ now); [injection Hs as <- _; reflexivity|discriminate]).
  subst sy1.
  pose proof (cInv_storage sc cls now cs (FetchConsumer c g) sy' rep Hinv I I Hst) as [Hg Hsnd Hl Hn]. cbn [cs_sys cs_cache] in *.
  assert (Hs' : sys_status sc now (cs_sys cs) c g = Some (sy', o)).
  { unfold sys_status, sys_status_gen. fold (sys_storage sc now (cs_sys cs) (FetchConsumer c g)). rewrite Hst. exact Hs. }
  constructor; cbn [cs_sys cs_cache]; try assumption.
  - intros c0 g0 e0 [E|Hin]; [|apply Hsnd; exact Hin]. injection E as <- <- <-. apply (status_sound _ _ _ _ _ _ _ Hs').
  - intros c0 g0 e k Hget Hres Hk. rewrite cache_get_cons in Hget.
    destruct ((c =? c0) && (g =? g0)) eqn:E; [|eapply Hn; eassumption].
    apply andb_true_iff in E. destruct E as [E1 E2]. apply Z.eqb_eq in E1, E2. subst c0 g0.
    injection Hget as <-. cbn [ce_res] in Hres. subst o.
    destruct (status_cases _ _ _ _ _ _ _ Hs') as [(Hf & -> & _)|[(cl & _ & _ & -> & _)|(_ & _ & gs & Ho & _)]]; [| |discriminate].
    + destruct (reg_get (s_reg (cs_sys cs)) k) eqn:Er; [|reflexivity]. exfalso.
      assert (Hlv : live_c (s_st (cs_sys cs)) k) by (apply (ci_live _ _ _ Hinv); congruence).
      apply (live_c_group _ _ _ _ Hk) in Hlv. congruence.
    + cbn [s_reg]. rewrite delete_consumer_metrics_spec, Hk. reflexivity.
Qed.

Definition cop_ok (o : cop) : Prop := match o with CO o' => op_ok o' | CFlush => True end.

Lemma cInv_step sc cls L rt now cs o cs' :
  (1 <= cf_intervals (sc_st sc))%nat -> NoDup cls ->
  cop_ok o -> cInv sc cls cs -> cstep sc L rt now cs o = Some cs' -> cInv sc cls cs'.
Proof.
  intros HN Hndc Hok Hinv. destruct o as [o|]; cbn [cstep cstep_gen cop_ok] in *.
  2:{ intros H. injection H as <-. destruct Hinv as [Hg _ Hl _]. constructor; cbn [cs_sys cs_cache]; try assumption.
      - intros c g e [].
      - intros c g e k H. discriminate. }
  destruct o as [r|c t|c g|c g|]; cbn [sys_step op_ok] in *.
  - destruct Hok as [Hwr Hnd]. destruct (sys_storage sc now (cs_sys cs) r) as [[sy1 rep]|] eqn:Hs; [|discriminate].
    intros H. injection H as <-. eapply cInv_storage; eassumption.
  - unfold sys_storage, sys_storage_gen.
    destruct (step (sc_st sc) now (s_st (cs_sys cs)) (DeleteTopic c t)) as [st1 rep1|] eqn:Hstep; [|discriminate].
    intros H. injection H as <-. apply (cInv_shrink _ _ _ _ Hinv); cbn [s_st s_reg].
    + exact (good_step _ _ _ _ (DeleteTopic c t) _ _ (ci_good _ _ _ Hinv) I Hstep).
    + intros k Hk. rewrite delete_topic_metrics_spec in Hk. destruct (names_topic c t k) eqn:Hn; [congruence|]. split; [exact Hk|].
      eapply live_c_step; [exact Hstep|apply (ci_live _ _ _ Hinv); exact Hk|exact Hn].
  - destruct (sys_storage sc now (cs_sys cs) (DeleteGroup c g 0)) as [[sy1 rep]|] eqn:Hs; [|discriminate].
    intros H. injection H as <-. pose proof (cInv_storage sc cls now cs (DeleteGroup c g 0) sy1 rep Hinv I I Hs) as Hinv1.
    apply (cInv_shrink _ _ (mkCsys sy1 (cs_cache cs)) _ Hinv1); cbn [s_st s_reg cs_sys].
    + apply (ci_good _ _ _ Hinv1).
    + intros k Hk. rewrite delete_consumer_metrics_spec in Hk. destruct (names_group c g k); [congruence|]. split; [exact Hk|].
      apply (ci_live _ _ _ Hinv1). exact Hk.
  - destruct (cstatus sc L rt now cs c g) as [[cs1 o]|] eqn:Hc; [|discriminate].
    intros H. injection H as <-. eapply cInv_cstatus; eassumption.
  - intros Hs. exact (proj1 (cscrape_spec _ _ _ _ _ _ _ HN Hndc Hinv Hs)).
Qed.

Lemma cInv_init sc cls : cInv sc cls (init_csys cls).
Proof.
  constructor; cbn.
  - apply good_init.
  - intros c g e [].
  - intros k H. congruence.
  - intros c g e k H. discriminate.
Qed.

Lemma cInv_run sc cls L h : forall cs cs',
  (1 <= cf_intervals (sc_st sc))%nat -> NoDup cls ->
  Forall (fun x => cop_ok (snd x)) h -> cInv sc cls cs -> crun sc L cs h = Some cs' -> cInv sc cls cs'.
Proof.
  induction h as [|[[rt now] o] rest IH]; intros cs cs' HN Hndc Hok Hinv; cbn [crun crun_gen].
  - intros H. injection H as <-. exact Hinv.
  - inversion Hok as [|x l Ho Hrest]; subst. cbn [snd] in Ho.
    destruct (cstep_gen true sc L rt now cs o) as [cs1|] eqn:Hs; [|discriminate].
    apply IH; try assumption. eapply cInv_step; eassumption.
Qed.

(* ====================================================================================================
   Statements over histories
   ==================================================================================================== *)
(* FULL: every history, then a scrape at real time rt / clock now:
   - topic offsets: exactly the present state's (they are read from storage directly);
   - a group that is no longer in storage: no series;
   - a group that is: exactly the series that the status e served for it calls for, where e is the newest cache entry of the
     group, it is the evaluation of the storage state at the fetch it came from ([entry_sound]), and that fetch happened
     during this scrape or no longer ago than the cache lifetime ([ce_valid]: rt <= created + L). *)
Theorem metrics_equal_served_state sc cls L h cs rt now cs' :
  (1 <= cf_intervals (sc_st sc))%nat -> NoDup cls -> Forall (fun x => cop_ok (snd x)) h ->
  crun sc L (init_csys cls) h = Some cs -> cscrape sc L rt now cs = Some cs' ->
  (forall c t p, reg_get (s_reg (cs_sys cs')) (KTopic c t p) = expected sc now (s_st (cs_sys cs')) (KTopic c t p)) /\
  (forall c g k, names_group c g k = true ->
     (find_group (s_st (cs_sys cs')) c g = None -> reg_get (s_reg (cs_sys cs')) k = None) /\
     (find_group (s_st (cs_sys cs')) c g <> None ->
        exists e, cache_get (cs_cache cs') c g = Some e /\ entry_sound sc c g e /\
          ((cache_get (cs_cache cs) c g = Some e /\ ce_valid L rt e = true) \/
           (ce_created e = rt /\ Metrics.group_expired (sc_st sc) now (s_st (cs_sys cs')) c g = false /\
            exists gs0, ce_res e = Some gs0 /\ group_view sc now (s_st (cs_sys cs')) c g = Some gs0)) /\
          reg_get (s_reg (cs_sys cs')) k = match ce_res e with Some gs0 => written c g gs0 k | None => None end)).
Proof.
  intros HN Hndc Hok Hrun Hs.
  pose proof (cInv_run sc cls L h _ _ HN Hndc Hok (cInv_init sc cls) Hrun) as Hinv.
  exact (proj2 (cscrape_spec _ _ _ _ _ _ _ HN Hndc Hinv Hs)).
Qed.

(* FULL, cold cache (expire-cache = 0, or nothing evaluated within the last L): exactly the present state, key by key *)
Theorem metrics_equal_state_cold sc cls L h cs rt now cs' k :
  (1 <= cf_intervals (sc_st sc))%nat -> NoDup cls -> Forall (fun x => cop_ok (snd x)) h ->
  crun sc L (init_csys cls) h = Some cs -> cold L rt (cs_cache cs) -> cscrape sc L rt now cs = Some cs' ->
  reg_get (s_reg (cs_sys cs')) k = expected sc now (s_st (cs_sys cs')) k.
Proof.
  intros HN Hndc Hok Hrun Hcold Hs.
  pose proof (cInv_run sc cls L h _ _ HN Hndc Hok (cInv_init sc cls) Hrun) as Hinv.
  eapply cscrape_cold; eassumption.
Qed.

Lemma cold_zero rt ca : cold 0 rt ca.
Proof. intros c g e _. reflexivity. Qed.

(* nothing outlives: a deleted group (tombstone, reaper, API delete, purge) has no series after ANY scrape, warm or cold *)
Theorem no_series_of_absent_group sc cls L h cs rt now cs' c g k :
  (1 <= cf_intervals (sc_st sc))%nat -> NoDup cls -> Forall (fun x => cop_ok (snd x)) h ->
  crun sc L (init_csys cls) h = Some cs -> cscrape sc L rt now cs = Some cs' ->
  find_group (s_st (cs_sys cs)) c g = None -> names_group c g k = true ->
  reg_get (s_reg (cs_sys cs')) k = None /\ find_group (s_st (cs_sys cs')) c g = None.
Proof.
  intros HN Hndc Hok Hrun Hs Ha Hk.
  pose proof (cInv_run sc cls L h _ _ HN Hndc Hok (cInv_init sc cls) Hrun) as Hinv.
  unfold cscrape, cscrape_gen in Hs.
  assert (Hndk : NoDup (keys (s_st (cs_sys cs)))) by (destruct (proj1 (good_facts _ _ _ HN Hndc (ci_good _ _ _ Hinv))) as [H _]; exact H).
  pose proof (cscrape_clusters_rel sc cls L rt now _ _ _ HN Hndc Hndk (ci_good _ _ _ Hinv) Hs) as R.
  assert (Ha' : find_group (s_st (cs_sys cs')) c g = None).
  { destruct (s2_gmono _ _ _ _ _ (cl_ok2 _ _ _ _ _ _ _ _ R) c g) as [Hm|Hm]; congruence. }
  split; [|exact Ha'].
  destruct (metrics_equal_served_state sc cls L h cs rt now cs' HN Hndc Hok Hrun Hs) as (_ & Hg). apply (Hg c g k Hk). exact Ha'.
Qed.

(* a topic a group no longer consumes (topic deletion, API delete of the group's topic): gone as soon as the status served was
   evaluated on a state without it *)
Theorem no_series_of_deleted_topic sc cls L h cs rt now cs' c g t f p :
  (1 <= cf_intervals (sc_st sc))%nat -> NoDup cls -> Forall (fun x => cop_ok (snd x)) h ->
  crun sc L (init_csys cls) h = Some cs -> cscrape sc L rt now cs = Some cs' ->
  (forall e, cache_get (cs_cache cs') c g = Some e -> group_has_topic (ce_st e) c g t = false) ->
  reg_get (s_reg (cs_sys cs')) (KPart f c g t p) = None.
Proof.
  intros HN Hndc Hok Hrun Hs Hsnap.
  pose proof (cInv_run sc cls L h _ _ HN Hndc Hok (cInv_init sc cls) Hrun) as Hinv.
  eapply cscrape_no_deleted_topic; eassumption.
Qed.

(* ... in particular at every cold scrape (any scrape later than the cache lifetime after the last evaluation) *)
Theorem no_series_of_deleted_topic_cold sc cls L h cs rt now cs' c g t k :
  (1 <= cf_intervals (sc_st sc))%nat -> NoDup cls -> Forall (fun x => cop_ok (snd x)) h ->
  crun sc L (init_csys cls) h = Some cs -> cold L rt (cs_cache cs) -> cscrape sc L rt now cs = Some cs' ->
  group_has_topic (s_st (cs_sys cs)) c g t = false -> names_group_topic c g t k = true ->
  reg_get (s_reg (cs_sys cs')) k = None.
Proof.
  intros HN Hndc Hok Hrun Hcold Hs Hh Hk.
  rewrite (metrics_equal_state_cold sc cls L h cs rt now cs' k HN Hndc Hok Hrun Hcold Hs).
  apply (expected_no_topic _ _ _ c g t k); [|exact Hk].
  pose proof (cInv_run sc cls L h _ _ HN Hndc Hok (cInv_init sc cls) Hrun) as Hinv.
  unfold cscrape, cscrape_gen in Hs.
  assert (Hndk : NoDup (keys (s_st (cs_sys cs)))) by (destruct (proj1 (good_facts _ _ _ HN Hndc (ci_good _ _ _ Hinv))) as [H _]; exact H).
  pose proof (cscrape_clusters_rel sc cls L rt now _ _ _ HN Hndc Hndk (ci_good _ _ _ Hinv) Hs) as R.
  unfold group_has_topic in *.
  destruct (s2_gmono _ _ _ _ _ (cl_ok2 _ _ _ _ _ _ _ _ R) c g) as [Hm|Hm]; rewrite Hm; [exact Hh|reflexivity].
Qed.

(* expiry: a cold scrape purges every expired group and leaves none of its series *)
Theorem no_series_outlives_expiry_cold sc cls L h cs rt now cs' c g k :
  (1 <= cf_intervals (sc_st sc))%nat -> NoDup cls -> Forall (fun x => cop_ok (snd x)) h ->
  crun sc L (init_csys cls) h = Some cs -> cold L rt (cs_cache cs) -> cscrape sc L rt now cs = Some cs' ->
  Metrics.group_expired (sc_st sc) now (s_st (cs_sys cs)) c g = true -> names_group c g k = true ->
  reg_get (s_reg (cs_sys cs')) k = None /\ find_group (s_st (cs_sys cs')) c g = None.
Proof.
  intros HN Hndc Hok Hrun Hcold Hs He Hk.
  destruct (metrics_equal_served_state sc cls L h cs rt now cs' HN Hndc Hok Hrun Hs) as (_ & Hg).
  destruct (Hg c g k Hk) as [Ha Hp].
  destruct (find_group (s_st (cs_sys cs')) c g) as [grp|] eqn:Ef; [|split; [apply Ha|]; reflexivity].
  exfalso. destruct Hp as (e & _ & _ & Hsrc & _); [congruence|].
  destruct Hsrc as [[Hl Hv]|(_ & Hne & _)]; [rewrite (Hcold _ _ _ Hl) in Hv; discriminate|].
  pose proof (cInv_run sc cls L h _ _ HN Hndc Hok (cInv_init sc cls) Hrun) as Hinv.
  unfold cscrape, cscrape_gen in Hs.
  assert (Hndk : NoDup (keys (s_st (cs_sys cs)))) by (destruct (proj1 (good_facts _ _ _ HN Hndc (ci_good _ _ _ Hinv))) as [H _]; exact H).
  pose proof (cscrape_clusters_rel sc cls L rt now _ _ _ HN Hndc Hndk (ci_good _ _ _ Hinv) Hs) as R.
  assert (Hsame : find_group (s_st (cs_sys cs')) c g = find_group (s_st (cs_sys cs)) c g).
  { destruct (s2_gmono _ _ _ _ _ (cl_ok2 _ _ _ _ _ _ _ _ R) c g) as [Hm|Hm]; [exact Hm|congruence]. }
  rewrite (group_expired_same _ _ _ _ _ _ Hsame) in Hne. congruence.
Qed.

(* the status / lag endpoints: what is answered is the newest cache entry of the group: the evaluation of the storage state
   of the fetch it came from, done now or no longer ago than the cache lifetime *)
Theorem json_status_served sc L rt now cs c g show_all cs' v :
  cache_sound sc (cs_cache cs) ->
  cjson_status sc L rt now cs c g show_all = Some (cs', v) ->
  exists e, cache_get (cs_cache cs') c g = Some e /\ entry_sound sc c g e /\ fresh_enough L rt e /\
            v = match ce_res e with Some gs => Some (if show_all then gs else filter_view gs) | None => None end.
Proof.
  intros Hsnd. unfold cjson_status. destruct (cstatus sc L rt now cs c g) as [[cs1 o]|] eqn:Hc; [|discriminate].
  intros H. assert (Hv : cs' = cs1 /\ v = match o with Some gs => Some (if show_all then gs else filter_view gs) | None => None end)
    by (destruct o; injection H as <- <-; auto).
  destruct Hv as [-> ->].
  destruct (cstatus_cases _ _ _ _ _ _ _ _ _ Hc) as [(e & He & Hvalid & -> & ->)|(_ & sy' & Hs & ->)].
  - exists e. split; [exact He|]. split; [apply Hsnd; apply cache_get_in; exact He|]. split; [right; exact Hvalid|reflexivity].
  - eexists. cbn [cs_cache]. split; [rewrite cache_get_cons, !Z.eqb_refl; reflexivity|]. split; [apply (status_sound _ _ _ _ _ _ _ Hs)|].
    split; [left; reflexivity|reflexivity].
Qed.

(* ---------- witnesses ---------- *)
(* cache entries hold float32 values (Flocq records with proofs): the witnesses never ask Coq to print a cached system, only
   booleans / integers computed from it *)
Lemma cold_of_forallb L rt ca : forallb (fun x => negb (ce_valid L rt (snd x))) ca = true -> cold L rt ca.
Proof.
  intros H c g e Hg. apply cache_get_in in Hg. rewrite forallb_forall in H. specialize (H _ Hg). cbn [snd] in H.
  apply negb_true_iff. exact H.
Qed.

Definition ex_stale_hist : list (Z * Z * cop) :=
  [(0, 1000, CO (OStorage (SetBrokerOffset 1 1 0 1 100))); (0, 1000, CO (OStorage (SetBrokerOffset 1 2 0 1 200)));
   (0, 1000, CO (OStorage (SetConsumerOffset 1 1 1 0 90 1 999000))); (0, 1000, CO (OStorage (SetConsumerOffset 1 1 2 0 150 2 999500)));
   (0, 1000, CO OScrape);                      (* fills the cache *)
   (100, 1001, CO (OTopicDeleted 1 1));        (* StorageSetDeleteTopic + DeleteTopicMetrics *)
   (200, 1001, CO OScrape)].                   (* cache still valid (L = 1000): the stale status is served *)

Lemma ex_stale_hist_ok : Forall (fun x => cop_ok (snd x)) ex_stale_hist.
Proof. unfold ex_stale_hist. repeat constructor; cbn; unfold in_i64; lia. Qed.

Definition then_scrape (prune : bool) (sc : sconfig) (L rt now : Z) (o : option csys) : option csys :=
  match o with Some cs => cscrape_gen prune sc L rt now cs | None => None end.
Definition obs_reg (o : option csys) (k : key) : option Z :=
  match o with Some cs => reg_get (s_reg (cs_sys cs)) k | None => None end.
Definition obs_expected (sc : sconfig) (now : Z) (o : option csys) (k : key) : option Z :=
  match o with Some cs => expected sc now (s_st (cs_sys cs)) k | None => None end.
Definition obs_cold (L rt : Z) (o : option csys) : bool :=
  match o with Some cs => forallb (fun x => negb (ce_valid L rt (snd x))) (cs_cache cs) | None => false end.
Definition obs_some (o : option csys) : bool := match o with Some _ => true | None => false end.

(* before cc5e0f6: the series re-created from the cached status are never removed again - here still there at a cold scrape
   four lifetimes later, although the state no longer calls for them *)
Theorem stale_status_repopulates_v1_refuted :
  exists sc cls L h cs rt now cs' k,
    Forall (fun x => cop_ok (snd x)) h /\ crun_gen false sc L (init_csys cls) h = Some cs /\
    cold L rt (cs_cache cs) /\ cscrape_v1 sc L rt now cs = Some cs' /\
    names_topic 1 1 k = true /\ reg_get (s_reg (cs_sys cs')) k <> expected sc now (s_st (cs_sys cs')) k.
Proof.
  set (o1 := crun_gen false (wsc 1 604800) 1000 (init_csys [1]) ex_stale_hist).
  set (o2 := then_scrape false (wsc 1 604800) 1000 5000 1005 o1).
  assert (H2 : obs_some o2 = true) by (vm_compute; reflexivity).
  assert (Hc : obs_cold 1000 5000 o1 = true) by (vm_compute; reflexivity).
  assert (Hr : obs_reg o2 (KPart PLag 1 1 1 0) = Some 10) by (vm_compute; reflexivity).
  assert (Hx : obs_expected (wsc 1 604800) 1005 o2 (KPart PLag 1 1 1 0) = None) by (vm_compute; reflexivity).
  destruct o1 as [cs|] eqn:E1; [|discriminate]. unfold o2, then_scrape in *. clear o2.
  destruct (cscrape_gen false (wsc 1 604800) 1000 5000 1005 cs) as [cs'|] eqn:E2; [|discriminate].
  exists (wsc 1 604800), [1], 1000, ex_stale_hist, cs, 5000, 1005, cs', (KPart PLag 1 1 1 0).
  split; [apply ex_stale_hist_ok|]. split; [exact E1|]. split; [apply cold_of_forallb; exact Hc|]. split; [exact E2|].
  split; [reflexivity|]. cbn [obs_reg obs_expected] in Hr, Hx. rewrite Hr, Hx. discriminate.
Qed.

(* after cc5e0f6, same history: the stale status is shown while the cache entry is valid, and is gone at the cold scrape *)
Example stale_status_bounded :
  exists cs cs',
    Forall (fun x => cop_ok (snd x)) ex_stale_hist /\
    crun (wsc 1 604800) 1000 (init_csys [1]) ex_stale_hist = Some cs /\
    reg_get (s_reg (cs_sys cs)) (KPart PLag 1 1 1 0) = Some 10 /\          (* warm scrape at rt = 200: served from the cache *)
    reg_get (s_reg (cs_sys cs)) (KTopic 1 1 0) = None /\                  (* the topic's own offsets are never cached *)
    cscrape (wsc 1 604800) 1000 5000 1005 cs = Some cs' /\
    reg_get (s_reg (cs_sys cs')) (KPart PLag 1 1 1 0) = None /\
    reg_get (s_reg (cs_sys cs')) (KPart PLag 1 1 2 0) = Some 50.
Proof.
  set (o1 := crun (wsc 1 604800) 1000 (init_csys [1]) ex_stale_hist).
  set (o2 := then_scrape true (wsc 1 604800) 1000 5000 1005 o1).
  assert (H2 : obs_some o2 = true) by (vm_compute; reflexivity).
  assert (Ha : obs_reg o1 (KPart PLag 1 1 1 0) = Some 10) by (vm_compute; reflexivity).
  assert (Hb : obs_reg o1 (KTopic 1 1 0) = None) by (vm_compute; reflexivity).
  assert (Hc : obs_reg o2 (KPart PLag 1 1 1 0) = None) by (vm_compute; reflexivity).
  assert (Hd : obs_reg o2 (KPart PLag 1 1 2 0) = Some 50) by (vm_compute; reflexivity).
  destruct o1 as [cs|] eqn:E1; [|discriminate]. unfold o2, then_scrape in *. clear o2.
  fold (cscrape (wsc 1 604800) 1000 5000 1005 cs) in *.
  destruct (cscrape (wsc 1 604800) 1000 5000 1005 cs) as [cs'|] eqn:E2; [|discriminate].
  exists cs, cs'. split; [apply ex_stale_hist_ok|]. cbn [obs_reg] in *. auto 10.
Qed.

(* the side condition about topic deletion (op_ok) is needed in this model as well *)
Theorem bare_delete_topic_refuted_c :
  exists sc cls L h cs rt now cs' k,
    crun sc L (init_csys cls) h = Some cs /\ cold L rt (cs_cache cs) /\ cscrape sc L rt now cs = Some cs' /\
    reg_get (s_reg (cs_sys cs')) k <> expected sc now (s_st (cs_sys cs')) k.
Proof.
  set (h := [(0, 1000, CO (OStorage (SetBrokerOffset 1 1 0 1 100))); (0, 1001, CO OScrape); (0, 1002, CO (OStorage (DeleteTopic 1 1)))]).
  set (o1 := crun (wsc 1 604800) 0 (init_csys [1]) h).
  set (o2 := then_scrape true (wsc 1 604800) 0 0 1003 o1).
  assert (H2 : obs_some o2 = true) by (vm_compute; reflexivity).
  assert (Hr : obs_reg o2 (KTopic 1 1 0) = Some 100) by (vm_compute; reflexivity).
  assert (Hx : obs_expected (wsc 1 604800) 1003 o2 (KTopic 1 1 0) = None) by (vm_compute; reflexivity).
  destruct o1 as [cs|] eqn:E1; [|discriminate]. unfold o2, then_scrape in *. clear o2.
  fold (cscrape (wsc 1 604800) 0 0 1003 cs) in *.
  destruct (cscrape (wsc 1 604800) 0 0 1003 cs) as [cs'|] eqn:E2; [|discriminate].
  exists (wsc 1 604800), [1], 0, h, cs, 0, 1003, cs', (KTopic 1 1 0).
  split; [exact E1|]. split; [apply cold_zero|]. split; [exact E2|]. cbn [obs_reg obs_expected] in Hr, Hx. rewrite Hr, Hx. discriminate.
Qed.

(* ====================================================================================================
   Totality: no request of a well-formed history makes storage or the evaluator panic, and the /metrics handler
   never dereferences nil (the model's None)
   ==================================================================================================== *)
From Burrow Require Import RingProofs StorageWindows.

Definition shaped (cp : cpart) : Prop := exists b cs, cp_offsets cp = repeat None b ++ map Some cs.

Lemma eval_parts_total t m a n cps : Forall shaped cps -> forall k, exists l, eval_parts t k cps m a n = Ok l.
Proof.
  induction 1 as [|cp r (b & cs & Hsh) _ IH]; intros k; cbn [eval_parts]; [eauto|].
  destruct (eval_partition_no_crash b cs cp m a n Hsh) as ([[[s st] en] c] & ->).
  destruct (IH (k + 1)) as (l & ->). eauto.
Qed.

Lemma eval_topics_total m a n l :
  (forall t cps, In (t, cps) l -> Forall shaped cps) -> exists parts, eval_topics l m a n = Ok parts.
Proof.
  induction l as [|[t cps] r IH]; intros H; cbn [eval_topics]; [eauto|].
  destruct (eval_parts_total t m a n cps (H t cps (or_introl eq_refl)) 0) as (l1 & ->).
  destruct IH as (l2 & ->); [intros t0 c0 Hin; apply (H t0 c0); right; exact Hin|]. eauto.
Qed.

Lemma eval_group_total m a n l :
  (forall t cps, In (t, cps) l -> Forall shaped cps) -> exists gs, eval_group l m a n = Ok gs.
Proof.
  intros H. unfold eval_group. destruct (eval_topics_total m a n l H) as (parts & ->).
  destruct (fold_left fold_part parts (StOK, None, 0, [])) as [[[st mx] nc] lst]. eauto.
Qed.

Lemma good_step_total cf cls now st r :
  (1 <= cf_intervals cf)%nat -> good cf cls st -> wf_req r -> exists st' rep, step cf now st r = Done st' rep.
Proof.
  intros HN (h & reps & Hwf & Hrun) Hr.
  destruct (run_hinv cf cls (h ++ [(now, r)]) HN) as (st2 & reps2 & Hrun2 & _); [apply wf_hist_snoc; split; assumption|].
  rewrite StorageProofs.run_snoc, Hrun in Hrun2. destruct (step cf now st r) as [st' rep|]; [eauto|discriminate].
Qed.

Lemma sys_status_total sc cls now sy c g :
  (1 <= cf_intervals (sc_st sc))%nat -> good (sc_st sc) cls (s_st sy) -> exists sy' o, sys_status sc now sy c g = Some (sy', o).
Proof.
  intros HN Hg. destruct (good_step_total _ _ now _ (FetchConsumer c g) HN Hg I) as (st' & rep & Hstep).
  unfold sys_status, sys_status_gen, sys_storage_gen. rewrite Hstep.
  destruct rep; eauto. cbn [step] in Hstep.
  destruct Hg as (h & reps & Hwf & Hrun).
  destruct (eval_group_total (sc_minimum sc) (sc_allowed sc) now l) as (gs & ->); [|eauto].
  intros t cps Hin. apply Forall_forall. intros cp Hcp. apply In_nth_error in Hcp. destruct Hcp as (i & Hi).
  destruct (storage_reply_windows _ _ _ _ _ _ _ _ _ _ _ _ _ _ HN Hwf Hrun Hstep Hin Hi) as [E|(_ & b & cs & E & _)].
  - exists O, []. rewrite E. reflexivity.
  - exists b, cs. exact E.
Qed.

Lemma cgroup_step_total sc cls L rt now c cs g :
  (1 <= cf_intervals (sc_st sc))%nat -> good (sc_st sc) cls (s_st (cs_sys cs)) -> exists cs', cgroup_step true sc L rt now c cs g = Some cs'.
Proof.
  intros HN Hg. unfold cgroup_step, cstatus.
  destruct (sys_status_total sc cls now (cs_sys cs) c g HN Hg) as (sy' & o & Hs). rewrite Hs.
  destruct (cache_get (cs_cache cs) c g) as [e|]; [destruct (ce_valid L rt e); [destruct (ce_res e)|destruct o]|destruct o]; eauto.
Qed.

Lemma cscrape_groups_total sc cls L rt now c gs : forall cs,
  (1 <= cf_intervals (sc_st sc))%nat -> good (sc_st sc) cls (s_st (cs_sys cs)) -> exists cs', cscrape_groups true sc L rt now c gs cs = Some cs'.
Proof.
  induction gs as [|g rest IH]; intros cs HN Hg; cbn [cscrape_groups]; [eauto|].
  destruct (cgroup_step_total sc cls L rt now c cs g HN Hg) as (cs1 & H1). rewrite H1.
  apply IH; [exact HN|]. exact (s2_good _ _ _ _ _ (gr_ok2 _ _ _ _ _ _ _ _ _ (cgroup_step_rel sc cls L rt now c cs g cs1 H1)) Hg).
Qed.

Lemma cscrape_clusters_total sc cls L rt now cl : forall cs,
  (1 <= cf_intervals (sc_st sc))%nat -> NoDup cls -> good (sc_st sc) cls (s_st (cs_sys cs)) ->
  exists cs', cscrape_clusters true sc L rt now cl cs = Some cs'.
Proof.
  induction cl as [|c rest IH]; intros cs HN Hndc Hg; cbn [cscrape_clusters]; [eauto|].
  assert (H1 : exists cs1, ccluster_step true sc L rt now cs c = Some cs1).
  { unfold ccluster_step. destruct (cscrape_groups_total sc cls L rt now c (cluster_groups (s_st (cs_sys cs)) c) cs HN Hg) as (cs1 & ->). eauto. }
  destruct H1 as (cs1 & H1). rewrite H1. apply IH; [exact HN|exact Hndc|].
  exact (s2_good _ _ _ _ _ (cl_ok2 _ _ _ _ _ _ _ _ (ccluster_step_rel sc cls L rt now cs c cs1 (proj1 (good_facts _ _ _ HN Hndc Hg)) H1)) Hg).
Qed.

(* the /metrics handler answers *)
Theorem cscrape_total sc cls L rt now cs :
  (1 <= cf_intervals (sc_st sc))%nat -> NoDup cls -> cInv sc cls cs -> exists cs', cscrape sc L rt now cs = Some cs'.
Proof. intros HN Hndc Hinv. apply (cscrape_clusters_total sc cls); try assumption. apply (ci_good _ _ _ Hinv). Qed.

Lemma sys_storage_total sc cls now sy r :
  (1 <= cf_intervals (sc_st sc))%nat -> good (sc_st sc) cls (s_st sy) -> wf_req r -> exists sy' rep, sys_storage sc now sy r = Some (sy', rep).
Proof.
  intros HN Hg Hr. destruct (good_step_total _ _ now _ r HN Hg Hr) as (st' & rep & Hs).
  unfold sys_storage, sys_storage_gen. rewrite Hs. eauto.
Qed.

Lemma cstep_total sc cls L rt now cs o :
  (1 <= cf_intervals (sc_st sc))%nat -> NoDup cls -> cop_ok o -> cInv sc cls cs -> exists cs', cstep sc L rt now cs o = Some cs'.
Proof.
  intros HN Hndc Hok Hinv. pose proof (ci_good _ _ _ Hinv) as Hg.
  destruct o as [o|]; cbn [cstep cstep_gen cop_ok] in *; [|eauto].
  destruct o as [r|c t|c g|c g|]; cbn [sys_step op_ok] in *.
  - destruct Hok as [Hwr _]. destruct (sys_storage_total sc cls now (cs_sys cs) r HN Hg Hwr) as (sy' & rep & ->). eauto.
  - destruct (sys_storage_total sc cls now (cs_sys cs) (DeleteTopic c t) HN Hg I) as (sy' & rep & ->). eauto.
  - destruct (sys_storage_total sc cls now (cs_sys cs) (DeleteGroup c g 0) HN Hg I) as (sy' & rep & ->). eauto.
  - unfold cstatus. destruct (sys_status_total sc cls now (cs_sys cs) c g HN Hg) as (sy' & o & ->).
    destruct (cache_get (cs_cache cs) c g) as [e|]; [destruct (ce_valid L rt e)|]; eauto.
  - apply (cscrape_total sc cls); assumption.
Qed.

(* every well-formed history runs to the end: no storage / evaluator / handler panic anywhere *)
Theorem crun_total sc cls L h :
  (1 <= cf_intervals (sc_st sc))%nat -> NoDup cls -> Forall (fun x => cop_ok (snd x)) h ->
  exists cs, crun sc L (init_csys cls) h = Some cs /\ cInv sc cls cs.
Proof.
  intros HN Hndc Hok.
  assert (G : forall cs0, cInv sc cls cs0 -> exists cs, crun sc L cs0 h = Some cs /\ cInv sc cls cs).
  { induction h as [|[[rt now] o] rest IH]; intros cs0 Hinv; cbn [crun crun_gen]; [eauto|].
    inversion Hok as [|x l Ho Hrest]; subst. cbn [snd] in Ho.
    destruct (cstep_total sc cls L rt now cs0 o HN Hndc Ho Hinv) as (cs1 & H1). unfold cstep in H1. rewrite H1.
    apply (IH Hrest). eapply cInv_step; eassumption. }
  apply G. apply cInv_init.
Qed.
