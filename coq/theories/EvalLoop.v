(* Executable model of the notifier's evaluation gate (C15).
   Anchors: core/internal/notifier/coordinator.go
     manageEvalLoop          :298-331   (sleep, lock.Lock, doEvaluations, ZookeeperExpired.Wait, reconnect poll, Unlock)
     sendEvaluatorRequests   :359-391   (pacing by minInterval, LastEval stamping)
     processConsumerList     :502-532   (group entries created with a randomised LastEval, removed when unlisted)
   core/internal/zookeeper/coordinator.go :141-160 (ZookeeperConnected := false; ZookeeperExpired.Broadcast()).

   Two granularities over ONE state type:
     step_i  interleaved machine: phase GotLock sits between lock.Lock() granting the lock and the loop goroutine
             registering in ZookeeperExpired.Wait().  The condition variable has Go sync.Cond semantics: a
             Broadcast with no registered waiter is lost (Expired is a no-op in every phase but Evaluating).
     step_s  sequential machine: the hand-over Lock() -> Wait() is atomic (GotLock is never observable).
   Time is Z nanoseconds (time.Time holds seconds and nanoseconds separately and does not wrap in any range reached
   here); minInterval is an int64 number of seconds.  The two products the code forms with it are int64 / time.Duration
   products and WRAP as Go's do (Int64.mul64):  -time.Duration(minInterval) * time.Second  and  minInterval*1000.
   The pacing theorems hold for 0 <= minInterval <= max_pace_interval = 9223372036 (minInterval * 10^9 < 2^63); beyond
   that bound sendBefore lies in the future and every group is due at every iteration (pacing_wrap_refuted). *)
From Coq Require Import ZArith List Bool FMapPositive.
From Burrow Require Import Int64.
Import ListNotations.
Open Scope Z_scope.

Inductive phase :=
| Idle            (* time.Sleep(100ms) at the top of the loop *)
| Locking         (* inside lock.Lock() *)
| GotLock         (* lock granted, doEvaluations = true, not yet registered in Wait (interleaved machine only) *)
| Evaluating      (* blocked in ZookeeperExpired.Wait() *)
| WaitReconnect   (* for !ZookeeperConnected { sleep } *)
| Unlocking       (* inside lock.Unlock() *)
| Crashed.        (* panic("Unable to release zookeeper lock after session expiration") *)

Inductive event :=
| Wake                      (* the loop goroutine runs to its next blocking point (sleep / poll returns) *)
| LockOk | LockErr          (* lock.Lock() grants / fails *)
| UnlockOk | UnlockErr      (* lock.Unlock() returns nil / error *)
| Expired                   (* App.ZookeeperExpired.Broadcast() *)
| Connected | Disconnected  (* App.ZookeeperConnected := true / false *)
| Tick (now : Z)            (* one iteration of the body of sendEvaluatorRequests at clock now *)
| Refresh (now : Z) (present : list (positive * Z))
                            (* processConsumerList at clock now: listed groups, each with the rand.Int63n draw (ms)
                               that is used only if the entry is new *)
| Response (g : positive) (status : Z).
                            (* an evaluator reply for group g travelling responseLoop -> checkAndSendResponseToModules
                               (-> notifyModule): status 0 NOTFOUND, 1 OK, 2.. WARN/ERR..., -1 a nil reply.  It opens /
                               closes the incident (ID, Start, LastNotify) of the shared group record and never touches
                               LastEval, the lock or the gate: no effect on this model's state *)

Inductive action :=
| CallLock | CallUnlock
| Eval (g : positive) (now : Z)   (* request written to App.EvaluatorChannel *)
| Panic.

Record state := mkState { ph : phase; doEval : bool; conn : bool; groups : PositiveMap.t Z }.

Definition ns_per_s : Z := 1000000000.
Definition ns_per_ms : Z := 1000000.

(* sendBefore := timeNow.Add(-time.Duration(minInterval) * time.Second); LastEval.Before(sendBefore)
   -time.Duration(mi) is an int64 negation, the product with time.Second (10^9) an int64 product: both wrap.
   Time.Add is exact (seconds and nanoseconds are added separately; the saturation of addSec is out of reach). *)
Definition neg_duration (mi unit_ns : Z) : Z := mul64 (wrap64 (- mi)) unit_ns.
Definition send_before (mi now : Z) : Z := now + neg_duration mi ns_per_s.
(* the largest minInterval whose Duration does not wrap: 9223372036 * 10^9 < 2^63 <= 9223372037 * 10^9 *)
Definition max_pace_interval : Z := 9223372036.
Definition due (mi now le : Z) : bool := le <? send_before mi now.

Definition stamp (mi now le : Z) : Z := if due mi now le then now else le.

Definition tick_evals (mi now : Z) (gs : PositiveMap.t Z) : list action :=
  map (fun ge => Eval (fst ge) now) (filter (fun ge => due mi now (snd ge)) (PositiveMap.elements gs)).

Definition tick (mi now : Z) (gs : PositiveMap.t Z) : PositiveMap.t Z * list action :=
  (PositiveMap.map (stamp mi now) gs, tick_evals mi now gs).

(* processConsumerList: keep listed entries, create missing ones with
   LastEval = time.Now().Add(-time.Duration(rand.Int63n(minInterval*1000)) * time.Millisecond), drop the rest *)
Definition refresh_groups (now : Z) (present : list (positive * Z)) (gs : PositiveMap.t Z) : PositiveMap.t Z :=
  fold_left (fun acc gr =>
    let g := fst gr in
    let v := match PositiveMap.find g acc with
             | Some le => le
             | None => match PositiveMap.find g gs with
                       | Some le => le
                       | None => now + neg_duration (snd gr) ns_per_ms
                       end
             end in
    PositiveMap.add g v acc) present (PositiveMap.empty Z).

Definition needs_new (present : list (positive * Z)) (gs : PositiveMap.t Z) : bool :=
  existsb (fun gr => match PositiveMap.find (fst gr) gs with None => true | Some _ => false end) present.

Definition set_ph (s : state) (p : phase) : state := mkState p (doEval s) (conn s) (groups s).

Definition step_i (mi : Z) (s : state) (e : event) : state * list action :=
  match ph s with
  | Crashed => (s, [])
  | p =>
    match e with
    | Wake =>
        match p with
        | Idle => (set_ph s Locking, [CallLock])
        | GotLock => (set_ph s Evaluating, [])
        | WaitReconnect => if conn s then (set_ph s Unlocking, [CallUnlock]) else (s, [])
        | _ => (s, [])
        end
    | LockOk => match p with Locking => (mkState GotLock true (conn s) (groups s), []) | _ => (s, []) end
    | LockErr => match p with Locking => (set_ph s Idle, []) | _ => (s, []) end
    | UnlockOk => match p with Unlocking => (set_ph s Idle, []) | _ => (s, []) end
    | UnlockErr => match p with Unlocking => (set_ph s Crashed, [Panic]) | _ => (s, []) end
    | Expired =>
        match p with
        | Evaluating => (mkState WaitReconnect false (conn s) (groups s), [])
        | _ => (s, [])   (* sync.Cond: Broadcast with no waiter is lost *)
        end
    | Connected => (mkState p (doEval s) true (groups s), [])
    | Disconnected => (mkState p (doEval s) false (groups s), [])
    | Tick now =>
        if doEval s then
          let r := tick mi now (groups s) in (mkState p (doEval s) (conn s) (fst r), snd r)
        else (s, [])
    | Refresh now present =>
        (* rand.Int63n(minInterval*1000) panics for a non-positive argument: minInterval <= 0, and every minInterval
           whose int64 product with 1000 wraps to a non-positive value (from 9223372036854776 on) *)
        if needs_new present (groups s) && (mul64 mi 1000 <=? 0) then (set_ph s Crashed, [Panic])
        else (mkState p (doEval s) (conn s) (refresh_groups now present (groups s)), [])
    | Response _ _ => (s, [])
    end
  end.

(* sequential machine: Lock() returning and Wait() registering are one atomic step *)
Definition enter_wait (s : state) : state :=
  match ph s with GotLock => set_ph s Evaluating | _ => s end.

Definition step_s (mi : Z) (s : state) (e : event) : state * list action :=
  let r := step_i mi s e in (enter_wait (fst r), snd r).

Definition init_state (c0 : bool) (gs : PositiveMap.t Z) : state := mkState Idle false c0 gs.

(* labelled run: every event with the actions it produced *)
Fixpoint run (step : state -> event -> state * list action) (s : state) (tr : list event)
  : state * list (event * list action) :=
  match tr with
  | [] => (s, [])
  | e :: r => let x := step s e in let y := run step (fst x) r in (fst y, (e, snd x) :: snd y)
  end.

(* ---- the property as a monitor on the labelled trace (the lock object's and the session's point of view) ---- *)
Inductive lockst := LFree | LRequested | LHeld | LReleasing.
Record mon := mkMon { m_lock : lockst; m_exp : bool; m_conn : bool }.

Definition lockst_eqb (a b : lockst) : bool :=
  match a, b with LFree, LFree | LRequested, LRequested | LHeld, LHeld | LReleasing, LReleasing => true | _, _ => false end.

Definition mon_event (m : mon) (e : event) : mon :=
  match e with
  | LockOk => match m_lock m with LRequested => mkMon LHeld false (m_conn m) | _ => m end
  | LockErr => match m_lock m with LRequested => mkMon LFree (m_exp m) (m_conn m) | _ => m end
  | UnlockOk => match m_lock m with LReleasing => mkMon LFree (m_exp m) (m_conn m) | _ => m end
  | Expired => match m_lock m with LHeld => mkMon LHeld true (m_conn m) | _ => m end
  | Connected => mkMon (m_lock m) (m_exp m) true
  | Disconnected => mkMon (m_lock m) (m_exp m) false
  | _ => m
  end.

(* an action is allowed: Eval only while the lock is held and no expiry was reported since it was granted;
   Unlock only for an expired lock with the connection back; Lock only when nothing is held or requested *)
Definition mon_action (m : mon) (a : action) : mon * bool :=
  match a with
  | CallLock => (match m_lock m with LFree => mkMon LRequested (m_exp m) (m_conn m) | _ => m end,
                 lockst_eqb (m_lock m) LFree)
  | CallUnlock => (match m_lock m with LHeld => mkMon LReleasing (m_exp m) (m_conn m) | _ => m end,
                   lockst_eqb (m_lock m) LHeld && m_exp m && m_conn m)
  | Eval _ _ => (m, lockst_eqb (m_lock m) LHeld && negb (m_exp m))
  | Panic => (m, true)
  end.

Fixpoint mon_actions (m : mon) (acts : list action) : mon * bool :=
  match acts with
  | [] => (m, true)
  | a :: r => let x := mon_action m a in let y := mon_actions (fst x) r in (fst y, snd x && snd y)
  end.

Definition mon_item (m : mon) (it : event * list action) : mon * bool :=
  mon_actions (mon_event m (fst it)) (snd it).

Fixpoint mon_run (m : mon) (lt : list (event * list action)) : mon :=
  match lt with [] => m | it :: r => mon_run (fst (mon_item m it)) r end.

Fixpoint spec_ok (m : mon) (lt : list (event * list action)) : bool :=
  match lt with
  | [] => true
  | it :: r => let x := mon_item m it in snd x && spec_ok (fst x) r
  end.

Definition mon0 (c0 : bool) : mon := mkMon LFree false c0.

(* guard of the partial theorem: no Broadcast is delivered while the loop is between Lock() and Wait() *)
Definition is_expired (e : event) : bool := match e with Expired => true | _ => false end.
Definition is_gotlock (p : phase) : bool := match p with GotLock => true | _ => false end.
Fixpoint window_free (mi : Z) (s : state) (tr : list event) : bool :=
  match tr with
  | [] => true
  | e :: r => negb (is_expired e && is_gotlock (ph s)) && window_free mi (fst (step_i mi s e)) r
  end.

(* ---- helpers for the correspondence driver ---- *)
Definition groups_of_list (l : list (positive * Z)) : PositiveMap.t Z :=
  fold_left (fun acc gv => PositiveMap.add (fst gv) (snd gv) acc) l (PositiveMap.empty Z).
Definition groups_to_list (gs : PositiveMap.t Z) : list (positive * Z) := PositiveMap.elements gs.

(* feed events, collecting actions *)
Fixpoint feed (step : state -> event -> state * list action) (s : state) (tr : list event) : state * list action :=
  match tr with
  | [] => (s, [])
  | e :: r => let x := step s e in let y := feed step (fst x) r in (fst y, snd x ++ snd y)
  end.
(* let the loop goroutine run until it blocks *)
Definition settle (step : state -> event -> state * list action) (s : state) : state * list action :=
  feed step s [Wake; Wake; Wake].

Definition phase_num (p : phase) : Z :=
  match p with Idle => 0 | Locking => 1 | GotLock => 2 | Evaluating => 3 | WaitReconnect => 4 | Unlocking => 5 | Crashed => 6 end.

(* ---- the configuration step: Coordinator.Configure (coordinator.go :145-247), the part that fixes minInterval ----
   For every module name under "notifier" (Go map iteration: any order):
       viper.SetDefault(root+".interval", 60)
       viper.SetDefault(root+".send-interval", viper.GetInt64(root+".interval"))
       viper.SetDefault(root+".threshold", 2)
       ...
       interval := viper.GetInt64(root+".interval");  if interval < nc.minInterval { nc.minInterval = interval }
   starting from nc.minInterval = math.MaxInt64, and afterwards  MaxInt64 -> 310536000.
   A module's configuration is the triple of explicitly set values (None = key absent). *)
Record modcfg := mkMod { mc_interval : option Z; mc_send : option Z; mc_threshold : option Z }.

Definition max_int64 : Z := 9223372036854775807.
Definition no_module_interval : Z := 310536000.
Definition default_interval : Z := 60.
Definition default_threshold : Z := 2.

(* viper.Get* of a key with a default registered: the explicit value if there is one, the default otherwise *)
Definition viper_get (explicit : option Z) (dflt : Z) : Z := match explicit with Some v => v | None => dflt end.

(* the values the three keys have once the SetDefault calls have run, in the order Configure makes them *)
Record modeff := mkEff { e_interval : Z; e_send : Z; e_threshold : Z }.
Definition configure_mod (m : modcfg) : modeff :=
  let iv := viper_get (mc_interval m) default_interval in
  mkEff iv (viper_get (mc_send m) iv) (viper_get (mc_threshold m) default_threshold).

Definition eff_interval (m : modcfg) : Z := e_interval (configure_mod m).

Definition configure_fold (acc : Z) (m : modcfg) : Z :=
  let interval := eff_interval m in if interval <? acc then interval else acc.

Definition configure_min (mods : list modcfg) : Z :=
  let r := fold_left configure_fold mods max_int64 in
  if r =? max_int64 then no_module_interval else r.

(* "the shortest configured notifier interval": a value some module has and no module undercuts *)
Definition shortest (mods : list modcfg) (i : Z) : Prop :=
  In i (map eff_interval mods) /\ forall m, In m mods -> i <= eff_interval m.

(* ---- the session publisher: zookeeper/coordinator.go :141-160 (mainLoop) ----
   for event := range eventChan { if event.Type == zk.EventSession { switch event.State {
     case zk.StateExpired:   ZookeeperConnected = false; ZookeeperExpired.Broadcast()
     case zk.StateConnected: if !ZookeeperConnected { ZookeeperConnected = true } } } }
   The model events one zk.Event causes, given the current value of the flag. *)
Inductive zkstate := ZkExpired | ZkConnected | ZkOtherState.

Definition zk_session (is_session : bool) (st : zkstate) (connected : bool) : list event :=
  if is_session then
    match st with
    | ZkExpired => [Disconnected; Expired]
    | ZkConnected => if connected then [] else [Connected]
    | ZkOtherState => []
    end
  else [].

(* ---- a group refresh and the storage subsystem: sendClusterRequest / processClusterList (:347-357, :468-507) ----
   Each storage request is handed over with helpers.TimeoutSendStorageRequest(channel, request, 1).  If it is not taken
   off App.StorageChannel within that second the request is dropped; the goroutine that waits for the reply
   (processClusterList / processConsumerList) stays blocked on its reply channel and no cluster or group record is
   touched.  A refresh that is not answered is therefore NO event of the model; an answered one is Refresh. *)
Definition refresh_events (answered : bool) (now : Z) (present : list (positive * Z)) : list event :=
  if answered then [Refresh now present] else [].

(* ---- Configure since /repo 38fa1ff: every module's interval must be a positive time.Duration in seconds ----
       interval := viper.GetInt64(root+".interval")
       if interval < 1 || interval > math.MaxInt64/int64(time.Second) { panic("Notifier '...' has an invalid interval ...") }
   (math.MaxInt64/int64(time.Second) = 9223372036 = max_pace_interval.)  None = Configure panics (core.Start reports the
   invalid configuration); Some mi = accepted, nc.minInterval = mi. *)
Definition interval_ok (m : modcfg) : bool := (1 <=? eff_interval m) && (eff_interval m <=? max_pace_interval).

Definition configure (mods : list modcfg) : option Z :=
  if forallb interval_ok mods then Some (configure_min mods) else None.
